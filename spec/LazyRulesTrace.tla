-------------------------- MODULE LazyRulesTrace --------------------------
(***************************************************************************)
(* Trace validation for C16 (family lazy2): every case is one instrumented *)
(* program with its static description (funcs, sites) and the events the   *)
(* real interpreter produced; the monitor of LazyRules reads them one TLC  *)
(* step per event.                                                         *)
(*   ok    every event is allowed by the rules R1..R5                       *)
(*   bad   the event at position pos breaks a rule (why)                    *)
(*   skip  the events are not of the promised shape (not judged)            *)
(***************************************************************************)
EXTENDS LazyRules, Json, IOUtils

ASSUME TLCSet(11, ndJsonDeserialize(IOEnv.VERIF_TRACE))
Cases == TLCGet(11)

VARIABLES ci, pos, mst, verdict
tvars == <<ci, pos, mst, verdict>>

TInit == ci \in 1..Len(Cases) /\ pos = 1 /\ mst = Init0 /\ verdict = "run"
TStep == /\ verdict = "run"
         /\ LET c == Cases[ci] IN
            IF pos > Len(c.evs)
            THEN /\ verdict' = "ok"
                 /\ PrintT(<<"VERDICT", c.id, "ok", "", pos - 1>>)
                 /\ UNCHANGED <<ci, pos, mst>>
            ELSE LET r == Step([funcs |-> c.funcs, sites |-> c.sites], mst, c.evs[pos]) IN
                 IF r.k = "ok"
                 THEN pos' = pos + 1 /\ mst' = r.st /\ UNCHANGED <<ci, verdict>>
                 ELSE /\ verdict' = (IF r.k = "undef" THEN "skip" ELSE "bad")
                      /\ PrintT(<<"VERDICT", c.id, verdict', r.why, pos>>)
                      /\ UNCHANGED <<ci, pos, mst>>
TSpec == TInit /\ [][TStep]_tvars
=============================================================================
