---------------------------- MODULE DetermTrace ----------------------------
(***************************************************************************)
(* C20 -- "Running the same program in a fresh interpreter always produces *)
(* the same value, the same printed output and the same error text,        *)
(* independent of Go's randomised map iteration order and of how many      *)
(* interpreters were created earlier in the process."                      *)
(*                                                                         *)
(* A fresh interpreter running program p is a function of p alone: the     *)
(* behaviours of Run(p) form a single observation.  A case lists the       *)
(* observations <<kind, printed value or error text, stdout>> of N runs    *)
(* (fresh interpreters of one process with other interpreters created and  *)
(* used in between; processes that ran the other programs in different     *)
(* orders, each with new map iteration seeds; processes whose first        *)
(* interpreter was hostile to the process-wide tables); the spec requires  *)
(* them to be one observation.                                             *)
(*                                                                         *)
(* Named deviations (enabled by VERIF_DEVS, verdict known:<id>).  Next to  *)
(* each observation the run records facts about the process before the run *)
(* (c.pre[i], a sequence of <<tag, a, b>>):                                *)
(*   <<"T", name, digest>>  an EARLIER interpreter declared (struct name   *)
(*          ...) and the program uses name without declaring the struct    *)
(*          itself;                                                        *)
(*   <<"L", digest, "">>    the list of registered types, for a program    *)
(*          that asks for it (typelist);                                   *)
(*   <<"R", digest, "">>    the Go-registered types that an earlier        *)
(*          interpreter's script replaced by a struct of the same name     *)
(*          (new interpreters no longer import them);                      *)
(*   <<"G", digest, "">>    Go types registered by a SCRIPT of an earlier  *)
(*          interpreter (registerDemoFunctions) since the process began.   *)
(* shared-registry: the types that scripts declare live in one table per   *)
(*   process, so a run may depend on its T, L and R facts -- and on        *)
(*   nothing else: runs with the same T, L and R facts must still agree.   *)
(* script-registers-go: likewise for the G facts.                          *)
(* With a deviation off its facts explain nothing (ProcessHist.tla states  *)
(* the requirement they break).                                            *)
(***************************************************************************)
EXTENDS Integers, Sequences, FiniteSets, Json, IOUtils, TLC, SequencesExt

ASSUME TLCSet(11, ndJsonDeserialize(IOEnv.VERIF_TRACE))
Cases == TLCGet(11)

DevList == "," \o (IF "VERIF_DEVS" \in DOMAIN IOEnv THEN IOEnv.VERIF_DEVS ELSE "") \o ","
DevOn(d) == ReplaceFirstSubSeq("", "," \o d \o ",", DevList) # DevList

Deviations == << [id |-> "shared-registry", tags |-> {"T", "L", "R"}],
                 [id |-> "script-registers-go", tags |-> {"G"}] >>

VARIABLES ci, verdict
tvars == <<ci, verdict>>

Facts(c, i, tags) == {c.pre[i][k] : k \in {k \in 1..Len(c.pre[i]) : c.pre[i][k][1] \in tags}}
OnTags == UNION {Deviations[d].tags : d \in {d \in 1..Len(Deviations) : DevOn(Deviations[d].id)}}

Judge(c) ==
    LET n == Len(c.obs) IN
    IF n < 4 \/ Len(c.pre) # n \/ Len(c.runs) # n THEN <<"bad", "too-few-runs">>
    ELSE IF \E i \in 1..n : c.obs[i][1] \in {"budget"} THEN <<"skip", "budget">>
    ELSE IF \A i \in 2..n : c.obs[i] = c.obs[1] THEN <<"ok", "one-behaviour">>
    ELSE IF \A i, j \in 1..n : Facts(c, i, OnTags) = Facts(c, j, OnTags) => c.obs[i] = c.obs[j]
         THEN (* the observation is a function of the facts that an enabled deviation speaks about *)
              LET d == CHOOSE d \in 1..Len(Deviations) :
                          /\ DevOn(Deviations[d].id)
                          /\ \E i, j \in 1..n : /\ c.obs[i] # c.obs[j]
                                                /\ Facts(c, i, Deviations[d].tags) # Facts(c, j, Deviations[d].tags)
              IN <<"known:" \o Deviations[d].id, "history">>
    ELSE LET p == CHOOSE p \in (1..n) \X (1..n) :
                     /\ c.obs[p[1]] # c.obs[p[2]]
                     /\ Facts(c, p[1], OnTags) = Facts(c, p[2], OnTags)
         IN <<"bad", c.runs[p[1]] \o "/" \o c.runs[p[2]]>>

TInit == ci \in 1..Len(Cases) /\ verdict = "run"
TStep == /\ verdict = "run"
         /\ LET j == Judge(Cases[ci]) IN
            verdict' = j[1] /\ PrintT(<<"VERDICT", Cases[ci].id, j[1], j[2]>>)
         /\ UNCHANGED ci
TSpec == TInit /\ [][TStep]_tvars
=============================================================================
