---------------------------- MODULE DetermTrace ----------------------------
(***************************************************************************)
(* C20 -- "Running the same program in a fresh interpreter always produces *)
(* the same value, the same printed output and the same error text,        *)
(* independent of Go's randomised map iteration order and of how many      *)
(* interpreters were created earlier in the process."                      *)
(*                                                                         *)
(* A fresh interpreter running program p is a function of p alone: the     *)
(* behaviours of Run(p) form a single observation.  A case lists the       *)
(* observations <<kind, printed value or error text, stdout>> of N runs    *)
(* (fresh interpreters of one process with other interpreters created and  *)
(* used in between; fresh processes, each with new map iteration seeds);   *)
(* the spec requires them to be one observation.                           *)
(***************************************************************************)
EXTENDS Integers, Sequences, Json, IOUtils, TLC

ASSUME TLCSet(11, ndJsonDeserialize(IOEnv.VERIF_TRACE))
Cases == TLCGet(11)

VARIABLES ci, verdict
tvars == <<ci, verdict>>

Judge(c) ==
    IF Len(c.obs) < 4 THEN <<"bad", "too-few-runs">>
    ELSE IF \E i \in 1..Len(c.obs) : c.obs[i][1] \in {"budget"} THEN <<"skip", "budget">>
    ELSE IF \A i \in 2..Len(c.obs) : c.obs[i] = c.obs[1] THEN <<"ok", "one-behaviour">>
    ELSE LET j == CHOOSE i \in 2..Len(c.obs) : c.obs[i] # c.obs[1] IN
         <<"bad", IF c.runs[j] = "process" /\ \A i \in 2..Len(c.obs) : c.runs[i] # "process" => c.obs[i] = c.obs[1]
                  THEN "differs-between-processes" ELSE "differs-within-process">>

TInit == ci \in 1..Len(Cases) /\ verdict = "run"
TStep == /\ verdict = "run"
         /\ LET j == Judge(Cases[ci]) IN
            verdict' = j[1] /\ PrintT(<<"VERDICT", Cases[ci].id, j[1], j[2]>>)
         /\ UNCHANGED ci
TSpec == TInit /\ [][TStep]_tvars
=============================================================================
