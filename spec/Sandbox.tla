------------------------------ MODULE Sandbox ------------------------------
(***************************************************************************)
(* C08 -- a sandboxed interpreter cannot reach the outside world.          *)
(*                                                                         *)
(* The sandbox of zygomys is a capability-by-binding design: the only way  *)
(* script text reaches the outside world is by CALLING a primitive (a Go   *)
(* function, a builder, a macro written in Go, a special form of the       *)
(* compiler, a repl command) that has that capability.  Everything a       *)
(* script can build -- aliases, closures, macros, quoted forms handed to    *)
(* eval, argument lists handed to apply, forms handed to a builder -- is    *)
(* a DERIVATION of such a call and has exactly the capability of what it   *)
(* derives from (also when the derived call is compiled and run inside a   *)
(* DUPLICATE of the interpreter, as macro expansion and some builders do:  *)
(* a duplicate of a sandboxed interpreter is sandboxed).                   *)
(* The property therefore is: in a sandboxed configuration                 *)
(* no callable name has an outside-world capability, along any derivation. *)
(*                                                                         *)
(* The universe U is NOT written here: it is dumped from the live          *)
(* interpreters by `zv sandbox -dump` (every name bound in each            *)
(* configuration, the macro names, the special forms read from             *)
(* GenerateCallBySymbol, the reserved words, the repl commands), so a      *)
(* primitive added to any table is in the universe.                        *)
(*   U.cfgs    = <<"bare", "std", "cmd", "full">>                          *)
(*       bare  NewZlispSandbox()                                           *)
(*       std   NewZlispSandbox() + StandardSetup()                         *)
(*       cmd   the binary cmd/zygo -sandbox                                *)
(*       full  NewZlisp() + StandardSetup(): NOT sandboxed, the control    *)
(*   U.names[i] = [n |-> name, kind |-> <<kind per cfg>>,                  *)
(*                 mac |-> <<macro of that name per cfg>>, special |-> b]  *)
(*   U.routes, U.shapes: the derivation routes / argument shapes the       *)
(*   harness can render.                                                   *)
(*                                                                         *)
(* What this module fixes independently of the code is the capability of   *)
(* each KNOWN outside-world primitive (PrimCap, from its documented         *)
(* purpose).  The check does not rely on that table for its verdicts: the  *)
(* trace specification demands an EMPTY event set from every probe of      *)
(* every name in a sandboxed configuration, known or not.  The table is    *)
(* used (1) to predict the candidates (callable names with a capability in *)
(* a sandboxed configuration), (2) for the control: in the unsandboxed     *)
(* configuration every known primitive must show its capability through    *)
(* the canaries, else the probes are blind.                                *)
(***************************************************************************)
EXTENDS Integers, Sequences, FiniteSets, TLC, Json, IOUtils

(* the universe record (see above), read once: a plain constant definition  *)
(* is evaluated by TLC a single time (a cfg substitution U <- ... is not)   *)
U == ndJsonDeserialize(IOEnv.VERIF_UNIVERSE)[1]

(* "exit" is the capability to END THE HOST PROCESS.  The statement names the  *)
(* effect (the host is gone), not a builtin: the process can end because a    *)
(* primitive asked for it (exit, .quit), or because the Go runtime ended it   *)
(* while it ran library code for the script -- a fatal error that recover()   *)
(* cannot stop (Go recursion without a bound) or a panic that nothing in the  *)
(* host recovers.  Both are observations of the one capability (HostEvents).  *)
Caps == {"file-read", "file-write", "exec", "env-read", "env-write", "exit"}
CapSeq == <<"file-read", "file-write", "exec", "env-read", "env-write", "exit">>

(* primitives of the HOST that the harness binds in the unsandboxed control   *)
(* only: called without arguments they end the process as a defect would      *)
(* (unbounded Go recursion; a panic in a goroutine of its own)                *)
HostFaults == {"zvhostoverflow", "zvhostpanic"}

(* capability of the known outside-world primitives, by documented purpose *)
PrimCap(n) ==
    CASE n \in {"source", "slurpf", "bload", "include", "import"} -> {"file-read"}
      [] n \in {"writef", "save", "owritef", "bsave"}               -> {"file-write"}
      [] n \in {"system", "sys"}                                    -> {"exec"}
      [] n = "getenv"                                               -> {"env-read"}
      [] n = "setenv"                                               -> {"env-write"}
      [] n \in {"exit", ".quit"} \cup HostFaults                    -> {"exit"}
      [] OTHER                                                      -> {}

(* macros of the standard setup written in script text: what they expand to *)
Expands(n) == IF n = "req" THEN {"source"} ELSE {}

Known == {"source", "slurpf", "bload", "include", "import", "req", "writef", "save", "owritef",
          "bsave", "system", "sys", "getenv", "setenv", "exit", ".quit"} \cup HostFaults

(* the observable event that demonstrates a capability (see fam_sandbox.go) *)
EventOf(cap) ==
    CASE cap = "file-read"  -> "open"
      [] cap = "file-write" -> "create"
      [] cap = "exec"       -> "marker"
      [] cap = "env-read"   -> "envleak"
      [] cap = "env-write"  -> "envchange"
      [] cap = "exit"       -> "exit"
Events == {"leak", "open", "modify", "create", "marker", "envleak", "envchange", "exit", "fatal"}

(* THE HOST PROTOCOL.  The host is a process that evaluates script text and   *)
(* then ANSWERS: it reports on the evaluation and takes the next one.  After  *)
(* a probe the harness finds the host in one of these states:                 *)
(*   up       it answered                                                     *)
(*   exit     the process ended with a status, no report of the Go runtime    *)
(*   fatal    the Go runtime ended the process (fatal error, unrecovered panic)*)
(*   stopped  no answer within the time limit: the HARNESS stopped it         *)
(*   starved  the MACHINE refused it memory (out of memory, killed)           *)
(* exit and fatal are the observations of the capability "exit".  stopped and *)
(* starved are not: a script may compute for ever and may ask for more memory *)
(* than the machine has -- the statement bounds neither time nor memory, and  *)
(* whether a request for memory ends the process is decided by the machine.   *)
HostStates == {"up", "exit", "fatal", "stopped", "starved"}
HostEvents == {"exit", "fatal"}
(* the event set and the host state of one probe tell the same story *)
HostConsistent(host, evset) ==
    /\ host \in HostStates
    /\ host \in HostEvents <=> evset \cap HostEvents # {}
    /\ host \in HostEvents => host \in evset
(* the events that show the capabilities of a known primitive in the control *)
ShownBy(n) == IF n \in HostFaults THEN {"fatal"} ELSE {EventOf(cap) : cap \in PrimCap(n)}

Cfgs == U.cfgs
CfgIx == 1..Len(Cfgs)
Sandboxed(c) == Cfgs[c] # "full"
NameIx == 1..Len(U.names)
Routes == {U.routes[k] : k \in 1..Len(U.routes)}

NameOf(i) == U.names[i].n
KindOf(c, i) == U.names[i].kind[c]
NameSet == {NameOf(i) : i \in NameIx}
IxMap == TLCEval([n \in NameSet |-> CHOOSE i \in NameIx : NameOf(i) = n])
HasName(n) == n \in NameSet
Ix(n) == IxMap[n]

(* script text of configuration c can call name i *)
Callable(c, i) == U.names[i].special \/ KindOf(c, i) # "unbound" \/ U.names[i].mac[c]
CallableN(c, n) == HasName(n) /\ Callable(c, Ix(n))
(* name i evaluates to a value (it can be aliased with def, handed to apply) *)
ValueBound(c, i) == KindOf(c, i) \notin {"unbound", "replcmd"}

(* what a derivation route needs from the configuration *)
Needs(r) ==
    CASE r = "alias"   -> {"def"}
      [] r = "eval"    -> {"eval", "quote"}
      [] r = "sym"     -> {"eval", "list", "str2sym"}
      [] r = "apply"   -> {"apply"}
      [] r = "macro"   -> {"defmac", "syntaxQuote"}
      [] r = "builder" -> {"infix"}
      [] r = "fn"      -> {"fn"}
      (* compiled and run inside a duplicate of the interpreter (env.Duplicate()): *)
      [] r = "macrun"    -> {"defmac", "str"}               \* body of a macro that is not a template, as a call argument
      [] r = "macexpand" -> {"defmac", "str", "macexpand"}  \* the same under macexpand
      [] r = "expect"    -> {"expectError"}                 \* both arguments of the expectError builder
      [] OTHER         -> {}

(* (a table, so that TLC computes it once) *)
RouteEnabled == TLCEval([c \in CfgIx |-> [r \in Routes |-> \A m \in Needs(r) : CallableN(c, m)]])

RouteOK(c, i, r) ==
    /\ RouteEnabled[c][r]
    /\ r \in {"alias", "apply"} => ValueBound(c, i)
    /\ KindOf(c, i) = "replcmd" => r = "direct"

Live(c, i, route) == Callable(c, i) /\ \A k \in 1..Len(route) : RouteOK(c, i, route[k])

(* capability of calling name i in configuration c *)
BaseCap(c, i) ==
    IF Expands(NameOf(i)) # {} /\ U.names[i].mac[c]
    THEN UNION {PrimCap(m) : m \in {m \in Expands(NameOf(i)) : CallableN(c, m)}}
    ELSE PrimCap(NameOf(i))

(* capability of a derived handle: a derivation neither adds nor removes capability. *)
(* The ARGUMENTS are data, and data has no capability: CapOf is not a function of    *)
(* the argument shape, whether it is a canary path, a command, an environment name   *)
(* or a value built to strain the Go code that walks it (U.shapes: a value that      *)
(* contains itself, a text nested without bound, a form that leaves no value).       *)
CapOf(c, i, route) == IF Live(c, i, route) THEN BaseCap(c, i) ELSE {}

CandidateNames(c) == {i \in NameIx : Callable(c, i) /\ BaseCap(c, i) # {}}
CandTab == TLCEval([c \in CfgIx |-> UNION {BaseCap(c, i) : i \in CandidateNames(c)}])
Candidates(c) == CandTab[c]

(* Two things a sandbox must NOT depend on:                                  *)
(* (1) what the script itself has bound.  Shadow(c) are the names callable   *)
(*     in the unsandboxed configuration and not in c (the difference of the  *)
(*     two tables: source, system, sys, import, slurpf, ...).  A script may  *)
(*     define them (def, defn or defmac: a name cannot be a macro and a      *)
(*     global at once) before it calls anything; a script-made binding is a  *)
(*     closure over nothing and has no capability, and it gives none to any  *)
(*     other name: CapOf is not a function of the script's definitions.      *)
(* (2) the history of the process.  Callable(c, .) is a function of the      *)
(*     configuration alone: the same whether the sandboxed interpreter is    *)
(*     the first of its process or an unsandboxed one (NewZlisp +            *)
(*     StandardSetup) was created and used before it or in between.          *)
(*     U.unstable lists the bindings the dump saw differ between the orders. *)
FullCfg == CHOOSE c \in CfgIx : ~Sandboxed(c)
ShadowTab == TLCEval([c \in CfgIx |-> {i \in NameIx : Callable(FullCfg, i) /\ ~Callable(c, i)}])
Shadow(c) == ShadowTab[c]
ShadowSeqTab == TLCEval([c \in CfgIx |->
                   LET ix == SelectSeq([i \in NameIx |-> i], LAMBDA i : i \in ShadowTab[c])
                   IN [k \in 1..Len(ix) |-> NameOf(ix[k])]])
ShadowSeq(c) == ShadowSeqTab[c]
Preludes == {"", "def", "defn", "defmac"}
Histories == {"", "after"}
InProcess == {"bare", "std"}
HistoryStable == U.unstable = <<>>

-----------------------------------------------------------------------------
(* The derivation closure as a state machine: a script picks a name, wraps  *)
(* it in derivations, calls it; world collects the capabilities exercised. *)
CONSTANTS MaxDepth,   \* bound on the number of nested derivations
          Mint        \* self-test: TRUE adds a derivation that mints capability (a foreign-function route)

VARIABLES cfg, nm, route, world,
          defs     \* the names the script has bound itself: none, or all of Shadow(cfg) (the prelude)
vars == <<cfg, nm, route, world, defs>>

Init == /\ cfg \in CfgIx /\ nm \in NameIx /\ route = <<>> /\ world = {} /\ defs = {}

(* the script binds a name the sandbox lacks: legal, and without effect on any capability *)
Define == /\ defs = {} /\ world = {} /\ route = <<>> /\ Shadow(cfg) # {}
          /\ defs' = Shadow(cfg)
          /\ UNCHANGED <<cfg, nm, route, world>>

(* a host that is gone evaluates nothing more *)
HostUp == "exit" \notin world

Derive(r) == /\ Len(route) < MaxDepth /\ HostUp
             /\ route' = Append(route, r)
             /\ UNCHANGED <<cfg, nm, world, defs>>

Call == /\ HostUp
        /\ world' = world \cup CapOf(cfg, nm, route)
        /\ UNCHANGED <<cfg, nm, route, defs>>

(* NOT part of the design: reaching a primitive that no binding gives *)
Reflect == /\ Mint /\ HostUp
           /\ world' = world \cup PrimCap(NameOf(nm))
           /\ UNCHANGED <<cfg, nm, route, defs>>

Next == (\E r \in Routes : Derive(r)) \/ Call \/ Reflect \/ Define
Spec == Init /\ [][Next]_vars

TypeOK == /\ cfg \in CfgIx /\ nm \in NameIx /\ world \subseteq Caps /\ defs \subseteq Shadow(cfg)
          /\ Len(route) <= MaxDepth /\ \A k \in 1..Len(route) : route[k] \in Routes

(* no derivation yields a capability that no callable name of the configuration has *)
NoMinting == world \subseteq Candidates(cfg)
(* a name the configuration cannot call stays without capability under every derivation *)
(* (also when the script has bound that very name itself: defs) *)
DeadStaysDead == ~Callable(cfg, nm) => world = {}
(* THE PROPERTY (of the configuration, given the capability table): *)
SandboxClosed == Sandboxed(cfg) => world = {}
(* its last clause alone: whatever a sandboxed script does, the host is there to answer *)
HostSurvives == Sandboxed(cfg) => HostUp
=============================================================================
