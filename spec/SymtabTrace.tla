--------------------------- MODULE SymtabTrace ---------------------------
(***************************************************************************)
(* Trace validation for C19 (property-level monitor).  A case is a history *)
(* of symbol creation / generation / duplication / cloning across a REAL   *)
(* family of interpreters sharing one table, recorded through the public   *)
(* API (MakeSymbol, GenSymbol, Duplicate, Clone) and at script level       *)
(* (str2sym, gensym, ==).  The monitor keeps only the relation             *)
(* name <-> number observed so far (seeded with the table the root         *)
(* interpreter starts with) and requires:                                  *)
(*   intern(name) = num : the pair is consistent with a bijection;         *)
(*   gensym() = (name, num) : neither the name nor the number existed;     *)
(*   (== a b) at script level is TRUE exactly when the names are equal.    *)
(* Symbol numbers themselves are not predicted (only the relation).        *)
(***************************************************************************)
EXTENDS Integers, Sequences, FiniteSets, Json, IOUtils, TLC, SequencesExt

(* parse the trace file once (TLC would otherwise re-evaluate the operator) *)
ASSUME TLCSet(11, ndJsonDeserialize(IOEnv.VERIF_TRACE))
Cases == TLCGet(11)

(* the first record of the file lists the names every fresh root          *)
(* interpreter starts with (builtins and reserved words); their numbers   *)
(* are 1..n with n logged by the init event of each case                  *)
BaseNames == IF "names" \in DOMAIN Cases[1] THEN {Cases[1].names[i] : i \in 1..Len(Cases[1].names)} ELSE {}

(* named deviations (open findings), enabled through VERIF_DEVS *)
DevStr == IF "VERIF_DEVS" \in DOMAIN IOEnv THEN IOEnv.VERIF_DEVS ELSE ""
HasDev(d) == ReplaceFirstSubSeq("", d, DevStr) # DevStr
(* dot-symbol-compared-by-binding: a symbol whose name contains a dot, written as data, is taken by ==  *)
(* for a pending selection and compared by what it is bound to (equal bindings: equal; unbound: error) *)
Dotted(name) == ReplaceFirstSubSeq("", ".", name) # name

VARIABLES ci, pos, verdict, tab,  \* tab: set of <<name, num>> added since the start
          nbase                   \* number of pre-existing symbols
tvars == <<ci, pos, verdict, tab, nbase>>

Evs == Cases[ci].evs
NamesOf(t) == {p[1] : p \in t} \cup BaseNames
NumsOf(t)  == {p[2] : p \in t} \cup (1..nbase)
SeqToSet(s) == {s[i] : i \in 1..Len(s)}

Consistent(t, name, num) ==
    /\ num >= 1                \* an interned symbol has a number of the table (they start at 1)
    /\ \/ <<name, num>> \in t
       \/ (name \in BaseNames /\ num \in 1..nbase /\ \A p \in t : p[2] # num)
       \/ (name \notin NamesOf(t) /\ num \notin NumsOf(t))

TInit == ci \in 1..Len(Cases) /\ pos = 1 /\ verdict = "run" /\ tab = {} /\ nbase = 0

Explained(e) ==
    CASE e.op = "init"   -> TRUE
      [] e.op = "intern" -> Consistent(tab, e.name, e.num)
      [] e.op = "gensym" -> e.name \notin NamesOf(tab) /\ e.num \notin NumsOf(tab)
      [] e.op = "eq"     -> e.res = (e.a = e.b)
      [] e.op = "eqq"    -> e.res = <<"bool", e.a = e.b>>
      [] e.op \in {"dup", "clone"} -> TRUE
      [] OTHER -> FALSE

After(e) ==
    CASE e.op = "init"   -> {}
      [] e.op \in {"intern", "gensym"} -> tab \cup {<<e.name, e.num>>}
      [] OTHER -> tab

TStep ==
    /\ verdict = "run" /\ pos <= Len(Evs)
    /\ LET e == Evs[pos] IN
       IF Explained(e)
       THEN /\ tab' = After(e) /\ pos' = pos + 1 /\ UNCHANGED <<ci, verdict>>
            /\ nbase' = IF e.op = "init" THEN e.n ELSE nbase
       ELSE IF e.op = "eqq" /\ (Dotted(e.a) \/ Dotted(e.b)) /\ HasDev("dot-symbol-compared-by-binding")
            THEN /\ verdict' = "known:dot-symbol-compared-by-binding" /\ UNCHANGED <<ci, pos, tab, nbase>>
                 /\ PrintT(<<"VERDICT", Cases[ci].id, "known:dot-symbol-compared-by-binding", pos>>)
            ELSE /\ verdict' = "bad" /\ UNCHANGED <<ci, pos, tab, nbase>>
                 /\ PrintT(<<"VERDICT", Cases[ci].id, "bad", pos>>)

TDone ==
    /\ verdict = "run" /\ pos > Len(Evs)
    /\ verdict' = "ok" /\ UNCHANGED <<ci, pos, tab, nbase>>
    /\ PrintT(<<"VERDICT", Cases[ci].id, "ok", pos - 1>>)

TNext == TStep \/ TDone
TSpec == TInit /\ [][TNext]_tvars

(* the relation observed so far is always a partial bijection *)
PartialBijection == \A p, q \in tab : (p[1] = q[1]) <=> (p[2] = q[2])
=============================================================================
