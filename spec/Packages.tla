---------------------------- MODULE Packages ----------------------------
(***************************************************************************)
(* C18 -- Package members are private unless capitalised.                  *)
(*                                                                         *)
(* "From outside a package, a value, function or hash member whose name    *)
(* starts with a lower-case letter can be neither read nor assigned        *)
(* through any dot path, however deeply packages are nested or aliased,    *)
(* while capitalised members can; nested packages may be traversed         *)
(* whatever the case of the name they are stored under, and their members  *)
(* obey the same rule.  Code defined inside the package keeps full access  *)
(* to its private members, also when called from outside."                 *)
(*                                                                         *)
(* PART 1 (the specification).  The world is one tree of nodes bound to a  *)
(* global name:                                                            *)
(*     <<"val", n>>      a value member (an integer, unique per leaf)      *)
(*     <<"fn", n>>       a function member, (fn [a] (+ a n))               *)
(*     <<"hash", es>>    a hash; es is a sequence of <<name, node>>        *)
(*     <<"pkg", es>>     a package; es is a sequence of <<name, node>>     *)
(* A name is <<first rune, text>>.  An access from outside names a path    *)
(* (sequence of names from the root), a route (how the dot path is used)   *)
(* and an alias (how the first segment of the dot path was bound: to the   *)
(* root or to a nested package value, directly or stored inside another    *)
(* hash or package).  Visible(tree, path) is the whole statement: it       *)
(* depends on the path only, never on the route or the alias.              *)
(*                                                                         *)
(*   "yes"   every hop is a capitalised member or the traversal of a       *)
(*           nested package: the access must succeed, with the member's    *)
(*           current value / the assignment must take effect;              *)
(*   "no"    some hop is a value, function or hash member of a package     *)
(*           whose name starts with a lower-case letter: the access must   *)
(*           fail and change nothing;                                      *)
(*   "any"   the property is silent (first rune is not a letter; the final *)
(*           hop reads or overwrites a nested package stored under a       *)
(*           non-capitalised name; KeyRule = "any": a non-capitalised key  *)
(*           of a hash that is itself a visible member);                   *)
(*   "undef" the path does not name anything (never generated).            *)
(*                                                                         *)
(* KeyRule says what a non-capitalised KEY of a visible hash member means. *)
(* The statement lists the member kinds "value, function or hash" (the     *)
(* quantifier: "member kinds (value, function, nested package, hash with   *)
(* nested hashes)"), i.e. it speaks about the hash as a member of the      *)
(* package, not about the keys inside it; keys are reachable with          *)
(* (hget p.H k) anyway.  Default "any" (not judged); "no" makes keys obey  *)
(* the capitalisation rule, "yes" demands that they are reachable.         *)
(*                                                                         *)
(* PART 2 (implementation-shaped model).  IStack / IHash transcribe        *)
(* Stack.nestedPathGetSet (stack.go) and SexpHash.nestedPathGetSet         *)
(* (hashutils.go) as started by dotGetSetHelper (functions.go), with two   *)
(* switches for the hand-off defects of the pinned tree.  MCPackages       *)
(* checks that the walkers without the defects refine PART 1 on every      *)
(* enumerated (tree, path, route, alias); PackagesTrace uses them only to  *)
(* recognise the named deviations.                                         *)
(***************************************************************************)
EXTENDS Integers, Sequences, FiniteSets

CONSTANT KeyRule        \* "any" | "no" | "yes"

None == <<"none", 0>>

(* ---- names ---- *)
UpperRunes == (65..90) \cup {196, 201, 916}      \* A-Z, A-umlaut, E-acute, Delta
LowerRunes == (97..122) \cup {228, 233, 948}     \* a-z, a-umlaut, e-acute, delta
Class(nm) == IF nm[1] \in UpperRunes THEN "U"
             ELSE IF nm[1] \in LowerRunes THEN "l" ELSE "n"

(* ---- trees ---- *)
IsCont(n) == n[1] = "hash" \/ n[1] = "pkg"

Idx(es, nm) == LET S == {i \in 1..Len(es) : es[i][1] = nm}
               IN IF S = {} THEN 0 ELSE CHOOSE i \in S : TRUE

RECURSIVE NodeAt(_, _)
NodeAt(n, p) ==
    IF Len(p) = 0 THEN n
    ELSE IF ~IsCont(n) THEN None
    ELSE LET k == Idx(n[2], Head(p))
         IN IF k = 0 THEN None ELSE NodeAt(n[2][k][2], Tail(p))

(* replace the node at p; a missing last key of a hash is created (hset)   *)
RECURSIVE SetAt(_, _, _)
SetAt(n, p, new) ==
    IF Len(p) = 0 THEN new
    ELSE IF ~IsCont(n) THEN n
    ELSE LET k == Idx(n[2], Head(p))
         IN IF k = 0
            THEN IF Len(p) = 1 /\ n[1] = "hash"
                 THEN <<n[1], Append(n[2], <<Head(p), new>>)>> ELSE n
            ELSE <<n[1], [n[2] EXCEPT ![k] = <<Head(p), SetAt(n[2][k][2], Tail(p), new)>>]>>

(* the value a script sees (harness projection projPk) *)
RECURSIVE Abs(_)
Abs(n) == CASE n[1] = "val"  -> <<"int", n[2]>>
            [] n[1] = "fn"   -> <<"fn", 0>>
            [] n[1] = "pkg"  -> <<"pkg", 0>>
            [] n[1] = "hash" -> <<"hash", [i \in 1..Len(n[2]) |-> <<n[2][i][1], Abs(n[2][i][2])>>]>>
            [] OTHER -> <<"none", 0>>

TypeStr(n) == CASE n[1] = "val" -> "int64" [] n[1] = "fn" -> "func"
                [] n[1] = "hash" -> "hash" [] n[1] = "pkg" -> "package" [] OTHER -> "none"

(* ---- PART 1: visibility ---- *)
Join(a, b) == IF a = "no" \/ b = "no" THEN "no"
              ELSE IF a = "any" \/ b = "any" THEN "any" ELSE "yes"

(* "private unless capitalised" (the property's title): a member whose first rune is not an    *)
(* upper-case letter -- lower-case, or no letter at all such as _x -- is private                 *)
MemberVis(c) == CASE c = "U" -> "yes" [] OTHER -> "no"
KeyVis(c)    == IF c = "U" THEN "yes" ELSE KeyRule
(* a nested package may be traversed under any name; reading or            *)
(* overwriting the package value itself under a non-capitalised name is    *)
(* not covered by the statement                                            *)
PkgHopVis(c, last) == IF last /\ c # "U" THEN "any" ELSE "yes"

(* ctx: "pkg" (cur is a package), "pkghash" (cur is a hash reached through *)
(* a package member), "open" (cur is a hash outside every package)         *)
RECURSIVE Walk(_, _, _, _, _)
Walk(cur, ctx, p, i, vis) ==
    LET nm == p[i]
        c == Class(nm)
        k == Idx(cur[2], nm)
        last == (i = Len(p))
    IN IF k = 0 THEN [vis |-> "undef", node |-> None]
       ELSE LET m == cur[2][k][2]
                hop == CASE ctx = "open" -> "yes"
                         [] m[1] = "pkg" -> PkgHopVis(c, last)
                         [] ctx = "pkg" -> MemberVis(c)
                         [] OTHER -> KeyVis(c)
                v2 == Join(vis, hop)
            IN IF v2 = "no" THEN [vis |-> "no", node |-> None]
               ELSE IF last THEN [vis |-> v2, node |-> m]
               ELSE CASE m[1] = "pkg" -> Walk(m, "pkg", p, i + 1, v2)
                      [] m[1] = "hash" -> Walk(m, IF ctx = "open" THEN "open" ELSE "pkghash", p, i + 1, v2)
                      [] OTHER -> [vis |-> "undef", node |-> None]

RootCtx(t) == IF t[1] = "pkg" THEN "pkg" ELSE "open"

Visible(t, p) == IF Len(p) = 0 \/ ~IsCont(t) THEN [vis |-> "undef", node |-> None]
                 ELSE Walk(t, RootCtx(t), p, 1, "yes")

(* The same statement, declaratively (used by MCPackages to audit Walk):   *)
(* hop i of p is a "private hop" if the container is a package, the node   *)
(* is a value, function or hash and the name starts with a lower-case      *)
(* letter.                                                                 *)
Defined(t, p) == \A i \in 1..Len(p) : NodeAt(t, SubSeq(p, 1, i)) # None
PrivateHop(t, p, i) ==
    LET cont == NodeAt(t, SubSeq(p, 1, i - 1))
        n == NodeAt(t, SubSeq(p, 1, i))
    IN cont[1] = "pkg" /\ n[1] \in {"val", "fn", "hash"} /\ Class(p[i]) # "U"
CapitalHop(t, p, i) ==
    LET n == NodeAt(t, SubSeq(p, 1, i))
    IN Class(p[i]) = "U" \/ (n[1] = "pkg" /\ i < Len(p))

(* ---- accesses from outside ---- *)
ReadRoutes  == {"plus", "typeq", "uarg", "rhs", "rhsdef", "rhsset", "let", "star", "call"}
(* multi1 / multi2: the dot path is one target of an infix assignment to    *)
(* several targets, {d, x = v, 0} / {x, d = 0, v}                           *)
MultiRoutes == {"multi1", "multi2"}
WriteRoutes == {"infix", "prefix", "set", "infixdef", "hset"} \cup MultiRoutes
AliasKinds  == {"direct", "def", "let", "param", "inpkgU", "inpkgl", "inhash", "inhash2"}

IsErr(res) == res[1] \in {"err", "panic", "budget"}
Skip == <<"skip", 0>>

(* what a successful read through route rt of node n returns; Skip when    *)
(* the route does not apply to that kind of value (not judged)             *)
ExpectRead(rt, n, arg) ==
    CASE rt = "plus"  -> IF n[1] = "val" THEN <<"int", n[2]>> ELSE Skip
      [] rt = "typeq" -> <<"str", TypeStr(n)>>
      [] rt = "call"  -> IF n[1] = "fn" THEN <<"int", n[2] + arg>> ELSE Skip
      [] OTHER -> Abs(n)

Matches(res, exp) == exp = Skip \/ (res[1] = "val" /\ res[2][1] = exp[1] /\ res[2] = exp)

(* visibility of the access o = [al, p, rt]: the alias is bound to the     *)
(* package value at the first al[2] names of p, which itself has to be     *)
(* read through a dot path when al[2] > 0; apart from that an alias never  *)
(* changes anything.  For hset the dot path ends at the hash (the key is   *)
(* an ordinary argument).                                                  *)
AccessPath(o) == IF o.rt = "hset" THEN SubSeq(o.p, 1, Len(o.p) - 1) ELSE o.p
OutVis(t, o) ==
    LET ap == AccessPath(o)
        w == Visible(t, ap)
        a == IF o.al[2] = 0 THEN "yes" ELSE Visible(t, SubSeq(o.p, 1, o.al[2])).vis
    IN IF a = "undef" \/ w.vis = "undef" THEN [vis |-> IF a = "no" \/ w.vis = "no" THEN "no" ELSE "undef", node |-> None]
       ELSE IF o.rt = "hset" /\ w.vis # "no" /\ w.node[1] # "hash" THEN [vis |-> "undef", node |-> None]
       ELSE [vis |-> Join(a, w.vis), node |-> w.node]

NewVal(o) == <<"val", o.v>>

(* ApplyOut(t, o): is the recorded result o.res admitted, and the tree     *)
(* afterwards                                                              *)
ApplyOut(t, o) ==
    LET w == OutVis(t, o)
        isw == o.rt \in WriteRoutes
        good == IF isw THEN o.res[1] = "val" ELSE Matches(o.res, ExpectRead(o.rt, w.node, o.v))
        wrote == isw /\ o.res[1] = "val" /\ w.vis \in {"yes", "any"}
    IN [ok |-> CASE w.vis = "undef" -> TRUE
                 (* "can be neither read nor assigned": a refused access fails; an    *)
                 (* assignment to several targets may also report success, as long as *)
                 (* the member keeps its value (c = t, confirmed by the readback)     *)
                 [] w.vis = "no"    -> IsErr(o.res) \/ (o.rt \in MultiRoutes /\ o.res[1] = "val")
                 [] w.vis = "yes"   -> good
                 [] OTHER           -> IsErr(o.res) \/ good,
        c  |-> IF wrote THEN SetAt(t, o.p, NewVal(o)) ELSE t,
        vis |-> w.vis]

(* ---- code defined inside the package, called from outside ---- *)
(* o = [pp, m, mode, key, v]: pp is the path of the package, m the member  *)
(* (rd: by its plain name; rddot: through the dot path .m as the operand   *)
(* of a builtin or the argument of a function; rdkey / wrkey: m.key        *)
(* through a dot path, in every form the event's "form" names)             *)
ApplyIn(t, o) ==
    LET pk == NodeAt(t, o.pp)
        owner == IF o.mode = "rdouter" THEN NodeAt(t, SubSeq(o.pp, 1, Len(o.pp) - 1)) ELSE pk
        mp == IF o.mode = "rdouter" THEN Append(SubSeq(o.pp, 1, Len(o.pp) - 1), o.m) ELSE Append(o.pp, o.m)
        mn == NodeAt(t, mp)
        def == pk[1] = "pkg" /\ owner[1] = "pkg" /\ mn # None
    IN IF ~def THEN [ok |-> TRUE, c |-> t]
       ELSE CASE o.mode \in {"rd", "rdouter", "rddot"} ->
                   [ok |-> o.res[1] = "val" /\ o.res[2][1] = Abs(mn)[1] /\ o.res[2] = Abs(mn), c |-> t]
              [] o.mode = "wr" ->
                   [ok |-> o.res[1] = "val", c |-> IF o.res[1] = "val" THEN SetAt(t, mp, NewVal(o)) ELSE t]
              [] o.mode = "call" ->
                   [ok |-> mn[1] # "fn" \/ o.res = <<"val", <<"int", mn[2] + o.v>>>>, c |-> t]
              (* the member is a hash or a nested package and the code of the      *)
              (* package reads m.key through a dot path (operand of a builtin,     *)
              (* argument of a function): full access to its own hash; the nested  *)
              (* package is another package, whose private members stay private    *)
              [] o.mode = "rdkey" ->
                   LET kn == IF IsCont(mn) THEN NodeAt(mn, <<o.key>>) ELSE None IN
                   IF kn = None THEN [ok |-> TRUE, c |-> t]
                   ELSE IF mn[1] = "pkg" /\ kn[1] # "pkg" /\ Class(o.key) # "U"
                   THEN [ok |-> Class(o.key) = "n" \/ IsErr(o.res), c |-> t]
                   ELSE [ok |-> o.res[1] = "val" /\ o.res[2][1] = Abs(kn)[1] /\ o.res[2] = Abs(kn), c |-> t]
              [] o.mode = "wrkey" ->
                   IF mn[1] # "hash" \/ Idx(mn[2], o.key) = 0 THEN [ok |-> TRUE, c |-> t]
                   ELSE [ok |-> o.res[1] = "val",
                         c |-> IF o.res[1] = "val" THEN SetAt(t, Append(mp, o.key), NewVal(o)) ELSE t]
              [] OTHER -> [ok |-> FALSE, c |-> t]

(* ---- a dot path written outside that travels as a VALUE into the package ---- *)
(* A dot symbol is a value: outside code can hand the dot path it wrote to  *)
(* code that runs inside a package -- as the argument of a function of the  *)
(* package (called through a dot path, an alias, apply or map), as the      *)
(* value its callback returns, or inside an array, a list or a hash.  It is *)
(* still a dot path written outside the package, so the statement applies   *)
(* to whatever it names there.  o = [fp, c, p, rt]: the code that receives  *)
(* the dot path belongs to the package at fp; by the scoping of that        *)
(* package the first name of the written path, p[c+1], is the member of the *)
(* package at p[1..c] (fp itself or a package that textually encloses it);  *)
(* the written path is p[c+1..], the member it names is the one at p.       *)
(*   "no"   some hop of the written path is a value, function or hash       *)
(*          member of a package under a name that starts with a lower-case  *)
(*          letter: it must not be read;                                    *)
(*   "any"  otherwise the statement is silent (outside the package the      *)
(*          written path need not name anything at all): an error, or the   *)
(*          member's value.                                                 *)
ArgRoutes  == {"arg", "apply", "map"}
DataRoutes == {"cblet", "cbtail", "cbdef", "cbplus", "cbarg", "first", "car", "hval"}

LowerHop(t, p, i) ==
    LET cont == NodeAt(t, SubSeq(p, 1, i - 1))
        n == NodeAt(t, SubSeq(p, 1, i))
    IN cont[1] = "pkg" /\ n[1] \in {"val", "fn", "hash"} /\ Class(p[i]) = "l"

(* Stack.LookupSymbol searches the scopes of the cloned scope stack from    *)
(* the innermost outwards: a name that the package does not define is found *)
(* in a package that textually encloses it (the global scope is not         *)
(* modelled: generated names never collide with global ones).  Returns the  *)
(* path of the member found, or <<>>.                                       *)
RECURSIVE Encl(_, _, _, _)
Encl(t, cl, j, nm) ==
    IF j < 0 THEN <<>>
    ELSE LET a == NodeAt(t, SubSeq(cl, 1, j))
         IN IF a[1] = "pkg" /\ Idx(a[2], nm) # 0 THEN Append(SubSeq(cl, 1, j), nm)
            ELSE Encl(t, cl, j - 1, nm)

RelDefined(t, o) ==
    /\ o.c >= 0 /\ o.c < Len(o.p) /\ Len(o.fp) >= o.c
    /\ SubSeq(o.fp, 1, o.c) = SubSeq(o.p, 1, o.c)
    /\ \A i \in 1..Len(o.p) : NodeAt(t, SubSeq(o.p, 1, i)) # None
    /\ NodeAt(t, SubSeq(o.p, 1, o.c))[1] = "pkg"
    /\ NodeAt(t, o.fp)[1] = "pkg"
    /\ Encl(t, o.fp, Len(o.fp), o.p[o.c + 1]) = SubSeq(o.p, 1, o.c + 1)

RelVis(t, o) == IF ~RelDefined(t, o) THEN "undef"
                ELSE IF \E i \in (o.c + 1)..Len(o.p) : LowerHop(t, o.p, i) THEN "no" ELSE "any"

(* not read: the access fails, or the dot symbol comes back as it was written *)
NotRead(res) == IsErr(res) \/ (res[1] = "val" /\ res[2][1] = "sym")

ApplyRel(t, o) ==
    LET v == RelVis(t, o)
    IN [ok |-> CASE v = "undef" -> TRUE
                 [] v = "no"    -> NotRead(o.res)
                 [] OTHER       -> NotRead(o.res) \/ Matches(o.res, Abs(NodeAt(t, o.p))),
        c |-> t, vis |-> v]

Apply(t, o) == CASE o.op = "out" -> ApplyOut(t, o)
                 [] o.op = "rel" -> ApplyRel(t, o)
                 [] OTHER -> LET a == ApplyIn(t, o) IN [ok |-> a.ok, c |-> a.c, vis |-> "in"]

(***************************************************************************)
(* PART 2: the walkers of the code.  A walker returns                      *)
(*   [k |-> "err"] | [k |-> "val", n |-> node, loc |-> path walked]        *)
(*   | [k |-> "set", loc |-> path of the location assigned]                *)
(* loc is the path (in the tree) of the container actually being walked,   *)
(* so a mis-directed walk is followed exactly, also when it assigns.       *)
(* D1: Stack.nestedPathGetSet                                              *)
(* hands dotpaths[1:] instead of dotpaths[i+1:] to the hash walker; D2:    *)
(* SexpHash.nestedPathGetSet hands dotpaths[1:] instead of dotpaths[i+1:]  *)
(* to the package walker.  unicode.IsUpper decides (a non-letter is        *)
(* private), hash keys are not checked.                                    *)
(***************************************************************************)
IErr == [k |-> "err"]
IsUp(nm) == Class(nm) = "U"
From(tp, i) == SubSeq(tp, i, Len(tp))

(* x = [t, pre, set, D1, D2]: the tree, the path of the package the alias   *)
(* is bound to, assignment?, the switches.  loc is the path (in t) of the   *)
(* container being walked; wl > 0 while the walk is still inside the        *)
(* synthetic containers of an alias kind (inpkg / inhash), which have one   *)
(* entry each, the last one holding the package at x.pre.                   *)
RECURSIVE IStack(_, _, _, _, _, _), IHash(_, _, _, _, _, _)
IStack(x, cur, loc, wl, tp, i) ==
    LET nm == tp[i]
        k == Idx(cur[2], nm)
        last == (i = Len(tp))
        up == IF k # 0 \/ wl > 0 THEN <<>> ELSE Encl(x.t, loc, Len(loc) - 1, nm)
    IN IF k = 0 /\ up = <<>> THEN IErr
       ELSE LET m == IF k # 0 THEN cur[2][k][2] ELSE NodeAt(x.t, up)
                l2 == IF k = 0 THEN up ELSE IF wl = 1 THEN x.pre ELSE IF wl > 1 THEN loc ELSE Append(loc, nm)
                w2 == IF wl > 0 THEN wl - 1 ELSE 0
            IN
            IF x.set /\ last THEN (IF IsUp(nm) /\ wl = 0 THEN [k |-> "set", loc |-> l2] ELSE IErr)
            ELSE IF last THEN (IF m[1] = "pkg" \/ IsUp(nm) THEN [k |-> "val", n |-> m, loc |-> l2] ELSE IErr)
            ELSE CASE m[1] = "hash" ->
                        IF ~IsUp(nm) THEN IErr
                        ELSE IHash(x, m, l2, w2, IF x.D1 THEN From(tp, 2) ELSE From(tp, i + 1), 1)
                   [] m[1] = "pkg" -> IStack(x, m, l2, w2, tp, i + 1)
                   [] OTHER -> IErr

IHash(x, cur, loc, wl, tp, i) ==
    LET nm == tp[i]
        k == Idx(cur[2], nm)
        last == (i = Len(tp))
        l2 == IF wl = 1 THEN x.pre ELSE IF wl > 1 THEN loc ELSE Append(loc, nm)
        w2 == IF wl > 0 THEN wl - 1 ELSE 0
    IN IF x.set /\ last THEN (IF wl = 0 THEN [k |-> "set", loc |-> l2] ELSE IErr)   \* HashSet creates a missing key
       ELSE IF k = 0 THEN IErr
       ELSE LET m == cur[2][k][2] IN
            IF last THEN [k |-> "val", n |-> m, loc |-> l2]
            ELSE CASE m[1] = "hash" -> IHash(x, m, l2, w2, tp, i + 1)
                   [] m[1] = "pkg" -> IStack(x, m, l2, w2, IF x.D2 THEN From(tp, 2) ELSE From(tp, i + 1), 1)
                   [] OTHER -> IErr

(* the names an alias kind puts between the alias symbol and the package   *)
WrapNames(kind) == CASE kind = "inpkgU"  -> << <<81, "Q">> >>
                     [] kind = "inpkgl"  -> << <<113, "q">> >>
                     [] kind = "inhash"  -> << <<80, "P">> >>
                     [] kind = "inhash2" -> << <<97, "a">>, <<80, "P">> >>
                     [] OTHER -> <<>>
WrapNode(kind, n) == CASE kind = "inpkgU"  -> <<"pkg",  << <<<<81, "Q">>, n>> >> >>
                       [] kind = "inpkgl"  -> <<"pkg",  << <<<<113, "q">>, n>> >> >>
                       [] kind = "inhash"  -> <<"hash", << <<<<80, "P">>, n>> >> >>
                       [] kind = "inhash2" -> <<"hash", << <<<<97, "a">>, <<"hash", << <<<<80, "P">>, n>> >> >> >> >> >>
                       [] OTHER -> n

(* dotGetSetHelper: look the first segment up, then walk the rest tp with   *)
(* the walker that fits the value found: nk, the value the alias is bound  *)
(* to (pre: its path in t), inside the containers of the alias kind.       *)
ImplWalk(t, kind, nk, pre, rest, set, D1, D2) ==
    LET W == WrapNames(kind)
        start == WrapNode(kind, nk)
        tp == W \o rest
        x == [t |-> t, pre |-> pre, set |-> set, D1 |-> D1, D2 |-> D2]
    IN IF nk = None \/ Len(tp) = 0 THEN IErr
       ELSE CASE start[1] = "pkg"  -> IStack(x, start, pre, Len(W), tp, 1)
              [] start[1] = "hash" -> IHash(x, start, pre, Len(W), tp, 1)
              [] OTHER -> IErr

(* what the walkers with the switches D1, D2 do for the outside access o:  *)
(* [k, n, loc, c] with c the tree afterwards.  Binding the alias to a      *)
(* nested package, (def zp root.a.b), is itself a dot-path read from the   *)
(* root; the alias is bound to whatever that read returns.                 *)
ImplDo(t, o, D1, D2) ==
    LET isw == o.rt \in WriteRoutes
        k == o.al[2]
        ap == AccessPath(o)
        b == IF k = 0 THEN [k |-> "val", n |-> t, loc |-> <<>>]
             ELSE ImplWalk(t, "direct", t, <<>>, SubSeq(o.p, 1, k), FALSE, D1, D2)
        fail == [k |-> "err", n |-> None, loc |-> <<>>, c |-> t]
    IN IF b.k # "val" THEN fail
       ELSE LET r == ImplWalk(t, o.al[1], b.n, b.loc, From(ap, k + 1), isw /\ o.rt # "hset", D1, D2) IN
            CASE r.k = "err" -> fail
              [] r.k = "set" -> [k |-> "set", n |-> None, loc |-> r.loc, c |-> SetAt(t, r.loc, NewVal(o))]
              [] o.rt = "hset" ->
                   IF r.n[1] = "hash"
                   THEN LET l == Append(r.loc, o.p[Len(o.p)]) IN [k |-> "set", n |-> None, loc |-> l, c |-> SetAt(t, l, NewVal(o))]
                   ELSE fail
              [] OTHER -> [k |-> "val", n |-> r.n, loc |-> r.loc, c |-> t]

(* is the recorded result o.res what these walkers produce *)
ImplOut(t, o, D1, D2) ==
    LET d == ImplDo(t, o, D1, D2)
    IN [ok |-> CASE d.k = "err" -> IsErr(o.res)
                 [] d.k = "set" -> o.res[1] = "val"
                 [] OTHER -> Matches(o.res, ExpectRead(o.rt, d.n, o.v)),
        c |-> d.c]
(* A relative dot path resolved where the code of the package at o.fp runs  *)
(* (dotGetSetHelper called while that code is the running function): the   *)
(* first name is looked up in the scopes of that package without any       *)
(* check, the rest is walked by the walkers above.  This is what code of   *)
(* the package does with its own dot paths -- and the defect D3 when the   *)
(* dot path was written outside and arrived as a value.                    *)
ImplRel(t, o) ==
    LET rel == From(o.p, o.c + 1)
        up == Encl(t, o.fp, Len(o.fp), rel[1])
        x == [t |-> t, pre |-> <<>>, set |-> FALSE, D1 |-> FALSE, D2 |-> FALSE]
    IN IF up = <<>> THEN IErr
       ELSE LET m == NodeAt(t, up) IN
            IF Len(rel) = 1 THEN [k |-> "val", n |-> m, loc |-> up]
            ELSE CASE m[1] = "pkg"  -> IStack(x, m, up, 0, rel, 2)
                   [] m[1] = "hash" -> IHash(x, m, up, 0, rel, 2)
                   [] OTHER -> IErr

ImplRelOut(t, o) ==
    LET d == ImplRel(t, o)
    IN [ok |-> IF d.k = "err" THEN NotRead(o.res) ELSE Matches(o.res, Abs(d.n)), c |-> t]
=============================================================================
