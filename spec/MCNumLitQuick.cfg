SPECIFICATION Spec
CONSTANTS
  MaxLen = 3
  Wide = TRUE
INVARIANTS Disjoint Canonical Separators LeadingZeros Negation Bases PointAndExp RangeEdge
CHECK_DEADLOCK FALSE
