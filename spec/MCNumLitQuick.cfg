SPECIFICATION Spec
CONSTANTS
  MaxLen = 4
  Wide = FALSE
INVARIANTS Disjoint Canonical Separators LeadingZeros Negation Bases PointAndExp RangeEdge
CHECK_DEADLOCK FALSE
