----------------------------- MODULE MCRecords -----------------------------
(* Model-checking instances of Records (C17): two struct names, field      *)
(* types {int64, string, float64, []int64, other struct, pointer to        *)
(* struct (other and self)}, value kinds {right type, wrong base type,     *)
(* nil, empty slice, wrong struct, pointer, untypable slice} written to    *)
(* declared and undeclared fields through a direct route, a non-symbol     *)
(* key, a hop through a struct field and a hop through a pointer field;    *)
(* construction, decoding (with and without key order), round trips,       *)
(* pointers kept in a variable (writes and whole-instance assignment       *)
(* through them), whole-instance assignment; redeclaration of both structs *)
(* in between.  All histories up to MaxSteps.                              *)
EXTENDS Records

I64 == <<"base", "int64">>
Str == <<"base", "string">>
F64 == <<"base", "float64">>
SI  == <<"slice", "int64">>

MCNames == {"A", "B"}
MCDefs == [n \in MCNames |->
    IF n = "B"
    THEN { << <<"fa", I64>> >>,
           << <<"fa", Str>>, <<"fb", I64>> >> }
    ELSE { << <<"fa", I64>>, <<"fb", <<"struct", "B">> >>, <<"fp", <<"ptr", "B">> >> >>,
           << <<"fa", SI>>,  <<"fb", F64>>, <<"fp", <<"ptr", "A">> >> >>,
           << <<"fa", Str>> >> }]
MCDefsQuick == [n \in MCNames |->
    IF n = "B"
    THEN { << <<"fa", I64>> >>, << <<"fa", Str>>, <<"fb", I64>> >> }
    ELSE { << <<"fa", I64>>, <<"fb", <<"struct", "B">> >>, <<"fp", <<"ptr", "B">> >> >>,
           << <<"fa", SI>>,  <<"fp", <<"ptr", "A">> >> >> }]
MCBaseVals == { I64, Str, SI, <<"slice", "string">>, <<"eslice">>, <<"nil">>, <<"nilslice">>, F64 }
MCBaseValsQuick == { I64, Str, SI, <<"eslice">>, <<"nil">> }
MCFields == {"fa", "fb", "fp", "zz"}
MCFieldsQuick == {"fa", "fb", "zz"}
MCRoutes == { <<"hset", "", "sym">>, <<"infix", "", "sym">>, <<"strkey", "", "str">>,
              <<"arrow", "fb", "sym">>, <<"pfhset", "fp", "sym">> }
MCRoutesQuick == { <<"hset", "", "sym">>, <<"strkey", "", "str">>,
                   <<"arrow", "fb", "sym">>, <<"pfhset", "fp", "sym">> }
AllDevs == {"decode-error-swallowed", "nonsymbol-key-unchecked", "nil-elem-slice-panics",
            "slice-element-unchecked", "derefset-adopts-definition"}
=============================================================================
