---------------------------- MODULE HashTrace ----------------------------
(***************************************************************************)
(* Trace validation for C14: every line of the trace file is one recorded  *)
(* history of script-level hash operations on one real hash, with the      *)
(* result the real interpreter returned after every step.  Each case is    *)
(* an initial state; TLC steps through its events with HashMap!Apply and   *)
(* compares the predicted result with the recorded one.  The monitor is    *)
(* total: the first event the spec cannot explain ends the case with the   *)
(* verdict "bad" (and the position), every fully explained case ends "ok". *)
(***************************************************************************)
EXTENDS HashMap, Json, IOUtils, TLC

(* parse the trace file once (TLC would otherwise re-evaluate the operator) *)
ASSUME TLCSet(11, ndJsonDeserialize(IOEnv.VERIF_TRACE))
Cases == TLCGet(11)

VARIABLES ci, pos, verdict, kept
tvars == <<content, out, ci, pos, verdict, kept>>

Evs == Cases[ci].evs

(* json/str observations are only defined when every key has a JSON/print  *)
(* spelling the harness can map back; string keys in JSON are C11's statement        *)
Constrained(o, c) ==
    IF o.op = "json" THEN \A i \in 1..Len(c) : c[i][1][1] = "sym"
    ELSE TRUE

TInit == /\ ci \in 1..Len(Cases) /\ pos = 1 /\ verdict = "run"
         /\ content = <<>> /\ out = Nil /\ kept = <<>>

TStep ==
    /\ verdict = "run" /\ pos <= Len(Evs)
    /\ LET e == Evs[pos]
           a == ApplyK(content, kept, e)
           okay == ~Constrained(e, content) \/ NormRes(e, e.res) = a.r
       IN IF okay
          THEN /\ content' = a.c /\ out' = a.r /\ kept' = a.k /\ pos' = pos + 1 /\ UNCHANGED <<ci, verdict>>
          ELSE /\ verdict' = "bad" /\ UNCHANGED <<content, out, ci, pos, kept>>
               /\ PrintT(<<"VERDICT", Cases[ci].id, "bad", pos>>)

TDone ==
    /\ verdict = "run" /\ pos > Len(Evs)
    /\ verdict' = "ok" /\ UNCHANGED <<content, out, ci, pos, kept>>
    /\ PrintT(<<"VERDICT", Cases[ci].id, "ok", pos - 1>>)

TNext == TStep \/ TDone
TSpec == TInit /\ [][TNext]_tvars
=============================================================================
