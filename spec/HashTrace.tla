---------------------------- MODULE HashTrace ----------------------------
(***************************************************************************)
(* Trace validation for C14: every line of the trace file is one recorded  *)
(* history of script-level hash operations on one real hash, with the      *)
(* result the real interpreter returned after every step.  Each case is    *)
(* an initial state; TLC steps through its events with HashMap!Apply and   *)
(* compares the predicted result with the recorded one.  The monitor is    *)
(* total: the first event the spec cannot explain ends the case with the   *)
(* verdict "bad" (and the position), every fully explained case ends "ok", *)
(* a case that needed a named deviation (an open finding, enabled through  *)
(* VERIF_DEVS) ends "known:<id>".                                          *)
(***************************************************************************)
EXTENDS HashMap, Json, IOUtils, TLC, SequencesExt

(* parse the trace file once (TLC would otherwise re-evaluate the operator) *)
ASSUME TLCSet(11, ndJsonDeserialize(IOEnv.VERIF_TRACE))
Cases == TLCGet(11)

AllDevs == {"gofor-stale-binding"}
DevStr == IF "VERIF_DEVS" \in DOMAIN IOEnv THEN IOEnv.VERIF_DEVS ELSE ""
HasDev(d) == ReplaceFirstSubSeq("", d, DevStr) # DevStr
TraceDevs == {d \in AllDevs : HasDev(d)}

VARIABLES ci, pos, verdict, kept, known,
          chrs    \* the codes of the live integer keys that were first spelled as characters
tvars == <<content, out, ci, pos, verdict, kept, known, chrs>>

Evs == Cases[ci].evs

(* json/str observations are only defined when every key has a JSON/print  *)
(* spelling the harness can map back; string keys in JSON are C11's statement        *)
Constrained(o, c) ==
    IF o.op = "json" THEN \A i \in 1..Len(c) : c[i][1][1] = "sym"
    ELSE TRUE

(* A dotted symbol is not one of the key kinds: hget reads it as a path into nested records. *)
(* The hash may refuse an insertion under it (an error, and nothing changes); if it takes    *)
(* it, it is the symbol key of that name and every view must show it (Apply).                *)
Refused(e) == e.op = "hset" /\ e.k[1] = "dsym" /\ e.res[1] = "err"

(* ---- named deviation gofor-stale-binding (an open finding about the real code, used only  *)
(* when it is listed in VERIF_DEVS).  The infix loop binds its targets with def/mdef in the   *)
(* one scope of the whole loop; a name that holds a value of one type is not re-bound to a    *)
(* value of another type: the binding is refused and the refusal ends the loop with an error  *)
(* (since "mdef reports a binding that is refused" for both forms; before, the two-target     *)
(* form went on with the stale binding).  So the loop presents the elements before the first  *)
(* key (two targets: key or value) whose type differs from the first one's -- recorded in the  *)
(* event field "seen" -- and then fails.  The type of a key is that of its spelling at its     *)
(* insertion: 'c' and 99 are one key but values of two types (chrs remembers which).          *)
Spelled(k, cs) == IF k[1] = "int" /\ k[2] \in cs THEN <<"chr", k[2]>> ELSE k
FirstOdd(xs) == IF \E j \in 1..Len(xs) : xs[j][1] # xs[1][1]
                THEN CHOOSE j \in 1..Len(xs) : xs[j][1] # xs[1][1] /\ \A q \in 1..(j-1) : xs[q][1] = xs[1][1]
                ELSE Len(xs) + 1
DevGoFor(c, cs, e) ==
    LET ks == [j \in 1..Len(c) |-> Spelled(c[j][1], cs)]
        vs == [j \in 1..Len(c) |-> c[j][2]]
        fk == FirstOdd(ks)
        fv == FirstOdd(vs)
        m  == IF e.op = "rangego" /\ fv < fk THEN fv ELSE fk     \* the element at which the loop fails
    IN /\ m <= Len(c)
       /\ e.res[1] = "err"
       /\ "seen" \in DOMAIN e
       /\ IF e.op = "rangego"
          THEN [j \in 1..Len(e.seen) |-> <<NK(e.seen[j][1]), e.seen[j][2]>>] = [j \in 1..(m-1) |-> <<c[j][1], c[j][2]>>]
          ELSE [j \in 1..Len(e.seen) |-> NK(e.seen[j])] = [j \in 1..(m-1) |-> c[j][1]]
NextChrs(c, cs, e) ==
    IF e.op = "hset" /\ IndexOf(c, e.k) = 0
    THEN IF UW(e.k)[1] = "chr" THEN cs \cup {UW(e.k)[2]}
         ELSE IF UW(e.k)[1] = "int" THEN cs \ {UW(e.k)[2]} ELSE cs
    ELSE cs

TInit == /\ ci \in 1..Len(Cases) /\ pos = 1 /\ verdict = "run"
         /\ content = <<>> /\ out = Nil /\ kept = <<>> /\ known = "" /\ chrs = {}

TStep ==
    /\ verdict = "run" /\ pos <= Len(Evs)
    /\ LET e == Evs[pos]
           a == IF Refused(e) THEN [c |-> content, k |-> kept, r |-> Err] ELSE ApplyK(content, kept, e)
           obs == NormRes(e, e.res)
           okay == ~Constrained(e, content) \/ obs = a.r
           dev == IF ~okay /\ e.op \in {"rangego", "rangego1"} /\ "gofor-stale-binding" \in TraceDevs
                     /\ DevGoFor(content, chrs, e)
                  THEN "gofor-stale-binding" ELSE ""
       IN IF okay \/ dev # ""
          THEN /\ content' = a.c /\ out' = a.r /\ kept' = a.k /\ pos' = pos + 1 /\ UNCHANGED <<ci, verdict>>
               /\ known' = IF known = "" THEN dev ELSE known
               /\ chrs' = IF Refused(e) THEN chrs ELSE NextChrs(content, chrs, e)
          ELSE /\ verdict' = "bad" /\ UNCHANGED <<content, out, ci, pos, kept, known, chrs>>
               /\ PrintT(<<"VERDICT", Cases[ci].id, "bad", pos>>)

TDone ==
    /\ verdict = "run" /\ pos > Len(Evs)
    /\ verdict' = (IF known = "" THEN "ok" ELSE "known:" \o known)
    /\ UNCHANGED <<content, out, ci, pos, kept, known, chrs>>
    /\ PrintT(<<"VERDICT", Cases[ci].id, IF known = "" THEN "ok" ELSE "known:" \o known, pos - 1>>)

TNext == TStep \/ TDone
TSpec == TInit /\ [][TNext]_tvars
=============================================================================
