SPECIFICATION Spec
CONSTANTS
  Names <- MCNames
  MaxScopes = 5
  MaxFuns = 2
  MaxDepth = 4
  Variant = "code"
INVARIANTS TypeOK Refines NoCallerLeak CapShape CurOwnsTopFn
CHECK_DEADLOCK FALSE
