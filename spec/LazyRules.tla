----------------------------- MODULE LazyRules -----------------------------
(***************************************************************************)
(* C16 stated directly over an abstract record of calls -- the second      *)
(* oracle of the property, next to the reference interpreter ZSem: it      *)
(* covers what ZSem has no notion of (typed func declarations, arguments   *)
(* given by NAME, builder forms such as {infix} inside an argument, a      *)
(* force during a force, a force after a failed force, several             *)
(* evaluations of one interpreter).                                        *)
(*                                                                         *)
(* A case is a program built from instrumented pieces and the sequence of  *)
(* events its host functions recorded.  Static description (written by the *)
(* generator from the program text it emits, never by the library):        *)
(*   funcs[F]  = [params |-> <<[name, lazy]..>>, rest |-> BOOLEAN]         *)
(*               the declared parameters of the function whose body starts *)
(*               with (enter F ..)                                         *)
(*   sites[S]  = [args |-> <<[label, kind, src]..>>]   a call form: its    *)
(*               argument expressions in textual order; label "" =         *)
(*               positional, otherwise the name before the value           *)
(*               (name: value); kind "raw" = not instrumented, "plain" |   *)
(*               "infix" | "decl" = logs its evaluation and has the value   *)
(*               Val(S, i, a), "err" = logs and fails, "reenter" = logs and *)
(*               forces the very promise it belongs to                     *)
(* Events (in the order they happened):                                    *)
(*   <<"site", S, a>>      activation a is about to evaluate call form S   *)
(*   <<"ev", S, i, a>>     the evaluation of argument i of S STARTS; a is  *)
(*                         what the variable `act` denotes where the       *)
(*                         expression is being evaluated (every activation *)
(*                         binds its own number to its local `act`)        *)
(*   <<"enter", F, a, types>>  the body of F starts as activation a;       *)
(*                         types[j] = (type? parameter j)                  *)
(*   <<"pv", a, j, v>>     activation a read its parameter j: value v      *)
(*   <<"fs", a, j>>        (force parameter j) starts in/for activation a  *)
(*   <<"fo", a, j, v>>     that force returned v                           *)
(*   <<"sb", a, j, s>>     (str (substitute parameter j)) = s              *)
(*   <<"end", k>>          one evaluation of the interpreter ended: "val"  *)
(*                         or "err"                                        *)
(*                                                                         *)
(* The rules (Step): relative to the function that ACTUALLY received the   *)
(* call (the enter event), whichever name, alias or tail call led there:   *)
(*   R1 an argument bound to a strict parameter (by position, or by name)  *)
(*      has been evaluated exactly once when the body starts, the          *)
(*      parameter holds its value, never a lazyArg;                        *)
(*   R2 an argument bound to a lazy parameter has not been evaluated when  *)
(*      the body starts and the parameter is a lazyArg;                    *)
(*   R3 its evaluation starts only while a force of it is under way, and   *)
(*      at most once whatever the forces are and however that evaluation   *)
(*      ended (value, error, a force of itself);                           *)
(*   R4 it is evaluated in the caller's lexical environment: `act` there   *)
(*      is the activation that evaluated the call form, the value is the   *)
(*      one the expression has there, and an evaluation that cannot fail   *)
(*      there does not fail;                                               *)
(*   R5 every force returns that one value; substitute returns the source. *)
(***************************************************************************)
EXTENDS Integers, Sequences, FiniteSets, TLC

(* the value of argument expression i of call form S evaluated where `act` = a *)
Val(S, i, a) == S * 10000 + i * 100 + a

Valued == {"plain", "infix", "decl"}      \* kinds whose evaluation yields Val
Failing == {"err", "reenter"}             \* kinds whose evaluation may end in an error

(* the parameter argument i of a call form goes to: 0 = the variadic tail / none *)
ParamOf(FN, ST, i) ==
    LET lab == ST.args[i].label IN
    IF lab = "" THEN (IF i <= Len(FN.params) THEN i ELSE 0)
    ELSE IF \E k \in 1..Len(FN.params) : FN.params[k].name = lab
         THEN CHOOSE k \in 1..Len(FN.params) : FN.params[k].name = lab
         ELSE 0
ArgOf(FN, ST, j) ==
    IF \E i \in 1..Len(ST.args) : ParamOf(FN, ST, i) = j
    THEN CHOOSE i \in 1..Len(ST.args) : ParamOf(FN, ST, i) = j ELSE 0
IsLazyArg(FN, ST, i) == LET p == ParamOf(FN, ST, i) IN p # 0 /\ FN.params[p].lazy

(* the call form supplies what the function takes *)
Fits(FN, ST) ==
    LET n == Len(ST.args) np == Len(FN.params) IN
    IF \E i \in 1..n : ST.args[i].label # ""
    THEN /\ n = np /\ ~FN.rest
         /\ \A i \in 1..n : ParamOf(FN, ST, i) # 0
         /\ \A i, k \in 1..n : i # k => ParamOf(FN, ST, i) # ParamOf(FN, ST, k)
    ELSE IF FN.rest THEN n >= np ELSE n = np

(* ---------------- the monitor ---------------- *)
(* a dynamic call: the call form S evaluated by activation `caller`;       *)
(* status "prep" (arguments being prepared) | "in" (the body of fid runs   *)
(* or ran as activation act) | "dead" (given up by an error);              *)
(* cnt[i] = evaluations started, frc[i] = forces under way,                *)
(* failed[i] = an evaluation of a Failing kind was started                 *)
NewCall(ST, S, a) ==
    [site |-> S, caller |-> a, status |-> "prep", fid |-> 0, act |-> 0,
     cnt |-> [i \in 1..Len(ST.args) |-> 0], frc |-> [i \in 1..Len(ST.args) |-> 0],
     failed |-> [i \in 1..Len(ST.args) |-> FALSE]]

Init0 == [calls |-> <<>>, errok |-> FALSE]

CallIdx(st, S, a) ==
    IF \E c \in 1..Len(st.calls) : st.calls[c].site = S /\ st.calls[c].caller = a
    THEN CHOOSE c \in 1..Len(st.calls) : st.calls[c].site = S /\ st.calls[c].caller = a ELSE 0
LastPrep(st) ==
    IF \E c \in 1..Len(st.calls) : st.calls[c].status = "prep"
    THEN CHOOSE c \in 1..Len(st.calls) : st.calls[c].status = "prep" /\ \A d \in (c+1)..Len(st.calls) : st.calls[d].status # "prep"
    ELSE 0
ByAct(st, a) ==
    IF \E c \in 1..Len(st.calls) : st.calls[c].status = "in" /\ st.calls[c].act = a
    THEN CHOOSE c \in 1..Len(st.calls) : st.calls[c].status = "in" /\ st.calls[c].act = a ELSE 0

(* result of a step: k = "ok" | "bad" (a rule is broken: why) | "undef" (the events are *)
(* not of the shape the generator promises: the case is not judged)                      *)
R(k, why, st) == [k |-> k, why |-> why, st |-> st]

Step(C, st, e) ==
  CASE e[1] = "site" ->
         LET S == e[2] a == e[3] IN
         IF S \notin 1..Len(C.sites) THEN R("undef", "unknown-site", st)
         ELSE IF CallIdx(st, S, a) # 0 THEN R("undef", "site-twice", st)
         ELSE R("ok", "", [st EXCEPT !.calls = Append(@, NewCall(C.sites[S], S, a))])
    [] e[1] = "ev" ->
         LET S == e[2] i == e[3] a == e[4] c == CallIdx(st, S, a) IN
         IF S \notin 1..Len(C.sites) \/ i \notin 1..Len(C.sites[S].args) THEN R("undef", "unknown-arg", st)
         ELSE IF c = 0 THEN R("bad", "env", st)          \* R4: `act` is not an activation that evaluated this call form
         ELSE LET call == st.calls[c] ST == C.sites[S] IN
              IF call.cnt[i] >= 1 THEN R("bad", "twice", st)                                  \* R1 / R3
              ELSE IF call.status # "prep" /\ call.frc[i] = 0 THEN R("bad", "unforced", st)   \* R3
              ELSE LET fl == ST.args[i].kind \in Failing IN
                   R("ok", "", [st EXCEPT !.calls[c].cnt[i] = 1,
                                          !.calls[c].failed[i] = fl,
                                          !.errok = @ \/ fl])
    [] e[1] = "enter" ->
         LET F == e[2] a == e[3] types == e[4] c == LastPrep(st) IN
         IF F \notin 1..Len(C.funcs) THEN R("undef", "unknown-func", st)
         ELSE IF c = 0 THEN R("undef", "enter-without-site", st)
         ELSE LET call == st.calls[c] ST == C.sites[call.site] FN == C.funcs[F] n == Len(ST.args) IN
              IF ~Fits(FN, ST) THEN R("bad", "arity", st)      \* a function was entered with arguments it does not take
              ELSE IF Len(types) # Len(FN.params) THEN R("undef", "types", st)
              ELSE IF \E i \in 1..n : ST.args[i].kind # "raw" /\ IsLazyArg(FN, ST, i) /\ call.cnt[i] # 0
                   THEN R("bad", "eager", st)                  \* R2
              ELSE IF \E i \in 1..n : ST.args[i].kind # "raw" /\ ~IsLazyArg(FN, ST, i) /\ call.cnt[i] # 1
                   THEN R("bad", "unevaluated", st)            \* R1
              ELSE IF \E j \in 1..Len(FN.params) : (types[j] = "lazyArg") # FN.params[j].lazy
                   THEN R("bad", "kind", st)                   \* R1 / R2: what the parameter holds
              ELSE R("ok", "", [st EXCEPT !.calls[c].status = "in", !.calls[c].fid = F, !.calls[c].act = a])
    [] e[1] \in {"pv", "fs", "fo", "sb"} ->
         LET a == e[2] j == e[3] c == ByAct(st, a) IN
         IF c = 0 THEN R("undef", "unknown-activation", st)
         ELSE LET call == st.calls[c] ST == C.sites[call.site] FN == C.funcs[call.fid]
                  i == ArgOf(FN, ST, j) IN
              IF i = 0 \/ ST.args[i].kind = "raw" THEN R("ok", "", st)
              ELSE LET want == <<"int", Val(call.site, i, call.caller)>> IN
               (CASE e[1] = "pv" ->
                       IF ST.args[i].kind \in Valued /\ e[4] # want THEN R("bad", "value", st) ELSE R("ok", "", st)   \* R1, R4
                  [] e[1] = "fs" ->
                       R("ok", "", [st EXCEPT !.calls[c].frc[i] = @ + 1,
                                              !.errok = @ \/ call.failed[i]])   \* a force of a failed promise may fail again
                  [] e[1] = "fo" ->
                       IF call.frc[i] = 0 THEN R("undef", "fo-without-fs", st)
                       ELSE IF FN.params[j].lazy /\ call.cnt[i] # 1 THEN R("bad", "phantom", st)      \* a value without an evaluation
                       ELSE IF ST.args[i].kind \in Valued /\ e[4] # want THEN R("bad", "value", st)    \* R4, R5
                       ELSE R("ok", "", [st EXCEPT !.calls[c].frc[i] = @ - 1])
                  [] e[1] = "sb" ->
                       IF e[4] # ST.args[i].src THEN R("bad", "source", st) ELSE R("ok", "", st))      \* R5
    [] e[1] = "end" ->
         LET k == e[2] IN
         IF k \notin {"val", "err"} THEN R("undef", k, st)
         ELSE IF k = "err" /\ ~st.errok THEN R("bad", "error", st)       \* R4: nothing in the piece can fail where it was written
         ELSE IF k = "val" /\ \E c \in 1..Len(st.calls) : st.calls[c].status = "prep" THEN R("bad", "lost-call", st)
         ELSE R("ok", "", [calls |-> [c \in 1..Len(st.calls) |->
                                         [st.calls[c] EXCEPT !.status = IF @ = "prep" THEN "dead" ELSE @,
                                                             !.frc = [i \in 1..Len(@) |-> 0]]],
                           errok |-> FALSE])
    [] OTHER -> R("undef", "event", st)

(* A whole sequence is judged by applying Step event by event from Init0; the first step  *)
(* that is not ok decides (LazyRulesTrace does this as a state machine, one TLC step per   *)
(* event; MCLazyRules runs the monitor in lock-step with a model of the calls).            *)
=============================================================================
