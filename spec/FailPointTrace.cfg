SPECIFICATION TSpec
CONSTANTS
  Names = {"a"}
  Vers = {"v1"}
  Policy = "journal"
CHECK_DEADLOCK FALSE
