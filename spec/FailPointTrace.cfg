SPECIFICATION TSpec
CONSTANTS
  Names = {"a"}
  Vers = {"v1", "v2"}
  Policy = "journal"
CHECK_DEADLOCK FALSE
