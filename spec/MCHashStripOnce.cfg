SPECIFICATION ISpec
CONSTANTS
  Keys <- MCKeysQuick
  Vals <- MCVals
  Code <- MCCode
  MaxLen = 7
  DelAsPinned = FALSE
  StripOnce = TRUE
INVARIANTS Refines CountAgrees OrderExact NoDupKeys Bounded
PROPERTY LookupPure
CHECK_DEADLOCK FALSE
