---------------------------- MODULE Records ----------------------------
(***************************************************************************)
(* C17 -- Declared struct types are enforced on every write.               *)
(*                                                                         *)
(* "Once a struct type is declared, no operation (construction, field      *)
(* update through functions, dot paths or infix assignment, writes through *)
(* pointers, decoding from JSON/msgpack) can leave an instance with a      *)
(* field that was not declared or with a value whose type differs from the *)
(* field's declared type; nil and the empty slice are accepted where the   *)
(* language says so.  A rejected update reports an error and leaves the    *)
(* instance unchanged, and instances keep the definition that was in force *)
(* when they were created."                                                *)
(*                                                                         *)
(* A typed-record state machine.  The state is                             *)
(*   reg  : struct name |-> sequence of definitions (index = version),     *)
(*          a definition is a function field name |-> declared type;       *)
(*   inst : sequence of instance slots [live, type, ver, f]; f maps keys   *)
(*          to abstract values (only the TYPE of a value matters here).    *)
(*   ptrs : sequence of pointers bound to variables [slot, pv]: the        *)
(*          instance pointed to and the version of its struct that was     *)
(*          current when the pointer was taken.                            *)
(* Operations: declare / redeclare, construct, decode (JSON / msgpack),    *)
(* encode an instance and decode the document again (round trip), write a  *)
(* field (through any route), assign one element of the slice a field      *)
(* holds, take a pointer to an instance and keep it in a variable, assign  *)
(* a whole instance through a pointer (fresh, held in a field, or taken    *)
(* earlier and kept in a variable).                                        *)
(* Every operation is a pure operator Outcomes(st, op): the set of         *)
(* [s |-> next state, r |-> "ok"|"err"|"panic", d |-> deviation id or ""]  *)
(* the property allows.  The model checker (Next) and the trace validator  *)
(* (RecordsTrace) both use exactly this operator.                          *)
(*                                                                         *)
(* What the language says about acceptance (TypeCheckField): nil is        *)
(* accepted by a field of every type; the empty slice by every slice       *)
(* typed field; anything else only by a field of exactly its own type      *)
(* (no numeric conversion).  Field names are symbols: a key that is not a  *)
(* symbol is not a declared field.                                         *)
(*                                                                         *)
(* Where the statement is silent the machine is nondeterministic (both     *)
(* outcomes allowed): a struct or pointer value whose struct NAME matches  *)
(* the declared one while the definition version of the value, the version *)
(* named by the declaration and the current version are not all the same   *)
(* ("is version 1 of Wheel the same type as version 2?").                  *)
(*                                                                         *)
(* Types:  <<"base",t>>  <<"slice",t>>  <<"struct",N,v>>  <<"ptr",N,v>>    *)
(* Values: <<"base",t>>  <<"slice",t>>  <<"eslice">>  <<"nil">>            *)
(*         <<"inst",k>> (the live instance in slot k)  <<"ptr",k>>         *)
(*         <<"anon",N,v>> (a fresh, otherwise unreachable instance of N    *)
(*         made under version v)  <<"aptr",N,v>>  <<"nilslice">> ([nil]:   *)
(*         a slice the language cannot type);  deviations only:            *)
(*         <<"missing">> (a listed key without a value), <<"mslice",t,u>>  *)
(*         (a slice with elements of two types).                           *)
(* Keys:   <<"sym",name>>  <<"str",s>>  <<"int",n>>                        *)
(***************************************************************************)
EXTENDS Integers, Sequences, FiniteSets

CONSTANTS Names,      \* struct names
          Devs        \* enabled named deviations (known defects of the code); {} = the property

EmptyF == [k \in {} |-> <<"nil">>]
(* born = the version under which the instance was created; ver = the      *)
(* version whose definition it is subject to.  The property says ver =     *)
(* born for ever; only deviation derefset-adopts-definition changes ver.   *)
Dead   == [live |-> FALSE, type |-> "", ver |-> 0, born |-> 0, f |-> EmptyF]
InitSt == [reg |-> [n \in Names |-> <<>>], inst |-> <<>>, ptrs |-> <<>>]

Live(st, k)     == k \in 1..Len(st.inst) /\ st.inst[k].live
Declared(st, N) == N \in Names /\ Len(st.reg[N]) > 0
CurVer(st, N)   == Len(st.reg[N])
DefOf(st, i)    == st.reg[i.type][i.ver]

SetField(f, k, v) == [x \in (DOMAIN f) \cup {k} |-> IF x = k THEN v ELSE f[x]]

(* ---- values as written in an operation -> values as stored ---- *)
ValOK(st, v) == CASE v[1] \in {"inst", "ptr"}  -> Live(st, v[2])
                  [] v[1] \in {"anon", "aptr"} -> Declared(st, v[2])
                  [] OTHER -> TRUE
Val(st, v)   == IF v[1] \in {"anon", "aptr"} THEN <<v[1], v[2], CurVer(st, v[2])>> ELSE v
SName(st, v) == IF v[1] \in {"inst", "ptr"} THEN st.inst[v[2]].type ELSE v[2]
SVer(st, v)  == IF v[1] \in {"inst", "ptr"} THEN st.inst[v[2]].ver ELSE v[3]

(* ---- the acceptance relation: "yes" | "no" | "either" ---- *)
Compat(st, dt, v) ==
    CASE v[1] = "nil"    -> "yes"
      [] v[1] = "eslice" -> IF dt[1] = "slice" THEN "yes" ELSE "no"
      [] v[1] \in {"base", "slice"} -> IF dt = v THEN "yes" ELSE "no"
      [] v[1] \in {"inst", "anon"} ->
            IF dt[1] = "struct" /\ dt[2] = SName(st, v)
            THEN IF SVer(st, v) = dt[3] /\ dt[3] = CurVer(st, dt[2]) THEN "yes" ELSE "either"
            ELSE "no"
      [] v[1] \in {"ptr", "aptr"} ->
            IF dt[1] = "ptr" /\ dt[2] = SName(st, v)
            THEN IF SVer(st, v) = dt[3] /\ dt[3] = CurVer(st, dt[2]) THEN "yes" ELSE "either"
            ELSE "no"
      [] OTHER -> "no"

Check(st, def, key, val) ==
    IF key[1] # "sym" THEN "no"
    ELSE IF key[2] \notin DOMAIN def THEN "no"
    ELSE Compat(st, def[key[2]], val)

(* ---- outcomes ---- *)
Out(s, r, d) == [s |-> s, r |-> r, d |-> d]
Err(st)      == Out(st, "err", "")
Unchecked(st) == {Out(st, "ok", ""), Out(st, "err", "")}

(* declare / redeclare: appends a version; earlier versions stay *)
DeclOK(st, o) ==
    /\ o.name \in Names
    /\ \A i, j \in 1..Len(o.fields) : o.fields[i][1] = o.fields[j][1] => i = j
    /\ \A i \in 1..Len(o.fields) :
          LET t == o.fields[i][2] IN
          t[1] \in {"struct", "ptr"} =>
             \/ t[2] = o.name /\ t[1] = "ptr"
             \/ t[2] # o.name /\ Declared(st, t[2])
ResolveT(st, N, t) ==
    IF t[1] \in {"struct", "ptr"}
    THEN <<t[1], t[2], IF t[2] = N THEN CurVer(st, N) + 1 ELSE CurVer(st, t[2])>>
    ELSE t
DefFrom(st, o) ==
    [fn \in {o.fields[j][1] : j \in 1..Len(o.fields)} |->
        LET j == CHOOSE j \in 1..Len(o.fields) : o.fields[j][1] = fn
        IN ResolveT(st, o.name, o.fields[j][2])]
Declare(st, o) ==
    IF ~DeclOK(st, o) THEN {Err(st)}
    ELSE {Out([st EXCEPT !.reg[o.name] = Append(@, DefFrom(st, o))], "ok", "")}

(* building an instance of N from args = << <<field name, value>>, ... >>  *)
(* (distinct field names): all-or-nothing                                  *)
ArgChecks(st, N, args) ==
    [j \in 1..Len(args) |->
        IF ~ValOK(st, args[j][2]) THEN "no"
        ELSE Check(st, st.reg[N][CurVer(st, N)], <<"sym", args[j][1]>>, Val(st, args[j][2]))]
Build(st, N, args) ==
    IF ~Declared(st, N) THEN {"err"}
    ELSE LET c == ArgChecks(st, N, args) IN
         (IF \A j \in 1..Len(args) : c[j] # "no" THEN {"ok"} ELSE {})
         \cup (IF \E j \in 1..Len(args) : c[j] # "yes" THEN {"err"} ELSE {})
ArgsF(st, args) ==
    [k \in {<<"sym", args[j][1]>> : j \in 1..Len(args)} |->
        LET j == CHOOSE j \in 1..Len(args) : args[j][1] = k[2] IN Val(st, args[j][2])]
NewInst(st, N, f) == [live |-> TRUE, type |-> N, ver |-> CurVer(st, N), born |-> CurVer(st, N), f |-> f]
Push(st, i) == [st EXCEPT !.inst = Append(@, i)]

(* every construction attempt takes the next slot; a rejected one leaves it dead *)
Construct(st, o) ==
    { IF b = "ok" THEN Out(Push(st, NewInst(st, o.name, ArgsF(st, o.args))), "ok", "")
                  ELSE Out(Push(st, Dead), "err", "")
      : b \in Build(st, o.name, o.args) }

(* decoding {"Atype":N, fields..., "zKeyOrder":ko}: a construction route.  *)
(* Deviation decode-error-swallowed (code: decodeGoToSexpHelper overwrites *)
(* the MakeHash error when a zKeyOrder member is present): no error, the   *)
(* instance holds the arguments before the first rejected one (the decoder *)
(* presents them in the order of o.args) and lists exactly the keys of ko. *)
SwallowF(st, o, k) ==
    [key \in {<<"sym", o.ko[j]>> : j \in 1..Len(o.ko)} |->
        IF \E j \in 1..(k-1) : o.args[j][1] = key[2]
        THEN LET j == CHOOSE j \in 1..(k-1) : o.args[j][1] = key[2] IN Val(st, o.args[j][2])
        ELSE <<"missing">>]
Decode(st, o) ==
    Construct(st, o) \cup
    (IF "decode-error-swallowed" \in Devs /\ Len(o.ko) > 0 /\ Declared(st, o.name)
     THEN LET c == ArgChecks(st, o.name, o.args) IN
          { Out(Push(st, NewInst(st, o.name, SwallowF(st, o, k))), "ok", "decode-error-swallowed")
            : k \in {k \in 1..Len(o.args) : c[k] # "yes" /\ \A j \in 1..(k-1) : c[j] # "no"} }
     ELSE {})

(* a field write through any route.  o.slot names the variable in the     *)
(* text; o.hop = "" writes to that instance, otherwise to the instance     *)
(* reached through its field o.hop (a struct valued field, or a pointer    *)
(* valued one for the routes in PtrHopRoutes).  Result: 0 = no such        *)
(* instance (an error), -1 = an anonymous instance (not tracked).          *)
PtrHopRoutes == {"pfhset", "pfderef", "pfield"}
(* routes that go through a pointer variable: o.slot is an index of ptrs   *)
PvarRoutes   == {"pvar", "pvhset", "pvderef"}
Target(st, o) ==
    IF o.route \in PvarRoutes
    THEN IF o.slot \in 1..Len(st.ptrs) /\ Live(st, st.ptrs[o.slot].slot) THEN st.ptrs[o.slot].slot ELSE 0
    ELSE IF ~Live(st, o.slot) THEN 0
    ELSE IF o.hop = "" THEN o.slot
    ELSE LET h == st.inst[o.slot]
             key == <<"sym", o.hop>>
             want == IF o.route \in PtrHopRoutes THEN "ptr" ELSE "inst"
             anon == IF o.route \in PtrHopRoutes THEN "aptr" ELSE "anon"
         IN IF key \notin DOMAIN h.f THEN 0
            ELSE IF h.f[key][1] = want THEN h.f[key][2]
            ELSE IF h.f[key][1] = anon THEN -1
            ELSE 0

(* routes on which the code lets a Go panic escape (deviation only) *)
PanicRoutes == {"set", "infix", "nestset", "nestinfix"}

Write(st, o) ==
    LET t == Target(st, o) IN
    IF t = -1 THEN Unchecked(st)
    ELSE IF t = 0 \/ ~ValOK(st, o.v) THEN {Err(st)}
    ELSE LET i   == st.inst[t]
             def == DefOf(st, i)
             val == Val(st, o.v)
             set == [st EXCEPT !.inst[t].f = SetField(@, o.key, val)]
         IN IF o.key[1] # "sym"
            THEN IF "nonsymbol-key-unchecked" \in Devs
                 THEN {Out(set, "ok", "nonsymbol-key-unchecked")}   \* HashSet skips the check
                 ELSE {Err(st)}
            ELSE LET c == Check(st, def, o.key, val) IN
                 IF val[1] = "nilslice" /\ o.key[2] \in DOMAIN def /\ o.route \in PanicRoutes
                    /\ "nil-elem-slice-panics" \in Devs
                 THEN {Out(st, "panic", "nil-elem-slice-panics")}
                 ELSE (IF c # "no"  THEN {Out(set, "ok", "")} ELSE {})
                      \cup (IF c # "yes" THEN {Err(st)} ELSE {})

(* (def p (& x)): a pointer to the instance in o.slot is kept in the next  *)
(* pointer variable (a failed attempt leaves that variable unusable).      *)
NoPtr == [slot |-> 0, pv |-> 0]
Takeptr(st, o) ==
    IF Live(st, o.slot)
    THEN {Out([st EXCEPT !.ptrs = Append(@, [slot |-> o.slot,
                                             pv |-> CurVer(st, st.inst[o.slot].type)])], "ok", "")}
    ELSE {Out([st EXCEPT !.ptrs = Append(@, NoPtr)], "err", "")}

(* (derefSet pointer-to-instance (N args...)): whole-instance assignment;  *)
(* the payload is a fresh instance of N, built under the current version.  *)
(* Accepted only for a target of the same struct AND the same definition:  *)
(* "instances keep the definition that was in force when they were         *)
(* created", so a target made under another definition of N can neither    *)
(* take over the payload's definition nor hold fields its own definition   *)
(* does not declare -- the assignment is refused, whenever and however the *)
(* pointer was obtained.  (Two versions with equal definitions: both       *)
(* outcomes allowed.)  A pointer that is older than the current version of *)
(* N, or that may be, can always be refused.                               *)
(* Deviation derefset-adopts-definition (code: DerefFunction compares the  *)
(* type registered under the name when the pointer was taken with the type *)
(* registered under the payload's name now): a pointer taken after the     *)
(* redeclaration is accepted, the target holds the payload and is from     *)
(* then on subject to the current definition.                              *)
Derefset(st, o) ==
    LET t == Target(st, o)
        b == Build(st, o.name, o.args)
    IN IF t = -1 THEN Unchecked(st)
       ELSE IF t = 0 \/ "ok" \notin b THEN {Err(st)}
       ELSE IF st.inst[t].type # o.name THEN {Err(st)}
       ELSE LET i       == st.inst[t]
                cur     == CurVer(st, o.name)
                fresh   == o.route = "pvar" => st.ptrs[o.slot].pv = cur
                sameDef == st.reg[o.name][i.ver] = st.reg[o.name][cur]
                okS     == [st EXCEPT !.inst[t].f = ArgsF(st, o.args)]
                devS    == [st EXCEPT !.inst[t].f = ArgsF(st, o.args), !.inst[t].ver = cur]
                dev     == "derefset-adopts-definition"
            IN (IF sameDef THEN {Out(okS, "ok", "")} ELSE {})
               \cup (IF ~sameDef /\ dev \in Devs /\ fresh THEN {Out(devS, "ok", dev)} ELSE {})
               \cup (IF "err" \in b \/ i.ver # cur \/ i.born # i.ver \/ ~fresh THEN {Err(st)} ELSE {})

(* (unjson (json x)), (unmsgpack (msgpack x)): the instance in o.slot is    *)
(* encoded and the document decoded again: a construction of the same      *)
(* struct, under the current version, from the fields the instance holds   *)
(* (nested instances come back as fresh ones).  The encodings have no form *)
(* for a pointer.  Where a nested instance was made under an older version *)
(* or holds more than plain values the outcome is left open.               *)
Simple(v) == v[1] \in {"base", "slice", "eslice", "nil"}
RtVal(st, v) ==
    CASE v[1] = "inst" -> <<"anon", st.inst[v[2]].type, CurVer(st, st.inst[v[2]].type)>>
      [] v[1] = "anon" -> <<"anon", v[2], CurVer(st, v[2])>>
      [] OTHER -> v
RtSure(st, v) ==
    CASE v[1] = "inst" -> LET j == st.inst[v[2]] IN
                          j.ver = CurVer(st, j.type) /\ \A k \in DOMAIN j.f : Simple(j.f[k])
      [] v[1] = "anon" -> v[3] = CurVer(st, v[2])
      [] OTHER -> Simple(v)
Roundtrip(st, o) ==
    LET errO == Out(Push(st, Dead), "err", "") IN
    IF ~Live(st, o.slot) THEN {errO}
    ELSE LET i   == st.inst[o.slot]
             def == st.reg[i.type][CurVer(st, i.type)]
             f2  == [k \in DOMAIN i.f |-> RtVal(st, i.f[k])]
             c   == [k \in DOMAIN i.f |->
                        IF f2[k][1] \in {"mslice", "missing"} THEN "either" ELSE Check(st, def, k, f2[k])]
             okO == Out(Push(st, NewInst(st, i.type, f2)), "ok", "")
         IN IF \E k \in DOMAIN i.f : i.f[k][1] \in {"ptr", "aptr"} THEN {errO}
            ELSE (IF \A k \in DOMAIN i.f : c[k] # "no" THEN {okO} ELSE {})
                 \cup (IF \E k \in DOMAIN i.f : c[k] # "yes" \/ ~RtSure(st, i.f[k]) THEN {errO} ELSE {})

(* element assignment into the slice a field holds: {x.f[i] = v},           *)
(* (aset (:f x) i v).  The slice stays a value of the declared type only   *)
(* if the element has the declared element type.  Slices written by the    *)
(* harness have two elements; <<"mslice",t0,t1>> is a slice with elements  *)
(* of two types (deviation slice-element-unchecked only: the code assigns  *)
(* the element without any check).                                         *)
ElemTypes(v)    == IF v[1] = "slice" THEN <<v[2], v[2]>> ELSE <<v[2], v[3]>>
MkSlice(t0, t1) == IF t0 = t1 THEN <<"slice", t0>> ELSE <<"mslice", t0, t1>>
Elem(st, o) ==
    IF ~Live(st, o.slot) THEN {Err(st)}
    ELSE LET i   == st.inst[o.slot]
             key == <<"sym", o.field>>
         IN IF key \notin DOMAIN i.f THEN {Err(st)}
            ELSE IF i.f[key][1] \notin {"slice", "mslice"} THEN {Err(st)}   \* nothing to index
            ELSE LET cur == ElemTypes(i.f[key])
                     new == [cur EXCEPT ![o.idx + 1] = o.v[2]]
                     set == [st EXCEPT !.inst[o.slot].f[key] = MkSlice(new[1], new[2])]
                     def == DefOf(st, i)
                 IN IF o.field \in DOMAIN def /\ def[o.field] = <<"slice", o.v[2]>>
                    THEN {Out(set, "ok", "")}
                    ELSE IF "slice-element-unchecked" \in Devs
                    THEN {Out(set, "ok", "slice-element-unchecked")}
                    ELSE {Err(st)}

Outcomes(st, o) ==
    CASE o.op = "declare"   -> Declare(st, o)
      [] o.op = "construct" -> Construct(st, o)
      [] o.op = "decode"    -> Decode(st, o)
      [] o.op = "write"     -> Write(st, o)
      [] o.op = "derefset"  -> Derefset(st, o)
      [] o.op = "takeptr"   -> Takeptr(st, o)
      [] o.op = "roundtrip" -> Roundtrip(st, o)
      [] o.op = "elem"      -> Elem(st, o)

(* ---- what the property says, as predicates on the machine ---- *)
WellTypedSt(st) ==
    \A k \in 1..Len(st.inst) :
        st.inst[k].live =>
            LET i == st.inst[k] IN
            \A key \in DOMAIN i.f : Check(st, DefOf(st, i), key, i.f[key]) # "no"

LiveView(s) == {<<k, s.inst[k]>> : k \in {k \in 1..Len(s.inst) : s.inst[k].live}}

(* ---- the state machine, for exhaustive exploration ---- *)
CONSTANTS DefPalette,   \* [Names -> set of field lists]
          BaseVals,     \* values that need no instance
          FieldNames,   \* field names tried in writes / constructions (declared or not)
          Routes,       \* <<route, hop, key kind>> triples tried
          MaxSlots, MaxPtrs, MaxVer, MaxSteps
VARIABLES st, res, steps
vars == <<st, res, steps>>

Vals(s) == BaseVals
           \cup {<<"anon", n>> : n \in Names} \cup {<<"aptr", n>> : n \in Names}
           \cup {<<"inst", k>> : k \in 1..Len(s.inst)} \cup {<<"ptr", k>> : k \in 1..Len(s.inst)}
Arg1(s) == {<<>>} \cup {<< <<fn, v>> >> : fn \in FieldNames, v \in Vals(s)}

Ops(s) ==
    UNION {{[op |-> "declare", name |-> n, fields |-> d] : d \in DefPalette[n]}
             : n \in {n \in Names : CurVer(s, n) < MaxVer}}
    \cup (IF Len(s.inst) < MaxSlots
          THEN [op : {"construct"}, name : Names, args : Arg1(s)]
               \cup [op : {"decode"}, name : Names, args : Arg1(s), ko : {<<>>}]
               \cup {[op |-> "decode", name |-> n, args |-> << <<p[1], v>>, <<p[2], w>> >>, ko |-> <<p[2], p[1]>>] :
                        n \in Names, p \in {q \in FieldNames \X FieldNames : q[1] # q[2]},
                        v \in BaseVals, w \in BaseVals}
          ELSE {})
    \cup {[op |-> "write", route |-> r[1], hop |-> r[2], slot |-> k, key |-> <<r[3], fn>>, v |-> v] :
             r \in Routes, k \in 1..Len(s.inst), fn \in FieldNames, v \in Vals(s)}
    \cup {[op |-> "elem", route |-> "aset", slot |-> k, field |-> fn, idx |-> ix, v |-> v] :
             k \in 1..Len(s.inst), fn \in FieldNames, ix \in {0, 1},
             v \in {v \in BaseVals : v[1] = "base"}}
    \cup {[op |-> "derefset", route |-> r[1], hop |-> r[2], slot |-> k, name |-> n, args |-> a] :
             r \in {<<"addr", "">>, <<"pfield", "fp">>}, k \in 1..Len(s.inst), n \in Names, a \in Arg1(s)}
    \cup (IF Len(s.inst) < MaxSlots
          THEN {[op |-> "roundtrip", codec |-> "json", slot |-> k] : k \in 1..Len(s.inst)} ELSE {})
    \cup (IF Len(s.ptrs) < MaxPtrs
          THEN {[op |-> "takeptr", slot |-> k] : k \in 1..Len(s.inst)} ELSE {})
    \cup {[op |-> "derefset", route |-> "pvar", hop |-> "", slot |-> j, name |-> n, args |-> a] :
             j \in 1..Len(s.ptrs), n \in Names, a \in Arg1(s)}
    \cup {[op |-> "write", route |-> "pvhset", hop |-> "", slot |-> j, key |-> <<"sym", fn>>, v |-> v] :
             j \in 1..Len(s.ptrs), fn \in FieldNames, v \in Vals(s)}

Init == st = InitSt /\ res = "ok" /\ steps = 0
Next == /\ steps < MaxSteps
        /\ \E o \in Ops(st) : \E out \in Outcomes(st, o) :
              st' = out.s /\ res' = out.r /\ steps' = steps + 1
Spec == Init /\ [][Next]_vars

(* invariant: no live instance ever has an undeclared field or a value of  *)
(* another type than declared (holds iff Devs = {})                        *)
WellTyped == WellTypedSt(st)
(* a step that is not accepted changes no instance and no definition *)
RejectedUnchanged == [][res' # "ok" => LiveView(st') = LiveView(st) /\ st'.reg = st.reg]_vars
(* instances stay alive, keep their struct and keep their definition;      *)
(* definitions are never altered, only superseded; a pointer variable      *)
(* keeps pointing to the same instance                                     *)
KeepsDefinition ==
    [][/\ \A k \in 1..Len(st.inst) : st.inst[k].live =>
             /\ st'.inst[k].live /\ st'.inst[k].type = st.inst[k].type
             /\ st'.inst[k].ver = st.inst[k].ver /\ st'.inst[k].born = st.inst[k].ver
       /\ \A n \in Names : /\ Len(st'.reg[n]) >= Len(st.reg[n])
                           /\ SubSeq(st'.reg[n], 1, Len(st.reg[n])) = st.reg[n]
       /\ SubSeq(st'.ptrs, 1, Len(st.ptrs)) = st.ptrs]_vars
=============================================================================
