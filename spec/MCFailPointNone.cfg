SPECIFICATION MCSpec
CONSTANTS
  Names = {"a", "b"}
  Vers = {"v1", "v2"}
  Policy = "none"
  MaxLen = 2
INVARIANTS Refines Law
CHECK_DEADLOCK FALSE
