SPECIFICATION Spec
CONSTANTS
  MaxOps = 1
  MaxStmts = 3
  UniqLen = 0
  Devs = {}
INVARIANTS Agree Valid
CHECK_DEADLOCK FALSE
