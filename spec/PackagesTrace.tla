---------------------------- MODULE PackagesTrace ----------------------------
(***************************************************************************)
(* Trace validation for C18.  Every line of the trace file is one package  *)
(* tree built on a real interpreter (field tree) and a sequence of events  *)
(* recorded by the harness (zv packages): accesses from outside through a  *)
(* route and an alias, and calls of accessor functions defined inside the  *)
(* packages, each with the value / error the interpreter returned.  Each   *)
(* case is an initial state; TLC steps through the events with             *)
(* Packages!Apply, which says whether the recorded result is admitted and  *)
(* what the tree is afterwards.                                            *)
(*                                                                         *)
(* Named deviations (enabled by their id in VERIF_DEVS): an event that     *)
(* the specification rejects but that is exactly what the walkers of the   *)
(* pinned code do (Packages!ImplOut with the switch of that defect) is     *)
(* stepped over with the tree the walkers leave; the case then ends        *)
(* "known:<id>".                                                           *)
(*   stack-walker-restarts-hash-path     Stack.nestedPathGetSet hands      *)
(*        dotpaths[1:] instead of dotpaths[i+1:] to the hash walker        *)
(*   hash-walker-restarts-package-path   SexpHash.nestedPathGetSet hands   *)
(*        dotpaths[1:] instead of dotpaths[i+1:] to the package walker     *)
(*   hash-keys-unchecked  (only with KeyRule = "no") a non-capitalised     *)
(*        key of a visible hash member is readable / assignable            *)
(***************************************************************************)
EXTENDS Packages, Json, IOUtils, TLC, SequencesExt

Cases == ndJsonDeserialize(IOEnv.VERIF_TRACE)

DevList == "," \o (IF "VERIF_DEVS" \in DOMAIN IOEnv THEN IOEnv.VERIF_DEVS ELSE "") \o ","
Enabled(d) == ReplaceFirstSubSeq("", "," \o d \o ",", DevList) # DevList

IdD1 == "stack-walker-restarts-hash-path"
IdD2 == "hash-walker-restarts-package-path"
IdKeys == "hash-keys-unchecked"
DevD1 == Enabled(IdD1)
DevD2 == Enabled(IdD2)
DevKeys == Enabled(IdKeys)

VARIABLES ci, pos, tree, dev, verdict
tvars == <<ci, pos, tree, dev, verdict>>

Evs == Cases[ci].evs

(* the tree is loaded by the first transition (TLC computes initial states *)
(* sequentially; loading there serialises the whole run)                   *)
TInit == /\ ci \in 1..Len(Cases) /\ pos = 0 /\ verdict = "run" /\ dev = "none"
         /\ tree = None

TLoad == /\ verdict = "run" /\ pos = 0
         /\ tree' = Cases[ci].tree /\ pos' = 1 /\ UNCHANGED <<ci, dev, verdict>>

(* the deviations that explain event e in tree t: <<id, tree afterwards>>  *)
Explained(t, e) ==
    IF e.op # "out" THEN <<"none", t>>
    ELSE LET a == IF DevD1 THEN ImplOut(t, e, TRUE, FALSE) ELSE [ok |-> FALSE, c |-> t]
             b == IF DevD2 THEN ImplOut(t, e, FALSE, TRUE) ELSE [ok |-> FALSE, c |-> t]
             ab == IF DevD1 /\ DevD2 THEN ImplOut(t, e, TRUE, TRUE) ELSE [ok |-> FALSE, c |-> t]
             ky == IF DevKeys /\ KeyRule = "no" THEN ImplOut(t, e, FALSE, FALSE) ELSE [ok |-> FALSE, c |-> t]
         IN CASE a.ok -> <<IdD1, a.c>>
              [] b.ok -> <<IdD2, b.c>>
              [] ab.ok -> <<IdD1, ab.c>>
              [] ky.ok -> <<IdKeys, ky.c>>
              [] OTHER -> <<"none", t>>

TStep ==
    /\ verdict = "run" /\ pos >= 1 /\ pos <= Len(Evs)
    /\ LET e == Evs[pos]
           a == Apply(tree, e)
       IN IF a.ok
          THEN /\ tree' = a.c /\ pos' = pos + 1 /\ UNCHANGED <<ci, verdict, dev>>
          ELSE LET x == Explained(tree, e) IN
               IF x[1] # "none"
               THEN /\ tree' = x[2] /\ pos' = pos + 1 /\ dev' = (IF dev = "none" THEN x[1] ELSE dev)
                    /\ UNCHANGED <<ci, verdict>>
               ELSE /\ verdict' = "bad" /\ UNCHANGED <<ci, pos, tree, dev>>
                    /\ PrintT(<<"VERDICT", Cases[ci].id, "bad", pos>>)

TDone ==
    /\ verdict = "run" /\ pos > Len(Evs)
    /\ verdict' = "ok" /\ UNCHANGED <<ci, pos, tree, dev>>
    /\ PrintT(<<"VERDICT", Cases[ci].id, IF dev = "none" THEN "ok" ELSE "known:" \o dev, pos - 1>>)

TNext == TLoad \/ TStep \/ TDone
TSpec == TInit /\ [][TNext]_tvars
=============================================================================
