---------------------------- MODULE PackagesTrace ----------------------------
(***************************************************************************)
(* Trace validation for C18.  Every line of the trace file is one package  *)
(* tree built on a real interpreter (field tree) and a sequence of events  *)
(* recorded by the harness (zv packages): accesses from outside through a  *)
(* route and an alias, and calls of accessor functions defined inside the  *)
(* packages, each with the value / error the interpreter returned.  Each   *)
(* case is an initial state; TLC steps through the events with             *)
(* Packages!Apply, which says whether the recorded result is admitted and  *)
(* what the tree is afterwards.                                            *)
(*                                                                         *)
(* Named deviations (enabled by their id in VERIF_DEVS): an event that     *)
(* the specification rejects but that is exactly what the walkers of the   *)
(* pinned code do (Packages!ImplOut with the switch of that defect) is     *)
(* stepped over with the tree the walkers leave; the case then ends        *)
(* "known:<id>".                                                           *)
(*   stack-walker-restarts-hash-path     Stack.nestedPathGetSet hands      *)
(*        dotpaths[1:] instead of dotpaths[i+1:] to the hash walker        *)
(*   hash-walker-restarts-package-path   SexpHash.nestedPathGetSet hands   *)
(*        dotpaths[1:] instead of dotpaths[i+1:] to the package walker     *)
(*   hash-keys-unchecked  (only with KeyRule = "no") a non-capitalised     *)
(*        key of a visible hash member is readable / assignable            *)
(*   dot-symbol-data-resolved-inside   a dot path that outside code hands  *)
(*        to code of the package as DATA (returned by a callback, element  *)
(*        of an array / list / hash argument) is dereferenced when that    *)
(*        code binds it, in the scope of the package (Packages!ImplRel)    *)
(***************************************************************************)
EXTENDS Packages, Json, IOUtils, TLC, SequencesExt

(* parsed once by the main thread and handed to the workers through a TLC  *)
(* register (a plain definition is re-evaluated by every worker)           *)
ASSUME TLCSet(1, ndJsonDeserialize(IOEnv.VERIF_TRACE))
Cases == TLCGet(1)

DevList == "," \o (IF "VERIF_DEVS" \in DOMAIN IOEnv THEN IOEnv.VERIF_DEVS ELSE "") \o ","
Enabled(d) == ReplaceFirstSubSeq("", "," \o d \o ",", DevList) # DevList

IdD1 == "stack-walker-restarts-hash-path"
IdD2 == "hash-walker-restarts-package-path"
IdKeys == "hash-keys-unchecked"
IdRel == "dot-symbol-data-resolved-inside"
DevD1 == Enabled(IdD1)
DevD2 == Enabled(IdD2)
DevKeys == Enabled(IdKeys)
DevRel == Enabled(IdRel)

VARIABLES ci, pos, tree, dev, verdict
tvars == <<ci, pos, tree, dev, verdict>>

Evs == Cases[ci].evs

(* the tree is loaded by the first transition (TLC computes initial states *)
(* sequentially; loading there serialises the whole run)                   *)
TInit == /\ ci \in 1..Len(Cases) /\ pos = 0 /\ verdict = "run" /\ dev = "none"
         /\ tree = None

TLoad == /\ verdict = "run" /\ pos = 0
         /\ tree' = Cases[ci].tree /\ pos' = 1 /\ UNCHANGED <<ci, dev, verdict>>

(* A write is followed by a read of the member from inside its package    *)
(* (readback): of the trees that the specification and the deviations     *)
(* predict after the write, the one that the readback confirms is taken.  *)
Confirms(c, e, nxt) ==
    \/ e.op # "out" \/ e.rt \notin WriteRoutes
    \/ nxt.op # "in" \/ nxt.mode # "rd"
    \/ ApplyIn(c, nxt).ok

(* the deviations that explain event e in tree t: <<id, tree afterwards>>  *)
Explained(t, e, nxt) ==
    IF e.op = "rel"
    THEN (IF DevRel /\ e.rt \in DataRoutes /\ ImplRelOut(t, e).ok THEN <<IdRel, t>> ELSE <<"none", t>>)
    ELSE IF e.op # "out" THEN <<"none", t>>
    ELSE LET no == [ok |-> FALSE, c |-> t]
             a == IF DevD1 THEN ImplOut(t, e, TRUE, FALSE) ELSE no
             b == IF DevD2 THEN ImplOut(t, e, FALSE, TRUE) ELSE no
             ab == IF DevD1 /\ DevD2 THEN ImplOut(t, e, TRUE, TRUE) ELSE no
             ky == IF DevKeys /\ KeyRule = "no" THEN ImplOut(t, e, FALSE, FALSE) ELSE no
         IN CASE a.ok /\ Confirms(a.c, e, nxt) -> <<IdD1, a.c>>
              [] b.ok /\ Confirms(b.c, e, nxt) -> <<IdD2, b.c>>
              [] ab.ok /\ Confirms(ab.c, e, nxt) -> <<IdD1, ab.c>>
              [] ky.ok /\ Confirms(ky.c, e, nxt) -> <<IdKeys, ky.c>>
              [] OTHER -> <<"none", t>>

TStep ==
    /\ verdict = "run" /\ pos >= 1 /\ pos <= Len(Evs)
    /\ LET e == Evs[pos]
           nxt == IF pos < Len(Evs) THEN Evs[pos + 1] ELSE [op |-> "none"]
           a == Apply(tree, e)
           x == IF a.ok /\ Confirms(a.c, e, nxt) THEN <<"none", tree>> ELSE Explained(tree, e, nxt)
           (* where the statement is silent ("any") an assignment that reports   *)
           (* success either took effect or did not: the readback decides         *)
           keep == /\ a.ok /\ a.vis = "any" /\ e.op = "out" /\ e.rt \in WriteRoutes
                   /\ ~Confirms(a.c, e, nxt) /\ Confirms(tree, e, nxt)
       IN IF x[1] # "none"
          THEN /\ tree' = x[2] /\ pos' = pos + 1 /\ dev' = (IF dev = "none" THEN x[1] ELSE dev)
               /\ UNCHANGED <<ci, verdict>>
          ELSE IF a.ok
          THEN /\ tree' = (IF keep THEN tree ELSE a.c) /\ pos' = pos + 1 /\ UNCHANGED <<ci, verdict, dev>>
          ELSE /\ verdict' = "bad" /\ UNCHANGED <<ci, pos, tree, dev>>
               /\ PrintT(<<"VERDICT", Cases[ci].id, "bad", pos>>)

TDone ==
    /\ verdict = "run" /\ pos > Len(Evs)
    /\ verdict' = "ok" /\ UNCHANGED <<ci, pos, tree, dev>>
    /\ PrintT(<<"VERDICT", Cases[ci].id, IF dev = "none" THEN "ok" ELSE "known:" \o dev, pos - 1>>)

TNext == TLoad \/ TStep \/ TDone
TSpec == TInit /\ [][TNext]_tvars
=============================================================================
