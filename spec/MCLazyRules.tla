---------------------------- MODULE MCLazyRules ----------------------------
(***************************************************************************)
(* Design audit of LazyRules: a small model of ONE call -- every mask of   *)
(* lazy/strict parameters up to MaxN, arguments given by position or by    *)
(* name in every order, argument expressions that succeed, fail, or force  *)
(* their own promise -- that behaves as C16 requires and produces the      *)
(* events the instrumented programs produce, with the monitor (Step) run   *)
(* in lock-step:                                                           *)
(*   Sound      the monitor accepts every behaviour of the model as it is  *)
(*              (mut = "none"): the rules demand nothing a correct          *)
(*              interpreter does not do;                                   *)
(*   Sensitive  (POSTCONDITION) for every seeded deviation of the model    *)
(*              (Muts) some behaviour is rejected: the rules see an eager  *)
(*              lazy argument, a wrapped strict one, laziness decided by   *)
(*              the position of a named argument, a second evaluation      *)
(*              after a value / after a failure / during the evaluation,   *)
(*              and an evaluation in the callee's environment.             *)
(* Run with one worker (the registers of TLCSet are per worker).           *)
(***************************************************************************)
EXTENDS LazyRules

CONSTANTS MaxN, MaxForces, Muts

AllMuts == <<"none", "eager", "wrap", "bypos", "nomemo", "refail", "renest", "wrongenv">>
Idx(m) == 20 + CHOOSE i \in 1..Len(AllMuts) : AllMuts[i] = m
ASSUME \A i \in 1..Len(AllMuts) : TLCSet(20 + i, FALSE)

VARIABLES cfg, mut, ph, k, pst, used, nf, q, mon
vars == <<cfg, mut, ph, k, pst, used, nf, q, mon>>

Names == <<"a", "#b", "c">>
Perms(n) == {f \in [1..n -> 1..n] : \A i, j \in 1..n : i # j => f[i] # f[j]}

np == Len(cfg.mask)
ArgFor(j) == CHOOSE i \in 1..np : cfg.ord[i] = j
(* how this interpreter treats argument i: the rule, or a seeded deviation *)
LZ(i) ==
    CASE mut = "eager" -> FALSE
      [] mut = "wrap"  -> TRUE
      [] mut = "bypos" /\ cfg.named -> (2 * i <= np /\ cfg.mask[2 * i])   \* by the position of the element, labels counted
      [] OTHER -> cfg.mask[cfg.ord[i]]

(* the static description of the call, as the harness writes it for a program *)
MkStatic(mask, named, ord, kind) ==
    LET n == Len(mask) IN
    [funcs |-> << [params |-> [j \in 1..n |-> [name |-> Names[j], lazy |-> mask[j]]], rest |-> FALSE] >>,
     sites |-> << [args |-> [i \in 1..n |-> [label |-> IF named THEN Names[ord[i]] ELSE "",
                                              kind |-> kind[i], src |-> "s"]]] >>]
Static == cfg.static

(* the events of an action are queued and handed to the monitor one at a time; mon = [k, why, st] *)
Emit(evs) == q = <<>> /\ q' = evs /\ UNCHANGED mon
Deliver == /\ q # <<>> /\ mon.k = "ok"
           /\ LET r == Step(Static, mon.st, Head(q)) IN
              /\ mon' = [k |-> r.k, why |-> r.why, st |-> r.st]
              /\ (r.k = "bad" => TLCSet(Idx(mut), TRUE))
           /\ q' = Tail(q)
           /\ UNCHANGED <<cfg, mut, ph, k, pst, used, nf>>

Init == /\ mut \in Muts
        /\ \E n \in 1..MaxN : \E mask \in [1..n -> BOOLEAN] : \E named \in BOOLEAN :
             \E ord \in (IF named THEN Perms(n) ELSE {[i \in 1..n |-> i]}) :
             \E kind \in [1..n -> {"plain", "err", "reenter"}] :
                /\ \A i \in 1..n : kind[i] = "reenter" => mask[ord[i]]
                /\ cfg = [mask |-> mask, named |-> named, ord |-> ord, kind |-> kind,
                           static |-> MkStatic(mask, named, ord, kind)]
                /\ pst = [i \in 1..n |-> "new"]
        /\ ph = "start" /\ k = 1 /\ used = {} /\ nf = 0
        /\ q = <<>> /\ mon = [k |-> "ok", why |-> "", st |-> Init0]

Site == /\ ph = "start"
        /\ Emit(<< <<"site", 1, 0>> >>)
        /\ ph' = "prep"
        /\ UNCHANGED <<cfg, mut, k, pst, used, nf>>

(* arguments are prepared left to right: lazy ones wrapped, the others evaluated *)
Prep == /\ ph = "prep" /\ k <= np
        /\ IF LZ(k)
           THEN /\ q = <<>> /\ k' = k + 1 /\ UNCHANGED <<ph, pst, q, mon>>
           ELSE IF cfg.kind[k] = "plain"
                THEN /\ Emit(<< <<"ev", 1, k, 0>> >>)
                     /\ pst' = [pst EXCEPT ![k] = "done"] /\ k' = k + 1 /\ UNCHANGED ph
                ELSE /\ Emit(<< <<"ev", 1, k, 0>>, <<"end", "err">> >>)      \* the call is given up
                     /\ ph' = "over" /\ UNCHANGED <<k, pst>>
        /\ UNCHANGED <<cfg, mut, used, nf>>

Enter == /\ ph = "prep" /\ k > np
         /\ Emit(<< <<"enter", 1, 1, [j \in 1..np |-> IF LZ(ArgFor(j)) THEN "lazyArg" ELSE "int64"]>> >>)
         /\ ph' = "body"
         /\ UNCHANGED <<cfg, mut, k, pst, used, nf>>

ReadStrict(j) ==
    /\ ph = "body" /\ ~cfg.mask[j] /\ j \notin used
    /\ LET i == ArgFor(j) IN
       Emit(<< <<"pv", 1, j, IF LZ(i) THEN <<"lazy">> ELSE <<"int", Val(1, i, 0)>> >> >>)
    /\ used' = used \cup {j}
    /\ UNCHANGED <<cfg, mut, ph, k, pst, nf>>

Subst(j) ==
    /\ ph = "body" /\ cfg.mask[j] /\ nf < MaxForces
    /\ Emit(<< <<"sb", 1, j, "s">> >>)
    /\ nf' = nf + 1
    /\ UNCHANGED <<cfg, mut, ph, k, pst, used>>

(* one evaluation of the interpreter ends; later ones force the stored promises from the top level *)
EndPiece == /\ ph = "body"
            /\ Emit(<< <<"end", "val">> >>)
            /\ ph' = "idle"
            /\ UNCHANGED <<cfg, mut, k, pst, used, nf>>

Force(j) ==
    /\ ph \in {"body", "idle"} /\ cfg.mask[j] /\ nf < MaxForces
    /\ nf' = nf + 1
    /\ LET i == ArgFor(j)
           a == IF mut = "wrongenv" THEN 1 ELSE 0
           fs == <<"fs", 1, j>>
           ev == <<"ev", 1, i, a>>
           fo(v) == <<"fo", 1, j, <<"int", v>> >>
           close == IF ph = "idle" THEN << <<"end", "val">> >> ELSE <<>>
           fail == << <<"end", "err">> >>
       IN
       CASE ~LZ(i) ->                        \* (deviation) the parameter holds a value
              /\ Emit(<<fs, fo(Val(1, i, 0))>> \o close) /\ UNCHANGED <<pst, ph>>
         [] LZ(i) /\ pst[i] = "done" ->      \* the one value again
              /\ Emit(<<fs>> \o (IF mut = "nomemo" THEN <<ev>> ELSE <<>>) \o <<fo(Val(1, i, a))>> \o close)
              /\ UNCHANGED <<pst, ph>>
         [] LZ(i) /\ pst[i] = "failed" ->    \* refused, or the same failure: no new evaluation
              /\ Emit(<<fs>> \o (IF mut = "refail" THEN <<ev>> ELSE <<>>) \o fail)
              /\ ph' = "idle" /\ UNCHANGED pst
         [] LZ(i) /\ pst[i] = "new" /\ cfg.kind[i] = "plain" ->
              /\ Emit(<<fs, ev, fo(Val(1, i, a))>> \o close)
              /\ pst' = [pst EXCEPT ![i] = "done"] /\ UNCHANGED ph
         [] LZ(i) /\ pst[i] = "new" /\ cfg.kind[i] = "err" ->
              /\ Emit(<<fs, ev>> \o fail)
              /\ pst' = [pst EXCEPT ![i] = "failed"] /\ ph' = "idle"
         [] LZ(i) /\ pst[i] = "new" /\ cfg.kind[i] = "reenter" ->
              (* the expression forces the promise it belongs to: refused *)
              /\ Emit(<<fs, ev, fs>> \o (IF mut = "renest" THEN <<ev>> ELSE <<>>) \o fail)
              /\ pst' = [pst EXCEPT ![i] = "failed"] /\ ph' = "idle"
    /\ UNCHANGED <<cfg, mut, k, used>>

Next == \/ Deliver \/ Site \/ Prep \/ Enter \/ EndPiece
        \/ \E j \in 1..np : ReadStrict(j) \/ Subst(j) \/ Force(j)

Spec == Init /\ [][Next]_vars

Sound == mut = "none" => mon.k = "ok"
Sensitive == \A m \in Muts \ {"none"} : TLCGet(Idx(m))
=============================================================================
