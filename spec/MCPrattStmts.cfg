SPECIFICATION Spec
CONSTANTS
  MaxOps = 3
  MaxStmts = 2
  UniqLen = 0
  Devs = {}
INVARIANTS Agree Valid
CHECK_DEADLOCK FALSE
