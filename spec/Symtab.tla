----------------------------- MODULE Symtab -----------------------------
(***************************************************************************)
(* C19 -- Symbols are interned consistently across interpreters sharing a  *)
(* table.                                                                  *)
(*                                                                         *)
(* "Two symbols are equal exactly when their names are equal: the same     *)
(* name always yields the same symbol and different names never yield      *)
(* equal symbols, in the original interpreter and in every duplicate or    *)
(* clone made from it, in any order of creation.  A generated symbol is    *)
(* different from every symbol that exists when it is generated and from   *)
(* every other generated symbol, whatever names scripts have interned      *)
(* before."                                                                *)
(*                                                                         *)
(* Implementation-shaped: a family of interpreters (members) shares        *)
(* symtable/revsymtable; nextsymbol is per member and is copied by         *)
(* Duplicate/Clone (zygo/environment.go MakeSymbol, GenSymbol, Duplicate,  *)
(* Clone).  Names are pairs <<prefix, k>>: k = -1 for a plain name, k >= 0 *)
(* for a name shaped like a generated one (prefix followed by digits).     *)
(* GenAsPinned = TRUE models GenSymbol of the pinned commit (name built    *)
(* from the counter without consulting the table) -- a named deviation     *)
(* that TLC must refute.                                                   *)
(***************************************************************************)
EXTENDS Integers, FiniteSets, Sequences, TLC

CONSTANTS Members,      \* possible family members, e.g. {1,2,3}
          Plain,        \* plain names, e.g. {"a","b"}
          Prefixes,     \* gensym prefixes
          MaxNum,       \* bound on symbol numbers (model checking only)
          GenAsPinned

VARIABLES symtable,     \* name -> number   (shared)
          next,         \* member -> counter (member \notin DOMAIN next: not created yet)
          gen,          \* set of names returned by Gensym so far
          last          \* observation of the last step: [op, name, num, fresh]

vars == <<symtable, next, gen, last>>

Names == {<<p, -1>> : p \in Plain} \cup {<<p, k>> : p \in Prefixes, k \in 0..MaxNum}
Used  == {symtable[n] : n \in DOMAIN symtable}

(* MakeSymbol: look the name up; else skip numbers already used, assign, advance *)
FirstFree(from) == CHOOSE n \in from..(from + Cardinality(Used) + 1) :
                       n \notin Used /\ \A j \in from..(n-1) : j \in Used
InternResult(m, name) ==
    IF name \in DOMAIN symtable
    THEN [tab |-> symtable, nx |-> next[m], num |-> symtable[name]]
    ELSE LET n == FirstFree(next[m]) IN
         [tab |-> [x \in DOMAIN symtable \cup {name} |-> IF x = name THEN n ELSE symtable[x]],
          nx |-> n + 1, num |-> n]

Intern(m, name) ==
    /\ m \in DOMAIN next
    /\ LET r == InternResult(m, name) IN
       /\ symtable' = r.tab
       /\ next' = [next EXCEPT ![m] = r.nx]
       /\ last' = [op |-> "intern", name |-> name, num |-> r.num, fresh |-> name \notin DOMAIN symtable]
    /\ UNCHANGED gen

(* GenSymbol, as repaired: advance the counter until prefix<counter> is unused *)
GenCounter(m, p) ==
    IF GenAsPinned THEN next[m]
    ELSE CHOOSE k \in next[m]..(next[m] + Cardinality(DOMAIN symtable) + 1) :
             <<p, k>> \notin DOMAIN symtable /\ \A j \in next[m]..(k-1) : <<p, j>> \in DOMAIN symtable

Gensym(m, p) ==
    /\ m \in DOMAIN next
    /\ LET k == GenCounter(m, p)
           name == <<p, k>>
           wasNew == name \notin DOMAIN symtable
           n == IF wasNew THEN (LET U == Used
                                    f == CHOOSE x \in k..(k + Cardinality(U) + 1) : x \notin U /\ \A j \in k..(x-1) : j \in U
                                IN f)
                ELSE symtable[name]
       IN /\ symtable' = IF wasNew THEN [x \in DOMAIN symtable \cup {name} |-> IF x = name THEN n ELSE symtable[x]]
                         ELSE symtable
          /\ next' = [next EXCEPT ![m] = IF wasNew THEN n + 1 ELSE k]
          /\ last' = [op |-> "gensym", name |-> name, num |-> n, fresh |-> wasNew /\ name \notin gen]
          /\ gen' = gen \cup {name}

(* Duplicate / Clone: share the tables, copy the counter *)
Dup(m, new) ==
    /\ m \in DOMAIN next /\ new \in Members \ DOMAIN next
    /\ next' = [x \in DOMAIN next \cup {new} |-> IF x = new THEN next[m] ELSE next[x]]
    /\ last' = [op |-> "dup", name |-> <<"", -1>>, num |-> 0, fresh |-> TRUE]
    /\ UNCHANGED <<symtable, gen>>

Init == /\ symtable = <<>> /\ next = [m \in {CHOOSE m \in Members : TRUE} |-> 1]
        /\ gen = {} /\ last = [op |-> "init", name |-> <<"", -1>>, num |-> 0, fresh |-> TRUE]

Next == \/ \E m \in Members, name \in Names : Intern(m, name)
        \/ \E m \in Members, p \in Prefixes : Gensym(m, p)
        \/ \E m, new \in Members : Dup(m, new)

Spec == Init /\ [][Next]_vars

(* ---- the property ---- *)
Injective   == \A a, b \in DOMAIN symtable : symtable[a] = symtable[b] => a = b
FreshGensym == last.op = "gensym" => last.fresh
Constraint  == \A m \in DOMAIN next : next[m] <= MaxNum
=============================================================================
