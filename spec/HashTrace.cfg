SPECIFICATION TSpec
CONSTANTS
  Keys = {}
  Vals = {}
  MaxLen = 0
INVARIANT NoDupKeys
CHECK_DEADLOCK FALSE
