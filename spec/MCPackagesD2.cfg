SPECIFICATION Spec
CONSTANTS
  KeyRule = "any"
  D1 = FALSE
  D2 = TRUE
  MaxSteps = 1
  Depth = 1
  StepTrees = FALSE
INVARIANTS Refines AliasNeutral NoPrivateWrite WalkAudit PrivateStable
CHECK_DEADLOCK FALSE
