------------------------- MODULE EntryPointsProof -------------------------
(***************************************************************************)
(* Unbounded safety of the entry-point protocol: for every bound MaxChunks *)
(* and with both pinned variants off, the program counter stays inside the *)
(* top-level buffer and what is pending is exactly the part of the buffer  *)
(* behind it.  TLC checks the same two invariants for MaxChunks = 4        *)
(* (EntryPoints.cfg); this module proves them for every behaviour with the *)
(* TLA+ proof system (tlapm), by an inductive invariant.                   *)
(***************************************************************************)
EXTENDS EntryPoints, TLAPS

ASSUME NotPinned == ApplyAsPinned = FALSE /\ EvalFnAsPinned = FALSE
ASSUME BoundIsNat == MaxChunks \in Nat

Chunks == Nat \X {"ok", "fail"}

IndInv == /\ main \in Nat /\ pc \in Nat /\ pc <= main
          /\ pending \in Seq(Chunks)
          /\ main - pc = Len(pending)

LEMMA InitInd == Init => IndInv
  BY DEF Init, IndInv, Chunks

LEMMA StepInd == IndInv /\ [Next]_vars => IndInv'
<1> SUFFICES ASSUME IndInv, [Next]_vars PROVE IndInv'
  OBVIOUS
<1> USE DEF IndInv, St, Set, Chunk, Chunks
<1>1. ASSUME NEW id \in Ids, NEW k \in {"ok", "fail"}, Set(LoadF(St, Chunk(id, k))) PROVE IndInv'
  BY <1>1 DEF LoadF, Ids
<1>2. ASSUME NEW id \in Ids, NEW k \in {"ok", "fail"}, Set(EvalF(St, Chunk(id, k))) PROVE IndInv'
  BY <1>2 DEF EvalF, RunF, LoadF, Ids
<1>3. ASSUME NEW id \in Ids, NEW k \in {"ok", "fail"}, Set(ApplyF(St, id, k)) PROVE IndInv'
  BY <1>3, NotPinned DEF ApplyF
<1>4. ASSUME NEW id \in Ids, NEW k \in {"ok", "fail"}, Set(SourceF(St, id, k)) PROVE IndInv'
  BY <1>4 DEF SourceF
<1>5. ASSUME NEW id \in Ids, NEW k \in {"ok", "fail"}, Set(EvalFnF(St, id, k)) PROVE IndInv'
  BY <1>5, NotPinned DEF EvalFnF
<1>6. ASSUME Set(RejectF(St)) PROVE IndInv'
  BY <1>6 DEF RejectF
<1>7. ASSUME Set(RunF(St)) PROVE IndInv'
  BY <1>7 DEF RunF
<1>8. ASSUME Set(ClearF(St)) PROVE IndInv'
  BY <1>8 DEF ClearF
<1>9. ASSUME UNCHANGED vars PROVE IndInv'
  BY <1>9 DEF vars
<1> QED
  BY <1>1, <1>2, <1>3, <1>4, <1>5, <1>6, <1>7, <1>8, <1>9 DEF Next

THEOREM Safe == Spec => [](PcInRange /\ PendingIsTail)
<1>1. IndInv => PcInRange /\ PendingIsTail
  BY DEF IndInv, PcInRange, PendingIsTail
<1> QED
  BY InitInd, StepInd, <1>1, PTL DEF Spec
=============================================================================
