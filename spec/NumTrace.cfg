SPECIFICATION TSpec
CONSTANTS
  NL = 8
  LBITS = 8
  EB = 11
  MB = 52
CHECK_DEADLOCK FALSE
