SPECIFICATION Spec
CONSTANTS
  MaxLen = 4
  MaxQueue = 1
  Alphabet <- BaseAlphabet
INVARIANTS TextOnly QueueInert Monotone BlankNeutral Closable StatusTotal HistDomain
CHECK_DEADLOCK FALSE
