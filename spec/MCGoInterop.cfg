SPECIFICATION Spec
CONSTANTS
  MaxSet = 2
  Wide = TRUE
  Roots = {"zvleaf", "zvodd", "zvbox", "zvnode", "zvwrap", "zvpair", "zvemb", "zvtower", "eventdemo", "snoopy", "hornet", "weather", "setOfPlanes", "nestouter"}
INVARIANTS WellTyped NoLoss OneObject MatcherOk DropSeen UnknownKey WrongKind Deviations
CHECK_DEADLOCK FALSE
