SPECIFICATION Spec
CONSTANT ScanAsPinned = FALSE
INVARIANT Confluent
CHECK_DEADLOCK FALSE
