SPECIFICATION Spec
CONSTANTS
  MaxStr = 3
  Deep = TRUE
INVARIANTS RefRoundTrip ReservedCollides OrderMatters TypeMatters LeafMatters Eq11Refl EncoderAudit ReaderAudit
CHECK_DEADLOCK FALSE
