SPECIFICATION Spec
CONSTANTS
  MaxStr = 3
  Deep = TRUE
INVARIANTS RefRoundTrip OrderMatters TypeMatters LeafMatters Eq11Refl EncoderAudit ReaderAudit
CHECK_DEADLOCK FALSE
