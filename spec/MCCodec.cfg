SPECIFICATION Spec
CONSTANT MaxStr = 3
INVARIANTS RefRoundTrip OrderMatters TypeMatters LeafMatters Eq11Refl EncoderAudit ReaderAudit
CHECK_DEADLOCK FALSE
