------------------------------ MODULE MCCodec ------------------------------
(***************************************************************************)
(* Exhaustive exploration of the Codec specification itself (design audit  *)
(* for C11 and C12; verdicts about the code come only from the trace       *)
(* validations CodecTrace / PrintReadTrace).                               *)
(*                                                                         *)
(* 1. Character-class table (ASSUMEs, evaluated when TLC starts): for      *)
(*    every class the form the printer emits either is accepted by the     *)
(*    JSON grammar / the reader's escape table AND denotes the same        *)
(*    character, or the class is one of the listed bad classes.  The JSON  *)
(*    list is why the encoder must not use the printer for strings (the    *)
(*    repaired defect json-string-go-escapes); the reader's list is empty  *)
(*    since the reader accepts every escape the printers emit.             *)
(*                                                                         *)
(* 2. Every value v of depth <= 2 with <= 2 children (one of them nested)   *)
(*    over a palette of scalar classes, arrays, lists, records / hashes    *)
(*    with symbol and string keys, plus every string of <= MaxStr          *)
(*    character classes (initial states):                                  *)
(*      RefRoundTrip  the reference JSON encoding RefEnc(v) (reserved      *)
(*                    members Atype / zKeyOrder at every level) denotes v  *)
(*      OrderMatters, TypeMatters, LeafMatters  and denotes no variant of  *)
(*                    v with swapped fields / another type name / another  *)
(*                    leaf: JDen is exact                                  *)
(*      Eq11Refl      equality by value is reflexive and 1.0 = 1           *)
(*      ReservedCollides  a hash with a key named like a reserved member   *)
(*                    has no denoting text in this protocol (the open      *)
(*                    finding reserved-member-name-as-key)                 *)
(*      EncoderAudit  the encoder as designed in the code (JSON string     *)
(*                    literals for strings, names and keys; null; numbers  *)
(*                    printed) yields well-formed JSON exactly when no     *)
(*                    non-finite float is in v                             *)
(*      ReaderAudit   every string and character leaf is printed in forms  *)
(*                    the reader's table accepts and that denote it; Same  *)
(*                    is reflexive                                         *)
(***************************************************************************)
EXTENDS Codec

CONSTANTS MaxStr,    \* strings of up to MaxStr character classes
          Deep       \* TRUE: also the values whose second child is the nested one

JsonBadClasses == {"bel", "vt", "c0", "del", "astral_np", "invalid"}
ZyBadStr == {}
ZyBadChr == {}

ASSUME \A c \in Classes : JsonBadClass(c) <=> c \in JsonBadClasses
ASSUME \A c \in Classes \ JsonBadClasses :
          JsonToksDenote(<< PTok(c, ClassRep(c), "str") >>, << ClassRep(c) >>)
ASSUME \A c \in Classes : ZyBadClass(c, "str") <=> c \in ZyBadStr
ASSUME \A c \in Classes \ {"invalid"} : ZyBadClass(c, "chr") <=> c \in ZyBadChr
ASSUME \A c \in Classes \ {"invalid"} : ZyToksDenote(<< PTok(c, ClassRep(c), "str") >>, << ClassRep(c) >>, "str")
ASSUME \A c \in Classes \ (ZyBadChr \cup {"invalid"}) :
          ZyToksDenote(<< PTok(c, ClassRep(c), "chr") >>, << ClassRep(c) >>, "chr")
(* surrogate pairs: 😀 is U+1F600; an unpaired half denotes nothing *)
ASSUME JsonToksDenote(<< <<"u4", 55357>>, <<"u4", 56832>> >>, << 128512 >>)
ASSUME ~JsonToksDenote(<< <<"u4", 55357>> >>, << 55357 >>)

(* class table of the representatives *)
CCRep == << <<97, "plain">>, <<34, "dquote">>, <<39, "squote">>, <<92, "backslash">>, <<10, "nl">>, <<13, "cr">>,
            <<9, "tab">>, <<7, "bel">>, <<8, "bs">>, <<12, "ff">>, <<11, "vt">>, <<1, "c0">>, <<127, "del">>,
            <<8232, "bmp_np">>, <<233, "bmp_p">>, <<128512, "astral_p">>, <<1114111, "astral_np">>, <<-255, "invalid">>,
            <<99, "plain">>, <<113, "plain">>, <<116, "plain">>, <<120, "plain">>, <<121, "plain">>, <<122, "plain">> >>
ASSUME \A i \in 1..18 : ClassRep(CCRep[i][2]) = CCRep[i][1]

(* ---- the explored values ---- *)
Reps == {ClassRep(c) : c \in Classes \ {"invalid"}}
RECURSIVE SeqsUpTo(_, _)
SeqsUpTo(S, n) == IF n = 0 THEN {<<>>}
                  ELSE LET P == SeqsUpTo(S, n - 1) IN P \cup {Append(p, x) : p \in {q \in P : Len(q) = n - 1}, x \in S}
Strings == {<<"str", s>> : s \in SeqsUpTo(Reps, MaxStr)}

F(d, e, sci) == <<"flt", "fin", 1, d, e, sci>>
Palette == { <<"nil">>, <<"int", 1, <<7>>>>, F(<<1>>, 1, FALSE), <<"str", <<97>>>>, <<"str", <<7>>>> }
Extra == { <<"bool", TRUE>>, F(<<2, 5>>, 1, FALSE), <<"uint", <<1, 2>>>>, F(<<1>>, 1, TRUE), F(Int63p, 19, FALSE), F(<<1>>, 22, FALSE), <<"int", -1, Int63p>>,
           <<"chr", 99>>, <<"chr", 233>>, <<"chr", 8>>, <<"sym", <<113>>>>, <<"flt", "inf", 1, <<>>, 0, FALSE>>,
           <<"flt", "nan", 0, <<>>, 0, FALSE>>, <<"flt", "fin", 0, <<>>, 0, FALSE>> }
Sym(n) == <<"sym", <<n>>>>
KeySeqs1 == { <<Sym(97)>>, << <<"str", <<116>>>> >>, << <<"sym", AtypeName>> >> }
KeySeqs2 == { <<Sym(122), Sym(97)>>, <<Sym(97), <<"str", ZKeyName>> >> }
TypeNames == { HashName, <<114, 101, 99>> }
Hash(tn, ks, vs) == <<"hash", tn, [i \in 1..Len(ks) |-> <<ks[i], vs[i]>>]>>

(* containers whose first child is from X, second (if any) from Y, in six families *)
Fam(k, X, Y) ==
    CASE k = 1 -> {<<"arr", <<x>>>> : x \in X} \cup {<<"list", <<x>>>> : x \in X}
      [] k = 2 -> {<<"arr", <<x, y>>>> : x \in X, y \in Y}
      [] k = 3 -> {<<"list", <<x, y>>>> : x \in X, y \in Y}
      [] k = 4 -> {Hash(tn, ks, <<x>>) : tn \in TypeNames, ks \in KeySeqs1, x \in X}
      [] k = 5 -> {Hash(HashName, ks, <<x, y>>) : ks \in KeySeqs2, x \in X, y \in Y}
      [] k = 6 -> {Hash(<<114, 101, 99>>, ks, <<x, y>>) : ks \in KeySeqs2, x \in X, y \in Y}
Containers(X, Y) == UNION {Fam(k, X, Y) : k \in 1..6}
Empties == {<<"arr", <<>>>>} \cup {Hash(tn, <<>>, <<>>) : tn \in TypeNames}
Level0 == Palette
Level1 == Empties \cup Containers(Level0, Level0)

(* the explored values, in 13 parts so that TLC's workers share the work: the    *)
(* initial states are the part numbers, every value is a successor of its part   *)
Part(k) ==
    IF k = 1 THEN Strings \cup Extra \cup {<<"arr", <<x>>>> : x \in Extra} \cup Level0 \cup Level1
    ELSE IF k <= 7 THEN Fam(k - 1, Level1, Level0)
    ELSE Fam(k - 7, Level0, Level1)

VARIABLE v
Init == v \in {<<"part", k>> : k \in 1..(IF Deep THEN 13 ELSE 7)}
Next == v[1] = "part" /\ v' \in Part(v[2])
Spec == Init /\ [][Next]_v
IsVal == v[1] # "part"

(* ---- kinds of values the two properties speak about ---- *)
JsonLike(x) == ~Exists(x, LAMBDA y : y[1] \in {"chr", "sym", "list"})
Plain(x) == JsonLike(x) /\ ~HasNonFinite(x) /\ ~HasReservedKey(x)
ReadLike(x) == ~Exists(x, LAMBDA y : y[1] = "hash")

(* ---- reference JSON encoding ---- *)
Jstr(s) == <<"jstr", s>>
RECURSIVE RefEnc(_)
RefEnc(x) ==
    CASE x[1] = "nil" -> <<"jnull">>
      [] x[1] = "bool" -> <<"jbool", x[2]>>
      [] IsNumber(x) -> <<"jnum", NumVal(x), NumVal(x)>>
      [] x[1] = "str" -> Jstr(x[2])
      [] x[1] = "arr" -> <<"jarr", [i \in 1..Len(x[2]) |-> RefEnc(x[2][i])]>>
      [] x[1] = "hash" ->
            <<"jobj", << <<AtypeName, Jstr(x[2])>> >>
                      \o [i \in 1..Len(x[3]) |-> <<KeyName(x[3][i][1]), RefEnc(x[3][i][2])>>]
                      \o (IF Len(x[3]) = 0 THEN <<>>
                          ELSE << <<ZKeyName, <<"jarr", [i \in 1..Len(x[3]) |-> Jstr(KeyName(x[3][i][1]))]>> >> >>)>>

RefRoundTrip == (IsVal /\ Plain(v)) => JDen(v, RefEnc(v))
Swap(x) == <<"hash", x[2], <<x[3][2], x[3][1]>> \o SubSeq(x[3], 3, Len(x[3]))>>
OrderMatters == (IsVal /\ Plain(v) /\ v[1] = "hash" /\ Len(v[3]) >= 2) => ~JDen(Swap(v), RefEnc(v))
TypeMatters == (IsVal /\ Plain(v) /\ v[1] = "hash") => ~JDen(<<"hash", <<120>>, v[3]>>, RefEnc(v))
LeafMatters == (IsVal /\ Plain(v) /\ v[1] = "arr" /\ Len(v[2]) >= 1) =>
                   ~JDen(<<"arr", << <<"str", <<120, 121>>>> >> \o Tail(v[2])>>, RefEnc(v))
Eq11Refl == (IsVal /\ Plain(v)) => /\ Eq11(v, v)
                           /\ Eq11(<<"arr", <<F(<<1>>, 1, FALSE), v>>>>, <<"arr", <<<<"int", 1, <<1>>>>, v>>>>)
                           /\ ~Eq11(<<"arr", <<F(<<1, 5>>, 1, FALSE), v>>>>, <<"arr", <<<<"int", 1, <<1>>>>, v>>>>)

ReservedCollides == (IsVal /\ JsonLike(v) /\ ~HasNonFinite(v) /\ HasReservedKey(v)) => ~JDen(v, RefEnc(v))

(* ---- the encoder as designed in the code: JSON string literals for strings, type names and keys,
        null for nil, digits for integers, a number text for a finite float -- and the words +Inf -Inf
        NaN for the others ---- *)
RECURSIVE PWell(_)
PWell(x) ==
    CASE x[1] \in {"nil", "bool", "int", "uint", "str"} -> TRUE
      [] x[1] = "flt" -> x[2] = "fin"
      [] x[1] = "arr" -> \A i \in 1..Len(x[2]) : PWell(x[2][i])
      [] x[1] = "hash" -> \A i \in 1..Len(x[3]) : PWell(x[3][i][2])
EncoderAudit == (IsVal /\ JsonLike(v)) => (PWell(v) <=> ~HasNonFinite(v))

(* ---- printing then reading: every text leaf is printed in forms the reader's table accepts ---- *)
LeafReadable(x) ==
    CASE x[1] = "str" -> ZyToksDenote([i \in 1..Len(x[2]) |-> PTok(ClassOf(CCRep, x[2][i]), x[2][i], "str")], x[2], "str")
      [] x[1] = "chr" -> ZyToksDenote(<< PTok(ClassOf(CCRep, x[2]), x[2], "chr") >>, << x[2] >>, "chr")
      [] OTHER -> TRUE
ReaderAudit ==
    (IsVal /\ ReadLike(v)) => /\ ~Exists(v, LAMBDA y : ~LeafReadable(y))
                              /\ ~HasUnreadableEscape(CCRep, v)
                              /\ Same(v, v, "rd", {})
=============================================================================
