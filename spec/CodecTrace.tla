---------------------------- MODULE CodecTrace ----------------------------
(***************************************************************************)
(* Trace validation for C11.  Every line of the trace file is one case     *)
(* recorded on the real interpreter by `zv codec`:                         *)
(*                                                                         *)
(*  kind "rt":  v      the original value (abstract)                       *)
(*              json   the bytes of (json v) as a token tree / "jbad"      *)
(*              uj     (unjson (json v))        um  (unmsgpack (msgpack v))*)
(*              cc     class of every code point occurring in v            *)
(*              skeys  v has string keys: only the well-formedness half    *)
(*                     of the property speaks about it                     *)
(*     required: json is accepted by encoding/json and DENOTES v (JDen);   *)
(*               uj and um equal v (Eq11: numbers by value, type names and *)
(*               field order at every level, strings rune for rune).       *)
(*                                                                         *)
(*  kind "cls": one member m of character class cls; emit = the escape     *)
(*              tokens of the JSON string literal the encoder produced.    *)
(*     required: the tokens are JSON string tokens and denote m            *)
(*               (JsonToksDenote, the grammar table of Codec); the         *)
(*               decision of encoding/json on the same bytes must agree    *)
(*               with the table (otherwise verdict "specdiff": the spec    *)
(*               is wrong, not the code).                                  *)
(*                                                                         *)
(* Named deviations (enabled by id in the environment variable VERIF_DEVS) *)
(* model the known wrong behaviours exactly enough to keep the rest of the *)
(* space checked: the encoder is the language's own printer, so            *)
(*   json-nil-printed-as-nil        nil is written `nil`                   *)
(*   json-string-go-escapes         strings use Go escapes (\a \v \xHH     *)
(*                                  \UHHHHHHHH) for the classes with       *)
(*                                  JsonBadClass                           *)
(*   json-string-key-double-quoted  a string key is written ""k""          *)
(*   json-uint64-suffix             uint64 is written 12ULL                *)
(* each of which makes the whole text malformed, hence also unjson and     *)
(* msgpack fail; and                                                       *)
(*   unjson-rejects-2p63-to-2p64    an integral float (or uint64) with     *)
(*                                  2^63 <= magnitude < 2^64 is written as *)
(*                                  an integer text the decoder refuses    *)
(* where the JSON is fine and only the decoders fail;                      *)
(*   reserved-member-name-as-key    a user key named Atype / zKeyOrder is  *)
(*                                  written as a second member of that     *)
(*                                  name: accepted JSON that denotes other *)
(*                                  data (whatever the decoders then do)   *)
(*   nonfinite-float-not-encodable  +Inf / -Inf / NaN are written as these *)
(*                                  words (malformed, msgpack fails too)   *)
(***************************************************************************)
EXTENDS Codec, Json, IOUtils, SequencesExt

(* the trace file is parsed once, when the assumption is evaluated, and kept in a
   TLC register (a plain definition would be re-evaluated by TLC) *)
ASSUME TLCSet(11, ndJsonDeserialize(IOEnv.VERIF_TRACE))
Cases == TLCGet(11)

Devs == "," \o (IF "VERIF_DEVS" \in DOMAIN IOEnv THEN IOEnv.VERIF_DEVS ELSE "") \o ","
DevOn(id) == ReplaceFirstSubSeq("", "," \o id \o ",", Devs) # Devs

VARIABLES ci, verdict
tvars == <<ci, verdict>>

IsErr(r) == r[1] = "err"

RtVerdict(c) ==
    LET v == c.v
        jok == c.json[1] # "jbad"
        den == jok /\ JDen(v, c.json)
        ujok == Eq11(v, c.uj)
        umok == Eq11(v, c.um)
        allok == den /\ (c.skeys \/ (ujok /\ umok))
        malformed == ~jok /\ IsErr(c.uj) /\ IsErr(c.um)
        decfail == den /\ IsErr(c.uj) /\ IsErr(c.um)
    IN IF HasInvalid(c.cc, v) THEN <<"ok", "unjudged">>
       ELSE IF allok THEN <<"ok", "">>
       ELSE IF malformed /\ DevOn("json-nil-printed-as-nil") /\ HasNil(v)
            THEN <<"known:json-nil-printed-as-nil", "">>
       ELSE IF malformed /\ DevOn("json-string-go-escapes") /\ HasBadEscape(c.cc, v)
            THEN <<"known:json-string-go-escapes", "">>
       ELSE IF malformed /\ DevOn("json-string-key-double-quoted") /\ HasStrKey(v)
            THEN <<"known:json-string-key-double-quoted", "">>
       ELSE IF ~jok /\ (IsErr(c.uj) \/ ujok) /\ (IsErr(c.um) \/ umok)   \* a lenient decoder may stop before the suffix
               /\ DevOn("json-uint64-suffix") /\ HasUint(v)
            THEN <<"known:json-uint64-suffix", "">>
       ELSE IF decfail /\ DevOn("unjson-rejects-2p63-to-2p64") /\ HasUintGapNumber(v)
            THEN <<"known:unjson-rejects-2p63-to-2p64", "">>
       ELSE IF jok /\ ~den /\ DevOn("reserved-member-name-as-key") /\ HasReservedKey(v)
            THEN <<"known:reserved-member-name-as-key", "">>
       ELSE IF ~jok /\ DevOn("nonfinite-float-not-encodable") /\ HasNonFinite(v)   \* (a lenient decoder reads -Inf as 0)
            THEN <<"known:nonfinite-float-not-encodable", "">>
       ELSE <<"bad", IF ~jok THEN "json-malformed" ELSE IF ~den THEN "json-denotes-other"
                     ELSE IF ~ujok THEN "unjson" ELSE "unmsgpack">>

ClsVerdict(c) ==
    LET m == c.m
        tokOK == c.lexed /\ JsonToksDenote(c.emit, m)
        decOK == c.json[1] = "jstr" /\ c.json[2] = m
        asTable == Len(m) = 1 /\ c.emit = << PTok(c.cls, m[1], "str") >>
    IN IF c.cls = "invalid" THEN <<"ok", "unjudged">>
       ELSE IF tokOK # decOK THEN <<"specdiff", "grammar-table-vs-encoding/json">>
       ELSE IF tokOK THEN <<"ok", IF asTable THEN "" ELSE "drift:printer-form">>
       ELSE IF DevOn("json-string-go-escapes") /\ JsonBadClass(c.cls) /\ asTable
            THEN <<"known:json-string-go-escapes", "">>
       ELSE <<"bad", "escape-not-json">>

Judge(c) == IF c.kind = "cls" THEN ClsVerdict(c) ELSE RtVerdict(c)

TInit == ci \in 1..Len(Cases) /\ verdict = "run"
TStep == /\ verdict = "run"
         /\ LET j == Judge(Cases[ci]) IN
            /\ verdict' = j[1]
            /\ PrintT(<<"VERDICT", Cases[ci].id, j[1], j[2]>>)
         /\ UNCHANGED ci
TSpec == TInit /\ [][TStep]_tvars
=============================================================================
