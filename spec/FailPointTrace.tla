--------------------------- MODULE FailPointTrace ---------------------------
(***************************************************************************)
(* C05, failure at a known point, bound to the real interpreter.           *)
(*                                                                         *)
(* A case: a set-up text (definitions of two kinds of the surface          *)
(* language), then a sequence of forms -- valid re-definitions of those    *)
(* names and ONE dedicated failing form at position k -- evaluated in a    *)
(* context: as a top-level text, inside begin, as the argument of eval, as *)
(* a call argument, as a forced lazy argument, as the contents of an       *)
(* included or sourced file, as the body of a function that is then called.*)
(* The failing form is a host function that returns an error or panics, a  *)
(* call whose argument does not compile or whose macro expansion fails     *)
(* (arguments are compiled when the call is executed).                     *)
(*                                                                         *)
(* FailPoint's prefix law says what the interpreter is afterwards: the     *)
(* twin, which evaluated the same context with FailPoint!Prefix(forms, k)  *)
(* only.  WHICH text the twin evaluates is said here (SubjectText,         *)
(* TwinText); the harness's texts are checked against it.  Then:           *)
(*   the failing evaluation returned an error (not a value: "errors are    *)
(*   never swallowed"; not a Go panic out of EvalString),                  *)
(*   the four VM stacks are at rest,                                       *)
(*   both interpreters answer the probes alike,                            *)
(*   and a fresh definition can be made and used (Usable).                 *)
(* Two controls keep the failure point known: the twin's text and the text *)
(* with the failing form replaced by 0 must evaluate without error (else   *)
(* the case is skipped: some other form fails in that context).            *)
(*                                                                         *)
(* For the function-body context the function definition is a top-level    *)
(* form that completed BEFORE the failure, with whatever its compilation   *)
(* does: the twin makes the same definition, and runs the prefix of the    *)
(* body through a second function.                                         *)
(***************************************************************************)
EXTENDS FailPoint, Json, IOUtils, TLC, SequencesExt

(* a small audit of FailPoint with every validation run (one name, two versions, texts of up to three *)
(* forms, every initial state; MCFailPoint explores the larger instances): the compile-then-run model *)
(* with the macro journal refines the reference semantics, which satisfies the prefix law             *)
ASSUME \A t \in Texts(3), s \in States : Impl(s, t) = Ref(s, t) /\ PrefixLaw(s, t)

ASSUME TLCSet(11, ndJsonDeserialize(IOEnv.VERIF_TRACE))
Cases == TLCGet(11)
Rest == <<0, 1, 0, 0>>
UsableAnswer == <<"val", "42">>

DevList == "," \o (IF "VERIF_DEVS" \in DOMAIN IOEnv THEN IOEnv.VERIF_DEVS ELSE "") \o ","
DevOn(d) == ReplaceFirstSubSeq("", "," \o d \o ",", DevList) # DevList

RECURSIVE Join(_, _)
Join(fs, sep) == IF fs = <<>> THEN "" ELSE IF Len(fs) = 1 THEN fs[1] ELSE fs[1] \o sep \o Join(Tail(fs), sep)

(* a sequence of forms as one expression; the leading 0 keeps the empty prefix well-formed *)
Body(fs) == Join(<<"0">> \o fs, " ")
Lines(fs) == Join(fs, "\n") \o "\n"

Wrap(ctx, fs, path) ==
    CASE ctx = "top"     -> Lines(fs)
      [] ctx = "begin"   -> "(begin " \o Body(fs) \o ")\n"
      [] ctx = "eval"    -> "(eval (quote (begin " \o Body(fs) \o ")))\n"
      [] ctx = "callarg" -> "(zvid (begin " \o Body(fs) \o "))\n"
      [] ctx = "lazy"    -> "(zvlz (begin " \o Body(fs) \o "))\n"
      [] ctx = "include" -> "(include \"" \o path \o "\")\n"
      [] ctx = "source"  -> "(source \"" \o path \o "\")\n"
      [] ctx = "fnbody"  -> "(defn zvg [] " \o Body(fs) \o ")\n(zvg)\n"
FileOf(ctx, fs) == IF ctx \in {"include", "source"} THEN Lines(fs) ELSE ""
Contexts == {"top", "begin", "eval", "callarg", "lazy", "include", "source", "fnbody"}

SubjectText(c) == Wrap(c.ctx, c.forms, c.path)
SubjectFile(c) == FileOf(c.ctx, c.forms)
(* the twin evaluates the prefix, in the same context *)
TwinText(c) ==
    IF c.ctx = "fnbody"
    THEN "(defn zvg [] " \o Body(c.forms) \o ")\n(defn zvh [] " \o Body(Prefix(c.forms, c.k)) \o ")\n(zvh)\n"
    ELSE Wrap(c.ctx, Prefix(c.forms, c.k), c.tpath)
TwinFile(c) == FileOf(c.ctx, Prefix(c.forms, c.k))
(* the control: the same text with the failing form replaced by 0 *)
Disarmed(c) == [i \in 1..Len(c.forms) |-> IF i = c.k THEN "0" ELSE c.forms[i]]
CtlText(c) == Wrap(c.ctx, Disarmed(c), c.cpath)
CtlFile(c) == FileOf(c.ctx, Disarmed(c))

FirstDiff(a, b) == IF Len(a) # Len(b) THEN 0
                   ELSE IF \E i \in 1..Len(a) : a[i] # b[i] THEN CHOOSE i \in 1..Len(a) : a[i] # b[i] /\ \A j \in 1..(i-1) : a[j] = b[j]
                   ELSE -1

(* named deviations: the answers of a second twin recorded under c.devs[id], when the id is enabled. *)
(* "defmac-behind-failure": the macros defined by the forms BEHIND the failure point are installed,  *)
(* too (defmac installs when the text is compiled; a failure at run time does not withdraw them):    *)
(* its twin evaluated the prefix and then those macro definitions.                                  *)
DevIds == {"defmac-behind-failure"}
Explains(c, d) == DevOn(d) /\ d \in DOMAIN c.devs /\ c.a = c.devs[d]

Judge(c) ==
    IF c.ctx \notin Contexts \/ c.k \notin 1..Len(c.forms) THEN <<"bad", "malformed-case">>
    ELSE IF c.text # SubjectText(c) \/ c.file # SubjectFile(c) THEN <<"bad", "subject-text">>
    ELSE IF c.twintext # TwinText(c) \/ c.twinfile # TwinFile(c) THEN <<"bad", "twin-text">>
    ELSE IF c.ctltext # CtlText(c) \/ c.ctlfile # CtlFile(c) THEN <<"bad", "control-text">>
    ELSE IF c.cout[1] # "val" THEN <<"skip", "control-fails">>
    ELSE IF c.tout[1] # "val" THEN <<"skip", "prefix-fails">>
    ELSE IF c.ut # UsableAnswer THEN <<"skip", "twin-unusable">>
    ELSE IF c.fout[1] = "panic" THEN <<"bad", "panic-escaped">>
    ELSE IF c.fout[1] = "budget" THEN <<"skip", "budget">>
    ELSE IF c.fout[1] # "err" THEN <<"bad", "error-swallowed">>
    ELSE IF c.depths # Rest THEN <<"bad", "not-at-rest">>
    ELSE IF c.a # c.twin
         THEN IF \E d \in DevIds : Explains(c, d)
              THEN <<"known:" \o (CHOOSE d \in DevIds : Explains(c, d)), "state">>
              ELSE <<"bad", "state-differs", FirstDiff(c.a, c.twin)>>
    ELSE IF c.ua # UsableAnswer THEN <<"bad", "unusable">>
    ELSE <<"ok", "prefix">>

VARIABLES ci, verdict
tvars == <<ci, verdict>>
TInit == ci \in 1..Len(Cases) /\ verdict = "run"
TStep == /\ verdict = "run"
         /\ LET j == Judge(Cases[ci]) IN
            verdict' = j[1] /\ PrintT(<<"VERDICT", Cases[ci].id, j[1]>> \o Tail(j))
         /\ UNCHANGED ci
TSpec == TInit /\ [][TStep]_tvars
=============================================================================
