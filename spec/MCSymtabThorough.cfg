SPECIFICATION Spec
CONSTANTS
  Members = {1, 2, 3}
  Plain = {"a", ""}
  Prefixes = {"g"}
  MaxNum = 5
  GenAsPinned = FALSE
INVARIANTS Injective FreshGensym
CONSTRAINT Constraint
CHECK_DEADLOCK FALSE
