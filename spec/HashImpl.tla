---------------------------- MODULE HashImpl ----------------------------
(***************************************************************************)
(* Implementation-shaped model of SexpHash (zygo/hashutils.go): the three  *)
(* redundant structures Map (buckets by hash code), KeyOrder and NumKeys,  *)
(* with HashSet / HashDelete / HashGetDefault / HashPairi / HashCountKeys  *)
(* transcribed as written (after commit "fix: HashDelete ...").            *)
(*                                                                         *)
(* TLC checks the refinement HashImpl => HashMap over every history: the   *)
(* same operation is applied to the abstract content and to the            *)
(* implementation structures and the results and the abstraction must      *)
(* agree, and CountAgrees (whose violation is the Go panic in              *)
(* HashCountKeys) must hold.                                               *)
(***************************************************************************)
EXTENDS HashMap, TLC

CONSTANT Code(_)       \* bucket code of a (normalised) key: hashHelper
CONSTANT DelAsPinned   \* TRUE: HashDelete as in the pinned commit 0bde712 (defect, kept as a
                       \* named deviation so that TLC can exhibit the counterexample histories)
VARIABLES buckets,     \* code -> Seq(<<key, val>>)   (hash.Map)
          order,       \* Seq(key)                    (hash.KeyOrder)
          numKeys,     \* Nat                         (hash.NumKeys)
          iout         \* result computed by the implementation model

ivars == <<content, out, buckets, order, numKeys, iout>>

BCode(k) == Code(NK(k))
HasBucket(b, k) == BCode(k) \in DOMAIN b
Bucket(b, k) == IF HasBucket(b, k) THEN b[BCode(k)] ELSE <<>>

FirstMatch(s, k) ==  \* index of first pair whose key equals k, 0 if none
    IF \E i \in 1..Len(s) : KeyEq(s[i][1], k)
    THEN CHOOSE i \in 1..Len(s) : KeyEq(s[i][1], k) /\ \A j \in 1..(i-1) : ~KeyEq(s[j][1], k)
    ELSE 0

FirstKey(s, k) ==
    IF \E i \in 1..Len(s) : KeyEq(s[i], k)
    THEN CHOOSE i \in 1..Len(s) : KeyEq(s[i], k) /\ \A j \in 1..(i-1) : ~KeyEq(s[j], k)
    ELSE 0

SetBucket(b, k, s) == [c \in (DOMAIN b) \cup {BCode(k)} |-> IF c = BCode(k) THEN s ELSE b[c]]

(* HashGetDefault *)
IGet(b, k, d) == LET s == Bucket(b, k) i == FirstMatch(s, k) IN IF i = 0 THEN d ELSE s[i][2]
Missing == <<"end">>     \* SexpEnd, the sentinel HashGet uses

(* HashSet: the array-unwrapping and the key normalisation are NK *)
ISet(k, v) ==
    LET s == Bucket(buckets, k) IN
    IF ~HasBucket(buckets, k)
    THEN /\ buckets' = SetBucket(buckets, k, << <<NK(k), v>> >>)
         /\ order' = Append(order, NK(k))
         /\ numKeys' = numKeys + 1
    ELSE LET found == \E i \in 1..Len(s) : KeyEq(s[i][1], k)
             repl == [i \in 1..Len(s) |-> IF KeyEq(s[i][1], k) THEN <<NK(k), v>> ELSE s[i]]
         IN IF found
            THEN /\ buckets' = SetBucket(buckets, k, repl)
                 /\ UNCHANGED <<order, numKeys>>
            ELSE /\ buckets' = SetBucket(buckets, k, Append(s, <<NK(k), v>>))
                 /\ order' = Append(order, NK(k))
                 /\ numKeys' = numKeys + 1

(* HashDelete, as repaired; with DelAsPinned the original: the counter is   *)
(* decremented whenever the bucket exists and KeyOrder is never pruned     *)
IDel(k) ==
    LET s == Bucket(buckets, k) i == FirstMatch(s, k) j == FirstKey(order, k) IN
    IF DelAsPinned
    THEN IF ~HasBucket(buckets, k) THEN UNCHANGED <<buckets, order, numKeys>>
         ELSE /\ numKeys' = numKeys - 1
              /\ buckets' = IF i = 0 THEN buckets ELSE SetBucket(buckets, k, RemoveAt(s, i))
              /\ order' = order
    ELSE
    IF ~HasBucket(buckets, k) \/ i = 0
    THEN UNCHANGED <<buckets, order, numKeys>>
    ELSE /\ buckets' = SetBucket(buckets, k, RemoveAt(s, i))
         /\ numKeys' = numKeys - 1
         /\ order' = IF j = 0 THEN order ELSE RemoveAt(order, j)

(* HashCountKeys *)
BucketTotal(b) ==
    LET RECURSIVE Sum(_)
        Sum(S) == IF S = {} THEN 0 ELSE LET c == CHOOSE c \in S : TRUE IN Len(b[c]) + Sum(S \ {c})
    IN Sum(DOMAIN b)

(* HashPairi after the bounds check of HashAccessFunction("hpair") *)
IPair(i) ==
    IF i < 0 \/ i >= Len(order) THEN Err
    ELSE IF i > numKeys THEN Err
    ELSE LET live == {p \in (i+1)..Len(order) : IGet(buckets, order[p], Missing) # Missing} IN
         IF live = {} THEN Err   \* the Go code panics; CallUserFunction turns it into an error
         ELSE LET p == CHOOSE p \in live : \A q \in live : p <= q IN
              <<"list", <<order[p], IGet(buckets, order[p], Missing)>>>>

LivePairs ==
    LET idx == {p \in 1..Len(order) : IGet(buckets, order[p], Missing) # Missing}
        RECURSIVE Build(_)
        Build(p) == IF p > Len(order) THEN <<>>
                    ELSE IF p \in idx THEN << <<order[p], IGet(buckets, order[p], Missing)>> >> \o Build(p+1)
                    ELSE Build(p+1)
    IN Build(1)

IDo(o) ==
    CASE o.op = "hset"  -> ISet(o.k, o.v) /\ iout' = Nil
      [] o.op = "hdel"  -> IDel(o.k) /\ iout' = Nil
      [] o.op = "hget"  -> /\ iout' = (LET r == IGet(buckets, o.k, Missing) IN IF r = Missing THEN Err ELSE r)
                           /\ UNCHANGED <<buckets, order, numKeys>>
      [] o.op = "hgetd" -> iout' = IGet(buckets, o.k, o.v) /\ UNCHANGED <<buckets, order, numKeys>>
      [] o.op = "keys"  -> iout' = <<"arr", order>> /\ UNCHANGED <<buckets, order, numKeys>>
      [] o.op = "len"   -> iout' = <<"int", BucketTotal(buckets)>> /\ UNCHANGED <<buckets, order, numKeys>>
      [] o.op = "hpair" -> iout' = IPair(o.i) /\ UNCHANGED <<buckets, order, numKeys>>
      [] o.op = "range" -> iout' = <<"pairs", LivePairs>> /\ UNCHANGED <<buckets, order, numKeys>>

IInit == Init /\ buckets = <<>> /\ order = <<>> /\ numKeys = 0 /\ iout = Nil
INext == \E o \in Ops : Do(o) /\ IDo(o)
ISpec == IInit /\ [][INext]_ivars

(* ---- refinement ---- *)
Refines     == iout = out /\ LivePairs = PairsOf(content)
CountAgrees == BucketTotal(buckets) = numKeys            \* else HashCountKeys panics
OrderExact  == Len(order) = numKeys /\ KeysOf(content) = order
Bounded     == Len(content) <= MaxLen
=============================================================================
