---------------------------- MODULE HashImpl ----------------------------
(***************************************************************************)
(* Implementation-shaped model of SexpHash (zygo/hashutils.go): the three  *)
(* redundant structures Map (buckets by hash code), KeyOrder and NumKeys,  *)
(* with HashSet / HashDelete / HashGetDefault / HashPairi / HashCountKeys  *)
(* transcribed as written (after commit "fix: HashDelete ..." and with the *)
(* key stripping of hashKeyOf; StripOnce = TRUE gives the code before it). *)
(*                                                                         *)
(* TLC checks the refinement HashImpl => HashMap over every history: the   *)
(* same operation is applied to the abstract content and to the            *)
(* implementation structures and the results and the abstraction must      *)
(* agree, and CountAgrees (whose violation is the Go panic in              *)
(* HashCountKeys) must hold.                                               *)
(***************************************************************************)
EXTENDS HashMap, TLC

CONSTANT Code(_)       \* bucket code of a (normalised) key: hashHelper
CONSTANT DelAsPinned   \* TRUE: HashDelete as in the pinned commit 0bde712 (defect, kept as a
                       \* named deviation so that TLC can exhibit the counterexample histories)
CONSTANT StripOnce     \* TRUE: the entry points unwrap ONE one-element array and HashGet one more
                       \* (the code before hashKeyOf: [[x]] is stored as the array [x], which the
                       \* lookups made for hpair/range/str/json unwrap again and miss); FALSE: hashKeyOf
VARIABLES buckets,     \* code -> Seq(<<key, val>>)   (hash.Map)
          order,       \* Seq(key)                    (hash.KeyOrder)
          numKeys,     \* Nat                         (hash.NumKeys)
          iout         \* result computed by the implementation model

ivars == <<content, out, buckets, order, numKeys, iout>>

(* the generic comparison (Compare): a character equals the integer with its code, arrays are   *)
(* compared element by element -- nothing is unwrapped here                                     *)
RECURSIVE CN(_)
CN(k) == CASE k[1] = "chr" -> <<"int", k[2]>>
           [] k[1] = "arr" -> <<"arr", [i \in 1..Len(k[2]) |-> CN(k[2][i])]>>
           [] OTHER -> k
CmpEq(a, b) == CN(a) = CN(b)

(* what HashSet / HashGetDefault / HashDelete do to the key they are given.  The model keeps   *)
(* keys in Compare's normal form CN: which of the spellings 'c' / 99 is stored where (KeyOrder  *)
(* keeps the first, the bucket the latest) shows in no result, results are compared in normal   *)
(* form (NormRes)                                                                               *)
Strip1(k) == IF k[1] = "arr" /\ Len(k[2]) = 1 THEN k[2][1] ELSE k
Strip(k) == CN(IF StripOnce THEN Strip1(k) ELSE UW(k))

(* below, k is a key as stored/stripped *)
BCode(k) == Code(CN(k))
HasBucket(b, k) == BCode(k) \in DOMAIN b
Bucket(b, k) == IF HasBucket(b, k) THEN b[BCode(k)] ELSE <<>>

FirstMatch(s, k) ==  \* index of first pair whose key equals k, 0 if none
    IF \E i \in 1..Len(s) : CmpEq(s[i][1], k)
    THEN CHOOSE i \in 1..Len(s) : CmpEq(s[i][1], k) /\ \A j \in 1..(i-1) : ~CmpEq(s[j][1], k)
    ELSE 0

FirstKey(s, k) ==
    IF \E i \in 1..Len(s) : CmpEq(s[i], k)
    THEN CHOOSE i \in 1..Len(s) : CmpEq(s[i], k) /\ \A j \in 1..(i-1) : ~CmpEq(s[j], k)
    ELSE 0

SetBucket(b, k, s) == [c \in (DOMAIN b) \cup {BCode(k)} |-> IF c = BCode(k) THEN s ELSE b[c]]

(* HashGetDefault *)
IGet(b, k0, d) == LET k == Strip(k0) s == Bucket(b, k) i == FirstMatch(s, k) IN IF i = 0 THEN d ELSE s[i][2]
Missing == <<"end">>     \* SexpEnd, the sentinel HashGet uses
(* HashGet: unwraps on its own, then HashGetDefault; hget, and the lookups of the keys of *)
(* KeyOrder made for hpair, range, str and json, come through here                        *)
IHashGet(b, k0) == IGet(b, IF StripOnce THEN Strip1(k0) ELSE k0, Missing)

(* HashSet *)
ISet(k0, v) ==
    LET k == Strip(k0) s == Bucket(buckets, k) IN
    IF ~HasBucket(buckets, k)
    THEN /\ buckets' = SetBucket(buckets, k, << <<k, v>> >>)
         /\ order' = Append(order, k)
         /\ numKeys' = numKeys + 1
    ELSE LET found == \E i \in 1..Len(s) : CmpEq(s[i][1], k)
             repl == [i \in 1..Len(s) |-> IF CmpEq(s[i][1], k) THEN <<k, v>> ELSE s[i]]
         IN IF found
            THEN /\ buckets' = SetBucket(buckets, k, repl)
                 /\ UNCHANGED <<order, numKeys>>
            ELSE /\ buckets' = SetBucket(buckets, k, Append(s, <<k, v>>))
                 /\ order' = Append(order, k)
                 /\ numKeys' = numKeys + 1

(* HashDelete, as repaired; with DelAsPinned the original: the counter is   *)
(* decremented whenever the bucket exists and KeyOrder is never pruned     *)
IDel(k0) ==
    LET k == Strip(k0) s == Bucket(buckets, k) i == FirstMatch(s, k) j == FirstKey(order, k) IN
    IF DelAsPinned
    THEN IF ~HasBucket(buckets, k) THEN UNCHANGED <<buckets, order, numKeys>>
         ELSE /\ numKeys' = numKeys - 1
              /\ buckets' = IF i = 0 THEN buckets ELSE SetBucket(buckets, k, RemoveAt(s, i))
              /\ order' = order
    ELSE
    IF ~HasBucket(buckets, k) \/ i = 0
    THEN UNCHANGED <<buckets, order, numKeys>>
    ELSE /\ buckets' = SetBucket(buckets, k, RemoveAt(s, i))
         /\ numKeys' = numKeys - 1
         /\ order' = IF j = 0 THEN order ELSE RemoveAt(order, j)

(* HashCountKeys *)
BucketTotal(b) ==
    LET RECURSIVE Sum(_)
        Sum(S) == IF S = {} THEN 0 ELSE LET c == CHOOSE c \in S : TRUE IN Len(b[c]) + Sum(S \ {c})
    IN Sum(DOMAIN b)

(* HashPairi after the bounds check of HashAccessFunction("hpair") *)
IPair(i) ==
    IF i < 0 \/ i >= Len(order) THEN Err
    ELSE IF i > numKeys THEN Err
    ELSE LET live == {p \in (i+1)..Len(order) : IHashGet(buckets, order[p]) # Missing} IN
         IF live = {} THEN Err   \* the Go code panics; CallUserFunction turns it into an error
         ELSE LET p == CHOOSE p \in live : \A q \in live : p <= q IN
              <<"list", <<NK(order[p]), IHashGet(buckets, order[p])>>>>

(* results show keys in the normal form in which the abstract machine shows them (NormRes) *)
LivePairs ==
    LET idx == {p \in 1..Len(order) : IHashGet(buckets, order[p]) # Missing}
        RECURSIVE Build(_)
        Build(p) == IF p > Len(order) THEN <<>>
                    ELSE IF p \in idx THEN << <<NK(order[p]), IHashGet(buckets, order[p])>> >> \o Build(p+1)
                    ELSE Build(p+1)
    IN Build(1)
OrderShown == [p \in 1..Len(order) |-> NK(order[p])]

IDo(o) ==
    CASE o.op = "hset"  -> ISet(o.k, o.v) /\ iout' = Nil
      [] o.op = "hdel"  -> IDel(o.k) /\ iout' = Nil
      [] o.op = "hget"  -> /\ iout' = (LET r == IHashGet(buckets, o.k) IN IF r = Missing THEN Err ELSE r)
                           /\ UNCHANGED <<buckets, order, numKeys>>
      [] o.op = "hgetd" -> iout' = IGet(buckets, o.k, o.v) /\ UNCHANGED <<buckets, order, numKeys>>
      [] o.op = "keys"  -> iout' = <<"arr", OrderShown>> /\ UNCHANGED <<buckets, order, numKeys>>
      [] o.op = "len"   -> iout' = <<"int", BucketTotal(buckets)>> /\ UNCHANGED <<buckets, order, numKeys>>
      [] o.op = "hpair" -> iout' = IPair(o.i) /\ UNCHANGED <<buckets, order, numKeys>>
      [] o.op = "range" -> iout' = <<"pairs", LivePairs>> /\ UNCHANGED <<buckets, order, numKeys>>

IInit == Init /\ buckets = <<>> /\ order = <<>> /\ numKeys = 0 /\ iout = Nil
INext == \E o \in Ops : Do(o) /\ IDo(o)
ISpec == IInit /\ [][INext]_ivars

(* ---- refinement ---- *)
Refines     == iout = out /\ LivePairs = PairsOf(content)
CountAgrees == BucketTotal(buckets) = numKeys            \* else HashCountKeys panics
OrderExact  == Len(order) = numKeys /\ KeysOf(content) = OrderShown
Bounded     == Len(content) <= MaxLen
=============================================================================
