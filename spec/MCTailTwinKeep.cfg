SPECIFICATION Spec
CONSTANTS
  MaxLen = 3
  MaxN = 3
  Variant = "keepscopes"
INVARIANTS SpaceHolds
CHECK_DEADLOCK FALSE
