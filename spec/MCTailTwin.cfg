SPECIFICATION Spec
CONSTANTS
  MaxLen = 3
  MaxN = 3
  Variant = "fresh"
INVARIANTS InvisibleHolds SpaceHolds OrdinaryGrows
CHECK_DEADLOCK FALSE
