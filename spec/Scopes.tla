------------------------------ MODULE Scopes ------------------------------
(***************************************************************************)
(* Implementation-shaped model of the symbol lookup of zygomys behind C03  *)
(* (lexical scoping), refined against lexical lookup.                      *)
(*                                                                         *)
(* Transcribed from the code (zygo/):                                      *)
(*  - env.linearstack: ONE linear stack of *Scope for the whole machine    *)
(*    (scopes.go); AddScopeInstr pushes a block scope, AddFuncScopeInstr   *)
(*    pushes a scope with IsFunction = true and MyFunction = env.curfunc,  *)
(*    RemoveScopeInstr pops (vm.go).  A callee's scopes lie ON TOP of the  *)
(*    caller's live scopes.                                                *)
(*  - CreateClosureInstr (vm.go): myInvok = copy of the function;          *)
(*    myInvok.closingOverScopes = NewClosing(env); myInvok.parent =        *)
(*    env.curfunc.  NewClosing (closing.go) clones the linear stack and    *)
(*    keeps the part from the innermost IsFunction scope up to the top     *)
(*    (everything if there is no function scope): pointers to the live     *)
(*    scopes, not copies.                                                  *)
(*  - CallFunction (environment.go): env.curfunc = callee; the callee's    *)
(*    first instruction is AddFuncScopeInstr; parameters are bound in it.  *)
(*  - LexicalLookupSymbol (environment.go), used by EnvToStackInstr (read) *)
(*    and with setVal by UpdateInstr (set):                                *)
(*      1. linearstack.LookupSymbolUntilFunction(sym, 1, false): from the  *)
(*         top down, stop after the first IsFunction scope;                *)
(*      2. if curfunc.parent # nil: LookupSymbolInParentChainOfClosures:   *)
(*         cur = curfunc; while cur.parent # nil { search cur's captured   *)
(*         stack until 1 function; cur = cur.parent } (the function whose  *)
(*         parent is nil is not searched); else curfunc's own captured     *)
(*         stack until 1 function;                                         *)
(*      3. linearstack.LookupSymbolUntilFunction(sym, 1, true): the scan   *)
(*         of 1. again, but at the function scope the WHOLE captured stack *)
(*         of scope.MyFunction is searched (Stack.lookupSymbol, dynamic);  *)
(*      4. "symbol not found".                                             *)
(*  - BindSymbol (def, parameters): binds in the top scope of the stack.   *)
(*                                                                         *)
(* Independently every scope carries its LEXICAL PARENT (ghost field lex,  *)
(* never read by LookupImpl): for a block the scope that was innermost     *)
(* when it was opened, for a function scope the scope that was innermost   *)
(* when the closure was created (ghost field def of the closure, kept      *)
(* apart from the captured stack cap).  LookupLexical walks lex.           *)
(* Refines: in every reachable state both answer with the same scope for   *)
(* every name.                                                             *)
(*                                                                         *)
(* Variant switches on wrong variants that TLC must refute:                *)
(*   "dynamic"   step 1 scans the whole linear stack (Stack.lookupSymbol)  *)
(*   "twofn"     step 1 scans two function scopes (maxFuncToScan = 2)      *)
(*   "nocapture" a closure captures nothing (NewEmptyClosing)              *)
(*   "notrim"    NewClosing keeps the whole clone (caller scopes included) *)
(***************************************************************************)
EXTENDS Integers, Sequences, FiniteSets

CONSTANTS Names,      \* the pool of variable names
          MaxScopes,  \* scopes ever created (ids 1..MaxScopes; 1 is the global scope)
          MaxFuns,    \* closures ever created (ids 1..MaxFuns; 0 is __main)
          MaxDepth,   \* length of the linear stack
          Variant

NIL == -1             \* parent of __main
NoScope == 0          \* "not found" / no lexical parent

(* ------------------------------------------------------------------ *)
(* Pure operators over a state record                                  *)
(*   st.sc    : scope id -> [binds, isFn, fn, lex]                     *)
(*   st.funs  : function id -> [cap, parent]                           *)
(*   st.stack : the linear stack, bottom first                         *)
(*   st.cur   : env.curfunc                                            *)
(* They are used by the model checker and by ScopesTrace.              *)
(* ------------------------------------------------------------------ *)

(* Stack.lookupSymbol(sym, 0): the whole stack from the top down *)
RECURSIVE DynScan(_, _, _, _)
DynScan(sc, stk, i, n) ==
    IF i = 0 THEN NoScope
    ELSE IF n \in sc[stk[i]].binds THEN stk[i]
    ELSE DynScan(sc, stk, i - 1, n)

(* Stack.LookupSymbolUntilFunction(sym, setVal, left, cc) from position i down *)
RECURSIVE UntilFn(_, _, _, _, _, _, _)
UntilFn(sc, funs, stk, i, n, left, cc) ==
    IF i = 0 THEN NoScope
    ELSE LET s == stk[i] IN
      IF n \in sc[s].binds THEN s
      ELSE IF sc[s].isFn
      THEN LET cp == funs[sc[s].fn].cap
               r  == IF cc THEN DynScan(sc, cp, Len(cp), n) ELSE NoScope   \* MyFunction.ClosingLookupSymbol
           IN IF r # NoScope THEN r
              ELSE IF left <= 1 THEN NoScope                                \* funcCount >= maximumFuncToSearch
              ELSE UntilFn(sc, funs, stk, i - 1, n, left - 1, cc)
      ELSE UntilFn(sc, funs, stk, i - 1, n, left, cc)

(* SexpFunction.ClosingLookupSymbolUntilFunc(sym, setVal, 1, false) *)
ClosingUntilFn(sc, funs, f, n) ==
    LET cp == funs[f].cap IN UntilFn(sc, funs, cp, Len(cp), n, 1, FALSE)

(* SexpFunction.LookupSymbolInParentChainOfClosures *)
RECURSIVE Chain(_, _, _, _)
Chain(sc, funs, c, n) ==
    IF funs[c].parent = NIL THEN NoScope
    ELSE LET r == ClosingUntilFn(sc, funs, c, n) IN
         IF r # NoScope THEN r ELSE Chain(sc, funs, funs[c].parent, n)

(* Zlisp.LexicalLookupSymbol; v selects the variant of step 1 *)
LookupImplV(st, n, v) ==
    LET sc == st.sc  funs == st.funs  stk == st.stack
        r1 == CASE v = "dynamic" -> DynScan(sc, stk, Len(stk), n)
                [] v = "twofn"   -> UntilFn(sc, funs, stk, Len(stk), n, 2, FALSE)
                [] OTHER         -> UntilFn(sc, funs, stk, Len(stk), n, 1, FALSE)
        r2 == IF funs[st.cur].parent # NIL THEN Chain(sc, funs, st.cur, n)
              ELSE ClosingUntilFn(sc, funs, st.cur, n)
        r3 == UntilFn(sc, funs, stk, Len(stk), n, 1, TRUE)
    IN IF r1 # NoScope THEN r1 ELSE IF r2 # NoScope THEN r2 ELSE r3

LookupImpl(st, n) == LookupImplV(st, n, "code")

(* the oracle: walk of lexical parents from the innermost scope *)
RECURSIVE LexWalk(_, _, _)
LexWalk(sc, s, n) ==
    IF s = NoScope THEN NoScope
    ELSE IF n \in sc[s].binds THEN s
    ELSE LexWalk(sc, sc[s].lex, n)

LookupLexical(st, n) == LexWalk(st.sc, st.stack[Len(st.stack)], n)

RECURSIVE LexAncestors(_, _)
LexAncestors(sc, s) == IF s = NoScope THEN {} ELSE {s} \cup LexAncestors(sc, sc[s].lex)

(* NewClosing: the clone from the innermost function scope to the top *)
RECURSIVE FnPos(_, _, _)
FnPos(sc, stk, i) == IF i = 0 THEN 1 ELSE IF sc[stk[i]].isFn THEN i ELSE FnPos(sc, stk, i - 1)
Captured(sc, stk, v) ==
    CASE v = "nocapture" -> <<>>
      [] v = "notrim"    -> stk
      [] OTHER           -> SubSeq(stk, FnPos(sc, stk, Len(stk)), Len(stk))

(* ------------------------------------------------------------------ *)
(* The machine                                                         *)
(* ------------------------------------------------------------------ *)
VARIABLES sc, funs, stack, cur, ret, nsc, nfn
vars == <<sc, funs, stack, cur, ret, nsc, nfn>>

St == [sc |-> sc, funs |-> funs, stack |-> stack, cur |-> cur]
Top == stack[Len(stack)]

NoSc == [binds |-> {}, isFn |-> FALSE, fn |-> 0, lex |-> NoScope]
NoFn == [cap |-> <<>>, parent |-> NIL, def |-> NoScope]

Init == /\ sc = [s \in 1..MaxScopes |-> NoSc]          \* scope 1: the global scope
        /\ funs = [f \in 0..MaxFuns |-> NoFn]           \* function 0: __main, parent nil, no captured stack
        /\ stack = <<1>>
        /\ cur = 0
        /\ ret = <<>>                                  \* addrstack: the functions to return to
        /\ nsc = 1
        /\ nfn = 0

(* let / newScope / for body ...: AddScopeInstr *)
OpenBlock == /\ nsc < MaxScopes /\ Len(stack) < MaxDepth
             /\ nsc' = nsc + 1
             /\ sc' = [sc EXCEPT ![nsc + 1] = [binds |-> {}, isFn |-> FALSE, fn |-> 0, lex |-> Top]]
             /\ stack' = Append(stack, nsc + 1)
             /\ UNCHANGED <<funs, cur, ret, nfn>>

(* RemoveScopeInstr of a block *)
CloseBlock == /\ Len(stack) > 1 /\ ~sc[Top].isFn
              /\ stack' = SubSeq(stack, 1, Len(stack) - 1)
              /\ UNCHANGED <<sc, funs, cur, ret, nsc, nfn>>

(* (fn ...) / (defn ...) evaluated here: CreateClosureInstr *)
MakeClosure == /\ nfn < MaxFuns
               /\ nfn' = nfn + 1
               /\ funs' = [funs EXCEPT ![nfn + 1] =
                              [cap |-> Captured(sc, stack, Variant), parent |-> cur, def |-> Top]]
               /\ UNCHANGED <<sc, stack, cur, ret, nsc>>

(* CallInstr of closure f with the parameters ps: CallFunction + AddFuncScopeInstr + binding *)
Call(f, ps) == /\ nsc < MaxScopes /\ Len(stack) < MaxDepth
               /\ nsc' = nsc + 1
               /\ sc' = [sc EXCEPT ![nsc + 1] = [binds |-> ps, isFn |-> TRUE, fn |-> f, lex |-> funs[f].def]]
               /\ stack' = Append(stack, nsc + 1)
               /\ ret' = Append(ret, cur)
               /\ cur' = f
               /\ UNCHANGED <<funs, nfn>>

(* end of the body: RemoveScopeInstr of the function scope + ReturnInstr *)
Return == /\ Len(ret) > 0 /\ sc[Top].isFn
          /\ stack' = SubSeq(stack, 1, Len(stack) - 1)
          /\ cur' = ret[Len(ret)]
          /\ ret' = SubSeq(ret, 1, Len(ret) - 1)
          /\ UNCHANGED <<sc, funs, nsc, nfn>>

(* (def n v): BindSymbol in the top scope *)
Def(n) == /\ sc' = [sc EXCEPT ![Top].binds = @ \cup {n}]
          /\ UNCHANGED <<funs, stack, cur, ret, nsc, nfn>>

(* (set n v) updates the scope LexicalLookupSymbol(sym, setVal) answers with and a read  *)
(* answers with the same call without setVal: neither changes which names are bound      *)
(* where, so both are stuttering steps here; what they answer is the invariant Refines.  *)

Next == \/ OpenBlock \/ CloseBlock \/ MakeClosure \/ Return
        \/ \E f \in 1..nfn, ps \in SUBSET Names : Call(f, ps)
        \/ \E n \in Names : Def(n)

Spec == Init /\ [][Next]_vars

(* ------------------------------------------------------------------ *)
(* Invariants                                                          *)
(* ------------------------------------------------------------------ *)
TypeOK == /\ nsc \in 1..MaxScopes /\ nfn \in 0..MaxFuns
          /\ Len(stack) \in 1..MaxDepth /\ \A i \in 1..Len(stack) : stack[i] \in 1..nsc
          /\ cur \in 0..nfn

(* the statement: the code's lookup answers with the lexically right scope *)
Refines == \A n \in Names : LookupImplV(St, n, Variant) = LookupLexical(St, n)

(* a caller's live scope is never answered unless it is a lexical ancestor *)
NoCallerLeak == \A n \in Names :
    LET r == LookupImplV(St, n, Variant) IN r = NoScope \/ r \in LexAncestors(sc, Top)

(* shape of what the code keeps, on which the argument rests *)
CapShape == \A f \in 1..nfn : LET cp == funs[f].cap IN
    /\ Len(cp) >= 1 /\ cp[Len(cp)] = funs[f].def                           \* captured top = defining scope
    /\ \A i \in 2..Len(cp) : ~sc[cp[i]].isFn /\ sc[cp[i]].lex = cp[i-1]    \* blocks above, each the child of the one below
    /\ (sc[cp[1]].isFn => sc[cp[1]].fn = funs[f].parent)                   \* bottom: the creating invocation's scope
    /\ (~sc[cp[1]].isFn => cp[1] = 1 /\ funs[f].parent = 0)                \* or the global scope, created by __main
CurOwnsTopFn ==
    LET p == FnPos(sc, stack, Len(stack)) IN
    IF sc[stack[p]].isFn THEN sc[stack[p]].fn = cur ELSE cur = 0
=============================================================================
