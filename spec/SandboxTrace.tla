---------------------------- MODULE SandboxTrace ----------------------------
(***************************************************************************)
(* Trace validation for C08.  Every line of the trace file is one case:    *)
(* the probes of one vector (configuration, name, derivation route) under  *)
(* every argument shape, or one grammar-generated program, executed on the *)
(* REAL interpreter / the real cmd/zygo binary in a throw-away directory   *)
(* with canaries (harness/cmd/zv/fam_sandbox.go):                          *)
(*   [id, kind |-> "probe" | "prog" | "control", cfg, names, route,        *)
(*    pre, shadow (what the script bound itself first), hist (process      *)
(*    history: "" sandbox first | "after" an unsandboxed interpreter),     *)
(*    inotify, evs |-> << [shape, out, events |-> <<observed events>>,     *)
(*                          host |-> state of the host after the probe] >>]  *)
(* The oracle is the property itself, independent of any table: in a       *)
(* sandboxed configuration the observed event set of EVERY probe is empty  *)
(* and the host is still there afterwards (Sandbox!HostStates: it answered, *)
(* or the harness stopped it, or the machine starved it -- never exit or   *)
(* fatal; the record of a probe must tell one story: HostConsistent).      *)
(* A non-empty set is explained only by a named deviation enabled in       *)
(* VERIF_DEVS (verdict known:<id>); anything else is "bad" at that event.  *)
(* Cases of the unsandboxed control configuration are judged the other way *)
(* round: the direct call of a known outside-world primitive must show the *)
(* event of each of its capabilities (Sandbox!PrimCap), otherwise the      *)
(* canaries cannot see that capability and the verdict is "blind".         *)
(***************************************************************************)
EXTENDS Sandbox, SequencesExt

ASSUME TLCSet(11, ndJsonDeserialize(IOEnv.VERIF_TRACE))
Cases == TLCGet(11)

DevList == "," \o (IF "VERIF_DEVS" \in DOMAIN IOEnv THEN IOEnv.VERIF_DEVS ELSE "") \o ","
DevOn(d) == ReplaceFirstSubSeq("", "," \o d \o ",", DevList) # DevList

(* named deviations: genuine defects of the pinned tree (proposed_fixes/C08-*.md) *)
Deviations == <<
  [id |-> "include-reads-file", names |-> {"include"}, cfgs |-> {"bare", "std", "cmd"},
   events |-> {"leak", "open"}],
  (* StandardSetup installs the builders sys (a shell: any file or exec event) and import *)
  [id |-> "stdsetup-builders", names |-> {"sys", "import"}, cfgs |-> {"std", "cmd"},
   events |-> {"marker", "leak", "open", "create", "modify"}] >>

Elems(s) == {s[k] : k \in 1..Len(s)}

(* index of the first enabled deviation that explains the events of a probe of case c; 0: none *)
Explains(c, evset) ==
    LET ok(k) == /\ DevOn(Deviations[k].id)
                 /\ Deviations[k].names \cap Elems(c.names) # {}
                 /\ c.cfg \in Deviations[k].cfgs
                 /\ evset \subseteq Deviations[k].events
        S == {k \in 1..Len(Deviations) : ok(k)}
    IN IF S = {} THEN 0 ELSE CHOOSE k \in S : \A j \in S : k <= j

VARIABLES ci, pos, verdict, dev
tvars == <<ci, pos, verdict, dev, vars>>   \* (vars: the variables of Sandbox, unused here)

Case == Cases[ci]
Evs == Case.evs
IsControl == Case.cfg = "full"

TInit == /\ ci \in 1..Len(Cases) /\ pos = 1 /\ verdict = "run" /\ dev = 0
         /\ cfg = 1 /\ nm = 1 /\ route = <<>> /\ world = {} /\ defs = {}

TStep ==
    /\ verdict = "run" /\ pos <= Len(Evs)
    /\ LET evset == Elems(Evs[pos].events)
           wellformed == evset \subseteq Events /\ HostConsistent(Evs[pos].host, evset)
           d == IF evset = {} \/ IsControl THEN 0 ELSE Explains(Case, evset)
       IN IF wellformed /\ (evset = {} \/ IsControl \/ d # 0)
          THEN /\ pos' = pos + 1
               /\ dev' = IF dev = 0 THEN d ELSE dev
               /\ UNCHANGED <<ci, verdict>>
          ELSE /\ verdict' = "bad" /\ UNCHANGED <<ci, pos, dev>>
               /\ PrintT(<<"VERDICT", Case.id, "bad", pos>>)

(* the control: every capability of a known primitive must be visible through its event *)
ControlShows(n) == IF Expands(n) # {} THEN UNION {ShownBy(m) : m \in Expands(n)} ELSE ShownBy(n)
Observed == UNION {Elems(Evs[k].events) : k \in 1..Len(Evs)}
Blind == /\ IsControl /\ Case.route = "direct" /\ Len(Case.names) = 1
         /\ ~(ControlShows(Case.names[1]) \subseteq Observed)

TDone ==
    /\ verdict = "run" /\ pos > Len(Evs)
    /\ verdict' = IF Blind THEN "blind" ELSE IF dev # 0 THEN "known" ELSE "ok"
    /\ UNCHANGED <<ci, pos, dev>>
    /\ PrintT(<<"VERDICT", Case.id,
                IF Blind THEN "blind" ELSE IF dev # 0 THEN "known:" \o Deviations[dev].id ELSE "ok", pos - 1>>)

TNext == (TStep \/ TDone) /\ UNCHANGED vars
TSpec == TInit /\ [][TNext]_tvars
=============================================================================
