CONSTANTS
  MaxN = 3
  MaxForces = 3
  Muts = {"none", "eager", "wrap", "bypos", "nomemo", "refail", "renest", "wrongenv"}
SPECIFICATION Spec
INVARIANT Sound
POSTCONDITION Sensitive
CHECK_DEADLOCK FALSE
