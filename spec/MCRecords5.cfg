SPECIFICATION Spec
CONSTANTS
  Names <- MCNames
  Devs = {}
  DefPalette <- MCDefsQuick
  BaseVals <- MCBaseValsQuick
  FieldNames <- MCFieldsQuick
  Routes <- MCRoutesQuick
  MaxSlots = 3
  MaxPtrs = 1
  MaxVer = 2
  MaxSteps = 5
INVARIANT WellTyped
PROPERTIES RejectedUnchanged KeepsDefinition
CHECK_DEADLOCK FALSE
