----------------------------- MODULE PrattTrace -----------------------------
(***************************************************************************)
(* Trace validation for C06.  Every line of the trace file is one infix    *)
(* block executed on the real interpreter (harness family "pratt"):        *)
(*   toks   the intended token list (what the text was rendered from)      *)
(*   lexed  the token list the real reader delivered for the block         *)
(*   tree   the statements returned by (infixExpand {...}), nested blocks  *)
(*          annotated with the real translation of their contents          *)
(*   ptree  the reader's view of the infix-free prefix program the harness *)
(*          evaluated for comparison                                       *)
(*   val/eff/st, pval/peff/pst   value, (tr x) trace and final state of    *)
(*          the block and of the prefix program                            *)
(* Each case is an initial state; one step decides it with the declarative *)
(* definition of Pratt.tla:                                                *)
(*   lex    lexed = toks            (spacing does not change the tokens)   *)
(*   tree   tree  = Expected(toks)  (the precedence table)                 *)
(*   ptree  ptree = (begin ExpectedFull(toks))  (the prefix program that   *)
(*          was evaluated IS the form the specification predicts)          *)
(*   val, eff, state                (same value, effects, final state)     *)
(* A case that fails is "bad" with the name of the first failing stage,    *)
(* unless a named deviation enabled in VERIF_DEVS explains its tree        *)
(* (the algorithm of pratt.go with that deviation gives exactly the        *)
(* recorded tree): "known:<id>".                                           *)
(***************************************************************************)
EXTENDS Pratt, Json, IOUtils, TLC, SequencesExt

(* read the trace once: TLC does not cache a definition that mentions IOEnv *)
ASSUME TLCSet(6, ndJsonDeserialize(IOEnv.VERIF_TRACE))
Cases == TLCGet(6)
DevStr == IOEnv.VERIF_DEVS
Enabled(id) == ReplaceFirstSubSeq("", id, DevStr) # DevStr     \* id occurs in the list
OnDevs == {d \in AllDevs : Enabled(d)}

VARIABLES ci, verdict
tvars == <<ci, verdict>>

(* The reader keeps a ':' that directly follows a word as a flag of that symbol (label
   `outer:`, slice bound `c:`), which the harness cannot see: labels are compared as
   symbols and a colon after a symbol is not compared here (the tree stage shows it). *)
RECURSIVE LexView(_), LexViewSeq(_), NoSymColon(_)
NoSymColon(ts) ==
    IF ts = <<>> THEN <<>>
    ELSE IF Len(ts) >= 2 /\ ts[1][1] \in {"sym", "label"} /\ ts[2][1] = "colon"
         THEN <<ts[1]>> \o NoSymColon(SubSeq(ts, 3, Len(ts)))
    ELSE <<ts[1]>> \o NoSymColon(Tail(ts))
LexViewSeq(ts) == LET us == NoSymColon(ts) IN [i \in 1..Len(us) |-> LexView(us[i])]
LexView(t) ==
    CASE t[1] = "label" -> <<"sym", t[2]>>
      [] t[1] \in {"block", "idx"} -> <<t[1], LexViewSeq(t[2])>>
      [] t[1] = "call" -> <<"call", t[2], LexViewSeq(t[3])>>
      [] OTHER -> t

(* deviation slice-colon-lost-after-dotpath: `h.k:` is read as the path alone *)
RECURSIVE DropColon(_), DropColonTok(_)
DropColonTok(t) ==
    CASE t[1] \in {"block", "idx"} -> <<t[1], DropColon(t[2])>>
      [] t[1] = "call" -> <<"call", t[2], DropColon(t[3])>>
      [] OTHER -> t
DropColon(ts) ==
    IF ts = <<>> THEN <<>>
    ELSE IF Len(ts) >= 2 /\ ts[1][1] = "path" /\ ts[2][1] = "colon"
         THEN <<ts[1]>> \o DropColon(SubSeq(ts, 3, Len(ts)))
    ELSE <<DropColonTok(ts[1])>> \o DropColon(Tail(ts))

Stmt(trees) == <<"stmts", trees>>
Begin(trees) == IF trees = <<>> THEN NilTree ELSE Ls(<<S("begin")>> \o trees)

TreeDevs == OnDevs \ {DevColon}
Explains(c, D) == D # {} /\ c.tree = Stmt(Algorithm(c.toks, D))

(* <<verdict, stage>> *)
Judge(c) ==
    LET toks == c.toks
        ss   == Stmts(toks)                       \* definition (A), evaluated once
        want == LexViewSeq(toks)
        got  == LexViewSeq(c.lexed)
    IN
    IF ~(IncOnlyLast(toks) /\ \A i \in 1..Len(ss) : AstOK(ss[i])) THEN <<"bad", "domain">>   \* ~InDomain(toks)
    ELSE IF got # want
    THEN IF DevColon \in OnDevs /\ got = LexViewSeq(DropColon(toks))
         THEN <<"known:" \o DevColon, "lex">>
         ELSE <<"bad", "lex">>
    ELSE IF c.tree # Stmt(TreeSeq(ss, {"decl"}, FALSE))                    \* Expected(toks)
    THEN IF \E d \in TreeDevs : Explains(c, {d})
         THEN <<"known:" \o (CHOOSE d \in TreeDevs : Explains(c, {d})), "tree">>
         ELSE IF Explains(c, TreeDevs)
         THEN <<"known:" \o (CHOOSE d \in TreeDevs : TRUE), "tree">>
         ELSE <<"bad", "tree">>
    ELSE IF c.ptree # Begin(TreeSeq(ss, {"decl"}, TRUE)) THEN <<"bad", "ptree">>   \* ExpectedFull(toks)
    ELSE IF c.val # c.pval THEN <<"bad", "val">>
    ELSE IF c.eff # c.peff THEN <<"bad", "eff">>
    ELSE IF c.st # c.pst THEN <<"bad", "state">>
    ELSE <<"ok", "all">>

TInit == ci \in 1..Len(Cases) /\ verdict = "run"

TStep ==
    /\ verdict = "run"
    /\ LET j == Judge(Cases[ci]) IN
       /\ verdict' = j[1]
       /\ PrintT(<<"VERDICT", Cases[ci].id, j[1], j[2]>>)
    /\ UNCHANGED ci

TNext == TStep
TSpec == TInit /\ [][TNext]_tvars
=============================================================================
