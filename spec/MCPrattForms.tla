---------------------------- MODULE MCPrattForms ----------------------------
(***************************************************************************)
(* Design audit of Pratt.tla, part 2: if / else-if / else chains and       *)
(* go-style for statements (three-clause, condition-only, infinite,        *)
(* labelled, with break/continue), alone and between other statements.     *)
(* For every list of the family the algorithm of pratt.go and the          *)
(* declarative definition give the same statements and the same trees,     *)
(* also in the infix-free form.  The arms of if/else are blocks or, without *)
(* braces, one expression (nil, 'c', 5ULL among the operands) or one       *)
(* break/continue statement; a statement that follows break/continue by    *)
(* mere juxtaposition (a newline in the text) is not its label.  The       *)
(* family is a constant set; TLC evaluates the ASSUME.                     *)
(***************************************************************************)
EXTENDS Pratt, TLC

VARIABLE done
A  == <<"sym", "a">>
B  == <<"sym", "b">>
I1 == <<"int", 1>>
Blk == <<"block", <<A, <<"op", "-">>, I1>> >>
Op(n) == <<"op", n>>

(* if/else and for statements: a fixed family *)
K(k) == <<"kw", k>>
Conds == { <<A>>, <<A, Op(">"), I1>>, <<Op("not"), A>>, <<A, Op("and"), B, Op("or"), A>>,
           <<A, Op("="), I1>>, <<Blk, Op("<"), A>>, <<A, <<"idx", <<I1>> >>, Op("=="), I1>> }
FConds == {c \in Conds : \A i \in 1..Len(c) : c[i][1] # "block"}   \* the first block after `for` is its body
Conds2 == { <<A, Op(">"), I1>>, <<Op("not"), A>> }
Blk2 == <<"block", <<B, Op("+="), I1, <<"semi">>, B>> >>
Empty == <<"block", <<>> >>
IfLists ==
    { <<K("if")>> \o c \o <<Blk>> : c \in Conds }
    \cup { <<K("if")>> \o c \o <<Blk, K("else"), Blk2>> : c \in Conds }
    \cup { <<K("if")>> \o c \o <<Blk, K("else"), K("if")>> \o d \o <<Blk2>> : c \in Conds, d \in Conds2 }
    \cup { <<K("if")>> \o c \o <<Blk, K("else"), K("if")>> \o d \o <<Blk2, K("else"), Blk>> : c \in Conds2, d \in Conds }
Clauses == { <<>>, <<A, Op(":="), I1>>, <<A, Op("<"), I1, Op("+"), B>>, <<A, Op("++")>>, <<A, Op("+="), B, Op("*"), I1>> }
ForLists ==
    { <<K("for")>> \o c \o <<Blk2>> : c \in FConds \cup {<<>>} }
    \cup { <<K("for")>> \o i \o << <<"semi">> >> \o t \o << <<"semi">> >> \o p \o <<b>> :
             i \in Clauses, t \in Conds2 \cup {<<>>}, p \in Clauses, b \in {Blk2, Empty} }
    \cup { << <<"label", "outer">>, K("for")>> \o c \o << <<"block", <<K("continue"), <<"sym", "outer">> >> >> >> : c \in FConds }
    \cup { <<K("for")>> \o c \o << <<"block", <<K("break")>> >> >> : c \in FConds }
(* arms without braces *)
Nil == <<"nil">>
Chr == <<"chr", 120>>
U64 == <<"uint", "5">>
Cll == <<"call", "t", <<I1>> >>
Out == <<"sym", "outer">>
Arms == { <<B, Op("="), I1>>, <<B>>, <<Nil>>, <<Chr>>, <<U64, Op("+"), B>>, <<Cll>>, <<I1>>,
          <<K("continue")>>, <<K("break")>>, <<K("continue"), Out>>, <<B, Op("++")>> }
UConds == { <<A>>, <<A, Op(">"), I1>>, <<Op("not"), A>>, <<A, Op("=="), Nil>>, <<Blk>> }
UIfLists ==
    { <<K("if")>> \o c \o x : c \in UConds, x \in Arms }
    \cup { <<K("if")>> \o c \o x \o <<K("else")>> \o y : c \in Conds2, x \in Arms, y \in Arms \cup {<<Blk2>>} }
    \cup { <<K("if")>> \o c \o <<Blk, K("else")>> \o y : c \in UConds, y \in Arms }
    \cup { <<K("if")>> \o c \o x \o <<K("else"), K("if")>> \o d \o y \o <<K("else")>> \o z :
             c \in Conds2, d \in Conds2, x \in Arms, y \in {<<B>>, <<K("break")>>, <<Blk>>}, z \in {<<Nil>>, <<K("continue")>>} }
(* loops whose body holds break/continue without braces, followed by other statements *)
CtlBodies == { <<K("if"), A, Op("=="), I1, k>> \o nxt : k \in {K("continue"), K("break")},
                  nxt \in { <<B, Op("+="), A>>, <<K("else"), B, Op("+="), A>>, <<B, <<"idx", <<I1>> >>, Op("="), A>>,
                            <<B, Op("++")>>, <<Cll>>, << <<"semi">>, B>>, <<Out, B, Op("+="), A>> } }
             \cup { <<A, Op("++"), K("if"), A, Op(">"), I1, K("break"), B, Op("+="), A>>,
                    <<Cll, K("continue"), B, Op("+="), A>> }
CtlForLists == { << <<"label", "outer">>, K("for"), A, Op("<"), I1, <<"block", b>> >> : b \in CtlBodies }
                \cup { <<K("for"), <<"block", b>> >> : b \in CtlBodies }

Around(l) == { l, <<A, Op("="), I1>> \o l \o <<A>>, <<A, <<"semi">> >> \o l \o << <<"semi">>, A, Op("++")>>,
               l \o <<A, Op("+="), I1>> }
StmtLists == UNION { Around(l) : l \in IfLists \cup ForLists \cup UIfLists \cup CtlForLists }

ASSUME \A l \in StmtLists :
          /\ InDomain(l)
          /\ PStmts(l, {}) = Stmts(l)
          /\ Algorithm(l, {}) = Expected(l)
          /\ ExpectedFull(l) = TreeSeq(PStmts(l, {}), {}, TRUE)

Init == done = FALSE
Next == done = FALSE /\ done' = TRUE
Spec == Init /\ [][Next]_done
=============================================================================
