----------------------------- MODULE EntryTrace -----------------------------
(***************************************************************************)
(* Recorded histories of host calls on ONE real interpreter, validated     *)
(* against EntryPoints: every event is one call of an entry point with     *)
(* what the host can see afterwards: the outcome, the effects that ran     *)
(* during the call, the program counter and the size of the top-level      *)
(* buffer, the depths of the four stacks.  The model state is advanced     *)
(* with the same functions the model checker uses (LoadF, RunF, EvalF,     *)
(* ApplyF, ClearF, RejectF).                                               *)
(***************************************************************************)
EXTENDS EntryPoints, Json, IOUtils

ASSUME TLCSet(11, ndJsonDeserialize(IOEnv.VERIF_TRACE))
Cases == TLCGet(11)
Rest == <<0, 1, 0, 0>>

VARIABLES ci, pos, verdict
tvars == <<vars, ci, pos, verdict>>

Evs == Cases[ci].evs

StepF(s, e) ==
    CASE e.op = "load" -> LoadF(s, Chunk(e.id, e.kind))
      [] e.op \in {"eval", "evalx"} -> EvalF(s, Chunk(e.id, e.kind))
      [] e.op = "reject" -> RejectF(s)
      [] e.op = "run" -> RunF(s)
      [] e.op = "apply" -> ApplyF(s, e.id, e.kind)
      [] e.op = "source" -> SourceF(s, e.id, e.kind)
      [] e.op = "evalfn" -> EvalFnF(s, e.id, e.kind)
      [] e.op = "clear" -> ClearF(s)

(* what the host observed after the call, against the model state after it *)
Matches(s0, s, e) ==
    LET newfx == SubSeq(s.fx, Len(s0.fx) + 1, Len(s.fx)) IN
    IF e.fx # newfx THEN "effects"
    ELSE IF e.op \notin {"load", "clear"} /\ e.out # s.out THEN "outcome"
    ELSE IF e.op = "load" /\ e.out[1] = "err" THEN "load-refused"
    ELSE IF e.pc < 0 \/ e.pc > e.size THEN "pc-out-of-range"
    ELSE IF (e.pc = e.size) # (Len(s.pending) = 0) THEN "pending"
    ELSE IF e.depths # Rest THEN "not-at-rest"
    ELSE IF ~e.inmain THEN "not-in-main"
    ELSE "ok"

TInit == ci \in 1..Len(Cases) /\ pos = 1 /\ verdict = "run" /\ Init

TStep ==
    /\ verdict = "run" /\ pos <= Len(Evs)
    /\ LET e == Evs[pos]
           s == StepF(St, e)
           m == Matches(St, s, e)
       IN IF m = "ok" THEN Set(s) /\ pos' = pos + 1 /\ UNCHANGED <<ci, verdict>>
          ELSE /\ verdict' = "bad" /\ UNCHANGED <<vars, ci, pos>>
               /\ PrintT(<<"VERDICT", Cases[ci].id, "bad", m, pos>>)

TDone ==
    /\ verdict = "run" /\ pos > Len(Evs)
    /\ verdict' = "ok" /\ UNCHANGED <<vars, ci, pos>>
    /\ PrintT(<<"VERDICT", Cases[ci].id, "ok", pos - 1>>)

TNext == TStep \/ TDone
TSpec == TInit /\ [][TNext]_tvars
=============================================================================
