SPECIFICATION Spec
CONSTANTS
  MaxDepth = 2
  Mint = FALSE
INVARIANTS TypeOK NoMinting DeadStaysDead
CHECK_DEADLOCK FALSE
