----------------------------- MODULE ZVMTrace -----------------------------
(***************************************************************************)
(* Binds ZVM to the real VM (family zvm).  Every case is one executed      *)
(* instruction: its operands from the listing, the top cells of the data   *)
(* stack before it (a window: the top 6, or down to the marker / mark a    *)
(* collecting instruction needs, + 1; full = the window is the whole       *)
(* stack), the cells that replaced the window after it, pc and scope depth *)
(* before and after.                                                       *)
(*   ok    Exec (ExecOracle with the recorded result) of the before-window *)
(*         is the recorded after-window, pc and scope depth                *)
(*   bad   it is not                                                       *)
(*   skip  the instruction kind is unknown to ZVM, a value was too large   *)
(*         to project, or the window was too small to decide               *)
(***************************************************************************)
EXTENDS ZVM, Json, IOUtils, TLC

ASSUME TLCSet(12, ndJsonDeserialize(IOEnv.VERIF_TRACE))
Cases == TLCGet(12)

VARIABLES ci, verdict
tvars == <<ci, verdict>>

Same(r, e) == r.pc = e.pc2 /\ r.sc = e.sc2 /\ EqSeq(r.st, e.after)

Judge(e) ==
    LET s == [pc |-> e.pc, st |-> e.before, sc |-> e.sc, err |-> ""] IN
    IF e.opaque THEN <<"skip", "opaque">>
    ELSE IF Determined(e) THEN
        LET r == Exec(e, s) IN
        IF r.err # "" THEN (IF e.full THEN <<"bad", "spec-fails-vm-went-on">> ELSE <<"skip", "window">>)
        ELSE IF Same(r, e) THEN <<"ok", e.op>> ELSE <<"bad", e.op>>
    ELSE IF e.op = "tailcall" /\ e.pc2 = 0 /\ e.pc + 1 # 0 THEN
        (* the function restarts: its scopes are gone (the arguments are on the stack: oracle) *)
        IF e.sc2 = e.sc - e.off THEN <<"ok", "tailcall-self">> ELSE <<"bad", "tailcall-self">>
    ELSE IF Oracular(e) THEN
        IF OraclePushes(e) = 1 /\ Len(e.after) = 0 THEN <<"skip", "window">>
        ELSE LET rc == IF OraclePushes(e) = 1 THEN e.after[Len(e.after)] ELSE Nil
                 r == ExecOracle(e, s, rc) IN
             IF r.err # "" THEN (IF e.full THEN <<"bad", "spec-fails-vm-went-on">> ELSE <<"skip", "window">>)
             ELSE IF Same(r, e) /\ OracleOK(e, s, rc) THEN <<"ok", e.op>> ELSE <<"bad", e.op>>
    ELSE <<"skip", e.op>>

TInit == ci \in 1..Len(Cases) /\ verdict = "run"
TStep == /\ verdict = "run"
         /\ LET j == Judge(Cases[ci]) IN
            /\ verdict' = j[1]
            /\ PrintT(<<"VERDICT", Cases[ci].id, j[1], j[2]>>)
         /\ UNCHANGED ci
TSpec == TInit /\ [][TStep]_tvars
=============================================================================
