SPECIFICATION Spec
CONSTANTS
  KeyRule = "any"
  D1 = TRUE
  D2 = FALSE
  D3 = FALSE
  MaxSteps = 1
  Depth = 1
  StepTrees = FALSE
INVARIANTS Refines AliasNeutral NoPrivateWrite WalkAudit PrivateStable InsideReads
CHECK_DEADLOCK FALSE
