--------------------------- MODULE ParseTrace ---------------------------
(***************************************************************************)
(* Trace validation for C13.  Every line of a trace file is one TEXT       *)
(* with everything the harness observed about it on the real parser:       *)
(*                                                                         *)
(*  cls    the text as a sequence of character classes (ParseSession),     *)
(*         each class as its position in ClassNames                        *)
(*  txt    the concrete text (for people and for -replay)                  *)
(*  strs   the distinct printed expressions of the case                    *)
(*  tab    interned results <<status, nc, exprs>>: status 1 more / 2 done  *)
(*         / 3 err / 4 panic, nc the number of returned expressions that   *)
(*         are not comments, exprs their printed forms (positions in       *)
(*         strs).  Results are referred to by their index in tab, so       *)
(*         "same result" is "same index".                                  *)
(*  refs   <<s, p, i>>: the substring cls[s+1..p] delivered WHOLE to a     *)
(*         fresh parser of a fresh interpreter gave result i               *)
(*  runs   <<hist, hl, load, cuts, obs, stale, rk>>: on a parser with      *)
(*         history number hist (whose last character had class hl) the     *)
(*         text was delivered in the pieces ending at cuts..Len(cls);      *)
(*         obs[j] is the result after piece j.  A piece continues the      *)
(*         current text (NewInput) only while the status is "more"; after  *)
(*         done/err the next piece starts a new text at that position (a   *)
(*         new "segment", loaded as every new text is, with a reset).      *)
(*         stale[j] (histories with queued-but-unread input only) is the   *)
(*         fresh result of the stale queued text followed by the segment   *)
(*         prefix; rk[j] is the position in refs of the reference for      *)
(*         piece j.                                                        *)
(* Everything but txt/strs travels as integers: reading strings is what    *)
(* costs TLC time.                                                         *)
(*                                                                         *)
(* Laws                                                                    *)
(*  L1 (relational: chunking and history)  for every piece, the result on  *)
(*     the session equals the fresh whole-text result of the segment       *)
(*     prefix delivered so far: obs[j] = ref(s, p).                        *)
(*  L2 (oracle: the automaton) for every fresh reference of a text t with  *)
(*     a == Run(t): status \in Statuses(a)  -- more iff Unfinished, no     *)
(*     hard error on exact text --, and if the text is finished and        *)
(*     pinned down, nc = Count(a) -- a last token that only the end of the *)
(*     text terminates is counted: it must not be lost.                    *)
(*  L3 (errors are final) a hard error for a prefix that is unfinished in *)
(*     the automaton (and not "lost") must be the result of every longer  *)
(*     recorded prefix with the same start: a prefix of an acceptable     *)
(*     text has to ask for more input, it may not be rejected.            *)
(*  Results that contain a Go panic are not judged (C01 states them).      *)
(*                                                                         *)
(* Named deviations (known findings), enabled by their id in the           *)
(* environment variable VERIF_DEVS; each is the exact wrong behaviour:     *)
(*  last-token-lost              a finished, pinned-down text whose last   *)
(*        token is terminated only by the end of the text yields           *)
(*        Count - 1 expressions                                            *)
(*  open-string-at-top-is-done   a text that ends inside a " string with   *)
(*        no bracket open has status done (the string is dropped)          *)
(*  dangling-minus-asks-more     a finished text whose last delivered      *)
(*        token is a lone - has status more                                *)
(*  star-star-slash-not-closing  the results agree with the automaton in   *)
(*        which a * after a * inside a block comment forgets the first *   *)
(*  reset-keeps-lookback         after a history whose last character      *)
(*        cannot precede a signed number, a text starting with -<digit>    *)
(*        reads as the two expressions - and <number>                      *)
(*  reset-keeps-queued-input     after a history that left a queued chunk  *)
(*        unread, the next text reads as stale chunk + text                *)
(*  dotted-pair-after-pause      a pause after an element of a list      *)
(*        and directly before the \ of a dotted pair makes the             *)
(*        continuation a hard error                                        *)
(*  quote-prefix-before-pause    after a pause directly behind a quote     *)
(*        prefix % ^ ~ the result of the text differs (the prefix is       *)
(*        applied to the end-of-input marker)                              *)
(*  sign-inf-after-pause         after a pause directly behind a lone - or *)
(*        + inside an open construct, a following word (Inf) is not joined *)
(*        to the sign                                                      *)
(***************************************************************************)
EXTENDS ParseSession, Json, IOUtils, TLC

(* The trace is either one ndjson file (VERIF_TRACE) or, for large runs, the     *)
(* VERIF_NSHARD files VERIF_TRACE.s1 .. VERIF_TRACE.sN.  Every FILE is an        *)
(* initial state and the cases of a file are judged in one step, so that TLC's   *)
(* workers read and judge the files in parallel (reading the JSON dominates).    *)
NShard == IF "VERIF_NSHARD" \in DOMAIN IOEnv THEN atoi(IOEnv.VERIF_NSHARD) ELSE 0
ShardCases(k) == IF NShard = 0 THEN ndJsonDeserialize(IOEnv.VERIF_TRACE)
                 ELSE ndJsonDeserialize(IOEnv.VERIF_TRACE \o ".s" \o ToString(k))

ClassNames == <<"(", ")", "[", "]", "{", "}", "dq", "bs", "bt", "sq",
               "a", "1", "-", ":", ".", "/", "*", ";", "sp", "nl", "op", "q", "t", ",", "x", "none", "?", "+", "@">>
StatusNames == <<"more", "done", "err", "panic">>
(* a case with names instead of numbers *)
Named(C) == [C EXCEPT !.cls = [k \in 1..Len(C.cls) |-> ClassNames[C.cls[k]]],
                      !.tab = [k \in 1..Len(C.tab) |-> <<StatusNames[C.tab[k][1]], C.tab[k][2], C.tab[k][3]>>]]

DevStr == IF "VERIF_DEVS" \in DOMAIN IOEnv THEN IOEnv.VERIF_DEVS ELSE ""
On(id) == \E i \in 1..Len(DevStr) :
             i + Len(id) - 1 <= Len(DevStr) /\ SubSeq(DevStr, i, i + Len(id) - 1) = id
DevNames == <<"last-token-lost", "open-string-at-top-is-done", "reset-keeps-lookback",
              "reset-keeps-queued-input", "star-star-slash-not-closing", "dangling-minus-asks-more",
              "dotted-pair-after-pause", "quote-prefix-before-pause", "sign-inf-after-pause">>
NDev == 9
(* the enabled deviations, computed once per initial state and carried in the state *)
DevFlags == [k \in 1..NDev |-> On(DevNames[k])]

(* Max(S) and Min(S) of a set of integers come from FiniteSetsExt (via SequencesExt) *)

(* verdict codes: 0 ok, 1..NDev explained only by deviation DevNames[k], Bad, -1 not judged *)
Bad == 99
Worst(a, b) ==
    CASE a = Bad \/ b = Bad -> Bad
      [] a \in 1..NDev /\ b \in 1..NDev -> IF a < b THEN a ELSE b
      [] a \in 1..NDev -> a
      [] b \in 1..NDev -> b
      [] a = -1 \/ b = -1 -> -1
      [] OTHER -> 0

(* ---------------- L2: a fresh reference against the automaton ---------------- *)
Ok0(a, r) == /\ r[1] \in Statuses(a)
             /\ (r[1] = "done" /\ CountExact(a) => r[2] = Count(a))
D1(a, r) == /\ r[1] = "done" /\ CountExact(a) /\ Pending(a) /\ r[2] = a.n
D2(a, r) == /\ r[1] = "done" /\ a.st = <<>> /\ a.m \in {"str", "stresc"} /\ a.q # "lost"
            /\ (a.q = "exact" => r[2] = a.n)
D6(a, r) == /\ r[1] = "more" /\ ~Unfinished(a) /\ a.lt = "minus" /\ a.q # "lost"

Judge(a, r, DOn) ==
    CASE Ok0(a, r) -> 0
      [] DOn[1] /\ D1(a, r) -> 1
      [] DOn[2] /\ D2(a, r) -> 2
      [] DOn[6] /\ D6(a, r) -> 6
      [] OTHER -> Bad

(* the automaton states of all referenced substrings: one walk per start position *)
Walk(cls, s, ps) ==
    FoldLeft(LAMBDA w, c :
                LET b == Step(w.a, c, FALSE) IN
                [a |-> b, i |-> w.i + 1,
                 acc |-> IF (w.i + 1) \in ps THEN w.acc @@ ((w.i + 1) :> b) ELSE w.acc],
             [a |-> A0, i |-> s, acc |-> <<>>],
             SubSeq(cls, s + 1, Max(ps))).acc
StateTable(C) ==
    [s \in {C.refs[k][1] : k \in 1..Len(C.refs)} |->
        Walk(C.cls, s, {C.refs[k][2] : k \in {l \in 1..Len(C.refs) : C.refs[l][1] = s}})]

(* L3: a rejected unfinished prefix of a text that is not rejected *)
ErrorRetracted(C, e, ST) ==
    /\ C.tab[e[3]][1] = "err" /\ ErrorIsFinal(ST[e[1]][e[2]])
    /\ \E k \in 1..Len(C.refs) :
          /\ C.refs[k][1] = e[1] /\ C.refs[k][2] > e[2]
          /\ C.tab[C.refs[k][3]][1] \in {"done", "more"}

RefVerdict(C, e, DOn, ST) ==
    LET r == C.tab[e[3]] IN
    IF r[1] = "panic" THEN -1
    ELSE IF ErrorRetracted(C, e, ST) THEN Bad
    ELSE LET a == ST[e[1]][e[2]]
             v == Judge(a, r, DOn) IN
         IF v # Bad \/ ~DOn[5] THEN v
         ELSE LET b == RunIx(A0, C.cls, e[1] + 1, e[2], TRUE) IN
              IF b # a /\ Judge(b, r, DOn) # Bad THEN 5 ELSE Bad

(* ---------------- L1: the pieces of a run against the references ---------------- *)
CanStart == {"none", "sp", "nl", "(", "[", "{", ";", ":", "-", "*", "/", ",", "op", "+"}

(* rk[j] names the reference of piece j; it must be the one of (s, p] *)
RefIdx(C, k, s, p) ==
    IF k \in 1..Len(C.refs) /\ C.refs[k][1] = s /\ C.refs[k][2] = p THEN C.refs[k][3] ELSE 0

Lookback(C, s, p, prevLast, o, r, DOn) ==
    /\ prevLast \notin CanStart
    /\ p - s >= 2 /\ C.cls[s + 1] = "-" /\ C.cls[s + 2] \in {"1", "."}
    /\ \/ /\ o[1] = r[1] /\ Len(o[3]) = Len(r[3]) + 1 /\ C.strs[o[3][1]] = "-"
          /\ SubSeq(o[3], 3, Len(o[3])) = SubSeq(r[3], 2, Len(r[3]))
       \/ (* nothing after the - has been delivered as a token yet (last-token-lost):  *)
          (* the lone - asks for more (dangling-minus-asks-more)                         *)
          /\ DOn[1] /\ DOn[6]
          /\ o[1] = "more" /\ o[3] = <<>> /\ r[1] = "done" /\ r[3] = <<>>

(* the pause before piece j came directly before the \ of a dotted pair: the list *)
(* has at least one complete element and the next token is a lone backslash       *)
RECURSIVE FirstNonBlank(_, _, _)
FirstNonBlank(cls, i, n) == IF i > n THEN "none"
                            ELSE IF cls[i] \in {"sp", "nl"} THEN FirstNonBlank(cls, i + 1, n) ELSE cls[i]
DottedPause(C, ST, s, e) ==
    LET a == ST[s][e] IN
    /\ a.st # <<>> /\ Last(a.st) \in {"(", "{"} /\ Last(a.ec) >= 1
    /\ \/ a.m = "code" /\ a.at = "none" /\ FirstNonBlank(C.cls, e + 1, Len(C.cls)) = "bs"
       \/ (* the atom in progress is exactly \ (possibly with a / pending behind it) *)
          \E k \in {e - 1, e} :
             /\ k > s /\ C.cls[k] = "bs" /\ a.at = "odd"
             /\ (k = e /\ a.m = "code") \/ (k = e - 1 /\ C.cls[e] = "/" /\ a.m = "slash")
             /\ (k = s + 1 \/ C.cls[k - 1] \notin {"a", "1", ".", "bs", "x"})
(* an earlier pause of this segment came directly after a quote prefix % ^ ~ *)
PrefixPause(ST, s, segcuts) ==
    \E e \in segcuts : ST[s][e].lt = "prefix"

(* an earlier pause of this segment came directly after a lone sign, a word follows *)
SignPause(C, ST, s, segcuts) ==
    \E e \in segcuts : /\ ST[s][e].lt = "minus" /\ ST[s][e].m = "code"
                        /\ \/ ST[s][e].at \in {"sym", "dsym"}      \* the word has begun
                           \/ ST[s][e].at = "none" /\ FirstNonBlank(C.cls, e + 1, Len(C.cls)) = "a"

RECURSIVE PieceV(_, _, _, _, _, _, _, _, _)
PieceV(C, run, j, s, prevLast, first, DOn, segcuts, ST) ==
    IF j > Len(run[5]) THEN 0
    ELSE LET n == Len(C.cls)
             p == IF j <= Len(run[4]) THEN run[4][j] ELSE n
             oi == run[5][j]
             ri == RefIdx(C, run[7][j], s, p) IN
         IF ri = 0 THEN Bad
         ELSE LET o == C.tab[oi]
                  r == C.tab[ri] IN
              IF o[1] = "panic" \/ r[1] = "panic" THEN -1
              ELSE LET v == CASE oi = ri -> 0
                              [] DOn[4] /\ first /\ j <= Len(run[6]) /\ oi = run[6][j] -> 4
                              [] DOn[3] /\ Lookback(C, s, p, prevLast, o, r, DOn) -> 3
                              [] DOn[7] /\ segcuts # {} /\ o[1] = "err" /\ r[1] # "err"
                                 /\ DottedPause(C, ST, s, Max(segcuts)) -> 7
                              [] DOn[8] /\ PrefixPause(ST, s, segcuts) -> 8
                              [] DOn[9] /\ SignPause(C, ST, s, segcuts) -> 9
                              [] OTHER -> Bad IN
                   IF v = Bad THEN Bad
                   ELSE IF o[1] = "more"
                        THEN Worst(v, PieceV(C, run, j + 1, s, prevLast, first, DOn, segcuts \cup {p}, ST))
                        ELSE Worst(v, PieceV(C, run, j + 1, p,
                                             IF o[1] = "err" THEN "?" ELSE C.cls[p], FALSE, DOn, {}, ST))

RunVerdict(C, run, DOn, ST) == PieceV(C, run, 1, 0, ClassNames[run[2]], TRUE, DOn, {}, ST)

VARIABLES ci, verdict, dv
tvars == <<ci, verdict, dv>>

TInit == ci \in 1..(IF NShard = 0 THEN 1 ELSE NShard) /\ verdict = "run" /\ dv = DevFlags

NamesOf(S) == [k \in 1..Cardinality(S) |->
                 DevNames[CHOOSE d \in S : Cardinality({e \in S : e < d}) = k - 1]]

(* all reference judgements (L2) and all runs (L1) of one case; prints its verdict *)
JudgeCase(C, DOn) ==
    LET ST == StateTable(C)
        RC == [k \in 1..Len(C.refs) |-> RefVerdict(C, C.refs[k], DOn, ST)]
        UC == [k \in 1..Len(C.runs) |-> RunVerdict(C, C.runs[k], DOn, ST)]
        br == {k \in 1..Len(C.refs) : RC[k] = Bad}
        bu == {k \in 1..Len(C.runs) : UC[k] = Bad}
        kn == {RC[k] : k \in 1..Len(C.refs)} \cup {UC[k] : k \in 1..Len(C.runs)}
        known == kn \cap (1..NDev)
        disc == Cardinality({k \in 1..Len(C.refs) : RC[k] = -1})
                + Cardinality({k \in 1..Len(C.runs) : UC[k] = -1}) IN
    CASE br # {} -> PrintT(<<"VERDICT", C.id, "bad", "ref", Min(br), C.refs[Min(br)]>>)
      [] bu # {} -> PrintT(<<"VERDICT", C.id, "bad", "run", Min(bu)>>)
      [] known # {} -> PrintT(<<"VERDICT", C.id, "known:" \o DevNames[Min(known)], disc, NamesOf(known)>>)
      [] OTHER -> PrintT(<<"VERDICT", C.id, "ok", disc>>)

TJudge ==
    /\ verdict = "run"
    /\ LET CS == ShardCases(ci) IN \A i \in 1..Len(CS) : JudgeCase(Named(CS[i]), dv)
    /\ verdict' = "judged"
    /\ UNCHANGED <<ci, dv>>

TNext == TJudge
TSpec == TInit /\ [][TNext]_tvars
=============================================================================
