---------------------------- MODULE HashMap ----------------------------
(***************************************************************************)
(* C14 -- Hashes behave as insertion-ordered maps under every operation    *)
(* history.                                                                *)
(*                                                                         *)
(* "Under every sequence of insertions, updates, deletions and lookups     *)
(* with keys of any supported key type, a hash contains exactly the keys   *)
(* that were set and not later deleted, each mapped to its latest value.   *)
(* Its length, key list, positional access, range iteration, printed form  *)
(* and encodings agree with that content and present the live keys once    *)
(* each in first-insertion order; deleting or looking up a missing key     *)
(* has no effect on anything else."                                        *)
(*                                                                         *)
(* The abstract state is one sequence of <<key, value>> pairs in           *)
(* first-insertion order.  Every script-level operation is a pure function *)
(* Apply(content, op) |-> [c |-> new content, r |-> result]; the model     *)
(* checker and the trace validator (HashTrace) both use exactly this       *)
(* function, so there is a single source of truth.                         *)
(*                                                                         *)
(* Values are tagged tuples <<tag, payload>> as produced by the harness    *)
(* projection (zv: proj): <<"int",n>>, <<"chr",n>>, <<"str",s>>,           *)
(* <<"sym",name>>, <<"nil">>.                                              *)
(***************************************************************************)
EXTENDS Integers, Sequences, FiniteSets

Nil == <<"nil">>
Err == <<"err">>

(* Key identity is the language's generic comparison: an integer and a    *)
(* character with the same code are one key (hashHelper gives both the    *)
(* same code and Compare says equal); a one-element array [x] is the key  *)
(* x (HashSet/HashGet unwrap it), whatever x is: [[x]] is the key [x],    *)
(* which is the key x.  A dotted symbol (op key <<"dsym", name>>) is, if  *)
(* the hash takes it at all, the symbol of that name (see HashTrace: the  *)
(* insertion may be refused, because hget reads a dotted symbol as a path *)
(* into nested records).  UW is the key as spelled (what the views may    *)
(* show), NK the normal form that decides identity.                       *)
RECURSIVE UW(_)
UW(k) == CASE k[1] = "arr" /\ Len(k[2]) = 1 -> UW(k[2][1])
           [] k[1] = "dsym" -> <<"sym", k[2]>>
           [] OTHER -> k
NK(k) == LET u == UW(k) IN IF u[1] = "chr" THEN <<"int", u[2]>> ELSE u

KeyEq(a, b) == NK(a) = NK(b)

IndexOf(c, k) ==
    IF \E i \in 1..Len(c) : KeyEq(c[i][1], k)
    THEN CHOOSE i \in 1..Len(c) : KeyEq(c[i][1], k)
    ELSE 0

RemoveAt(s, i) == [j \in 1..(Len(s)-1) |-> IF j < i THEN s[j] ELSE s[j+1]]

KeysOf(c)  == [i \in 1..Len(c) |-> NK(c[i][1])]
PairsOf(c) == [i \in 1..Len(c) |-> <<NK(c[i][1]), c[i][2]>>]

(* ---- operations: op is a record [op |-> name, k, v, i] ---- *)
Apply(c, o) ==
    LET idx == IF o.op \in {"hset","hdel","hget","hgetd"} THEN IndexOf(c, o.k) ELSE 0 IN
    CASE o.op = "hset" ->
           [c |-> IF idx = 0 THEN Append(c, <<NK(o.k), o.v>>)
                  ELSE [c EXCEPT ![idx] = <<c[idx][1], o.v>>],
            r |-> Nil]
      [] o.op = "hdel" ->
           [c |-> IF idx = 0 THEN c ELSE RemoveAt(c, idx), r |-> Nil]
      [] o.op = "hget" ->
           [c |-> c, r |-> IF idx = 0 THEN Err ELSE c[idx][2]]
      [] o.op = "hgetd" ->
           [c |-> c, r |-> IF idx = 0 THEN o.v ELSE c[idx][2]]
      [] o.op = "keys" ->
           [c |-> c, r |-> <<"arr", KeysOf(c)>>]
      [] o.op = "len" ->
           [c |-> c, r |-> <<"int", Len(c)>>]
      [] o.op = "hpair" ->
           [c |-> c, r |-> IF o.i >= 0 /\ o.i < Len(c)
                           THEN <<"list", <<NK(c[o.i+1][1]), c[o.i+1][2]>>>>
                           ELSE Err]
      [] o.op \in {"range", "rangego", "str", "json"} ->
           (* observed through the harness as the ordered list of pairs; range is the macro      *)
           (* (range k v h body), rangego the infix form  for k, v := range h { body }  -- under *)
           (* whatever name the program holds the hash (event field hv)                          *)
           [c |-> c, r |-> <<"pairs", PairsOf(c)>>]
      [] o.op = "rangego1" ->
           (* for k := range h { body }: the keys alone *)
           [c |-> c, r |-> <<"keyseq", KeysOf(c)>>]

(* ---- a key list kept by the program: the key list a program keeps is a value of its own.  Later     *)
(* changes of the hash do not reach it, writing into it does not reach the hash.            *)
(*   keep      ks := keys of the hash now            kept      read ks                      *)
(*   keptset   write the symbol zz into ks[0]        keptwalk  delete every key listed in ks *)
RECURSIVE DelAll(_, _, _)
DelAll(c, ks, i) ==
    IF i > Len(ks) THEN c
    ELSE LET idx == IndexOf(c, ks[i]) IN DelAll(IF idx = 0 THEN c ELSE RemoveAt(c, idx), ks, i + 1)

ApplyK(c, kept, o) ==
    CASE o.op = "keep" -> [c |-> c, k |-> KeysOf(c), r |-> Nil]
      [] o.op = "kept" -> [c |-> c, k |-> kept, r |-> <<"arr", kept>>]
      [] o.op = "keptset" ->
           IF Len(kept) = 0 THEN [c |-> c, k |-> kept, r |-> Err]
           ELSE [c |-> c, k |-> [kept EXCEPT ![1] = <<"sym", "zz">>], r |-> Nil]
      [] o.op = "keptwalk" -> [c |-> DelAll(c, kept, 1), k |-> kept, r |-> Nil]
      [] OTHER -> LET a == Apply(c, o) IN [c |-> a.c, k |-> kept, r |-> a.r]

(* normal form of an observed result, so that key spellings that the       *)
(* language identifies compare equal                                       *)
NormRes(o, r) ==
    CASE r[1] = "err" -> Err
      [] o.op \in {"keys", "keep", "kept"} /\ r[1] = "arr" -> <<"arr", [i \in 1..Len(r[2]) |-> NK(r[2][i])]>>
      [] o.op = "hpair" /\ r[1] = "list" /\ Len(r[2]) = 2 -> <<"list", <<NK(r[2][1]), r[2][2]>>>>
      [] o.op \in {"range","rangego","str","json"} /\ r[1] = "pairs" ->
            <<"pairs", [i \in 1..Len(r[2]) |-> <<NK(r[2][i][1]), r[2][i][2]>>]>>
      [] o.op = "rangego1" /\ r[1] = "keyseq" -> <<"keyseq", [i \in 1..Len(r[2]) |-> NK(r[2][i])]>>
      [] OTHER -> r

(* ---- the state machine, for exhaustive exploration ---- *)
CONSTANTS Keys, Vals, MaxLen
VARIABLES content, out

Ops == [op : {"hset"}, k : Keys, v : Vals]
  \cup [op : {"hdel", "hget"}, k : Keys]
  \cup [op : {"hgetd"}, k : Keys, v : Vals]
  \cup [op : {"keys", "len", "range"}]   \* rangego/rangego1/str/json are further views of the same content
  \cup [op : {"hpair"}, i : 0..2]

Init == content = <<>> /\ out = Nil
Do(o) == LET a == Apply(content, o) IN content' = a.c /\ out' = a.r
Next == \E o \in Ops : Do(o)
Spec == Init /\ [][Next]_<<content, out>>

(* ---- what the property says, as invariants of the abstract machine ---- *)
NoDupKeys == \A i, j \in 1..Len(content) :
                 KeyEq(content[i][1], content[j][1]) => i = j
(* a lookup never changes anything; deleting a missing key changes nothing *)
LookupPure == [][\A o \in Ops : (o.op \notin {"hset","hdel"} /\ Do(o)) => content' = content]_<<content, out>>
=============================================================================
