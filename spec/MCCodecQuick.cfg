SPECIFICATION Spec
CONSTANTS
  MaxStr = 2
  Deep = FALSE
INVARIANTS RefRoundTrip ReservedCollides OrderMatters TypeMatters LeafMatters Eq11Refl EncoderAudit ReaderAudit
CHECK_DEADLOCK FALSE
