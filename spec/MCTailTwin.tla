---------------------------- MODULE MCTailTwin ----------------------------
(***************************************************************************)
(* Design audit of the laws of TailTwin on an abstract machine pair.       *)
(*                                                                         *)
(* A program is a self-recursive function of one parameter n whose body is *)
(* a sequence of actions followed by "n = 0 ? return : (self (- n 1))" in  *)
(* tail position:                                                          *)
(*     tr      an effect that shows the parameter                          *)
(*     clo     creates a closure over the parameter and keeps it (the      *)
(*             result of the run is what all kept closures return)         *)
(*     scope   opens a scope that is still open at the tail call           *)
(*     cloarg  creates a closure inside an argument of an ordinary call    *)
(*             and drops it                                                *)
(* Frames are heap objects (closures outlive them).  The ORDINARY machine  *)
(* pushes a frame per call and pops them all at the end.  The OPTIMISED    *)
(* machine implements the self tail call as Variant says:                  *)
(*     fresh       closes the extra scopes and the frame, enters a fresh   *)
(*                 frame (what zygomys does since fix 8f32b0e)             *)
(*     reuse       re-binds the parameter in the frame it has (the defect  *)
(*                 tail-call-shares-scope: closures of earlier iterations  *)
(*                 see the last value)                                     *)
(*     keepscopes  forgets to close the extra scopes                       *)
(*     leaky       fresh, but evaluating cloarg interns a symbol (the      *)
(*                 deviation symtab-grows-per-iteration)                   *)
(* For every program and every depth 0..MaxN both machines run; TLC checks *)
(* Invisible on their observations and Space on the optimised runs.        *)
(***************************************************************************)
EXTENDS TailTwin, TLC

CONSTANTS MaxLen, MaxN, Variant

Acts == {"tr", "clo", "scope", "cloarg"}
Progs == UNION {[1..l -> Acts] : l \in 0..MaxLen}

VARIABLES prog, n, mo, mt, runs, fin
vars == <<prog, n, mo, mt, runs, fin>>

New(d) == [frames |-> << [id |-> 1, ex |-> 0] >>, heap |-> <<d>>, fx |-> <<>>, clos |-> <<>>,
           pcx |-> 1, phase |-> "run", hmax |-> 1, syms |-> 0]

RECURSIVE Height(_)
Height(fs) == IF fs = <<>> THEN 0 ELSE 1 + Head(fs).ex + Height(Tail(fs))
Max(a, b) == IF a > b THEN a ELSE b
Front(s) == SubSeq(s, 1, Len(s) - 1)
Count(p, a) == Cardinality({i \in DOMAIN p : p[i] = a})

WithFrames(m, fs) == [m EXCEPT !.frames = fs, !.hmax = Max(m.hmax, Height(fs))]

Step(m, opt) ==
    LET top == m.frames[Len(m.frames)]
        d   == m.heap[top.id]
    IN
    IF m.phase = "ret"
    THEN LET fs == Front(m.frames) IN
         [m EXCEPT !.frames = fs, !.phase = IF fs = <<>> THEN "done" ELSE "ret"]
    ELSE IF m.pcx <= Len(prog)
    THEN LET a  == prog[m.pcx]
             m1 == [m EXCEPT !.pcx = m.pcx + 1] IN
         CASE a = "tr"     -> [m1 EXCEPT !.fx = Append(m.fx, <<m.pcx, d>>)]
           [] a = "clo"    -> [m1 EXCEPT !.clos = Append(m.clos, top.id)]
           [] a = "scope"  -> WithFrames(m1, Front(m.frames) \o << [top EXCEPT !.ex = top.ex + 1] >>)
           [] a = "cloarg" -> [m1 EXCEPT !.syms = m.syms + (IF opt /\ Variant = "leaky" THEN 1 ELSE 0)]
    ELSE IF d = 0
    THEN [m EXCEPT !.phase = "ret"]
    ELSE LET nid == Len(m.heap) + 1
             m1  == [m EXCEPT !.pcx = 1] IN
         IF ~opt
         THEN WithFrames([m1 EXCEPT !.heap = Append(m.heap, d - 1)], m.frames \o << [id |-> nid, ex |-> 0] >>)
         ELSE CASE Variant = "reuse" ->
                     WithFrames([m1 EXCEPT !.heap[top.id] = d - 1], Front(m.frames) \o << [top EXCEPT !.ex = 0] >>)
                [] Variant = "keepscopes" ->
                     WithFrames([m1 EXCEPT !.heap = Append(m.heap, d - 1)], Front(m.frames) \o << [id |-> nid, ex |-> top.ex] >>)
                [] OTHER ->
                     WithFrames([m1 EXCEPT !.heap = Append(m.heap, d - 1)], Front(m.frames) \o << [id |-> nid, ex |-> 0] >>)

(* what a finished machine shows: the values the kept closures return, the effects, the stack at rest *)
Obs(m) == [out  |-> <<"val", [k \in 1..Len(m.clos) |-> m.heap[m.clos[k]]]>>,
           fx   |-> m.fx,
           rest |-> <<Height(m.frames)>>]

Init == /\ prog \in Progs /\ n = 0 /\ mo = New(0) /\ mt = New(0) /\ runs = <<>> /\ fin = FALSE

Next ==
    /\ ~fin
    /\ IF mo.phase # "done" THEN mo' = Step(mo, FALSE) /\ UNCHANGED <<prog, n, mt, runs, fin>>
       ELSE IF mt.phase # "done" THEN mt' = Step(mt, TRUE) /\ UNCHANGED <<prog, n, mo, runs, fin>>
       ELSE /\ runs' = Append(runs, [n |-> n, out |-> <<"val">>, hw |-> <<mt.hmax>>, syms |-> mt.syms])
            /\ IF n < MaxN THEN n' = n + 1 /\ mo' = New(n + 1) /\ mt' = New(n + 1) /\ fin' = FALSE
               ELSE fin' = TRUE /\ UNCHANGED <<n, mo, mt>>
            /\ UNCHANGED prog

Spec == Init /\ [][Next]_vars

BothDone == mo.phase = "done" /\ mt.phase = "done"

(* Invisible, on the machine pair: the optimised machine shows what the ordinary one shows *)
InvisibleHolds == BothDone => SameObs(Obs(mt), Obs(mo))
(* Space, on the optimised runs of depths 0..MaxN (every depth >= 1 counts as big) *)
SpaceHolds == fin => Space(runs, 1)
(* the deviation: everything but the symbol count, which grows by one per cloarg and level *)
SpaceButLeak == fin => AllFinished(runs) /\ StacksConstant(runs, 1) /\ SymsLinear(runs, 1, Count(prog, "cloarg"))
(* non-vacuity: the ordinary machine does need a frame (and its scopes) per level *)
OrdinaryGrows == mo.phase = "ret" /\ Len(mo.frames) = n + 1 => mo.hmax = (n + 1) * (1 + Count(prog, "scope"))
=============================================================================
