--------------------------- MODULE ProcessHist ---------------------------
(***************************************************************************)
(* C20, history half: "... independent ... of how many interpreters were   *)
(* created earlier in the process".                                        *)
(*                                                                         *)
(* Interpreters of one process run one after the other; each runs a small  *)
(* program over type names: declare a name (struct/defmap/record kind),    *)
(* use a name (make a record of it, declare a variable of it: what the     *)
(* interpreter takes the name to mean is observable), list the declared    *)
(* types (typelist).  A fresh interpreter running program p must observe   *)
(* Alone(p): what p observes in a process where nothing ran before.        *)
(*                                                                         *)
(* SharedTypes = TRUE models the library as it is: one process-wide table  *)
(* (GoStructRegistry) that every declaration of every interpreter writes,  *)
(* builtin names included, and that every use reads.  TLC refutes          *)
(* HistoryIndependent for it (ProcessHistPinned.cfg, a self-test); with    *)
(* per-interpreter declarations (FALSE) the invariant holds.  The binding  *)
(* to the code is DetermTrace: the recorded observations of one program    *)
(* after different histories must be one observation.                      *)
(***************************************************************************)
EXTENDS Integers, Sequences, FiniteSets, TLC

CONSTANTS SharedTypes,   \* BOOLEAN
          MaxInterp      \* interpreters created one after the other

Names == {"Zebra", "int64"}
Defs == {"d1", "d2"}
Builtin == [n \in Names |-> IF n = "int64" THEN "builtin" ELSE "none"]

Ops == {<<"decl", n, d>> : n \in Names, d \in Defs} \cup {<<"use", n>> : n \in Names} \cup {<<"list">>}
Programs == {<<a>> : a \in Ops} \cup {<<a, b>> : a \in Ops, b \in Ops}

VARIABLES proc,   \* the process-wide table: name -> definition
          prog, pc, local, obs,   \* the interpreter that is running
          made    \* interpreters created so far
vars == <<proc, prog, pc, local, obs, made>>

NoLocal == [n \in Names |-> "none"]

Init == /\ proc = Builtin
        /\ prog \in Programs /\ pc = 1 /\ local = NoLocal /\ obs = <<>>
        /\ made = 1

(* what this interpreter takes name n to mean *)
Meaning(n) == IF SharedTypes THEN proc[n]
              ELSE IF local[n] # "none" THEN local[n] ELSE Builtin[n]
Listing == IF SharedTypes THEN {n \in Names : proc[n] # "none"}
           ELSE {n \in Names : local[n] # "none" \/ Builtin[n] # "none"}

Step == /\ pc <= Len(prog)
        /\ LET op == prog[pc] IN
           /\ pc' = pc + 1
           /\ CASE op[1] = "decl" ->
                    /\ local' = [local EXCEPT ![op[2]] = op[3]]
                    /\ proc' = IF SharedTypes THEN [proc EXCEPT ![op[2]] = op[3]] ELSE proc
                    /\ obs' = obs
                [] op[1] = "use" ->
                    /\ obs' = Append(obs, <<"means", op[2], Meaning(op[2])>>)
                    /\ UNCHANGED <<local, proc>>
                [] OTHER ->
                    /\ obs' = Append(obs, <<"list", Listing>>)
                    /\ UNCHANGED <<local, proc>>
        /\ UNCHANGED <<prog, made>>

(* the interpreter is done; the host creates the next one, which runs any program *)
Fresh == /\ pc > Len(prog) /\ made < MaxInterp
         /\ prog' \in Programs /\ pc' = 1 /\ local' = NoLocal /\ obs' = <<>>
         /\ made' = made + 1
         /\ UNCHANGED proc

Next == Step \/ Fresh
Spec == Init /\ [][Next]_vars

(* the observations of program p in a process where nothing ran before *)
RECURSIVE Run(_, _, _, _)
Run(p, k, loc, o) ==
    IF k > Len(p) THEN o
    ELSE LET op == p[k] IN
         CASE op[1] = "decl" -> Run(p, k + 1, [loc EXCEPT ![op[2]] = op[3]], o)
           [] op[1] = "use" -> Run(p, k + 1, loc,
                   Append(o, <<"means", op[2], IF loc[op[2]] # "none" THEN loc[op[2]] ELSE Builtin[op[2]]>>))
           [] OTHER -> Run(p, k + 1, loc,
                   Append(o, <<"list", {n \in Names : loc[n] # "none" \/ Builtin[n] # "none"}>>))
Alone(p) == Run(p, 1, NoLocal, <<>>)

HistoryIndependent == pc > Len(prog) => obs = Alone(prog)
=============================================================================
