SPECIFICATION TSpec
CONSTANTS
  MaxChunks = 1000000
  ApplyAsPinned = FALSE
  EvalFnAsPinned = FALSE
CHECK_DEADLOCK FALSE
