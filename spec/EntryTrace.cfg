SPECIFICATION TSpec
CONSTANTS
  MaxChunks = 1000000
  ApplyAsPinned = FALSE
CHECK_DEADLOCK FALSE
