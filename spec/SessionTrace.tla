--------------------------- MODULE SessionTrace ---------------------------
(***************************************************************************)
(* C04 -- "After any evaluation that returns a value, the interpreter is   *)
(* back at rest: no leftover operands, scopes, call frames or loop records *)
(* remain, so evaluating forms one at a time gives the same results as     *)
(* evaluating them together and an idle interpreter does not grow with     *)
(* the number of evaluations it has served.  Evaluating empty input        *)
(* returns nil, never a stale value from an earlier evaluation."           *)
(*                                                                         *)
(* The abstract state of a long-lived interpreter is the vector of the     *)
(* depths of its four stacks <<data, scope, address, loop>>; at rest it is *)
(* <<0, 1, 0, 0>> (only the global scope).  A case is a sequence of        *)
(* evaluations recorded on one real interpreter (depths read through the   *)
(* verif accessor before and after each call, then an empty evaluation),   *)
(* plus the same texts evaluated together on a twin interpreter.           *)
(*                                                                         *)
(* How the two "so ..." clauses of the statement are read: they are the    *)
(* consequences of the rest state the sentence defines (no leftover        *)
(* operands, scopes, call frames or loop records).  "Does not grow" is     *)
(* judged on those four stacks: the top-level instruction buffer that      *)
(* LoadString appends to (dropped by Clear) and the table of interned      *)
(* symbols are not residue of an evaluation.  "One at a time = together"   *)
(* is judged over forms whose meaning at compile time does not depend on   *)
(* what an earlier form of the same text does when it runs: a text is      *)
(* compiled as a whole before any of it runs (EntryPoints.tla), so         *)
(* `(def s struct)` `(s Foo [])` differ with every stack at rest; that is  *)
(* name resolution at compile time, not something an evaluation left.      *)
(***************************************************************************)
EXTENDS Integers, Sequences, Json, IOUtils, TLC

ASSUME TLCSet(11, ndJsonDeserialize(IOEnv.VERIF_TRACE))
Cases == TLCGet(11)

Rest == <<0, 1, 0, 0>>

VARIABLES ci, pos, depths, verdict
tvars == <<ci, pos, depths, verdict>>

Evs == Cases[ci].evs

(* Eval(text) returning a value: enabled only from rest, ends at rest, and  *)
(* the following empty evaluation returns nil and stays at rest             *)
EvalOk(e) ==
    /\ e.after = Rest
    /\ (e.empty[1] = "skipped" \/ (e.empty = <<"val", "nil">> /\ e.after2 = Rest))

TInit == ci \in 1..Len(Cases) /\ pos = 1 /\ depths = Rest /\ verdict = "run"

Bad(why) == /\ verdict' = "bad" /\ UNCHANGED <<ci, pos, depths>>
            /\ PrintT(<<"VERDICT", Cases[ci].id, "bad", why, pos>>)

TStep ==
    /\ verdict = "run" /\ pos <= Len(Evs)
    /\ LET e == Evs[pos] IN
       IF e.before # depths THEN Bad("trace-gap")
       ELSE IF e.out[1] = "val" /\ depths = Rest
            THEN IF EvalOk(e) THEN pos' = pos + 1 /\ depths' = e.after2 /\ UNCHANGED <<ci, verdict>>
                 ELSE Bad(IF e.after # Rest THEN "residue" ELSE "stale-empty")
            ELSE (* a failed evaluation (C05 states what must hold then), or one that   *)
                 (* started away from rest: only track the depths                       *)
                 pos' = pos + 1 /\ depths' = e.after2 /\ UNCHANGED <<ci, verdict>>

TDone ==
    /\ verdict = "run" /\ pos > Len(Evs)
    /\ LET c == Cases[ci]
           together == IF "together" \in DOMAIN c /\ c.allval /\ c.together[1] = "val"
                       THEN c.together = c.last ELSE TRUE
           failedTogether == "together" \in DOMAIN c /\ c.allval /\ c.together[1] # "val"
       IN IF ~together \/ failedTogether
          THEN Bad("piecewise-differs")
          ELSE /\ verdict' = "ok" /\ UNCHANGED <<ci, pos, depths>>
               /\ PrintT(<<"VERDICT", c.id, "ok", pos - 1>>)

TNext == TStep \/ TDone
TSpec == TInit /\ [][TNext]_tvars
=============================================================================
