SPECIFICATION Spec
CONSTANTS
  MaxOps = 4
  MaxStmts = 1
  UniqLen = 7
  Devs = {}
INVARIANTS Agree Valid Unique
CHECK_DEADLOCK FALSE
