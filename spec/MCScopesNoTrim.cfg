SPECIFICATION Spec
CONSTANTS
  Names <- MCNames1
  MaxScopes = 6
  MaxFuns = 3
  MaxDepth = 6
  Variant = "notrim"
INVARIANTS TypeOK Refines
CHECK_DEADLOCK FALSE
