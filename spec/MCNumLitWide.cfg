SPECIFICATION Spec
CONSTANTS
  MaxLen = 4
  Wide = TRUE
INVARIANTS Disjoint Canonical Separators LeadingZeros Negation Bases PointAndExp RangeEdge
CHECK_DEADLOCK FALSE
