----------------------------- MODULE SemTrace -----------------------------
(***************************************************************************)
(* Trace validation for C02 / C03 (and, with other case fields, C09/C16):  *)
(* every case is one program (AST) together with what the real interpreter *)
(* returned for it (value or error) and the sequence of host-function calls *)
(* it made.  TLC evaluates the program with the reference semantics ZSem    *)
(* and compares.  Verdicts:                                                 *)
(*   ok    value/error and effect order equal the reference evaluator's     *)
(*   bad   they differ                                                      *)
(*   skip  the reference semantics declines to define the outcome (undef),  *)
(*         ran out of fuel, or the real run exhausted its step budget while *)
(*         the reference run was long too                                   *)
(***************************************************************************)
EXTENDS ZSem, Json, IOUtils

(* parse the trace file once (TLC would otherwise re-evaluate the operator) *)
ASSUME TLCSet(11, ndJsonDeserialize(IOEnv.VERIF_TRACE))
Cases == TLCGet(11)
Fuel == 4000

VARIABLES ci, verdict
tvars == <<ci, verdict>>

Judge(c) ==
    LET r == RunProgram(c.prog, Fuel, IF "failAt" \in DOMAIN c THEN c.failAt ELSE 0)
        fxOk == ObsFx(r.s.fx) = c.fx
    IN CASE r.k \in {"undef", "oof"} -> <<"skip", r.k>>
         [] c.out[1] = "budget" -> IF r.s.fuel > Fuel - 1500 THEN <<"bad", "budget">> ELSE <<"skip", "budget">>
         [] r.k = "val" -> IF c.out[1] = "val" /\ c.out[2] = ObsR(r) /\ fxOk THEN <<"ok", "val">>
                           ELSE <<"bad", IF c.out[1] # "val" THEN "kind" ELSE IF fxOk THEN "value" ELSE "effects">>
         [] r.k = "err" -> IF c.out[1] = "err" /\ fxOk THEN <<"ok", "err">>
                           ELSE <<"bad", IF c.out[1] # "err" THEN "kind" ELSE "effects">>
         [] OTHER -> <<"bad", "result-kind">>

TInit == ci \in 1..Len(Cases) /\ verdict = "run"
TStep == /\ verdict = "run"
         /\ LET j == Judge(Cases[ci]) IN
            /\ verdict' = j[1]
            /\ PrintT(<<"VERDICT", Cases[ci].id, j[1], j[2]>>)
         /\ UNCHANGED ci
TSpec == TInit /\ [][TStep]_tvars
=============================================================================
