----------------------------- MODULE SemTrace -----------------------------
(***************************************************************************)
(* Trace validation for C02 / C03 (and, with other case fields, C09/C16):  *)
(* every case is one program (AST) together with what the real interpreter *)
(* returned for it (value or error) and the sequence of host-function calls *)
(* it made.  TLC evaluates the program with the reference semantics ZSem    *)
(* and compares.  Verdicts:                                                 *)
(*   ok    value/error and effect order equal the reference evaluator's     *)
(*   bad   they differ                                                      *)
(*   known:<id>  they differ, and the difference is exactly that of a named   *)
(*         known deviation (see below)                                       *)
(*   skip  the reference semantics declines to define the outcome (undef),  *)
(*         ran out of fuel, or the real run exhausted its step budget while *)
(*         the reference run was long too                                   *)
(***************************************************************************)
EXTENDS ZSem, Json, IOUtils, SequencesExt

(* parse the trace file once (TLC would otherwise re-evaluate the operator) *)
ASSUME TLCSet(11, ndJsonDeserialize(IOEnv.VERIF_TRACE))
Cases == TLCGet(11)
Fuel == 4000

VARIABLES ci, verdict
tvars == <<ci, verdict>>

(* Named deviations: known open findings of the implementation that ZSem can reproduce (ZSem's    *)
(* state field devs).  A case the reference semantics rejects is evaluated once more with the     *)
(* deviations listed in the environment variable VERIF_DEVS; when that evaluation explains the    *)
(* recorded run AND one of the deviations made a difference in it, the verdict is "known:<id>".   *)
AllDevs == {"jump-in-argument"}
DevStr == IF "VERIF_DEVS" \in DOMAIN IOEnv THEN IOEnv.VERIF_DEVS ELSE ""
HasDev(d) == ReplaceFirstSubSeq("", d, DevStr) # DevStr
TraceDevs == {d \in AllDevs : HasDev(d)}

Compare(c, r) ==
    LET fxOk == ObsFx(r.s.fx) = c.fx
    IN CASE r.k \in {"undef", "oof"} -> <<"skip", r.k>>
         [] c.out[1] = "budget" -> IF r.s.fuel > Fuel - 1500 THEN <<"bad", "budget">> ELSE <<"skip", "budget">>
         [] r.k = "val" -> IF c.out[1] = "val" /\ c.out[2] = ObsR(r) /\ fxOk THEN <<"ok", "val">>
                           ELSE <<"bad", IF c.out[1] # "val" THEN "kind" ELSE IF fxOk THEN "value" ELSE "effects">>
         [] r.k = "err" -> IF c.out[1] = "err" /\ fxOk THEN <<"ok", "err">>
                           ELSE <<"bad", IF c.out[1] # "err" THEN "kind" ELSE "effects">>
         [] OTHER -> <<"bad", "result-kind">>

Judge(c) ==
    LET failAt == IF "failAt" \in DOMAIN c THEN c.failAt ELSE 0
        j == Compare(c, RunProgram(c.prog, Fuel, failAt))
    IN IF j[1] # "bad" \/ TraceDevs = {} THEN j
       ELSE LET r2 == RunProgramD(c.prog, Fuel, failAt, TraceDevs)
                j2 == Compare(c, r2)
            IN IF j2[1] = "ok" /\ r2.s.used # {}
               THEN <<"known:" \o (CHOOSE d \in r2.s.used : TRUE), j2[2]>>
               ELSE j

TInit == ci \in 1..Len(Cases) /\ verdict = "run"
TStep == /\ verdict = "run"
         /\ LET j == Judge(Cases[ci]) IN
            /\ verdict' = j[1]
            /\ PrintT(<<"VERDICT", Cases[ci].id, j[1], j[2]>>)
         /\ UNCHANGED ci
TSpec == TInit /\ [][TStep]_tvars
=============================================================================
