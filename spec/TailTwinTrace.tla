-------------------------- MODULE TailTwinTrace --------------------------
(***************************************************************************)
(* Trace validation for TailTwin (C09): every case is one program of the   *)
(* harness family "tailtwin", recorded on the real interpreter.            *)
(*                                                                         *)
(* kind "inv":   the program in its optimised form (opt) and in the        *)
(*     reference forms listed in twins (alias, wrap), each run on its own  *)
(*     interpreter for the depths ns.  Verdicts:                           *)
(*       ok    Invisible(opt, references)                                  *)
(*       bad   the optimised form differs from a reference (what, where)   *)
(*       skip  the references differ from each other: the program is not   *)
(*             one whose unoptimised behaviour the twin forms pin down     *)
(* kind "space": the optimised form alone for growing n, with the          *)
(*     high-water marks of the stacks and the symbols interned.  Verdicts: *)
(*       ok    Space(runs, Threshold)                                      *)
(*       bad   did-not-finish / stack-grows / syms-grow                    *)
(*       known:symtab-grows  (only when listed in VERIF_DEVS) the stacks   *)
(*             are constant and the symbol table grows by exactly the      *)
(*             number of fn/for forms that the body evaluates as arguments *)
(*             of calls (spec.leak; spec.leakself of them are arguments of *)
(*             the self call itself, which the compiler may compile once)  *)
(*             per level: argument forms are compiled again at every       *)
(*             evaluation, and compiling fn or for interns a fresh symbol  *)
(***************************************************************************)
EXTENDS TailTwin, Json, IOUtils, SequencesExt, TLC

ASSUME TLCSet(11, ndJsonDeserialize(IOEnv.VERIF_TRACE))
Cases == TLCGet(11)
Threshold == 100

Devs == "," \o (IF "VERIF_DEVS" \in DOMAIN IOEnv THEN IOEnv.VERIF_DEVS ELSE "") \o ","
DevOn(id) == ReplaceFirstSubSeq("", "," \o id \o ",", Devs) # Devs
DevSymtab == DevOn("symtab-grows")

VARIABLES ci, verdict
tvars == <<ci, verdict>>

Elems(s) == {s[i] : i \in 1..Len(s)}
Ref(c, t) == IF t = "alias" THEN c.alias ELSE c.wrap

JudgeInv(c) ==
    LET T == Elems(c.twins)
        refs == {Ref(c, t) : t \in T}
    IN IF \E a, b \in refs : ~SameRun(a, b) THEN <<"skip", "refs-differ", 0>>
       ELSE IF Invisible(c.opt, refs) THEN <<"ok", "invisible", Len(c.opt.obs)>>
       ELSE LET t == CHOOSE t \in T : ~SameRun(c.opt, Ref(c, t))
                d == Difference(c.opt, Ref(c, t))
            IN <<"bad", d[1], d[2]>>

JudgeSpace(c) ==
    LET R == c.runs
        ks == {c.spec.leak, c.spec.leak - c.spec.leakself} \ {0}
    IN IF ~AllFinished(R) THEN <<"bad", "did-not-finish", 0>>
       ELSE IF ~StacksConstant(R, Threshold) THEN <<"bad", "stack-grows", 0>>
       ELSE IF SymsConstant(R, Threshold) THEN <<"ok", "constant", Len(R)>>
       ELSE IF DevSymtab /\ \E k \in ks : SymsLinear(R, Threshold, k) THEN <<"known:symtab-grows", "syms", 0>>
       ELSE <<"bad", "syms-grow", 0>>

Judge(c) == IF c.kind = "space" THEN JudgeSpace(c) ELSE JudgeInv(c)

TInit == ci \in 1..Len(Cases) /\ verdict = "run"
TStep == /\ verdict = "run"
         /\ LET j == Judge(Cases[ci]) IN
            verdict' = j[1] /\ PrintT(<<"VERDICT", Cases[ci].id, j[1], j[2], j[3]>>)
         /\ UNCHANGED ci
TSpec == TInit /\ [][TStep]_tvars
=============================================================================
