------------------------------- MODULE Codec -------------------------------
(***************************************************************************)
(* Abstract data values of zygomys and what "the same data" means for      *)
(*   C11  JSON and msgpack encodings round-trip and are well-formed        *)
(*   C12  printed data reads back as the same data                         *)
(*                                                                         *)
(* VALUES (tagged tuples, as projected by cproj() in the harness; every    *)
(* text is a sequence of Unicode code points, every number a digit         *)
(* sequence, see Decimal):                                                 *)
(*   <<"nil">>  <<"bool", b>>  <<"int", sgn, digs>>  <<"uint", digs>>      *)
(*   <<"flt", cls, sgn, digs, exp, sci>>   (sci: prints in e-notation)     *)
(*   <<"chr", cp>>  <<"str", cps>>  <<"sym", cps>>                         *)
(*   <<"list", seq>>  <<"arr", seq>>                                       *)
(*   <<"hash", typename cps, << <<key, value>>, ... >> >>  (insertion      *)
(*        order; key = <<"sym", cps>> or <<"str", cps>>)                   *)
(*   anything else (<<"err", ..>>, <<"raw", ..>>, ...) is "not a value".   *)
(*                                                                         *)
(* JSON TOKEN TREES (the bytes of (json v) as parsed by Go's               *)
(* encoding/json; well-formedness is delegated to it, the denotation is    *)
(* decided here):                                                          *)
(*   <<"jnull">> <<"jbool", b>> <<"jnum", exact, f64>> <<"jstr", cps>>     *)
(*   <<"jarr", seq>> <<"jobj", << <<name cps, tree>>, ... >> >>            *)
(*   <<"jbad", why>>   (encoding/json rejects the text)                    *)
(***************************************************************************)
EXTENDS Decimal, FiniteSets, TLC

(* ------------------------------------------------------------------ *)
(* numbers                                                            *)
(* ------------------------------------------------------------------ *)
IsNumber(v) == v[1] \in {"int", "uint", "flt"}

NumVal(v) ==
    CASE v[1] = "int"  -> IntNum(v[2], v[3])
      [] v[1] = "uint" -> IntNum(1, v[2])
      [] v[1] = "flt"  -> Norm(<<v[2], v[3], v[4], v[5]>>)

(* ------------------------------------------------------------------ *)
(* C11: equality of a decoded value r with the original v: numbers by *)
(* value (1.0 = 1), strings rune for rune, record type names and      *)
(* field order at every level                                         *)
(* ------------------------------------------------------------------ *)
RECURSIVE Eq11(_, _)
Eq11(v, r) ==
    CASE IsNumber(v)     -> IsNumber(r) /\ NumVal(r) = NumVal(v)
      [] v[1] = "nil"    -> r[1] = "nil"
      [] v[1] = "bool"   -> r[1] = "bool" /\ r[2] = v[2]
      [] v[1] = "str"    -> r[1] = "str" /\ r[2] = v[2]
      [] v[1] = "arr"    -> /\ r[1] = "arr" /\ Len(r[2]) = Len(v[2])
                            /\ \A i \in 1..Len(v[2]) : Eq11(v[2][i], r[2][i])
      [] v[1] = "hash"   -> /\ r[1] = "hash" /\ r[2] = v[2] /\ Len(r[3]) = Len(v[3])
                            /\ \A i \in 1..Len(v[3]) :
                                  /\ r[3][i][1] = v[3][i][1]          \* same key, same position
                                  /\ Eq11(v[3][i][2], r[3][i][2])
      [] OTHER -> FALSE

(* ------------------------------------------------------------------ *)
(* C11: what a JSON token tree denotes.  Reserved members: "Atype"    *)
(* carries the record type name, "zKeyOrder" the field order (JSON    *)
(* objects are unordered).                                            *)
(* ------------------------------------------------------------------ *)
AtypeName == <<65, 116, 121, 112, 101>>                          \* "Atype"
ZKeyName  == <<122, 75, 101, 121, 79, 114, 100, 101, 114>>       \* "zKeyOrder"
HashName  == <<104, 97, 115, 104>>                               \* "hash"
Reserved  == {AtypeName, ZKeyName}

Distinct(s) == \A i, j \in 1..Len(s) : i # j => s[i] # s[j]
IndexOf(s, x) == IF \E i \in 1..Len(s) : s[i] = x THEN CHOOSE i \in 1..Len(s) : s[i] = x ELSE 0
KeyName(k) == k[2]    \* a symbol key a and a string key "a" both appear as the member name "a"

RECURSIVE JDen(_, _)
JDen(v, t) ==      \* the tree t denotes the value v
    CASE v[1] = "nil"  -> t[1] = "jnull"
      [] v[1] = "bool" -> t[1] = "jbool" /\ t[2] = v[2]
      [] v[1] \in {"int", "uint"} -> t[1] = "jnum" /\ Norm(t[2]) = NumVal(v)   \* integers: exactly
      [] v[1] = "flt"  -> t[1] = "jnum" /\ Norm(t[3]) = NumVal(v)   \* floats: as a standard decoder reads the text
      [] v[1] = "str"  -> t[1] = "jstr" /\ t[2] = v[2]
      [] v[1] = "arr"  -> /\ t[1] = "jarr" /\ Len(t[2]) = Len(v[2])
                          /\ \A i \in 1..Len(v[2]) : JDen(v[2][i], t[2][i])
      [] v[1] = "hash" ->
           /\ t[1] = "jobj"
           /\ LET ms == t[2]
                  names == [i \in 1..Len(ms) |-> ms[i][1]]
                  ai == IndexOf(names, AtypeName)
                  zi == IndexOf(names, ZKeyName)
                  IsField(i) == names[i] \notin Reserved
                  fidx == SelectSeq([i \in 1..Len(ms) |-> i], IsField)
                  zlist == ms[zi][2][2]
                  order == IF zi = 0 THEN [k \in 1..Len(fidx) |-> names[fidx[k]]]
                           ELSE [k \in 1..Len(zlist) |-> zlist[k][2]]
              IN /\ Distinct(names)
                 /\ IF ai = 0 THEN v[2] = HashName
                    ELSE ms[ai][2][1] = "jstr" /\ ms[ai][2][2] = v[2]
                 /\ zi # 0 => /\ ms[zi][2][1] = "jarr"
                              /\ \A k \in 1..Len(zlist) : zlist[k][1] = "jstr"
                              /\ Len(zlist) = Len(fidx)
                 /\ Distinct(order)
                 /\ Len(order) = Len(v[3])
                 /\ \A k \in 1..Len(v[3]) :
                      LET mi == IndexOf(names, order[k]) IN
                      /\ KeyName(v[3][k][1]) = order[k]
                      /\ mi # 0 /\ IsField(mi)
                      /\ JDen(v[3][k][2], ms[mi][2])
      [] OTHER -> FALSE

(* ------------------------------------------------------------------ *)
(* Character classes and escape forms                                 *)
(*                                                                    *)
(* The encoder and the printer quote strings with Go's strconv.Quote  *)
(* (characters: strconv.QuoteRune), whose documented output per class *)
(* is PForm below.  The JSON grammar (RFC 8259 section 7) and the     *)
(* zygomys reader (the escape table of the language, EscapeChar)      *)
(* accept the forms listed in JsonTokOK / ZyTokOK.                    *)
(*                                                                    *)
(*  class      members                         printed as             *)
(*  plain      printable ASCII but " ' \       itself                 *)
(*  dquote     "                               \"  (in '..': itself)  *)
(*  squote     '                               itself (in '..': \')   *)
(*  backslash  \                               \\                     *)
(*  nl cr tab  U+000A U+000D U+0009            \n \r \t               *)
(*  bel bs ff vt  U+0007 U+0008 U+000C U+000B  \a \b \f \v            *)
(*  c0         other C0 controls               \xHH                   *)
(*  del        U+007F                          \x7f                   *)
(*  bmp_np     non-printable U+0080..U+FFFF    \uHHHH                 *)
(*  bmp_p      printable U+0080..U+FFFF        itself                 *)
(*  astral_p   printable >= U+10000            itself                 *)
(*  astral_np  non-printable >= U+10000        \UHHHHHHHH             *)
(*  invalid    bytes that are not UTF-8        \xHH   (outside the    *)
(*             "full Unicode range" of the properties: not judged)    *)
(* ------------------------------------------------------------------ *)
Classes == {"plain", "dquote", "squote", "backslash", "nl", "cr", "tab", "bel", "bs", "ff", "vt",
            "c0", "del", "bmp_np", "bmp_p", "astral_p", "astral_np", "invalid"}

(* a representative member of each class (for the model checker) *)
ClassRep(c) ==
    CASE c = "plain" -> 97 [] c = "dquote" -> 34 [] c = "squote" -> 39 [] c = "backslash" -> 92
      [] c = "nl" -> 10 [] c = "cr" -> 13 [] c = "tab" -> 9 [] c = "bel" -> 7 [] c = "bs" -> 8
      [] c = "ff" -> 12 [] c = "vt" -> 11 [] c = "c0" -> 1 [] c = "del" -> 127
      [] c = "bmp_np" -> 8232 [] c = "bmp_p" -> 233 [] c = "astral_p" -> 128512
      [] c = "astral_np" -> 1114111 [] c = "invalid" -> -255

(* letters of the two-character escapes, as code points *)
EscLetterOf(c) ==
    CASE c = "dquote" -> 34 [] c = "squote" -> 39 [] c = "backslash" -> 92
      [] c = "nl" -> 110 [] c = "cr" -> 114 [] c = "tab" -> 116 [] c = "bel" -> 97
      [] c = "bs" -> 98 [] c = "ff" -> 102 [] c = "vt" -> 118 [] OTHER -> 0

(* the form strconv.Quote (ctx "str") / strconv.QuoteRune (ctx "chr") emits *)
PForm(c, ctx) ==
    CASE c \in {"plain", "bmp_p", "astral_p"} -> "raw"
      [] c = "dquote" -> IF ctx = "str" THEN "esc" ELSE "raw"
      [] c = "squote" -> IF ctx = "chr" THEN "esc" ELSE "raw"
      [] c \in {"backslash", "nl", "cr", "tab", "bel", "bs", "ff", "vt"} -> "esc"
      [] c \in {"c0", "del", "invalid"} -> "x2"
      [] c = "bmp_np" -> "u4"
      [] c = "astral_np" -> "U8"

(* the token the printer emits for member cp of class c *)
PTok(c, cp, ctx) ==
    LET f == PForm(c, ctx) IN
    IF f = "esc" THEN <<"esc", EscLetterOf(c)>>
    ELSE IF f = "x2" /\ cp < 0 THEN <<"x2", 0 - cp>>
    ELSE <<f, cp>>

(* what the two-character escape \<letter> denotes in Go / JSON / zygomys *)
EscDenotes(l) ==
    CASE l = 110 -> 10 [] l = 114 -> 13 [] l = 116 -> 9 [] l = 97 -> 7
      [] l = 98 -> 8 [] l = 102 -> 12 [] l = 118 -> 11 [] OTHER -> l

(* --- JSON string grammar (RFC 8259): unescaped = %x20-21 / %x23-5B / %x5D-10FFFF;
       escapes \" \\ \/ \b \f \n \r \t \uXXXX --- *)
JsonEscLetters == {34, 92, 47, 98, 102, 110, 114, 116}
JsonTokOK(t) ==
    CASE t[1] = "raw" -> t[2] >= 32 /\ t[2] # 34 /\ t[2] # 92
      [] t[1] = "esc" -> t[2] \in JsonEscLetters
      [] t[1] = "u4"  -> TRUE
      [] OTHER -> FALSE       \* \xHH, \UHHHHHHHH, \a, \v, \', raw controls, raw invalid bytes

IsHiSur(x) == x >= 55296 /\ x <= 56319
IsLoSur(x) == x >= 56320 /\ x <= 57343
(* code units of the tokens, then surrogate pairs combined; -1 marks an unpaired surrogate *)
TokUnit(t) == IF t[1] = "esc" THEN EscDenotes(t[2]) ELSE t[2]
RECURSIVE Combine(_, _)
Combine(u, i) ==
    IF i > Len(u) THEN <<>>
    ELSE IF IsHiSur(u[i]) /\ i < Len(u) /\ IsLoSur(u[i + 1])
         THEN <<65536 + (u[i] - 55296) * 1024 + (u[i + 1] - 56320)>> \o Combine(u, i + 2)
    ELSE IF IsHiSur(u[i]) \/ IsLoSur(u[i]) THEN <<-1>> \o Combine(u, i + 1)
    ELSE <<u[i]>> \o Combine(u, i + 1)
(* the tokens form a JSON string body denoting exactly the code points m *)
JsonToksDenote(toks, m) ==
    /\ \A i \in 1..Len(toks) : JsonTokOK(toks[i])
    /\ Combine([i \in 1..Len(toks) |-> TokUnit(toks[i])], 1) = m

(* --- zygomys reader (zygo/lexer.go EscapeChar, startHexEscape): inside "..." and '...'
       every character stands for itself except the closing quote and \ ; escapes
       \n \r \a \t \b \f \v \\ \" \' \# ; \xHH -- in a string the byte HH (as in Go), in a
       character literal the rune U+00HH; \uHHHH and \UHHHHHHHH: the Unicode scalar value
       written (a surrogate or a value above U+10FFFF is no rune: nothing is stated) --- *)
ZyEscLetters == {110, 114, 97, 116, 98, 102, 118, 92, 34, 39, 35}
IsScalar(x) == x >= 0 /\ x <= 1114111 /\ ~(x >= 55296 /\ x <= 57343)
ZyTokOK(t, ctx) ==
    CASE t[1] = "raw" -> t[2] # 92 /\ (IF ctx = "str" THEN t[2] # 34 ELSE t[2] # 39)
      [] t[1] = "esc" -> t[2] \in ZyEscLetters
      [] t[1] = "x2"  -> TRUE
      [] t[1] \in {"u4", "U8"} -> IsScalar(t[2])
      [] OTHER -> FALSE
(* the token denotes a rune by itself (\x80..\xff in a string is one byte of a UTF-8 sequence) *)
ZyTokJudged(t, ctx) == ZyTokOK(t, ctx) /\ ~(t[1] = "x2" /\ ctx = "str" /\ t[2] >= 128)
ZyToksDenote(toks, m, ctx) ==
    /\ \A i \in 1..Len(toks) : ZyTokOK(toks[i], ctx)
    /\ [i \in 1..Len(toks) |-> TokUnit(toks[i])] = m

(* classes whose printed form the JSON grammar / the reader does not accept:
   derived from the tables above, these are the triggers of the named deviations *)
JsonBadClass(c) == ~JsonTokOK(PTok(c, ClassRep(c), "str"))
ZyBadClass(c, ctx) == ~ZyTokOK(PTok(c, ClassRep(c), ctx), ctx)

(* class of a code point, from the per-case table cc = << <<cp, class>>, ... >> *)
ClassOf(cc, cp) == LET i == CHOOSE i \in 1..Len(cc) : cc[i][1] = cp IN cc[i][2]
Judged(cc, cps) == \A i \in 1..Len(cps) : ClassOf(cc, cps[i]) # "invalid"

(* ------------------------------------------------------------------ *)
(* sub-values                                                         *)
(* ------------------------------------------------------------------ *)
RECURSIVE Subs(_), SubsSeq(_, _)
Subs(v) ==             \* v and all its sub-values, as a sequence
    <<v>> \o (IF v[1] \in {"arr", "list"} THEN SubsSeq(v[2], 1)
             ELSE IF v[1] = "hash" THEN SubsSeq([i \in 1..Len(v[3]) |-> v[3][i][2]], 1)
             ELSE <<>>)
SubsSeq(s, i) == IF i > Len(s) THEN <<>> ELSE Subs(s[i]) \o SubsSeq(s, i + 1)

Exists(v, P(_)) ==     \* some sub-value of v satisfies P
    LET s == Subs(v) IN \E i \in 1..Len(s) : P(s[i])

StrHas(cc, cps, Bad(_)) == \E i \in 1..Len(cps) : Bad(ClassOf(cc, cps[i]))

IsIntegralFloat(x) == x[1] = "flt" /\ x[2] = "fin" /\ IsIntegral(NumVal(x))
(* magnitude of a canonical finite number at least the integer digit sequence d *)
MagAtLeast(n, d) == CmpMag(<<"fin", 1, n[3], n[4]>>, IntNum(1, d)) >= 0

(* texts outside the full Unicode range (invalid UTF-8) are not judged *)
HasInvalid(cc, v) ==
    Exists(v, LAMBDA x : \/ x[1] \in {"str", "sym"} /\ ~Judged(cc, x[2])
                         \/ x[1] = "hash" /\ \E i \in 1..Len(x[3]) : ~Judged(cc, x[3][i][1][2]))
HasNil(v) == Exists(v, LAMBDA x : x[1] = "nil")

(* ------------------------------------------------------------------ *)
(* C11: the known wrong behaviours of the encoder (it is the          *)
(* language's own printer) and of the decoder, as predicates on the   *)
(* original value.  Deviation ids:                                    *)
(*   json-nil-printed-as-nil         json-string-go-escapes           *)
(*   json-string-key-double-quoted   json-uint64-suffix               *)
(*        -> the text is malformed                                    *)
(*   unjson-rejects-2p63-to-2p64     an integer-looking number text   *)
(*        with 2^63 <= magnitude < 2^64 is refused by the decoder     *)
(*   reserved-member-name-as-key     a key named Atype or zKeyOrder   *)
(*        is written next to the reserved member of that name: the    *)
(*        text has a duplicate member and denotes other data          *)
(*   nonfinite-float-not-encodable   +Inf, -Inf, NaN are written as   *)
(*        these words: not JSON, and msgpack goes through that text   *)
(* ------------------------------------------------------------------ *)
HasUint(v) == Exists(v, LAMBDA x : x[1] = "uint")
(* a key (symbol or string) named like one of the reserved members *)
HasReservedKey(v) == Exists(v, LAMBDA x : x[1] = "hash" /\ \E i \in 1..Len(x[3]) : KeyName(x[3][i][1]) \in Reserved)
HasNonFinite(v) == Exists(v, LAMBDA x : x[1] = "flt" /\ x[2] # "fin")
HasStrKey(v) == Exists(v, LAMBDA x : x[1] = "hash" /\ \E i \in 1..Len(x[3]) : x[3][i][1][1] = "str")
HasBadEscape(cc, v) == Exists(v, LAMBDA x : x[1] = "str" /\ StrHas(cc, x[2], JsonBadClass))
InUintGap(n) == MagAtLeast(n, Int63p) /\ ~MagAtLeast(n, UInt64p)
(* the float half of this defect was repaired (commit dc3e40b): only uint64 values remain *)
HasUintGapNumber(v) ==
    Exists(v, LAMBDA x : x[1] = "uint" /\ InUintGap(NumVal(x)))

(* ------------------------------------------------------------------ *)
(* C12: identity, and the known wrong behaviours of printer + reader. *)
(* Same(v, r, half, D): r is v -- or, for the deviation ids in D,     *)
(* what the wrong behaviour turns v into:                             *)
(*   float-prints-without-fraction  an integral float not in          *)
(*        e-notation prints as digits only (the shortest that         *)
(*        identify it): reads back as that integer                    *)
(*   nil-reads-as-symbol            (half "rd" only)                  *)
(*   char-literal-first-byte        a character printed as itself     *)
(*        reads back as the first byte of its UTF-8 encoding          *)
(* Deviations that make the whole text unreadable are triggers:       *)
(*   escape-not-readable, float-prints-without-fraction (digits       *)
(*   beyond int64), hash-string-key-printed-raw                       *)
(* ------------------------------------------------------------------ *)
NilSym == <<"sym", <<110, 105, 108>>>>
FirstByte(cp) == IF cp < 2048 THEN 192 + cp \div 64
                 ELSE IF cp < 65536 THEN 224 + cp \div 4096
                 ELSE 240 + cp \div 262144

PlainFloat(x) == x[1] = "flt" /\ ~x[6] /\ IsIntegralFloat(x)   \* prints as digits only
FitsInt64(n) == ~MagAtLeast(n, Int63p)
(* y is x, or the shortest decimal that identifies the float x (at most 17 digits, then zeros) *)
Pre(d, k) == SubSeq(d, 1, IF Len(d) < k THEN Len(d) ELSE k)
ShortestOf(x, y) == \/ y = x
                    \/ /\ x[2] = y[2] /\ x[4] = y[4] /\ Len(x[3]) > 15 /\ Len(y[3]) <= 17
                       /\ Pre(x[3], 15) = Pre(y[3], 15)

RECURSIVE Same(_, _, _, _)
Same(v, r, half, D) ==
    CASE v[1] = "flt" ->
            \/ r[1] = "flt" /\ NumVal(r) = NumVal(v)
            \/ /\ "float-prints-without-fraction" \in D /\ PlainFloat(v)
               /\ r[1] = "int" /\ ShortestOf(NumVal(v), NumVal(r))
      [] v[1] \in {"int", "uint"} -> r[1] = v[1] /\ NumVal(r) = NumVal(v)
      [] v[1] = "nil" ->
            \/ r[1] = "nil"
            \/ half = "rd" /\ "nil-reads-as-symbol" \in D /\ r = NilSym
      [] v[1] = "chr" ->
            \/ r = v
            \/ "char-literal-first-byte" \in D /\ v[2] >= 128 /\ r = <<"chr", FirstByte(v[2])>>
      [] v[1] \in {"bool", "str", "sym"} -> r = v
      [] v[1] \in {"list", "arr"} ->
            /\ r[1] = v[1] /\ Len(r[2]) = Len(v[2])
            /\ \A i \in 1..Len(v[2]) : Same(v[2][i], r[2][i], half, D)
      [] v[1] = "hash" ->
            /\ r[1] = "hash" /\ r[2] = v[2] /\ Len(r[3]) = Len(v[3])
            /\ \A i \in 1..Len(v[3]) : /\ r[3][i][1] = v[3][i][1]
                                       /\ Same(v[3][i][2], r[3][i][2], half, D)
      [] OTHER -> FALSE

HasUnreadableEscape(cc, v) ==      \* (a string key counts once keys are printed like strings)
    Exists(v, LAMBDA x : \/ x[1] = "str" /\ StrHas(cc, x[2], LAMBDA k : ZyBadClass(k, "str"))
                         \/ x[1] = "chr" /\ ZyBadClass(ClassOf(cc, x[2]), "chr")
                         \/ x[1] = "hash" /\ \E i \in 1..Len(x[3]) :
                               x[3][i][1][1] = "str" /\ StrHas(cc, x[3][i][1][2], LAMBDA k : ZyBadClass(k, "str")))
HasHugePlainFloat(v) == Exists(v, LAMBDA x : PlainFloat(x) /\ ~FitsInt64(NumVal(x)))
HasPlainFloat(v) == Exists(v, LAMBDA x : PlainFloat(x))
HasWideChar(v) == Exists(v, LAMBDA x : x[1] = "chr" /\ x[2] >= 128)
(* a symbol key is printed bare, as  name:  -- that text reads back as the key only when the name
   is one the lexer's symbol pattern (SymbolRegex) admits: an optional sigil # or ?, then no
   digit first and none of the delimiters, operators, quotes, white space or the dot of a path
   anywhere; the words of other literals are not symbols either *)
KeyRestBad == {39, 35, 58, 59, 92, 126, 64, 91, 93, 123, 125, 94, 124, 34, 40, 41, 37, 44, 38, 42, 45, 43,
               60, 62, 61, 33, 47, 46, 96, 63, 127} \cup (0..32)
KeyFirstBad == (KeyRestBad \ {35, 63}) \cup (48..57)
KeyWords == { <<116, 114, 117, 101>>, <<102, 97, 108, 115, 101>>, <<78, 97, 78>>, <<110, 97, 110>>,
              <<73, 110, 102>>, <<105, 110, 102>> }      \* true false NaN nan Inf inf
BadSymKey(n) == \/ n = <<>> \/ n \in KeyWords
                \/ n[1] \in KeyFirstBad
                \/ \E i \in 2..Len(n) : n[i] \in KeyRestBad
HasBadSymKey(v) ==
    Exists(v, LAMBDA x : x[1] = "hash" /\ \E i \in 1..Len(x[3]) : x[3][i][1][1] = "sym" /\ BadSymKey(x[3][i][1][2]))
NeedsEscape(k) == k \in {"dquote", "backslash"}
HasRawKey(cc, v) ==
    Exists(v, LAMBDA x : x[1] = "hash" /\ \E i \in 1..Len(x[3]) :
                            x[3][i][1][1] = "str" /\ StrHas(cc, x[3][i][1][2], NeedsEscape))
=============================================================================
