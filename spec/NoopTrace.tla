----------------------------- MODULE NoopTrace -----------------------------
(***************************************************************************)
(* C05, the part that needs no evaluator: a text that is rejected before   *)
(* any of it runs -- a parse error, a compile error in a nested form, an   *)
(* error while a macro is expanded, a jump outside a loop -- is a          *)
(* stuttering step of the interpreter.  The state a program can observe    *)
(* (variables, functions, macros, declared types, packages, the contents   *)
(* of values) is what it was.                                              *)
(*                                                                         *)
(* The interpreter is modelled by what later evaluations can see of it:    *)
(*   obs     the answers it gives to a fixed list of probes                *)
(* and two actions: Setup (defines names; obs becomes whatever the twin    *)
(* interpreter, which only ran the set-up, answers) and Rejected(text),    *)
(* which must leave obs unchanged, return an error and leave the four VM   *)
(* stacks at rest.  A case records both interpreters; TLC replays it.      *)
(***************************************************************************)
EXTENDS Integers, Sequences, Json, IOUtils, TLC

ASSUME TLCSet(11, ndJsonDeserialize(IOEnv.VERIF_TRACE))
Cases == TLCGet(11)
Rest == <<0, 1, 0, 0>>

VARIABLES ci, phase, obs, verdict
tvars == <<ci, phase, obs, verdict>>

C == Cases[ci]

TInit == ci \in 1..Len(Cases) /\ phase = "new" /\ obs = <<>> /\ verdict = "run"

Bad(why, n) == /\ verdict' = "bad" /\ UNCHANGED <<ci, phase, obs>>
               /\ PrintT(<<"VERDICT", C.id, "bad", why, n>>)

(* the set-up evaluation: the observable state is the twin's *)
Setup == /\ verdict = "run" /\ phase = "new"
         /\ phase' = "ready" /\ obs' = C.twin /\ UNCHANGED <<ci, verdict>>

(* the rejected text: an error, at rest, and a stuttering step on obs *)
Rejected ==
    /\ verdict = "run" /\ phase = "ready"
    /\ IF C.fout[1] # "err" THEN Bad("error-swallowed", 0)
       ELSE IF C.depths # Rest THEN Bad("not-at-rest", 0)
       ELSE phase' = "rejected" /\ UNCHANGED <<ci, obs, verdict>>

(* the probes after the rejected text answer as obs says *)
FirstDiff(a, b) == IF Len(a) # Len(b) THEN 0
                   ELSE IF \E i \in 1..Len(a) : a[i] # b[i] THEN CHOOSE i \in 1..Len(a) : a[i] # b[i] /\ \A j \in 1..(i-1) : a[j] = b[j]
                   ELSE -1
Probe ==
    /\ verdict = "run" /\ phase = "rejected"
    /\ LET d == FirstDiff(C.a, obs) IN
       IF d = -1 THEN /\ verdict' = "ok" /\ UNCHANGED <<ci, phase, obs>>
                      /\ PrintT(<<"VERDICT", C.id, "ok", 0>>)
       ELSE Bad("state-changed", d)

TNext == Setup \/ Rejected \/ Probe
TSpec == TInit /\ [][TNext]_tvars
=============================================================================
