----------------------------- MODULE NoopTrace -----------------------------
(***************************************************************************)
(* C05, the part that needs no evaluator: a text that fails before any of  *)
(* it has taken effect is a stuttering step of the interpreter.  The state *)
(* a program can observe (variables, functions, macros, declared types,    *)
(* packages, the contents of values) is what it was.                       *)
(*                                                                         *)
(* The interpreter is modelled by what later evaluations can see of it:    *)
(*   obs     the answers it gives to a fixed list of probes                *)
(* and two actions: Setup (defines names; obs becomes whatever the twin    *)
(* interpreter, which only ran the set-up, answers) and Rejected(text),    *)
(* which must leave obs unchanged, return an error -- returned, not a Go   *)
(* panic out of the entry point -- leave the four VM stacks at rest, and   *)
(* leave the interpreter usable.  A case records both interpreters; TLC    *)
(* replays it.                                                             *)
(*                                                                         *)
(* Which texts must be rejected is said HERE, by the class of the variant  *)
(* (the harness only builds the texts):                                    *)
(*   MustFail  the text contains a form that is ill-formed in every        *)
(*             reading, in a position where it is evaluated -- at top      *)
(*             level, nested in begin / a function body / a call argument /*)
(*             eval / a forced lazy argument / a sourced or included file /*)
(*             an array literal, or as the operand of an unquote inside a  *)
(*             syntax-quote template (well-formedness does not depend on   *)
(*             the nesting) -- or a parse error, an expansion error, a     *)
(*             jump outside a loop; or the (re)definition itself fails in  *)
(*             the middle: its value expression calls a host function that *)
(*             fails (script error or Go panic; also a host macro, and also *)
(*             when the evaluation is entered through the host's Apply),   *)
(*             or the binding is refused                                   *)
(*             (a string for a name that holds an int64: def refuses it,   *)
(*             so does every other form that binds like def).              *)
(*             "Errors are never swallowed into a successful result."      *)
(*   MayFail   a special form whose operand is an improper list, or a form *)
(*             that generates no value where a value is needed below a     *)
(*             value of the caller.  The language may give these a meaning *)
(*             (then the case says nothing about failures: skip); it may   *)
(*             not panic, and when it reports an error the step stutters.  *)
(*             These texts are a valid re-definition followed by the form: *)
(*             the form is refused either when the text is compiled (then  *)
(*             nothing ran: the twin) or when it is executed (then the     *)
(*             re-definition before it ran, all of it: twin2).  Any third  *)
(*             state is a partial effect.                                  *)
(***************************************************************************)
EXTENDS Integers, Sequences, Json, IOUtils, TLC, SequencesExt

ASSUME TLCSet(11, ndJsonDeserialize(IOEnv.VERIF_TRACE))
Cases == TLCGet(11)
Rest == <<0, 1, 0, 0>>
(* the answer to the usability text (defn zvu [x] (+ x 1)) (zvu 41) *)
UsableAnswer == <<"val", "42">>

Numbered(p, n) == {p \o ToString(i) : i \in 0..n}
Two(i) == (IF i < 10 THEN "0" ELSE "") \o ToString(i)

MustFailV ==
    {"then-compile-error", "then-parse-error", "then-unbalanced", "after-compile-error",
     "then-expansion-error", "then-bad-jump", "inside-begin", "inside-fn", "broken-body",
     "unquote-list", "unquote-array", "unquote-deep", "unquote-in-fn", "unquote-in-mac", "unquote-splice",
     "route-arg", "route-eval", "route-fn-arg", "route-lazy", "route-source", "route-source-parse",
     "route-include", "route-include-parse", "route-array",
     "then-hostmacro-panic", "then-hostmacro-error",
     "apply-host-panic", "apply-host-error", "apply-script-panic", "apply-script-error"}
    \cup Numbered("failing-", 9)
MayFailV ==
    {"malformed-" \o Two(i) : i \in 0..99}
    \cup {"valueless-" \o ToString(i) \o "-" \o ToString(j) : i \in 0..9, j \in 0..19}

DevList == "," \o (IF "VERIF_DEVS" \in DOMAIN IOEnv THEN IOEnv.VERIF_DEVS ELSE "") \o ","
DevOn(d) == ReplaceFirstSubSeq("", "," \o d \o ",", DevList) # DevList
(* named deviation "nested-reject-keeps-macros": a text rejected by the compiler on a nested route  *)
(* (call argument, eval, lazy argument, sourced file) leaves the macros it defined installed: the   *)
(* answers are those of twin2, which evaluated the set-up and the valid re-definition of the macro  *)
RouteV == {"route-arg", "route-eval", "route-fn-arg", "route-lazy", "route-source"}
KeepsMacros(c) == /\ DevOn("nested-reject-keeps-macros")
                  /\ c.variant \in RouteV /\ c.def \in {"defmac", "defmac-nested"}
                  /\ c.a = c.twin2

VARIABLES ci, phase, obs, verdict
tvars == <<ci, phase, obs, verdict>>

C == Cases[ci]

TInit == ci \in 1..Len(Cases) /\ phase = "new" /\ obs = <<>> /\ verdict = "run"

Bad(why, n) == /\ verdict' = "bad" /\ UNCHANGED <<ci, phase, obs>>
               /\ PrintT(<<"VERDICT", C.id, "bad", why, n>>)
Skip(why) == /\ verdict' = "skip" /\ UNCHANGED <<ci, phase, obs>>
             /\ PrintT(<<"VERDICT", C.id, "skip", why>>)

(* the set-up evaluation: the observable state is the twin's *)
Setup == /\ verdict = "run" /\ phase = "new"
         /\ IF C.ut # UsableAnswer THEN Skip("twin-unusable")
            ELSE phase' = "ready" /\ obs' = C.twin /\ UNCHANGED <<ci, verdict>>

(* the rejected text: an error that is returned, at rest, and a stuttering step on obs *)
Rejected ==
    /\ verdict = "run" /\ phase = "ready"
    /\ IF C.variant \notin (MustFailV \cup MayFailV) THEN Bad("unknown-variant", 0)
       ELSE IF C.fout[1] = "panic" THEN Bad("panic-escaped", 0)
       ELSE IF C.fout[1] = "budget" THEN Skip("budget")
       ELSE IF C.fout[1] # "err" /\ C.variant \in MayFailV THEN Skip("accepted")
       ELSE IF C.fout[1] # "err" THEN Bad("error-swallowed", 0)
       ELSE IF C.depths # Rest THEN Bad("not-at-rest", 0)
       ELSE phase' = "rejected" /\ UNCHANGED <<ci, obs, verdict>>

(* the probes after the rejected text answer as obs says, and the interpreter is usable *)
FirstDiff(a, b) == IF Len(a) # Len(b) THEN 0
                   ELSE IF \E i \in 1..Len(a) : a[i] # b[i] THEN CHOOSE i \in 1..Len(a) : a[i] # b[i] /\ \A j \in 1..(i-1) : a[j] = b[j]
                   ELSE -1
Probe ==
    /\ verdict = "run" /\ phase = "rejected"
    /\ LET d == FirstDiff(C.a, obs) IN
       IF d # -1 /\ KeepsMacros(C)
       THEN /\ verdict' = "known:nested-reject-keeps-macros" /\ UNCHANGED <<ci, phase, obs>>
            /\ PrintT(<<"VERDICT", C.id, "known:nested-reject-keeps-macros", d>>)
       ELSE IF d # -1 /\ ~(C.variant \in MayFailV /\ C.a = C.twin2) THEN Bad("state-changed", d)
       ELSE IF C.ua # UsableAnswer THEN Bad("unusable", 0)
       ELSE /\ verdict' = "ok" /\ UNCHANGED <<ci, phase, obs>>
            /\ PrintT(<<"VERDICT", C.id, "ok", 0>>)

TNext == Setup \/ Rejected \/ Probe
TSpec == TInit /\ [][TNext]_tvars
=============================================================================
