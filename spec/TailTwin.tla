----------------------------- MODULE TailTwin -----------------------------
(***************************************************************************)
(* C09, the second oracle: "The optimisation is invisible: the call        *)
(* returns the same value and has the same effects, including what         *)
(* closures created during earlier iterations observe, as the same         *)
(* function evaluated without the optimisation", and "a function that      *)
(* calls itself in tail position ... runs in space independent of the      *)
(* recursion depth".                                                       *)
(*                                                                         *)
(* The reference semantics ZSem covers the core language only.  For the    *)
(* forms it does not have (return, typed func, named arguments, include,   *)
(* macros, re-bound names ...) the property is stated here as what it is:  *)
(* a relation between two evaluations of ONE function, with and without    *)
(* the optimisation.  "Without" is the same program text in which the self *)
(* call names its callee differently, so that the compiler cannot          *)
(* recognise it and the ordinary call path runs:                           *)
(*     alias   (g ARGS), with (def g f) after the definition               *)
(*     wrap    ((begin f) ARGS)                                            *)
(*                                                                         *)
(* An observation of one top-level call is a record                        *)
(*     out    <<"val", v>> or <<"err">> (messages are not compared)        *)
(*     fx     the effect trace: the calls of the host function tr          *)
(*     rest   the sizes of the data, scope, address and loop stacks after  *)
(*            a value was returned                                         *)
(* and a run of a program (one interpreter) is                             *)
(*     load   outcome of loading the definitions                           *)
(*     obs    one observation per depth n, in order                        *)
(*     glob   the user's global bindings that are not functions, afterwards*)
(*                                                                         *)
(* This module is pure (no variables): MCTailTwin explores an abstract     *)
(* machine pair against these laws, TailTwinTrace judges recorded          *)
(* executions of the real interpreter with the same operators.             *)
(***************************************************************************)
EXTENDS Integers, Sequences, FiniteSets

(* ------------------------------------------------------------ Invisible *)
SameObs(a, b) == a.out = b.out /\ a.fx = b.fx /\ a.rest = b.rest

SameRun(a, b) ==
    /\ a.load = b.load
    /\ Len(a.obs) = Len(b.obs)
    /\ \A i \in 1..Len(a.obs) : SameObs(a.obs[i], b.obs[i])
    /\ a.glob = b.glob

(* the law: the optimised form is indistinguishable from every reference form *)
Invisible(opt, refs) == \A r \in refs : SameRun(opt, r)

(* where two runs differ first (for the verdict line) *)
FirstDiffObs(a, b) ==
    IF Len(a.obs) # Len(b.obs) THEN 0
    ELSE IF \E i \in 1..Len(a.obs) : ~SameObs(a.obs[i], b.obs[i])
         THEN CHOOSE i \in 1..Len(a.obs) : ~SameObs(a.obs[i], b.obs[i]) /\ \A j \in 1..(i-1) : SameObs(a.obs[j], b.obs[j])
         ELSE -1

Difference(a, b) ==
    IF a.load # b.load THEN <<"load", 0>>
    ELSE LET d == FirstDiffObs(a, b) IN
         IF d = 0 THEN <<"length", 0>>
         ELSE IF d > 0 THEN
              LET x == a.obs[d]  y == b.obs[d] IN
              IF x.out[1] # y.out[1] THEN <<"kind", d>>
              ELSE IF x.out # y.out THEN <<"value", d>>
              ELSE IF x.fx # y.fx THEN <<"effects", d>>
              ELSE <<"rest", d>>
         ELSE IF a.glob # b.glob THEN <<"globals", 0>>
         ELSE <<"same", 0>>

(* ---------------------------------------------------------------- Space *)
(* A space case is the optimised form run for growing depths n; a run      *)
(* records whether it finished, the high-water marks hw of the data, scope *)
(* and address stacks over all VM steps of the call, and syms, the number  *)
(* of symbols the call interned.  Depths from Threshold on must agree      *)
(* exactly; smaller depths may only need less.                             *)
Finished(r) == r.out = <<"val">>
Big(R, th) == {i \in 1..Len(R) : R[i].n >= th}
Leq(a, b) == \A i \in 1..Len(a) : a[i] <= b[i]

AllFinished(R) == \A i \in 1..Len(R) : Finished(R[i])
StacksConstant(R, th) ==
    /\ \A i, j \in Big(R, th) : R[i].hw = R[j].hw
    /\ \A i \in 1..Len(R), j \in Big(R, th) : R[i].n < th => Leq(R[i].hw, R[j].hw)
SymsConstant(R, th) == \A i, j \in Big(R, th) : R[i].syms = R[j].syms

(* the law *)
Space(R, th) == AllFinished(R) /\ StacksConstant(R, th) /\ SymsConstant(R, th)

(* exactly k more interned symbols per additional level of recursion (the  *)
(* shape of the named deviation symtab-grows-per-iteration)                *)
SymsLinear(R, th, k) == \A i, j \in Big(R, th) : R[j].syms - R[i].syms = k * (R[j].n - R[i].n)
=============================================================================
