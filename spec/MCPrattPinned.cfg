SPECIFICATION Spec
CONSTANTS
  MaxOps = 2
  MaxStmts = 2
  UniqLen = 0
  Devs = {"dotpath-stmt-swallowed", "not-stmt-swallowed"}
INVARIANTS Agree
CHECK_DEADLOCK FALSE
