----------------------------- MODULE FailPoint -----------------------------
(***************************************************************************)
(* C05, failure at a known point.  A text is a sequence of independent     *)
(* top-level forms; one of them is a dedicated failing form.  The property *)
(* says what the interpreter is afterwards:                                *)
(*                                                                         *)
(*   PREFIX LAW   state after Fail(forms, k) = state after Ok(forms[1..k-1])*)
(*                and Fail returns an error, with the VM at rest           *)
(*                                                                         *)
(* ("every definition completed before the failure intact; every later     *)
(* evaluation behaves exactly as in an interpreter that evaluated only the *)
(* part of the program that ran before the failure").  A text rejected by  *)
(* the parser or the compiler is the case k = 1 for the whole text: nothing *)
(* of it ran (NoopTrace).                                                   *)
(*                                                                         *)
(* The module has two parts.                                               *)
(*  1. The reference semantics Ref: forms take effect one after the other; *)
(*     the failing form ends the evaluation.  Prefix(forms, k) is used by  *)
(*     FailPointTrace to say which text the twin interpreter evaluates.    *)
(*  2. An implementation-shaped model Impl of what makes the law non-      *)
(*     trivial in zygomys: a text is COMPILED as a whole before any of it  *)
(*     RUNS, and a macro definition takes effect when it is compiled (the  *)
(*     rest of the text may use it).  So at the failure point the macro    *)
(*     table already holds the macros of the forms BEHIND the failure.     *)
(*     Impl keeps a journal of the macros a text installed, marks an entry *)
(*     live when its form begins to run, and withdraws what is not live    *)
(*     when the text fails (policy "journal"); a text the compiler rejects *)
(*     withdraws all of them.  MCFailPoint checks that Impl with the       *)
(*     journal refines Ref for every text up to a bound; with policy       *)
(*     "none" (macros stay as compiled) TLC finds the two-form text        *)
(*     <<fail, mac>> as a counterexample -- the defect of the library      *)
(*     before the fix.                                                     *)
(***************************************************************************)
EXTENDS Integers, Sequences

CONSTANTS Names,    \* names a form can define
          Vers      \* versions of a definition (strings; what a probe can tell apart)

Undef == "undef"

(* forms: a run-time definition, a macro definition, the failing form, and *)
(* a form the compiler rejects                                             *)
DefForms == {<<"def", n, v>> : n \in Names, v \in Vers}
MacForms == {<<"mac", n, v>> : n \in Names, v \in Vers}
FailForm == <<"fail">>
BadForm == <<"bad">>
Forms == DefForms \cup MacForms \cup {FailForm, BadForm}

(* the observable state: what each name means as a variable and as a macro *)
States == [vars : [Names -> Vers \cup {Undef}], macs : [Names -> Vers \cup {Undef}]]

Prefix(forms, k) == SubSeq(forms, 1, k - 1)

(* all texts of at most n forms *)
RECURSIVE Texts(_)
Texts(n) == IF n = 0 THEN {<<>>}
            ELSE LET S == Texts(n - 1) IN S \cup {Append(t, f) : t \in {x \in S : Len(x) = n - 1}, f \in Forms}

--------------------------------------------------------------------------
(* 1. reference semantics *)
Effect(st, f) ==
    IF f[1] = "def" THEN [st EXCEPT !.vars[f[2]] = f[3]]
    ELSE IF f[1] = "mac" THEN [st EXCEPT !.macs[f[2]] = f[3]]
    ELSE st

RECURSIVE RefRun(_, _)
RefRun(st, forms) ==
    IF forms = <<>> THEN [st |-> st, res |-> "ok"]
    ELSE IF Head(forms) = FailForm THEN [st |-> st, res |-> "err"]
    ELSE RefRun(Effect(st, Head(forms)), Tail(forms))

Rejected(forms) == \E i \in 1..Len(forms) : forms[i] = BadForm

Ref(st, forms) == IF Rejected(forms) THEN [st |-> st, res |-> "err"] ELSE RefRun(st, forms)

(* the law, as a property of Ref (checked by MCFailPoint for all bounded texts) *)
FirstFail(forms) == CHOOSE k \in 1..Len(forms) : forms[k] = FailForm /\ \A j \in 1..(k-1) : forms[j] # FailForm
PrefixLaw(st, forms) ==
    (~Rejected(forms) /\ \E k \in 1..Len(forms) : forms[k] = FailForm)
    => LET k == FirstFail(forms) IN
       /\ Ref(st, forms).res = "err"
       /\ Ref(st, forms).st = Ref(st, Prefix(forms, k)).st
       /\ Ref(st, Prefix(forms, k)).res = "ok"

--------------------------------------------------------------------------
(* 2. implementation-shaped: compile the whole text, then run it *)
CONSTANT Policy     \* "journal" | "none"

(* compile forms[i..]: install the macros, journal <<form index, name, previous meaning>> *)
RECURSIVE Compile(_, _, _, _)
Compile(macs, forms, i, journal) ==
    IF i > Len(forms) THEN [ok |-> TRUE, macs |-> macs, journal |-> journal]
    ELSE IF forms[i] = BadForm THEN [ok |-> FALSE, macs |-> macs, journal |-> journal]
    ELSE IF forms[i][1] = "mac"
         THEN Compile([macs EXCEPT ![forms[i][2]] = forms[i][3]], forms, i + 1,
                      Append(journal, <<i, forms[i][2], macs[forms[i][2]]>>))
    ELSE Compile(macs, forms, i + 1, journal)

(* withdraw the journal entries of forms with index >= from, newest first *)
RECURSIVE Withdraw(_, _, _)
Withdraw(macs, journal, from) ==
    IF journal = <<>> THEN macs
    ELSE LET e == journal[Len(journal)]
             rest == SubSeq(journal, 1, Len(journal) - 1)
         IN IF e[1] >= from THEN Withdraw([macs EXCEPT ![e[2]] = e[3]], rest, from)
            ELSE Withdraw(macs, rest, from)

(* run forms[i..]; a form that begins to run makes its journal entries live, *)
(* i.e. only entries of forms with index > i can still be withdrawn          *)
RECURSIVE Exec(_, _, _, _)
Exec(st, forms, i, journal) ==
    IF i > Len(forms) THEN [st |-> st, res |-> "ok"]
    ELSE IF forms[i] = FailForm
         THEN [st |-> IF Policy = "journal" THEN [st EXCEPT !.macs = Withdraw(st.macs, journal, i + 1)] ELSE st,
               res |-> "err"]
    ELSE IF forms[i][1] = "def" THEN Exec([st EXCEPT !.vars[forms[i][2]] = forms[i][3]], forms, i + 1, journal)
    ELSE Exec(st, forms, i + 1, journal)

Impl(st, forms) ==
    LET c == Compile(st.macs, forms, 1, <<>>) IN
    IF ~c.ok THEN [st |-> [st EXCEPT !.macs = Withdraw(c.macs, c.journal, 1)], res |-> "err"]
    ELSE Exec([st EXCEPT !.macs = c.macs], forms, 1, c.journal)
=============================================================================
