SPECIFICATION Spec
CONSTANTS
  NL = 2
  LBITS = 3
  EB = 4
  MB = 1
INVARIANT WordsOK
INVARIANT FloatsOK
INVARIANT ConvOK
INVARIANT TowerOK
CHECK_DEADLOCK FALSE
