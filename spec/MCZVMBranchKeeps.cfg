SPECIFICATION Spec
CONSTANTS
  Variant = "branch-keeps"
  MaxLen = 4
INVARIANTS CollectExact MarkerDiscipline DupTop DupPop BranchOne BranchDir SquashExplode MarkDiscipline PutGet
CHECK_DEADLOCK FALSE
