SPECIFICATION TSpec
CONSTANTS
  Variant = "vm"
CHECK_DEADLOCK FALSE
