SPECIFICATION TSpec
CONSTANTS
  Names <- TraceNames
  Devs <- TraceDevs
  DefPalette = 0
  BaseVals = {}
  FieldNames = {}
  Routes = {}
  MaxSlots = 0
  MaxPtrs = 0
  MaxVer = 0
  MaxSteps = 0
CHECK_DEADLOCK FALSE
