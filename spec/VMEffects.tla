---------------------------- MODULE VMEffects ----------------------------
(***************************************************************************)
(* What each VM instruction does to the depth of the data stack and of the *)
(* scope stack: the table Bytecode.tla executes listings with, and the     *)
(* table EffectTrace.tla checks against the effects observed in the real   *)
(* VM (family vmfx), so that the abstract execution and the interpreter    *)
(* agree on every instruction both have seen.                              *)
(*                                                                         *)
(* Eff(I) = <<pops, pushes, scopes>> for the instructions whose effect is  *)
(* fixed by the instruction alone; <<>> for those whose effect depends on  *)
(* the stack contents (explode, squash/vectorize/hashize, the stack-mark   *)
(* pair) or that leave the function (return, tailcall).                    *)
(***************************************************************************)
EXTENDS Integers, Sequences

Eff(I) ==
    CASE I.op \in {"push", "pushlazy", "envtostack", "createclosure", "pushmarker", "pushmark"} -> <<0, 1, 0>>
      [] I.op = "dup" -> <<1, 2, 0>>
      [] I.op \in {"pop", "branch"} -> <<1, 0, 0>>
      [] I.op \in {"popstackputenv", "update", "bindlist"} -> <<1, 0, 0>>
      [] I.op = "assign" -> <<2, 1, 0>>          \* target and value in, the value out (an expression, like def)
      [] I.op = "call" -> <<I.n, 1, 0>>
      [] I.op = "callexpr" -> <<0, 1, 0>>        \* evaluates its arguments itself
      [] I.op = "dispatch" -> <<I.n + 1, 1, 0>>  \* the function value and n arguments
      [] I.op \in {"addscope", "addfuncscope"} -> <<0, 0, 1>>
      [] I.op = "removescope" -> <<0, 0, -1>>
      [] I.op = "popscopetodata" -> <<0, 1, -1>> \* the package scope becomes a value
      [] I.op \in {"label", "loopstart", "debug", "jump", "goto"} -> <<0, 0, 0>>
      [] I.op \in {"break", "continue"} -> <<0, 0, -I.n>>   \* n = scopes to pop on the way out
      [] OTHER -> <<>>

(* instructions whose effect on the data stack is bounded but depends on its contents *)
Shrinks(I) == I.op \in {"squash", "vectorize", "hashize", "popuntilmark", "clearmark"}
=============================================================================
