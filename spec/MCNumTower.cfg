SPECIFICATION Spec
CONSTANTS
  NL = 2
  LBITS = 4
  EB = 4
  MB = 3
INVARIANT WordsOK
INVARIANT FloatsOK
INVARIANT ConvOK
INVARIANT TowerOK
CHECK_DEADLOCK FALSE
