---------------------------- MODULE FaultTrace ----------------------------
(***************************************************************************)
(* C05 -- "When an evaluation fails (at parse time, compile time,          *)
(* macro-expansion time, or at any point during execution at any call      *)
(* depth, inside loops, lets, builtins that call back into the VM, lazy    *)
(* forcing or eval), the error is returned and the interpreter is back at  *)
(* rest with every definition completed before the failure intact.  Every  *)
(* later evaluation then behaves exactly as in an interpreter that         *)
(* evaluated only the part of the program that ran before the failure;     *)
(* errors are never swallowed into a successful result."                   *)
(*                                                                         *)
(* A case: a program with (fail) host calls, the index k of the call that  *)
(* fails (kind script error / Go panic inside the builtin), or a parse /   *)
(* compile error appended to the text (then nothing of the text may run);  *)
(* what the real interpreter returned, its stack depths, and the results   *)
(* of a battery of follow-up evaluations.  The oracle is ZSem: the store   *)
(* after the failure is the store at the moment of failure, and the        *)
(* battery is evaluated from that store.                                   *)
(***************************************************************************)
EXTENDS ZSem, Json, IOUtils

ASSUME TLCSet(11, ndJsonDeserialize(IOEnv.VERIF_TRACE))
Cases == TLCGet(11)
Fuel == 4000
Rest == <<0, 1, 0, 0>>

VARIABLES ci, verdict
tvars == <<ci, verdict>>

(* evaluate the battery from state s; returns "ok", "skip" or <<"bad", i>> *)
RECURSIVE Batt(_, _, _, _)
Batt(forms, obs, i, s) ==
    IF i > Len(forms) THEN <<"ok", 0>>
    ELSE LET s0 == [s EXCEPT !.fx = <<>>, !.fuel = Fuel]
             r0 == IF FreeJump(forms[i], {}) THEN ErrR("compile", s0) ELSE Ev(forms[i], 1, s0)
             r == IF r0.k \in {"brk", "cnt"} THEN ErrR("break-outside-loop", r0.s) ELSE r0
             o == obs[i][1]
             fx == obs[i][2]
         IN IF r.k \in {"undef", "oof"} THEN <<"skip", i>>
            ELSE IF ObsFx(r.s.fx) # fx THEN <<"bad", i>>
            ELSE IF r.k = "val" /\ o = <<"val", ObsR(r)>> THEN Batt(forms, obs, i + 1, r.s)
            ELSE IF r.k = "err" /\ o[1] = "err" THEN Batt(forms, obs, i + 1, r.s)
            ELSE <<"bad", i>>

Judge(c) ==
    IF c.depths # Rest THEN <<"bad", "not-at-rest">>
    ELSE IF c.bdepths # Rest THEN <<"bad", "battery-not-at-rest">>
    ELSE IF c.kind \in {"parse", "compile"}
    THEN (* nothing of the text may have run *)
         IF c.out[1] # "err" THEN <<"bad", "error-swallowed">>
         ELSE IF Len(c.fx) # 0 THEN <<"bad", "ran-before-parse-error">>
         ELSE LET b == Batt(c.battery, c.bout, 1, InitState(Fuel, 0)) IN
              IF b[1] = "bad" THEN <<"bad", "battery">> ELSE <<b[1], "battery">>
    ELSE LET r == RunProgram(c.prog, Fuel, c.failAt) IN
         IF r.k \in {"undef", "oof"} THEN <<"skip", r.k>>
         ELSE IF c.out[1] = "budget" THEN <<"skip", "budget">>
         ELSE IF ObsFx(r.s.fx) # c.fx THEN <<"bad", "effects">>
         ELSE IF r.k = "err" /\ c.out[1] # "err" THEN <<"bad", "error-swallowed">>
         ELSE IF r.k = "val" /\ c.out # <<"val", ObsR(r)>> THEN <<"bad", "value">>
         ELSE LET b == Batt(c.battery, c.bout, 1, [r.s EXCEPT !.failAt = 0]) IN
              IF b[1] = "bad" THEN <<"bad", "battery">> ELSE <<b[1], "battery">>

TInit == ci \in 1..Len(Cases) /\ verdict = "run"
TStep == /\ verdict = "run"
         /\ LET j == Judge(Cases[ci]) IN
            verdict' = j[1] /\ PrintT(<<"VERDICT", Cases[ci].id, j[1], j[2]>>)
         /\ UNCHANGED ci
TSpec == TInit /\ [][TStep]_tvars
=============================================================================
