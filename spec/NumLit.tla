------------------------------ MODULE NumLit ------------------------------
(***************************************************************************)
(* The numeric literals of zygomys and the exact mathematical value each   *)
(* spelling denotes (C12, second sentence).                                *)
(*                                                                         *)
(* A spelling is a sequence of ASCII codes.  The supported notations are   *)
(* the ones the language documents through the lexer's patterns            *)
(* (zygo/lexer.go: Uint64Regex, DecimalRegex, HexRegex, OctRegex,          *)
(* BinaryRegex, FloatRegex, InfRegex, NaN), tried in that order:           *)
(*                                                                         *)
(*   uint64   D+ ULL | 0x H+ ULL | 0o O+ ULL                               *)
(*   decimal  -? D (D | _)*               underscores are separators       *)
(*   hex      0x H+        octal 0o O+        binary 0b B+                 *)
(*   float    -? D+ (D|_)* . (D|_)*                                        *)
(*          | -? . D+ (D|_)*                                               *)
(*          | -? D+ (D|_)* ( . (D|_)* )? (e|E) (-|+)? D+ (D|_)*            *)
(*   NaN | nan        (-|+)? (Inf | inf)                                   *)
(*                                                                         *)
(* Classify(s) gives                                                       *)
(*   <<"int", n>> <<"uint", n>>  the exact integer n (a Decimal number),   *)
(*   <<"flt", x>>                the exact decimal value x; the reader     *)
(*                               must return the float64 nearest to x      *)
(*                               (ties to even) -- judged by InRounding    *)
(*                               from the neighbours of the float it       *)
(*                               returned, which the harness supplies      *)
(*                               (math/big, trusted),                      *)
(*   <<"inf", sgn>> <<"nan">>,                                             *)
(*   <<"range", kind>>           a literal of the notation whose value     *)
(*                               does not fit int64 / uint64,              *)
(*   <<"notnum">>                not a numeric literal: nothing is stated. *)
(***************************************************************************)
EXTENDS Decimal

IsD(c) == c >= 48 /\ c <= 57                         \* 0-9
IsO(c) == c >= 48 /\ c <= 55                         \* 0-7
IsB(c) == c = 48 \/ c = 49
IsH(c) == IsD(c) \/ (c >= 97 /\ c <= 102) \/ (c >= 65 /\ c <= 70)
IsDU(c) == IsD(c) \/ c = 95                          \* digit or underscore
Minus == 45   Plus == 43   Dot == 46   LowX == 120   LowO == 111   LowB == 98

All(s, P(_)) == \A i \in 1..Len(s) : P(s[i])
DigitVal(c) == IF IsD(c) THEN c - 48 ELSE IF c >= 97 THEN c - 87 ELSE c - 55
(* the digits of s, underscores dropped *)
Digits(s) == LET d == SelectSeq(s, IsD) IN [i \in 1..Len(d) |-> d[i] - 48]
HexDigits(s) == [i \in 1..Len(s) |-> DigitVal(s[i])]
From(s, i) == SubSeq(s, i, Len(s))
Upto(s, i) == SubSeq(s, 1, i)
FirstIdx(s, P(_)) == IF \E i \in 1..Len(s) : P(s[i])
                     THEN CHOOSE i \in 1..Len(s) : P(s[i]) /\ \A j \in 1..(i - 1) : ~P(s[j])
                     ELSE 0

(* D (D|_)* *)
IsDUSeq(x) == x # <<>> /\ IsD(x[1]) /\ All(x, IsDU)
HasPrefix(s, a, b) == Len(s) >= 3 /\ s[1] = a /\ s[2] = b

(* ---- integers ---- *)
IsDec(s) == LET b == IF s # <<>> /\ s[1] = Minus THEN Tail(s) ELSE s IN IsDUSeq(b)
IsHex(s) == HasPrefix(s, 48, LowX) /\ All(From(s, 3), IsH)
IsOct(s) == HasPrefix(s, 48, LowO) /\ All(From(s, 3), IsO)
IsBin(s) == HasPrefix(s, 48, LowB) /\ All(From(s, 3), IsB)

ULL == <<85, 76, 76>>
HasULL(s) == Len(s) >= 4 /\ From(s, Len(s) - 2) = ULL
UBody(s) == Upto(s, Len(s) - 3)
IsUint(s) == HasULL(s) /\ LET b == UBody(s) IN IsHex(b) \/ IsOct(b) \/ (b # <<>> /\ All(b, IsD))

(* magnitude of an integer body in its base, as decimal digits *)
IntMag(b) == IF IsHex(b) THEN BaseVal(HexDigits(From(b, 3)), 16)
             ELSE IF IsOct(b) THEN BaseVal(HexDigits(From(b, 3)), 8)
             ELSE IF IsBin(b) THEN BaseVal(HexDigits(From(b, 3)), 2)
             ELSE StripLead(Digits(b))

(* ---- floats ---- *)
IsE(c) == c = 101 \/ c = 69
IsDot(c) == c = Dot
FBody(s) == IF s # <<>> /\ s[1] = Minus THEN Tail(s) ELSE s
FSign(s) == IF s # <<>> /\ s[1] = Minus THEN -1 ELSE 1
EPos(b) == FirstIdx(b, IsE)
Mant(b) == IF EPos(b) = 0 THEN b ELSE Upto(b, EPos(b) - 1)
Expo(b) == IF EPos(b) = 0 THEN <<>> ELSE From(b, EPos(b) + 1)
DPos(m) == FirstIdx(m, IsDot)
IPart(m) == IF DPos(m) = 0 THEN m ELSE Upto(m, DPos(m) - 1)
FPart(m) == IF DPos(m) = 0 THEN <<>> ELSE From(m, DPos(m) + 1)
ExpoBody(x) == IF x # <<>> /\ (x[1] = Minus \/ x[1] = Plus) THEN Tail(x) ELSE x
ExpoSign(x) == IF x # <<>> /\ x[1] = Minus THEN -1 ELSE 1

IsFloat(s) ==
    LET b == FBody(s)  m == Mant(b)  ip == IPart(m)  fp == FPart(m)  x == Expo(b) IN
    \/ EPos(b) = 0 /\ DPos(m) # 0 /\ IsDUSeq(ip) /\ All(fp, IsDU)
    \/ EPos(b) = 0 /\ DPos(m) # 0 /\ ip = <<>> /\ IsDUSeq(fp)
    \/ EPos(b) # 0 /\ IsDUSeq(ip) /\ (DPos(m) = 0 \/ All(fp, IsDU)) /\ IsDUSeq(ExpoBody(x))

(* exact value: sign * (digits of integer part . digits of fraction) * 10^exponent *)
FloatVal(s) ==
    LET b == FBody(s)  m == Mant(b)  x == Expo(b)
        id == Digits(IPart(m))  fd == Digits(FPart(m))
        e == ExpoSign(x) * SmallVal(Digits(ExpoBody(x)))
    IN MkNum(FSign(s), id \o fd, Len(id) + e)

IsNaNLit(s) == s = <<78, 97, 78>> \/ s = <<110, 97, 110>>
InfBody(s) == IF s # <<>> /\ (s[1] = Minus \/ s[1] = Plus) THEN Tail(s) ELSE s
IsInfLit(s) == InfBody(s) = <<73, 110, 102>> \/ InfBody(s) = <<105, 110, 102>>

Classify(s) ==
    IF s = <<>> THEN <<"notnum">>
    ELSE IF IsUint(s) THEN
        LET mag == IntMag(UBody(s)) IN
        IF CmpInt(mag, UInt64) = 1 THEN <<"range", "uint">> ELSE <<"uint", IntNum(1, mag)>>
    ELSE IF IsDec(s) THEN
        LET neg == s[1] = Minus
            mag == StripLead(Digits(s)) IN
        IF CmpInt(mag, IF neg THEN Int63p ELSE Int63) = 1 THEN <<"range", "int">>
        ELSE <<"int", IntNum(IF neg THEN -1 ELSE 1, mag)>>
    ELSE IF IsHex(s) \/ IsOct(s) \/ IsBin(s) THEN
        LET mag == IntMag(s) IN
        IF CmpInt(mag, Int63) = 1 THEN <<"range", "int">> ELSE <<"int", IntNum(1, mag)>>
    ELSE IF IsFloat(s) THEN <<"flt", FloatVal(s)>>
    ELSE IF IsNaNLit(s) THEN <<"nan">>
    ELSE IF IsInfLit(s) THEN <<"inf", IF s[1] = Minus THEN -1 ELSE 1>>
    ELSE <<"notnum">>

(* x rounds to the float g whose rounding interval is [lo, hi] (the midpoints to  *)
(* its two neighbours; closed iff g's mantissa is even)                           *)
InRounding(x, lo, hi, even) ==
    IF even THEN LessEq(lo, x) /\ LessEq(x, hi) ELSE Less(lo, x) /\ Less(x, hi)

(* |x| is at or beyond the overflow threshold ovf = 2^1024 - 2^970 *)
Overflows(x, ovf) == CmpMag(x, ovf) >= 0

(* an underscore that does not stand between two digits (Go's strconv rejects it) *)
HasLooseUnderscore(s) ==
    \E i \in 1..Len(s) : s[i] = 95 /\ ~(i > 1 /\ i < Len(s) /\ IsD(s[i - 1]) /\ IsD(s[i + 1]))
=============================================================================
