-------------------------- MODULE GoInteropTrace --------------------------
(***************************************************************************)
(* Trace validation for C10.  Every line of the trace file is one case     *)
(* recorded on the real library by `zv gointerop`:                         *)
(*                                                                         *)
(*  kind "types": the struct declarations, the registry names and the      *)
(*      interface implementations the harness sees by reflection; they     *)
(*      must equal the constants of GoInterop (StructOf, RegOf, Impl).     *)
(*                                                                         *)
(*  kind "fwd":  g, root -- a record graph built from script text; res --  *)
(*      the distinct outcomes of (togo r) over several attempts (the       *)
(*      converter walks Go maps, so its visiting order varies):            *)
(*        <<"ok", rootValue, objs>>  the Go value attached to the record,  *)
(*                                   dumped by reflection in canonical form*)
(*        <<"err">>                  the script got an error               *)
(*        <<"crash">>                the worker process died               *)
(*      required: the dump equals Fill(g, root) -- or an error exactly     *)
(*      when Fill is Err.                                                  *)
(*                                                                         *)
(*  kind "echo": (_method host EchoX: r) with an identity method of the    *)
(*      harness; outcomes                                                  *)
(*        <<"ok", rootValue, objs, rec>>  the Go value the method received *)
(*                                        and the record the script got    *)
(*        <<"argerr">>                    error before the method ran      *)
(*        <<"reterr", rootValue, objs>>   error after the method returned  *)
(*        <<"crash">>                                                      *)
(*      required: the received value is Fill(g, root) (implicit            *)
(*      conversion); rec is that Go value handed back without loss         *)
(*      (MatchStruct: same type, every field, equal values).               *)
(*  kind "echo0": the same through the library's own Snoopy.EchoWeather,   *)
(*      where the harness cannot see the argument: <<"ok0", rec>>,         *)
(*      <<"err0">>; rec must match Fill(g, root).                          *)
(*                                                                         *)
(*  kind "hist": a history of conversions and field updates on one      *)
(*      record object (see Hist below).                                    *)
(*                                                                         *)
(* Named deviations (enabled by id in VERIF_DEVS) describe the known wrong *)
(* behaviours of the pinned code so that the rest of the space stays       *)
(* checked and a different violation is still reported:                    *)
(*   narrow-int-wraps             int8 field takes n mod 2^8               *)
(*   float-truncated-into-int64   int64 field takes a fractional float     *)
(*   shared-record-kind-mismatch  a record referenced through positions of *)
(*                                different kinds (struct value, pointer,  *)
(*                                interface) makes the conversion fail     *)
(*   cyclic-record-stack-overflow a record that reaches itself kills the   *)
(*                                host process                             *)
(*   back-drops-field-kinds       slices, maps, times, struct values,      *)
(*                                int8/uint/float32 fields come back nil   *)
(*   back-embedded-field-index    a struct with an embedded struct comes   *)
(*                                back with wrong fields or an error       *)
(*   back-nil-pointer-panics      a struct holding a nil pointer or nil    *)
(*                                interface cannot be handed back          *)
(*   method-receiver-stale-after-write  a method call on a record that has *)
(*                                a Go object attached does not convert it *)
(*                                again: it runs on the contents the       *)
(*                                record had at its last conversion        *)
(*   back-cyclic-value-overflows  a Go value that reaches itself kills the *)
(*                                host process when it is handed back      *)
(*                                (observable only once the conversion of  *)
(*                                cyclic records itself works)             *)
(***************************************************************************)
EXTENDS GoInterop, Json, IOUtils, SequencesExt

ASSUME TLCSet(11, ndJsonDeserialize(IOEnv.VERIF_TRACE))
Cases == TLCGet(11)

Devs == "," \o (IF "VERIF_DEVS" \in DOMAIN IOEnv THEN IOEnv.VERIF_DEVS ELSE "") \o ","
DevOn(id) == ReplaceFirstSubSeq("", "," \o id \o ",", Devs) # Devs

VARIABLES ci, verdict
tvars == <<ci, verdict>>

(* ---------------------------------------------------------------- types *)
SeqSet(s) == {s[i] : i \in 1..Len(s)}
TypesOk(c) ==
    /\ DOMAIN c.structs = StructNames
    /\ \A S \in StructNames : c.structs[S] = StructOf(S)
    /\ DOMAIN c.reg = RegNames
    /\ \A n \in RegNames : c.reg[n] = RegOf(n)
    /\ DOMAIN c.impl = IfaceNames
    /\ \A I \in IfaceNames : SeqSet(c.impl[I]) = Impl(I)
    /\ \A S \in StructNames : c.pkg[S] = PkgOf(S)
    /\ \A S \in StructNames : c.canon[S] = RegNameOf(S)     \* the first name each type was registered with

(* ---------------------------------------------------------------- forward *)
OptSets == << [NoOpts EXCEPT !.wrap = TRUE], [NoOpts EXCEPT !.trunc = TRUE],
              [NoOpts EXCEPT !.wrap = TRUE, !.trunc = TRUE] >>
OptName(i) == CASE i = 1 -> "narrow-int-wraps" [] i = 2 -> "float-truncated-into-int64" [] OTHER -> "narrow-int-wraps"
OptOn(i) == CASE i = 1 -> DevOn("narrow-int-wraps") [] i = 2 -> DevOn("float-truncated-into-int64")
              [] OTHER -> DevOn("narrow-int-wraps") /\ DevOn("float-truncated-into-int64")
WithUint(o, b) == [o EXCEPT !.nouint = b]

(* out is <<"ok", root, objs>>, <<"err">> or <<"crash">> *)
Matches(e, out) == IF out[1] = "ok" THEN e.ok /\ out[2] = e.v /\ out[3] = e.st.objs
                   ELSE IF out[1] = "err" THEN ~e.ok ELSE FALSE
MatchesU(G, root, o, out) == Matches(Fill(G, root, WithUint(o, FALSE)), out) \/ Matches(Fill(G, root, WithUint(o, TRUE)), out)

FwdVerdict(G, root, out) ==
    IF MatchesU(G, root, NoOpts, out) THEN "ok"
    ELSE IF out[1] = "crash"
    THEN (IF DevOn("cyclic-record-stack-overflow") /\ Cyclic(G, root) THEN "known:cyclic-record-stack-overflow" ELSE "bad")
    ELSE LET hits == {i \in 1..3 : OptOn(i) /\ MatchesU(G, root, OptSets[i], out)}
             (* the most permissive reading of the record, to see what it references *)
             eAll == Fill(G, root, OptSets[3])
         IN IF hits # {} THEN "known:" \o OptName(CHOOSE i \in hits : \A j \in hits : i <= j)
            ELSE IF /\ out[1] = "err" /\ DevOn("shared-record-kind-mismatch") /\ ~Cyclic(G, root)
                    /\ eAll.ok /\ MixedRefs(eAll.st.refs)
            THEN "known:shared-record-kind-mismatch"
            ELSE "bad"

(* ---------------------------------------------------------------- back *)
(* rec must be the Go value (objs[1], objs) handed back *)
(* struct types of which a record of G went in under a second registered name: see Aliases *)
Loose(G) == {RegOf(G[j][1]) : j \in {j \in 1..Len(G) : G[j][1] \in SecondNames}}
RetVerdict(G, objs, rec) ==
    IF MatchStruct(objs[1], objs, rec, MatchOpts(FALSE, Loose(G))) THEN "ok"
    ELSE IF DevOn("back-drops-field-kinds") /\ MatchStruct(objs[1], objs, rec, MatchOpts(TRUE, Loose(G)))
    THEN "known:back-drops-field-kinds"
    ELSE IF DevOn("back-embedded-field-index") /\ AnyEmb(objs) /\ rec[1] = "rec" /\ rec[2] \in Aliases(objs[1][2], Loose(G))
    THEN "known:back-embedded-field-index"
    ELSE "bad"
RetErrVerdict(objs) ==
    IF DevOn("back-nil-pointer-panics") /\ AnyNil(objs) THEN "known:back-nil-pointer-panics"
    ELSE IF DevOn("back-embedded-field-index") /\ AnyEmb(objs) THEN "known:back-embedded-field-index"
    ELSE "bad"

Worst(a, b) == IF a = "bad" \/ b = "bad" THEN "bad" ELSE IF a # "ok" THEN a ELSE b

(* a record that reaches itself comes back as a record that reaches itself: it has no finite *)
(* unfolding, the harness does not project it and only the argument is judged               *)
EchoVerdict(G, root, out) ==
    CASE out[1] = "ok" -> (IF Cyclic(G, root) THEN FwdVerdict(G, root, <<"ok", out[2], out[3]>>)
                           ELSE Worst(FwdVerdict(G, root, <<"ok", out[2], out[3]>>), RetVerdict(G, out[3], out[4])))
      [] out[1] = "reterr" -> Worst(FwdVerdict(G, root, <<"ok", out[2], out[3]>>), RetErrVerdict(out[3]))
      [] out[1] = "argerr" -> FwdVerdict(G, root, <<"err">>)
      [] OTHER -> LET f == FwdVerdict(G, root, <<"crash">>)
                  IN IF f # "bad" THEN f
                     ELSE IF out[1] = "crash" /\ DevOn("back-cyclic-value-overflows") /\ Cyclic(G, root)
                     THEN "known:back-cyclic-value-overflows" ELSE "bad"

(* the argument is not observable: the record must match Fill, read with the enabled deviations *)
Echo0Verdict(G, root, out) ==
    LET e0 == Fill(G, root, NoOpts)
        cands == {i \in 1..3 : OptOn(i) /\ Fill(G, root, OptSets[i]).ok}
    IN IF out[1] = "ok0"
       THEN (IF e0.ok THEN RetVerdict(G, e0.st.objs, out[2])
             ELSE IF \E i \in cands : RetVerdict(G, Fill(G, root, OptSets[i]).st.objs, out[2]) # "bad"
             THEN "known:" \o OptName(CHOOSE i \in cands : RetVerdict(G, Fill(G, root, OptSets[i]).st.objs, out[2]) # "bad")
             ELSE "bad")
       ELSE IF out[1] = "err0" THEN (IF ~e0.ok THEN "ok" ELSE RetErrVerdict(e0.st.objs))
       ELSE FwdVerdict(G, root, <<"crash">>)

RECURSIVE Fold(_, _, _, _)
Fold(c, i, acc, first) ==
    IF i > Len(c.res) THEN <<acc, first>>
    ELSE LET v == CASE c.kind = "fwd" -> FwdVerdict(c.g, c.root, c.res[i])
                    [] c.kind = "echo" -> EchoVerdict(c.g, c.root, c.res[i])
                    [] OTHER -> Echo0Verdict(c.g, c.root, c.res[i])
         IN Fold(c, i + 1, Worst(acc, v), IF first = 0 /\ v # "ok" THEN i ELSE first)

(* kind "hist": a history on ONE record object -- steps <<"togo">>, <<"self">> ((_method r Self:): the record *)
(* is the receiver, converted implicitly), <<"echo">> ((_method host EchoX: r): the record is an argument),    *)
(* <<"set", j, key, value>> ((hset nj key: value)); res[i] is the                                              *)
(* outcome of step i.  Every conversion must give what the same step gives on a fresh record with the        *)
(* contents the record has at that moment: Fill of the current graph -- whatever happened to the object      *)
(* before (a conversion that failed must not leave anything behind).                                         *)
SetPair(G, j, key, v) ==
    LET ps == G[j][2]
        hit == {i \in 1..Len(ps) : ps[i][1] = key}
    IN [G EXCEPT ![j][2] = IF hit = {} THEN Append(ps, <<key, v>>)
                           ELSE [i \in 1..Len(ps) |-> IF i \in hit THEN <<key, v>> ELSE ps[i]]]
(* Gs: the contents the record had when the Go object now attached to it was made (<<>>: no object is   *)
(* attached).  Named deviation method-receiver-stale-after-write: (_method r Self:) converts the         *)
(* receiver only when no Go object is attached to it, so after a successful conversion and a write to   *)
(* the record (or to a record below it) the method runs on the object of the OLD contents; exactly this *)
(* is explained: an object is attached, the contents changed since, and the step's outcome is the one   *)
(* the old contents require.  (togo r) converts again and refreshes the object; a record passed as an   *)
(* ARGUMENT (step "echo") is always converted afresh and is judged without the deviation.               *)
StaleDev == "method-receiver-stale-after-write"
RECURSIVE Hist(_, _, _, _, _, _)
Hist(c, G, Gs, i, acc, first) ==
    IF i > Len(c.steps) THEN <<acc, first>>
    ELSE LET st == c.steps[i]
             out == c.res[i]
             fresh == CASE st[1] = "togo" -> FwdVerdict(G, c.root, out)
                        [] st[1] \in {"self", "echo"} -> EchoVerdict(G, c.root, out)
                        [] OTHER -> (IF out[1] = "set" THEN "ok" ELSE "bad")
             stale == /\ st[1] = "self" /\ fresh = "bad" /\ DevOn(StaleDev)
                      /\ Gs # <<>> /\ Gs # G /\ EchoVerdict(Gs, c.root, out) # "bad"
             v == IF stale THEN "known:" \o StaleDev ELSE fresh
             G2 == IF st[1] = "set" THEN SetPair(G, st[2], st[3], st[4]) ELSE G
             converted == out[1] \in {"ok", "reterr"}          \* a Go object was made from the current contents
             Gs2 == IF st[1] = "togo" /\ converted THEN G
                    ELSE IF st[1] = "self" /\ converted /\ ~stale THEN G
                    ELSE Gs
         IN Hist(c, G2, Gs2, i + 1, Worst(acc, v), IF first = 0 /\ v # "ok" THEN i ELSE first)

CaseVerdict(c) ==
    IF c.kind = "types" THEN (IF TypesOk(c) THEN <<"ok", 0>> ELSE <<"bad", 0>>)
    ELSE IF c.kind = "hist" THEN (IF Len(c.res) = Len(c.steps) THEN Hist(c, c.g, <<>>, 1, "ok", 0) ELSE <<"bad", 0>>)
    ELSE Fold(c, 1, "ok", 0)

TInit == ci \in 1..Len(Cases) /\ verdict = "run"
TStep == /\ verdict = "run"
         /\ LET c == Cases[ci]
                v == CaseVerdict(c)
            IN /\ verdict' = v[1]
               /\ PrintT(<<"VERDICT", c.id, v[1], v[2]>>)
         /\ UNCHANGED ci
TSpec == TInit /\ [][TStep]_tvars
=============================================================================
