-------------------------- MODULE GoInteropTrace --------------------------
(***************************************************************************)
(* Trace validation for C10.  Every line of the trace file is one case     *)
(* recorded on the real library by `zv gointerop`:                         *)
(*                                                                         *)
(*  kind "types": the struct declarations, the registry names and the      *)
(*      interface implementations the harness sees by reflection; they     *)
(*      must equal the constants of GoInterop (StructOf, RegOf, Impl).     *)
(*                                                                         *)
(*  kind "fwd":  g, root -- a record graph built from script text; res --  *)
(*      the distinct outcomes of (togo r) over several attempts (the       *)
(*      converter walks Go maps, so its visiting order varies):            *)
(*        <<"ok", rootValue, objs>>  the Go value attached to the record,  *)
(*                                   dumped by reflection in canonical form*)
(*        <<"err">>                  the script got an error               *)
(*        <<"crash">>                the worker process died               *)
(*      required: the dump equals Fill(g, root) -- or an error exactly     *)
(*      when Fill is Err.                                                  *)
(*                                                                         *)
(*  kind "echo": (_method host EchoX: r) with an identity method of the    *)
(*      harness; outcomes                                                  *)
(*        <<"ok", rootValue, objs, rec>>  the Go value the method received *)
(*                                        and the record the script got    *)
(*        <<"argerr">>                    error before the method ran      *)
(*        <<"reterr", rootValue, objs>>   error after the method returned  *)
(*        <<"crash">>                                                      *)
(*      required: the received value is Fill(g, root) (implicit            *)
(*      conversion); rec is that Go value handed back without loss         *)
(*      (MatchStruct: same type, every field, equal values).               *)
(*  kind "echo0": the same through the library's own Snoopy.EchoWeather,   *)
(*      where the harness cannot see the argument: <<"ok0", rec>>,         *)
(*      <<"err0">>; rec must match Fill(g, root).                          *)
(*                                                                         *)
(*  kind "hist": a history of conversions and field updates on one      *)
(*      record object (see Hist below).                                    *)
(*                                                                         *)
(* Named deviations (enabled by id in VERIF_DEVS) describe the known wrong *)
(* behaviours of the pinned code so that the rest of the space stays       *)
(* checked and a different violation is still reported:                    *)
(*   narrow-int-wraps             int8 field takes n mod 2^8               *)
(*   float-truncated-into-int64   int64 field takes a fractional float     *)
(*   shared-record-kind-mismatch  a record referenced through positions of *)
(*                                different kinds (struct value, pointer,  *)
(*                                interface) makes the conversion fail     *)
(*   cyclic-record-stack-overflow a record that reaches itself kills the   *)
(*                                host process                             *)
(*   back-drops-field-kinds       slices, maps, times, struct values,      *)
(*                                int8/uint/float32 fields come back nil   *)
(*   back-embedded-field-index    a struct with an embedded struct comes   *)
(*                                back with wrong fields or an error       *)
(*   back-nil-pointer-panics      a struct holding a nil pointer or nil    *)
(*                                interface cannot be handed back          *)
(*   method-receiver-stale-after-write  a method call on a record that has *)
(*                                a Go object attached does not convert it *)
(*                                again: it runs on the contents the       *)
(*                                record had at its last conversion        *)
(*   back-sharing-lost            a Go object referenced twice comes back  *)
(*                                as two records (the way back has no      *)
(*                                memory of the objects it has seen)       *)
(*   back-cyclic-value-overflows  a Go value that reaches itself kills the *)
(*                                host process when it is handed back      *)
(*                                (observable only once the conversion of  *)
(*                                cyclic records itself works)             *)
(***************************************************************************)
EXTENDS GoInterop, Json, IOUtils, SequencesExt

ASSUME TLCSet(11, ndJsonDeserialize(IOEnv.VERIF_TRACE))
Cases == TLCGet(11)

Devs == "," \o (IF "VERIF_DEVS" \in DOMAIN IOEnv THEN IOEnv.VERIF_DEVS ELSE "") \o ","
DevOn(id) == ReplaceFirstSubSeq("", "," \o id \o ",", Devs) # Devs

VARIABLES ci, verdict
tvars == <<ci, verdict>>

(* ---------------------------------------------------------------- types *)
SeqSet(s) == {s[i] : i \in 1..Len(s)}
TypesOk(c) ==
    /\ DOMAIN c.structs = StructNames
    /\ \A S \in StructNames : c.structs[S] = StructOf(S)
    /\ DOMAIN c.reg = RegNames
    /\ \A n \in RegNames : c.reg[n] = RegOf(n)
    /\ DOMAIN c.impl = IfaceNames
    /\ \A I \in IfaceNames : SeqSet(c.impl[I]) = Impl(I)
    /\ \A S \in StructNames : c.pkg[S] = PkgOf(S)
    /\ \A S \in StructNames : c.canon[S] = RegNameOf(S)     \* the first name each type was registered with

(* ---------------------------------------------------------------- forward *)
OptSets == << [NoOpts EXCEPT !.wrap = TRUE], [NoOpts EXCEPT !.trunc = TRUE],
              [NoOpts EXCEPT !.wrap = TRUE, !.trunc = TRUE] >>
OptName(i) == CASE i = 1 -> "narrow-int-wraps" [] i = 2 -> "float-truncated-into-int64" [] OTHER -> "narrow-int-wraps"
OptOn(i) == CASE i = 1 -> DevOn("narrow-int-wraps") [] i = 2 -> DevOn("float-truncated-into-int64")
              [] OTHER -> DevOn("narrow-int-wraps") /\ DevOn("float-truncated-into-int64")
WithUint(o, b) == [o EXCEPT !.nouint = b]

(* Pm: what the record is converted for -- <<"any">> (togo, or the receiver of a method: the struct the record *)
(* names), <<"ptr", S>> (a method parameter of type *S: a record of another type is a value of the wrong      *)
(* kind), <<"iface", I>> (a parameter of interface type I: the record's struct must implement it)              *)
AnyP == <<"any">>
FitsP(G, root, Pm) ==
    \/ Pm[1] = "any"
    \/ (Pm[1] = "ptr" /\ RegOf(G[root][1]) = Pm[2])
    \/ (Pm[1] = "iface" /\ RegOf(G[root][1]) \in Impl(Pm[2]))
FillP(G, root, Pm, o) == IF FitsP(G, root, Pm) THEN Fill(G, root, o) ELSE Err

(* out is <<"ok", root, objs>>, <<"err">> or <<"crash">> *)
Matches(e, out) == IF out[1] = "ok" THEN e.ok /\ out[2] = e.v /\ out[3] = e.st.objs
                   ELSE IF out[1] = "err" THEN ~e.ok ELSE FALSE
MatchesU(G, root, Pm, o, out) ==
    \/ Matches(FillP(G, root, Pm, WithUint(o, FALSE)), out)
    \/ Matches(FillP(G, root, Pm, WithUint(o, TRUE)), out)

FwdVerdict(G, root, Pm, out) ==
    IF MatchesU(G, root, Pm, NoOpts, out) THEN "ok"
    ELSE IF out[1] = "crash"
    THEN (IF DevOn("cyclic-record-stack-overflow") /\ Cyclic(G, root) THEN "known:cyclic-record-stack-overflow" ELSE "bad")
    ELSE LET hits == {i \in 1..3 : OptOn(i) /\ MatchesU(G, root, Pm, OptSets[i], out)}
             (* the most permissive reading of the record, to see what it references *)
             eAll == FillP(G, root, Pm, OptSets[3])
         IN IF hits # {} THEN "known:" \o OptName(CHOOSE i \in hits : \A j \in hits : i <= j)
            ELSE IF /\ out[1] = "err" /\ DevOn("shared-record-kind-mismatch") /\ ~Cyclic(G, root)
                    /\ eAll.ok /\ MixedRefs(eAll.st.refs)
            THEN "known:shared-record-kind-mismatch"
            ELSE "bad"

(* ---------------------------------------------------------------- back *)
(* struct types of which a record of G went in under a second registered name: see Aliases *)
Loose(G) == {RegOf(G[j][1]) : j \in {j \in 1..Len(G) : G[j][1] \in SecondNames}}
Worst(a, b) == IF a = "bad" \/ b = "bad" THEN "bad" ELSE IF a # "ok" THEN a ELSE b

(* index of the (top-level, not embedded) field of struct S with label sel *)
FieldIdx(S, sel) == CHOOSE i \in 1..Len(StructOf(S)) : FLabel(StructOf(S)[i]) = sel

(* rec (with the record identities occ) must be the Go value (objs[1], objs) handed back -- or, when the      *)
(* method returns one of its argument's fields (sel # ""), that field.  Identity: one Go object, one record;  *)
(* named deviation back-sharing-lost: every occurrence comes back as a record of its own.                     *)
RetVerdict(G, objs, rec, occ, sel) ==
    LET root == objs[1]
        i == FieldIdx(root[2], sel)
        tree(m) == IF sel = "" THEN MatchStruct(root, objs, rec, m)
                   ELSE MatchB(root[3][i], FType(StructOf(root[2])[i]), objs, rec, m)
        want(drop) == IF sel = "" THEN OccObj(1, objs, drop)
                      ELSE OccT(root[3][i], FType(StructOf(root[2])[i]), objs, <<"o", 1>>, <<i>>, drop)
        ident(drop) == IF SamePattern(want(drop), occ) THEN "ok"
                       ELSE IF DevOn("back-sharing-lost") /\ AllDistinct(occ) /\ Len(want(drop)) = Len(occ)
                       THEN "known:back-sharing-lost" ELSE "bad"
    IN IF tree(MatchOpts(FALSE, Loose(G))) THEN ident(FALSE)
       ELSE IF DevOn("back-drops-field-kinds") /\ tree(MatchOpts(TRUE, Loose(G)))
       THEN Worst("known:back-drops-field-kinds", ident(TRUE))
       ELSE IF DevOn("back-embedded-field-index") /\ sel = "" /\ AnyEmb(objs) /\ rec[1] = "rec"
               /\ rec[2] \in Aliases(root[2], Loose(G))
       THEN "known:back-embedded-field-index"
       ELSE "bad"
RetErrVerdict(objs) ==
    IF DevOn("back-nil-pointer-panics") /\ AnyNil(objs) THEN "known:back-nil-pointer-panics"
    ELSE IF DevOn("back-embedded-field-index") /\ AnyEmb(objs) THEN "known:back-embedded-field-index"
    ELSE "bad"

(* a record that reaches itself comes back as a record that reaches itself: it has no finite *)
(* unfolding, the harness does not project it and only the argument is judged               *)
(* out: <<"ok", root, objs, rec, occ>> | <<"reterr", root, objs>> | <<"argerr">> | <<"crash">> *)
EchoVerdict(G, root, Pm, sel, out) ==
    CASE out[1] = "ok" -> (IF Cyclic(G, root) THEN FwdVerdict(G, root, Pm, <<"ok", out[2], out[3]>>)
                           ELSE Worst(FwdVerdict(G, root, Pm, <<"ok", out[2], out[3]>>),
                                      RetVerdict(G, out[3], out[4], out[5], sel)))
      [] out[1] = "reterr" -> Worst(FwdVerdict(G, root, Pm, <<"ok", out[2], out[3]>>), RetErrVerdict(out[3]))
      [] out[1] = "argerr" -> FwdVerdict(G, root, Pm, <<"err">>)
      [] OTHER -> LET f == FwdVerdict(G, root, Pm, <<"crash">>)
                  IN IF f # "bad" THEN f
                     ELSE IF out[1] = "crash" /\ DevOn("back-cyclic-value-overflows") /\ Cyclic(G, root)
                     THEN "known:back-cyclic-value-overflows" ELSE "bad"

(* the argument is not observable: the record must match Fill, read with the enabled deviations *)
Echo0Verdict(G, root, Pm, out) ==
    LET e0 == FillP(G, root, Pm, NoOpts)
        cands == {i \in 1..3 : OptOn(i) /\ FillP(G, root, Pm, OptSets[i]).ok}
        rv(i) == RetVerdict(G, FillP(G, root, Pm, OptSets[i]).st.objs, out[2], out[3], "")
    IN IF out[1] = "ok0"
       THEN (IF e0.ok THEN RetVerdict(G, e0.st.objs, out[2], out[3], "")
             ELSE IF \E i \in cands : rv(i) # "bad"
             THEN "known:" \o OptName(CHOOSE i \in cands : rv(i) # "bad")
             ELSE "bad")
       ELSE IF out[1] = "err0" THEN (IF ~e0.ok THEN "ok" ELSE RetErrVerdict(e0.st.objs))
       ELSE FwdVerdict(G, root, Pm, <<"crash">>)

RECURSIVE Fold(_, _, _, _)
Fold(c, i, acc, first) ==
    IF i > Len(c.res) THEN <<acc, first>>
    ELSE LET v == CASE c.kind = "fwd" -> FwdVerdict(c.g, c.root, AnyP, c.res[i])
                    [] c.kind = "echo" -> EchoVerdict(c.g, c.root, c.param, c.sel, c.res[i])
                    [] OTHER -> Echo0Verdict(c.g, c.root, c.param, c.res[i])
         IN Fold(c, i + 1, Worst(acc, v), IF first = 0 /\ v # "ok" THEN i ELSE first)

(* kind "hist": a history on ONE record object.  Steps                                                         *)
(*   <<"togo">>            (togo r)                                                                            *)
(*   <<"self">>            (_method r Self:)       the record is the receiver, converted implicitly            *)
(*   <<"selfn", j>>        (_method nj Self:)      the same on the record G[j] below the root                  *)
(*   <<"echo", Pm>>         (_method host EchoX: r) the record is an argument of a parameter Pm                  *)
(*   <<"reself", Pm>>       the record handed back by (_method host EchoX: r) is the receiver of Self           *)
(*   <<"set", j, key, v>>  (hset nj key: v)        <<"del", j, key>>  (hdel nj (quote key))                    *)
(* res[i] is the outcome of step i.  Every conversion must give what the same step gives on a fresh record     *)
(* with the contents the record has at that moment: Fill of the current graph -- whatever happened to the      *)
(* object before (a conversion that failed must not leave anything behind; a field that was removed is zero).  *)
SetPair(G, j, key, v) ==
    LET ps == G[j][2]
        hit == {i \in 1..Len(ps) : ps[i][1] = key}
    IN [G EXCEPT ![j][2] = IF hit = {} THEN Append(ps, <<key, v>>)
                           ELSE [i \in 1..Len(ps) |-> IF i \in hit THEN <<key, v>> ELSE ps[i]]]
DelPair(G, j, key) == [G EXCEPT ![j][2] = SelectSeq(@, LAMBDA p : p[1] # key)]
(* Gs: the contents the record had when the Go object now attached to it was made (<<>>: no object is   *)
(* attached).  Named deviation method-receiver-stale-after-write: (_method r Self:) converts the         *)
(* receiver only when no Go object is attached to it, so after a successful conversion and a write to   *)
(* the record (or to a record below it) the method runs on the object of the OLD contents; exactly this *)
(* is explained: an object is attached, the contents changed since, and the step's outcome is the one   *)
(* the old contents require.  (togo r) converts again and refreshes the object; a record passed as an   *)
(* ARGUMENT (step "echo") is always converted afresh and is judged without the deviation.               *)
StaleDev == "method-receiver-stale-after-write"
RECURSIVE Hist(_, _, _, _, _, _)
Hist(c, G, Gs, i, acc, first) ==
    IF i > Len(c.steps) THEN <<acc, first>>
    ELSE LET st == c.steps[i]
             out == c.res[i]
             fresh == CASE st[1] = "togo" -> FwdVerdict(G, c.root, AnyP, out)
                        [] st[1] = "self" -> EchoVerdict(G, c.root, AnyP, "", out)
                        [] st[1] = "selfn" -> EchoVerdict(G, st[2], AnyP, "", out)
                        [] st[1] \in {"echo", "reself"} -> EchoVerdict(G, c.root, st[2], "", out)
                        [] OTHER -> (IF out[1] = "set" THEN "ok" ELSE "bad")
             stale == /\ st[1] = "self" /\ fresh = "bad" /\ DevOn(StaleDev)
                      /\ Gs # <<>> /\ Gs # G /\ EchoVerdict(Gs, c.root, AnyP, "", out) # "bad"
             v == IF stale THEN "known:" \o StaleDev ELSE fresh
             G2 == IF st[1] = "set" THEN SetPair(G, st[2], st[3], st[4])
                   ELSE IF st[1] = "del" THEN DelPair(G, st[2], st[3]) ELSE G
             converted == out[1] \in {"ok", "reterr"}          \* a Go object was made from the current contents
             Gs2 == IF st[1] = "togo" /\ converted THEN G
                    ELSE IF st[1] = "self" /\ converted /\ ~stale THEN G
                    ELSE Gs
         IN Hist(c, G2, Gs2, i + 1, Worst(acc, v), IF first = 0 /\ v # "ok" THEN i ELSE first)

CaseVerdict(c) ==
    IF c.kind = "types" THEN (IF TypesOk(c) THEN <<"ok", 0>> ELSE <<"bad", 0>>)
    ELSE IF c.kind = "hist" THEN (IF Len(c.res) = Len(c.steps) THEN Hist(c, c.g, <<>>, 1, "ok", 0) ELSE <<"bad", 0>>)
    ELSE Fold(c, 1, "ok", 0)

TInit == ci \in 1..Len(Cases) /\ verdict = "run"
TStep == /\ verdict = "run"
         /\ LET c == Cases[ci]
                v == CaseVerdict(c)
            IN /\ verdict' = v[1]
               /\ PrintT(<<"VERDICT", c.id, v[1], v[2]>>)
         /\ UNCHANGED ci
TSpec == TInit /\ [][TStep]_tvars
=============================================================================
