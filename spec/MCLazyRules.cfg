CONSTANTS
  MaxN = 2
  MaxForces = 2
  Muts = {"none", "eager", "wrap", "bypos", "nomemo", "refail", "renest", "wrongenv"}
SPECIFICATION Spec
INVARIANT Sound
POSTCONDITION Sensitive
CHECK_DEADLOCK FALSE
