------------------------------ MODULE MCQuasi ------------------------------
(* Design audit of Quasi!Subst: every template of depth <= 2 and width <= 3 *)
(* over a small element alphabet is a state; the laws below are invariants. *)
EXTENDS Quasi, FiniteSets

B == [x |-> <<"int", 5>>, lst |-> <<"list", << <<"int", 1>>, <<"int", 2>> >> >>,
      one |-> <<"list", << <<"int", 9>> >> >>, emp |-> Nil, arr |-> <<"arr", << <<"int", 7>> >> >>]

Leaves == { <<"atom", <<"int", 1>>>>, <<"atom", <<"sym", "a">>>>, <<"unq", "x">>, <<"unq", "lst">>, <<"unqsum", 1, 2>>,
            <<"splice", "lst">>, <<"splice", "one">>, <<"splice", "emp">>, <<"splice", "x">>, <<"splice", "arr">> }
Seqs(S) == {<<>>} \cup {<<a>> : a \in S} \cup {<<a, b>> : a \in S, b \in S} \cup {<<a, b, c>> : a \in S, b \in S, c \in S}
D1 == {<<k, s>> : k \in {"list", "arr"}, s \in Seqs(Leaves)}
Small == {<<k, s>> : k \in {"list", "arr"}, s \in {<<a>> : a \in Leaves} \cup {<<a, b>> : a \in Leaves, b \in {<<"unq", "x">>, <<"splice", "one">>}}}
D2 == {<<k, s>> : k \in {"list", "arr", "hashform"}, s \in {<<a, b>> : a \in Small \cup Leaves, b \in Small}}

VARIABLE t
Init == t \in D1 \cup D2
Next == UNCHANGED t

Replace(s, from, to) == [i \in 1..Len(s) |-> IF s[i] = from THEN to ELSE s[i]]
RemoveAll(s, x) == LET idx == {i \in 1..Len(s) : s[i] # x}
                       RECURSIVE Build(_)
                       Build(i) == IF i > Len(s) THEN <<>> ELSE (IF i \in idx THEN <<s[i]>> ELSE <<>>) \o Build(i + 1)
                   IN Build(1)

LiteralLaw   == Literal(t) => Subst(t, B) = AsDatum(t)
SingletonLaw == Subst(<<t[1], Replace(t[2], <<"splice", "one">>, <<"atom", <<"int", 9>>>>)>>, B) = Subst(t, B)
EmptyLaw     == Subst(<<t[1], RemoveAll(t[2], <<"splice", "emp">>)>>, B) = Subst(t, B)
ErrLaw       == (\E i \in 1..Len(t[2]) : t[2][i] \in {<<"splice", "x">>, <<"splice", "arr">>}) => Subst(t, B) = Err
LengthLaw    == LET v == Subst(t, B) IN
                (t[1] = "arr" /\ v # Err /\ \A i \in 1..Len(t[2]) : t[2][i][1] # "splice") => Len(v[2]) = Len(t[2])
=============================================================================
