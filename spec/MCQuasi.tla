------------------------------ MODULE MCQuasi ------------------------------
(* Design audit of Quasi!Subst: every template of depth <= 2 and width <= 3 *)
(* over a small element alphabet is a state; the laws below are invariants. *)
EXTENDS Quasi, FiniteSets

B == [x |-> <<"int", 5>>, lst |-> <<"list", << <<"int", 1>>, <<"int", 2>> >> >>,
      one |-> <<"list", << <<"int", 9>> >> >>, emp |-> Nil, arr |-> <<"arr", << <<"int", 7>> >> >>,
      pr |-> <<"list", << <<"int", 7>>, <<"sym", "j">>, <<"int", 8>> >> >>]

Leaves == { <<"atom", <<"int", 1>>>>, <<"atom", <<"sym", "a">>>>, <<"unq", "x">>, <<"unq", "lst">>, <<"unqsum", 1, 2>>,
            <<"splice", "lst">>, <<"splice", "one">>, <<"splice", "emp">>, <<"splice", "x">>, <<"splice", "arr">> }
Seqs(S) == {<<>>} \cup {<<a>> : a \in S} \cup {<<a, b>> : a \in S, b \in S} \cup {<<a, b, c>> : a \in S, b \in S, c \in S}
D1 == {<<k, s>> : k \in {"list", "arr"}, s \in Seqs(Leaves)}
Small == {<<k, s>> : k \in {"list", "arr"}, s \in {<<a>> : a \in Leaves} \cup {<<a, b>> : a \in Leaves, b \in {<<"unq", "x">>, <<"splice", "one">>}}}
D2 == {<<k, s>> : k \in {"list", "arr", "hashform"}, s \in {<<a, b>> : a \in Small \cup Leaves, b \in Small}}

(* unquoted expressions: without instructions / nil-valued, valued, without a value; reader sugar; negative literals *)
NilX   == <<"unqx", <<"begin", <<>>>>>>
NilX2  == <<"unqx", <<"scope", << <<"begin", <<>>>> >>>>>>
BadX   == <<"unqx", <<"bad", "let">>>>
BadIn  == <<"unqx", <<"begin", << <<"lit", <<"int", 1>>>>, <<"bad", "let">> >>>>>>
XLeaves == { NilX, NilX2, BadX, BadIn,
             <<"unqx", <<"begin", << <<"lit", <<"int", 1>>>>, <<"var", "x">> >>>>>>,
             <<"splicex", <<"begin", <<>>>>>>,
             <<"splicex", <<"mklist", << <<"lit", <<"int", -5>>>>, <<"qt", <<"sym", "b">>>> >>>>>>,
             <<"sugar", "quote", <<"atom", <<"int", -5>>>>>>,
             <<"atom", <<"sym", "a">>>> }
D3 == {<<k, s>> : k \in {"list", "arr"}, s \in Seqs(XLeaves)}
      \cup {<<"list", <<a, <<k, <<b>>>>, <<"atom", <<"int", 1>>>> >> >> : k \in {"list", "arr"}, a \in XLeaves, b \in XLeaves}

(* hash objects: keys are atoms, values are templates; a splice in a value position changes the pairing *)
HVals == { <<"atom", <<"int", 1>>>>, <<"unq", "x">>, NilX, BadX, <<"splice", "one">>, <<"splice", "emp">>,
           <<"splice", "lst">>, <<"splice", "pr">>, <<"list", << <<"atom", <<"sym", "b">>>>, <<"splice", "lst">> >> >> }
HKeys == { <<"atom", <<"sym", "k">>>>, <<"atom", <<"sym", "j">>>>, <<"atom", <<"int", 3>>>> }
D4 == {<<"hashobj", s>> : s \in {<<>>} \cup {<<k, v>> : k \in HKeys, v \in HVals}
                                 \cup {<<k1, v1, k2, v2>> : k1 \in HKeys, k2 \in HKeys, v1 \in HVals, v2 \in HVals}}

VARIABLE t
Init == t \in D1 \cup D2 \cup D3 \cup D4
Next == UNCHANGED t

Replace(s, from, to) == [i \in 1..Len(s) |-> IF s[i] = from THEN to ELSE s[i]]
RemoveAll(s, x) == LET idx == {i \in 1..Len(s) : s[i] # x}
                       RECURSIVE Build(_)
                       Build(i) == IF i > Len(s) THEN <<>> ELSE (IF i \in idx THEN <<s[i]>> ELSE <<>>) \o Build(i + 1)
                   IN Build(1)

Seqish == t[1] \in {"list", "arr", "hashform"}
LiteralLaw   == Literal(t) => Subst(t, B) = AsDatum(t)
SingletonLaw == Subst(<<t[1], Replace(t[2], <<"splice", "one">>, <<"atom", <<"int", 9>>>>)>>, B) = Subst(t, B)
EmptyLaw     == Subst(<<t[1], RemoveAll(t[2], <<"splice", "emp">>)>>, B) = Subst(t, B)
ErrLaw       == (\E i \in 1..Len(t[2]) : t[2][i] \in {<<"splice", "x">>, <<"splice", "arr">>}) => Subst(t, B) = Err
LengthLaw    == LET v == Subst(t, B) IN
                (t[1] = "arr" /\ v # Err /\ \A i \in 1..Len(t[2]) : t[2][i][1] \notin {"splice", "splicex"}) => Len(v[2]) = Len(t[2])
(* an unquoted expression whose value is nil stands for one element, nil: it is never dropped *)
NilLaw       == /\ Subst(<<t[1], Replace(t[2], NilX, <<"atom", Nil>>)>>, B) = Subst(t, B)
                /\ Subst(<<t[1], Replace(t[2], NilX2, <<"atom", Nil>>)>>, B) = Subst(t, B)
(* an unquoted expression without a value leaves the template without a value, at any depth *)
RECURSIVE HasBad(_)
HasBad(u) == CASE u \in {BadX, BadIn, <<"splicex", <<"bad", "let">>>>} -> TRUE
               [] u[1] \in {"list", "arr", "hashform", "hashobj"} -> \E i \in 1..Len(u[2]) : HasBad(u[2][i])
               [] OTHER -> FALSE
BadLaw       == HasBad(t) => Subst(t, B) = Err
(* a hash object template is the textual hash form of the same elements: same sequence, built into a hash *)
RECURSIVE Flat(_, _)
Flat(ps, i) == IF i > Len(ps) THEN <<>> ELSE <<ps[i][1], ps[i][2]>> \o Flat(ps, i + 1)
DistinctKeys(s) == \A i, j \in 1..Len(s) : (i % 2 = 1 /\ j % 2 = 1 /\ i # j) => ~SameKey(s[i], s[j])
HashLaw      == t[1] = "hashobj" =>
                LET f == Subst(<<"hashform", t[2]>>, B)
                    h == Subst(t, B) IN
                /\ f = Err => h = Err
                /\ h # Err => (f # Err /\ Len(h[3]) * 2 <= Len(f[2]) - 1)
                /\ (h # Err /\ DistinctKeys(Tail(f[2]))) => Flat(h[3], 1) = Tail(f[2])
                /\ (f # Err /\ h = Err) => (Len(f[2]) % 2 = 0 \/ \E i \in 2..Len(f[2]) : i % 2 = 0 /\ f[2][i][1] \notin KeyKinds)
=============================================================================
