---------------------------- MODULE QuasiTrace ----------------------------
(* Trace validation for C15: every case is a template (or a macro whose    *)
(* body is a template) evaluated on the real interpreter; see Quasi.tla.   *)
EXTENDS Quasi, Json, IOUtils

ASSUME TLCSet(11, ndJsonDeserialize(IOEnv.VERIF_TRACE))
Cases == TLCGet(11)

VARIABLES ci, verdict
tvars == <<ci, verdict>>

Bind(c) == [n \in {c.binds[i][1] : i \in 1..Len(c.binds)} |->
               (CHOOSE i \in 1..Len(c.binds) : c.binds[i][1] = n) ]
BVal(c) == [n \in DOMAIN Bind(c) |-> c.binds[Bind(c)[n]][2]]

Judge(c) ==
    IF c.kind = "template" THEN
        LET want == Subst(c.tmpl, BVal(c)) IN
        IF IsErr(want) THEN (IF c.out[1] = "err" THEN <<"ok", "err">> ELSE <<"bad", "template-without-value-accepted">>)
        ELSE IF c.out = <<"val", want>> THEN <<"ok", "val">>
        ELSE <<"bad", "substitution">>
    ELSE (* macro: expansion = Subst over the argument FORMS; call = hand-written expansion; caller untouched.
            A definition that is refused defines no macro: nothing is claimed about it (C15.py insists that the
            ordinary names are accepted); a definition that is accepted, whatever its name, is a macro that
            calls reach.  A body that has no value (an unquoted expression without one) cannot expand. *)
        LET want == Subst(c.tmpl, BVal(c)) IN
        IF c.defout[1] # "val" THEN <<"ok", IF IsErr(want) THEN "err" ELSE "refused">>
        ELSE IF IsErr(want) THEN (IF c.expansion[1] = "err" THEN <<"ok", "err">> ELSE <<"bad", "body-without-value-expanded">>)
        ELSE IF c.expansion # <<"val", want>> THEN <<"bad", "expansion">>
        ELSE IF c.callout # c.handout \/ c.callfx # c.handfx THEN <<"bad", "call-differs-from-hand-expansion">>
        ELSE IF c.depthsBefore # c.depthsAfter THEN <<"bad", "caller-depths">>
        ELSE IF c.globalsBefore # c.globalsAfter THEN <<"bad", "caller-globals">>
        ELSE <<"ok", "macro">>

TInit == ci \in 1..Len(Cases) /\ verdict = "run"
TStep == /\ verdict = "run"
         /\ LET j == Judge(Cases[ci]) IN
            verdict' = j[1] /\ PrintT(<<"VERDICT", Cases[ci].id, j[1], j[2]>>)
         /\ UNCHANGED ci
TSpec == TInit /\ [][TStep]_tvars
=============================================================================
