------------------------------- MODULE Pratt -------------------------------
(***************************************************************************)
(* C06 -- infix blocks mean what the precedence table says.                *)
(*                                                                         *)
(* A block {...} reaches the infix translator as a flat list of tokens     *)
(* (newlines are not tokens).  This module gives two independent           *)
(* definitions of the translation of such a token list into statements     *)
(* (s-expressions):                                                        *)
(*                                                                         *)
(*  (A) DECLARATIVE, from the documented table only (Level, RightAssoc):   *)
(*      the list is cut into statements where an operand ends and the next *)
(*      operand starts (or at `;`); the root of an expression is its       *)
(*      WEAKEST operator (leftmost one of a right-associative level,       *)
(*      rightmost one of a left-associative level); the operands are the   *)
(*      token lists on both sides.  ValidTree states the same relationally:*)
(*      the yield of the tree is the token list and every node respects    *)
(*      binding power and associativity.                                   *)
(*                                                                         *)
(*  (B) The top-down operator-precedence ALGORITHM as written in           *)
(*      zygo/pratt.go (Pratt.Expression(rbp), nud = MunchRight, led =      *)
(*      MunchLeft, LeftBindingPower, InfixExpandArray, ifOp, lowerGoFor)   *)
(*      with the binding powers of InitInfixOps (BP, RBP).  The set D      *)
(*      selects named deviations: behaviours of the pinned code that       *)
(*      contradict (A); with D = {} the algorithm is the repaired one.     *)
(*                                                                         *)
(* MCPratt lets TLC generate every token list up to a bound and checks     *)
(* that (A) and (B) agree and that the result satisfies ValidTree;         *)
(* PrattTrace evaluates (A) for every expression recorded from the real    *)
(* interpreter.                                                            *)
(*                                                                         *)
(* Tokens (tagged tuples, the JSON arrays written by the harness):         *)
(*   <<"int",n>> <<"sym",s>> <<"path",s>> (dotted path h.a.b, one token)   *)
(*   <<"str",s>> <<"bool",b>> <<"call",f,args>> (an s-expression call)     *)
(*   <<"nil">> <<"chr",n>> <<"uint",s>> <<"flt",s>> (the other literals:     *)
(*   nil, 'c', 5ULL, 1.5 / Inf; an int may be spelled 0x.. 0o.. 0b..)        *)
(*   <<"block",toks>> (nested {..})   <<"op",name>>  (name "," = comma)    *)
(*   <<"idx",toks>> ([..] after an operand)  <<"dot",".x">> (field access) *)
(*   <<"semi">> <<"colon">> <<"kw",k>> (if else for break continue)        *)
(*   <<"label",name>>                                                      *)
(***************************************************************************)
EXTENDS Integers, Sequences, FiniteSets

MinOf(S) == CHOOSE x \in S : \A y \in S : x <= y
MaxOf(S) == CHOOSE x \in S : \A y \in S : x >= y

---------------------------------------------------------------------------
(* token classes *)
AtomKinds == {"int", "sym", "path", "str", "bool", "call", "block", "nil", "chr", "uint", "flt"}
AssignOps == {"=", ":=", "+=", "-="}
CmpOps    == {"==", "!=", "<", "<=", ">", ">="}
BinNames  == AssignOps \cup {","} \cup {"and", "or"} \cup CmpOps
             \cup {"+", "-"} \cup {"*", "/", "mod"} \cup {"**"}
PreNames  == {"not"}
IncNames  == {"++", "--"}

(* named constant sets: TLC evaluates a constant definition once, a set
   expression written inside an operator on every call *)
IncOrAssign == AssignOps \cup IncNames
AndOr       == {"and", "or"}
AddNames    == {"+", "-"}
MulNames    == {"*", "/", "mod"}
SetNames    == {"=", ":="}
PostKinds   == {"idx", "dot"}
KwLabel     == {"kw", "label"}
ArmStop     == {"kw", "label", "semi", "colon"}
RightNames  == {"**", "and", "or"} \cup AssignOps     \* registered with Infixr / Assignment
RightLevels == {10, 30, 65}
LitKinds    == {"int", "sym", "str", "bool", "nil", "chr", "uint", "flt"}
NameKinds   == {"path", "dot", "op", "kw", "label"}
DotPath     == {"dot", "path"}
BinPrePost  == {"bin", "pre", "post"}
IdxFld      == {"idx", "fld"}
PrePost     == {"pre", "post"}
CtlConst    == {"ctl", "const"}

IsAtom(t) == t[1] \in AtomKinds
IsOp(t)   == t[1] = "op"
IsBin(t)  == t[1] = "op" /\ t[2] \in BinNames
IsPre(t)  == t[1] = "op" /\ t[2] \in PreNames
IsInc(t)  == t[1] = "op" /\ t[2] \in IncNames
IsPost(t) == IsInc(t) \/ t[1] \in PostKinds
IsSemi(t) == t[1] = "semi"
IsKw(t, k) == t[1] = "kw" /\ t[2] = k

---------------------------------------------------------------------------
(* THE DOCUMENTED TABLE (property statement; comment at the top of pratt.go):
   assignment (lowest, right-assoc) < comma < or/and < comparisons < + -
   < * / mod < ** (right-assoc) < not < indexing, slicing, field access.
   and/or are documented as one right-associative level (doc comment of
   Zlisp.Infixr).  ++/-- are statement-final assignment forms.             *)
Level(name) ==
    CASE name \in IncOrAssign -> 10
      [] name = ","                       -> 15
      [] name \in AndOr                   -> 30
      [] name \in CmpOps                  -> 40
      [] name \in AddNames                -> 50
      [] name \in MulNames                -> 60
      [] name = "**"                      -> 65
      [] name = "not"                     -> 70
      [] OTHER                            -> 0
PostfixLevel == 80
TokLevel(t) == IF t[1] = "op" THEN Level(t[2]) ELSE PostfixLevel
RightAssoc(lv) == lv \in RightLevels

(* head symbol of the s-expression an operator is translated to *)
HeadSym(name) == CASE name \in SetNames -> "set"
                   [] name = ","           -> "comma"
                   [] OTHER                -> name

---------------------------------------------------------------------------
(* abstract syntax:
   <<"atom",tok>> <<"bin",op,l,r>> <<"pre",op,x>> <<"post",op,x>>
   <<"idx",x,seltoks>> <<"fld",x,name>> <<"if",c,t,e>> (e = <<"none">>)
   <<"for",label,init,test,post,bodytok>> <<"ctl",kw,label>> <<"const",tree>> *)
Malformed == <<"malformed">>
NoneAst   == <<"none">>
NilTree   == <<"nil">>
NilAst    == <<"const", NilTree>>
TrueAst   == <<"const", <<"bool", TRUE>> >>

---------------------------------------------------------------------------
(* (A) DECLARATIVE DEFINITION                                              *)

EndsOperand(t)   == IsAtom(t) \/ IsPost(t)
StartsOperand(t) == IsAtom(t) \/ IsPre(t) \/ t[1] \in KwLabel

(* last token of the expression statement that starts at i *)
ExprEnd(toks, i) ==
    MinOf({n \in i..Len(toks) :
              \/ n = Len(toks)
              \/ IsSemi(toks[n+1])
              \/ (EndsOperand(toks[n]) /\ StartsOperand(toks[n+1]))})

IsCtl(t) == IsKw(t, "break") \/ IsKw(t, "continue")

(* break / continue: a following symbol is the label only when it stands alone; when an
   operator or a postfix extends it (s += i, s[0] = 1, s++) it begins the next statement *)
CtlEnd(toks, i) ==
    IF i < Len(toks) /\ toks[i+1][1] = "sym" /\ ExprEnd(toks, i + 1) = i + 1 THEN i + 1 ELSE i

(* an arm of if/else that starts at j: a block, or (without braces) one expression or one
   break/continue statement; 0 = none *)
ArmEnd(toks, j) ==
    IF j > Len(toks) THEN 0
    ELSE IF toks[j][1] = "block" THEN j
    ELSE IF IsCtl(toks[j]) THEN CtlEnd(toks, j)
    ELSE IF toks[j][1] \in ArmStop THEN 0
    ELSE ExprEnd(toks, j)

RECURSIVE IfEnd(_, _)
IfEnd(toks, i) ==            \* toks[i] is `if`; 0 = not of the form if C ARM [else (ARM | if ..)]
    IF i + 1 > Len(toks) THEN 0
    ELSE LET c == ExprEnd(toks, i + 1)
             t == ArmEnd(toks, c + 1)
         IN
         IF t = 0 THEN 0
         ELSE IF t + 1 <= Len(toks) /\ IsKw(toks[t+1], "else")
              THEN IF t + 2 > Len(toks) THEN 0
                   ELSE IF IsKw(toks[t+2], "if") THEN IfEnd(toks, t + 2)
                   ELSE ArmEnd(toks, t + 2)
              ELSE t

ForEnd(toks, i) ==           \* toks[i] is `for`: the body is the next block token
    LET bs == {j \in (i+1)..Len(toks) : toks[j][1] = "block"}
    IN IF bs = {} THEN 0 ELSE MinOf(bs)

StmtEnd(toks, i) ==
    LET t == toks[i] IN
    IF IsKw(t, "if") THEN IfEnd(toks, i)
    ELSE IF IsKw(t, "for") THEN ForEnd(toks, i)
    ELSE IF t[1] = "label"
         THEN (IF i < Len(toks) /\ IsKw(toks[i+1], "for") THEN ForEnd(toks, i + 1) ELSE 0)
    ELSE IF IsCtl(t) THEN CtlEnd(toks, i)
    ELSE IF t[1] = "kw" THEN 0
    ELSE ExprEnd(toks, i)

(* one expression: split at the weakest operator *)
RECURSIVE ParseExpr(_)
ParseExpr(toks) ==
    LET n == Len(toks) IN
    IF n = 0 THEN Malformed
    ELSE IF n = 1 THEN (IF IsAtom(toks[1]) THEN <<"atom", toks[1]>> ELSE Malformed)
    ELSE
      LET cand == {i \in 2..(n-1) : IsBin(toks[i])}
                  \cup (IF IsPost(toks[n]) THEN {n} ELSE {})
                  \cup (IF IsPre(toks[1]) THEN {1} ELSE {})
      IN IF cand = {} THEN Malformed
         ELSE
           LET lv   == MinOf({TokLevel(toks[i]) : i \in cand})
               ties == {i \in cand : TokLevel(toks[i]) = lv}
               r    == IF RightAssoc(lv) THEN MinOf(ties) ELSE MaxOf(ties)
               t    == toks[r]
           IN IF IsBin(t)
              THEN <<"bin", t[2], ParseExpr(SubSeq(toks, 1, r-1)), ParseExpr(SubSeq(toks, r+1, n))>>
              ELSE IF r = n
              THEN LET x == ParseExpr(SubSeq(toks, 1, n-1)) IN
                   IF IsInc(t) THEN <<"post", t[2], x>>
                   ELSE IF t[1] = "idx" THEN <<"idx", x, t[2]>>
                   ELSE <<"fld", x, t[2]>>
              ELSE <<"pre", t[2], ParseExpr(SubSeq(toks, 2, n))>>

CtlAst(s) == <<"ctl", s[1][2], IF Len(s) = 2 THEN s[2][2] ELSE "">>
ArmAst(seg) == IF IsCtl(seg[1]) THEN CtlAst(seg) ELSE ParseExpr(seg)

RECURSIVE ParseIf(_)
ParseIf(s) ==                \* s = if C ARM [else (ARM | if ...)]
    LET c == ExprEnd(s, 2)
        t == ArmEnd(s, c + 1)
    IN
    <<"if", ParseExpr(SubSeq(s, 2, c)), ArmAst(SubSeq(s, c + 1, t)),
      IF Len(s) = t THEN NoneAst
      ELSE IF IsKw(s[t+2], "if") THEN ParseIf(SubSeq(s, t + 2, Len(s)))
      ELSE ArmAst(SubSeq(s, t + 2, Len(s))) >>

ClauseOrNil(seg) == IF seg = <<>> THEN NilAst ELSE ParseExpr(seg)

ParseFor(label, r) ==        \* r = header tokens followed by the body block
    LET hd    == SubSeq(r, 1, Len(r) - 1)
        body  == r[Len(r)]
        semis == {i \in 1..Len(hd) : IsSemi(hd[i])}
    IN IF semis = {}
       THEN <<"for", label, NilAst, IF hd = <<>> THEN TrueAst ELSE ParseExpr(hd), NilAst, body>>
       ELSE IF Cardinality(semis) # 2 THEN Malformed
       ELSE LET s1 == MinOf(semis)
                s2 == MaxOf(semis)
                tst == SubSeq(hd, s1 + 1, s2 - 1)
            IN <<"for", label, ClauseOrNil(SubSeq(hd, 1, s1 - 1)),
                 IF tst = <<>> THEN TrueAst ELSE ParseExpr(tst),
                 ClauseOrNil(SubSeq(hd, s2 + 1, Len(hd))), body>>

ParseStmt(s) ==
    IF IsKw(s[1], "if") THEN ParseIf(s)
    ELSE IF IsKw(s[1], "for") THEN ParseFor("", SubSeq(s, 2, Len(s)))
    ELSE IF s[1][1] = "label" THEN ParseFor(s[1][2], SubSeq(s, 3, Len(s)))
    ELSE IF IsCtl(s[1]) THEN CtlAst(s)
    ELSE ParseExpr(s)

RECURSIVE StmtsFrom(_, _)
StmtsFrom(toks, i) ==
    IF i > Len(toks) THEN <<>>
    ELSE IF IsSemi(toks[i]) THEN StmtsFrom(toks, i + 1)
    ELSE LET e == StmtEnd(toks, i) IN
         IF e = 0 THEN <<Malformed>>
         ELSE <<ParseStmt(SubSeq(toks, i, e))>> \o StmtsFrom(toks, e + 1)

Stmts(toks) == StmtsFrom(toks, 1)

(* ---- the same, relationally ---- *)
TopLevel(x) == CASE x[1] \in BinPrePost -> Level(x[2])
                 [] x[1] \in IdxFld     -> PostfixLevel
                 [] OTHER                           -> 100
ClosedRightKinds == {"atom", "post", "idx", "fld"}
ClosedLeftKinds  == {"atom", "pre"}
ClosedRight(x) == x[1] \in ClosedRightKinds   \* nothing can attach on its right edge
ClosedLeft(x)  == x[1] \in ClosedLeftKinds
LeftOK(x, lv)  == ClosedRight(x) \/ (IF RightAssoc(lv) THEN TopLevel(x) > lv ELSE TopLevel(x) >= lv)
RightOK(x, lv) == ClosedLeft(x) \/ (IF RightAssoc(lv) THEN TopLevel(x) >= lv ELSE TopLevel(x) > lv)

RECURSIVE NodeOK(_)
NodeOK(x) ==
    CASE x[1] = "atom" -> IsAtom(x[2])
      [] x[1] = "bin"  -> /\ x[2] \in BinNames
                          /\ LeftOK(x[3], Level(x[2])) /\ RightOK(x[4], Level(x[2]))
                          /\ NodeOK(x[3]) /\ NodeOK(x[4])
      [] x[1] = "pre"  -> x[2] \in PreNames /\ RightOK(x[3], Level(x[2])) /\ NodeOK(x[3])
      [] x[1] = "post" -> x[2] \in IncNames /\ LeftOK(x[3], Level(x[2])) /\ NodeOK(x[3])
      [] x[1] \in IdxFld -> LeftOK(x[2], PostfixLevel) /\ NodeOK(x[2])
      [] OTHER -> FALSE

RECURSIVE Yield(_)
Yield(x) ==
    CASE x[1] = "atom" -> <<x[2]>>
      [] x[1] = "bin"  -> Yield(x[3]) \o << <<"op", x[2]>> >> \o Yield(x[4])
      [] x[1] = "pre"  -> << <<"op", x[2]>> >> \o Yield(x[3])
      [] x[1] = "post" -> Yield(x[3]) \o << <<"op", x[2]>> >>
      [] x[1] = "idx"  -> Yield(x[2]) \o << <<"idx", x[3]>> >>
      [] x[1] = "fld"  -> Yield(x[2]) \o << <<"dot", x[3]>> >>
      [] OTHER -> << <<"?">> >>

ValidTree(x, toks) == Yield(x) = toks /\ NodeOK(x)

(* every tree over a token list (for the uniqueness audit on short lists) *)
PostNode(t, x) == IF IsInc(t) THEN <<"post", t[2], x>>
                  ELSE IF t[1] = "idx" THEN <<"idx", x, t[2]>> ELSE <<"fld", x, t[2]>>
RECURSIVE AllTrees(_)
AllTrees(toks) ==
    LET n == Len(toks) IN
    IF n = 0 THEN {}
    ELSE (IF n = 1 /\ IsAtom(toks[1]) THEN {<<"atom", toks[1]>>} ELSE {})
         \cup UNION {{<<"bin", toks[i][2], l, r>> : l \in AllTrees(SubSeq(toks, 1, i-1)),
                                                   r \in AllTrees(SubSeq(toks, i+1, n))}
                     : i \in {j \in 2..(n-1) : IsBin(toks[j])}}
         \cup (IF n >= 2 /\ IsPre(toks[1])
               THEN {<<"pre", toks[1][2], x>> : x \in AllTrees(SubSeq(toks, 2, n))} ELSE {})
         \cup (IF n >= 2 /\ IsPost(toks[n])
               THEN {PostNode(toks[n], x) : x \in AllTrees(SubSeq(toks, 1, n-1))} ELSE {})

---------------------------------------------------------------------------
(* (B) THE ALGORITHM OF pratt.go                                           *)

(* binding powers as registered by Zlisp.InitInfixOps *)
BP(name) ==
    CASE name \in AddNames    -> 50      \* env.Infix("+", 50), Infix("-", 50)
      [] name \in MulNames    -> 60      \* Infix("*", 60), Infix("/", 60), Infix("mod", 60)
      [] name = "**"          -> 65      \* Infixr
      [] name \in AndOr       -> 30      \* Infixr
      [] name = "not"         -> 70      \* Prefix
      [] name \in AssignOps   -> 10      \* Assignment("=" ":=" "+=" "-=", 10)
      [] name \in IncNames    -> 10      \* PostfixAssign("++" "--", 10)
      [] name \in CmpOps      -> 40      \* Infix("==" "!=" ">" ">=" "<" "<=", 40)
      [] name = ","           -> 15      \* Infix("comma", 15); LeftBindingPower(*SexpComma)
      [] OTHER                -> 0
(* what the led of a binary operator passes to Expression: Infix bp; Infixr, Assignment bp-1 *)
RBP(name) == IF name \in RightNames THEN BP(name) - 1 ELSE BP(name)

(* named deviations of the pinned code (see proposed_fixes/C06-*.md) *)
DevPath == "dotpath-stmt-swallowed"   \* a dotted path h.x gets left binding power 80
DevNot  == "not-stmt-swallowed"       \* prefix-only `not` gets left binding power 70
DevColon == "slice-colon-lost-after-dotpath"  \* lexical, see PrattTrace
DevLabel == "ctl-label-any-symbol"    \* break/continue take ANY following symbol as their label
AllDevs == {DevPath, DevNot, DevColon, DevLabel}

(* Zlisp.LeftBindingPower *)
LBP(t, D) ==
    CASE t[1] = "op"   -> IF t[2] \in PreNames
                          THEN (IF DevNot \in D THEN BP(t[2]) ELSE 0)
                          ELSE BP(t[2])
      [] t[1] = "idx"  -> 80
      [] t[1] = "dot"  -> 80
      [] t[1] = "path" -> IF DevPath \in D THEN 80 ELSE 0
      [] OTHER         -> 0         \* literals, symbols, if/for/break/continue/else, ;, calls, blocks

SymbolKinds == {"sym", "path", "dot", "op", "kw", "label", "colon"}   \* tokens that are *SexpSymbol

(* isLoopLabel: the token at q, directly after break/continue, is the label: a plain name
   (no dotted path, not else, no word of the infix grammar) that the next token does not extend *)
IsLabelAt(toks, q, D) ==
    IF DevLabel \in D THEN toks[q][1] \in SymbolKinds
    ELSE /\ toks[q][1] = "sym"
         /\ (q + 1 > Len(toks) \/ LBP(toks[q+1], D) = 0)

RECURSIVE PExpr(_, _, _, _), PLed(_, _, _, _, _), PIf(_, _, _), PFor(_, _, _, _), POne(_, _)

(* Pratt.Expression(rbp) from position pos: [t |-> tree, p |-> next position] *)
PExpr(toks, pos, rbp, D) ==
    IF pos > Len(toks) THEN [t |-> <<"eof">>, p |-> pos]
    ELSE
      LET c == toks[pos]
          nud ==                                   \* curOp.MunchRight, else the token itself
            IF IsOp(c) /\ c[2] = "not"
            THEN LET r == PExpr(toks, pos + 1, 70, D) IN [t |-> <<"pre", "not", r.t>>, p |-> r.p]
            ELSE IF IsKw(c, "if") THEN PIf(toks, pos + 1, D)
            ELSE IF IsKw(c, "for") THEN PFor(toks, pos + 1, "", D)
            ELSE IF IsKw(c, "break") \/ IsKw(c, "continue")
            THEN (IF pos + 1 <= Len(toks) /\ IsLabelAt(toks, pos + 1, D)
                  THEN [t |-> <<"ctl", c[2], toks[pos+1][2]>>, p |-> pos + 2]
                  ELSE [t |-> <<"ctl", c[2], "">>, p |-> pos + 1])
            ELSE [t |-> <<"atom", c>>, p |-> pos + 1]
      IN PLed(toks, nud.p, rbp, nud.t, D)

(* the loop `for !p.IsEOF() { if rbp >= lbp break; ... MunchLeft }` *)
PLed(toks, pos, rbp, left, D) ==
    IF pos > Len(toks) THEN [t |-> left, p |-> pos]
    ELSE
      LET c == toks[pos] IN
      IF rbp >= LBP(c, D) THEN [t |-> left, p |-> pos]
      ELSE IF IsBin(c)
           THEN LET r == PExpr(toks, pos + 1, RBP(c[2]), D)
                IN PLed(toks, r.p, rbp, <<"bin", c[2], left, r.t>>, D)
      ELSE IF IsInc(c) THEN PLed(toks, pos + 1, rbp, <<"post", c[2], left>>, D)
      ELSE IF c[1] = "idx" THEN PLed(toks, pos + 1, rbp, <<"idx", left, c[2]>>, D)
      ELSE IF c[1] \in DotPath THEN PLed(toks, pos + 1, rbp, <<"fld", left, c[2]>>, D)
      ELSE PLed(toks, pos + 1, rbp, <<"atom", c>>, D)    \* no MunchLeft: AccumTree = cnode

(* ifOp.MunchRight *)
PIf(toks, pos, D) ==
    LET c  == PExpr(toks, pos, 5, D)
        th == PExpr(toks, c.p, 0, D)
    IN IF th.p <= Len(toks) /\ IsKw(toks[th.p], "else")
       THEN LET el == PExpr(toks, th.p + 1, 0, D)
            IN [t |-> <<"if", c.t, th.t, el.t>>, p |-> el.p]
       ELSE [t |-> <<"if", c.t, th.t, NoneAst>>, p |-> th.p]

(* parsePrattOne *)
POne(seg, D) ==
    IF seg = <<>> THEN NilAst
    ELSE LET r == PExpr(seg, 1, 0, D) IN IF r.p > Len(seg) THEN r.t ELSE <<"error">>

(* forOpMunchRightWithLabel + lowerGoFor (range headers are not modelled) *)
PFor(toks, pos, label, D) ==
    LET bs == {j \in pos..Len(toks) : toks[j][1] = "block"} IN
    IF bs = {} THEN [t |-> <<"error">>, p |-> Len(toks) + 1]
    ELSE
      LET b     == MinOf(bs)
          hd    == SubSeq(toks, pos, b - 1)
          semis == {i \in 1..Len(hd) : IsSemi(hd[i])}
          tree  ==
            IF semis = {}
            THEN <<"for", label, NilAst, IF hd = <<>> THEN TrueAst ELSE POne(hd, D), NilAst, toks[b]>>
            ELSE IF Cardinality(semis) # 2 THEN <<"error">>
            ELSE LET s1 == MinOf(semis)
                     s2 == MaxOf(semis)
                     tst == SubSeq(hd, s1 + 1, s2 - 1)
                 IN <<"for", label, POne(SubSeq(hd, 1, s1 - 1), D),
                      IF tst = <<>> THEN TrueAst ELSE POne(tst, D),
                      POne(SubSeq(hd, s2 + 1, Len(hd)), D), toks[b]>>
      IN [t |-> tree, p |-> b + 1]

(* InfixExpandArray: LabeledFor or Expression(0); drop `;` results; skip one `;` *)
RECURSIVE PLoop(_, _, _)
PLoop(toks, pos, D) ==
    IF pos > Len(toks) THEN <<>>
    ELSE
      LET lf == /\ toks[pos][1] = "label"
                /\ pos + 1 <= Len(toks)
                /\ IsKw(toks[pos+1], "for")
          r  == IF lf THEN PFor(toks, pos + 2, toks[pos][2], D) ELSE PExpr(toks, pos, 0, D)
          xs == IF r.t = <<"atom", <<"semi">> >> \/ r.t = <<"eof">> THEN <<>> ELSE <<r.t>>
      IN IF r.p > Len(toks) THEN xs
         ELSE xs \o PLoop(toks, IF IsSemi(toks[r.p]) THEN r.p + 1 ELSE r.p, D)

PStmts(toks, D) == PLoop(toks, 1, D)

---------------------------------------------------------------------------
(* s-expression of a tree, in the value projection of the harness.  m is
   {"decl"} for definition (A) or a set of deviations for definition (B);
   nested blocks and selectors are translated by the same definition.
   full = FALSE: a nested block stays a block, annotated with its own
   translation: <<"blockx", toks, statements>>.  full = TRUE: the infix-free
   prefix form, a nested block is (begin s1 .. sn), an empty one nil.       *)
S(n)  == <<"sym", n>>
Ls(xs) == <<"list", xs>>

Parse(toks, m) == IF "decl" \in m THEN Stmts(toks) ELSE PStmts(toks, m)
One(toks, m)   == IF "decl" \in m THEN ParseExpr(toks) ELSE POne(toks, m)

RECURSIVE Tree(_, _, _), TreeSeq(_, _, _), AtomTree(_, _, _), AtomTrees(_, _, _), SelTree(_, _, _)

TreeSeq(xs, m, full) == [i \in 1..Len(xs) |-> Tree(xs[i], m, full)]
AtomTrees(ts, m, full) == [i \in 1..Len(ts) |-> AtomTree(ts[i], m, full)]

AtomTree(t, m, full) ==
    CASE t[1] \in LitKinds -> t
      [] t[1] \in NameKinds -> S(t[2])
      [] t[1] = "call"  -> Ls(<<S(t[2])>> \o AtomTrees(t[3], m, full))
      [] t[1] = "block" ->
           LET ss == TreeSeq(Parse(t[2], m), m, full) IN
           IF full THEN (IF ss = <<>> THEN NilTree ELSE Ls(<<S("begin")>> \o ss))
           ELSE <<"blockx", t[2], ss>>
      [] OTHER -> <<"tok", t[1]>>

SelTree(sel, m, full) ==         \* normalizeArraySelector
    LET cp == {i \in 1..Len(sel) : sel[i][1] = "colon"} IN
    IF cp = {}
    THEN (IF sel = <<>> THEN <<>> ELSE <<Tree(One(sel, m), m, full)>>)
    ELSE LET c == MinOf(cp)
             a == SubSeq(sel, 1, c - 1)
             b == SubSeq(sel, c + 1, Len(sel))
         IN (IF a = <<>> THEN <<>> ELSE <<Tree(One(a, m), m, full)>>)
            \o <<S(":")>>
            \o (IF b = <<>> THEN <<>> ELSE <<Tree(One(b, m), m, full)>>)

Tree(x, m, full) ==
    CASE x[1] = "atom" -> AtomTree(x[2], m, full)
      [] x[1] = "bin"  -> Ls(<<S(HeadSym(x[2])), Tree(x[3], m, full), Tree(x[4], m, full)>>)
      [] x[1] \in PrePost -> Ls(<<S(x[2]), Tree(x[3], m, full)>>)
      [] x[1] = "idx"  -> Ls(<<S("arrayidx"), Tree(x[2], m, full), <<"arr", SelTree(x[3], m, full)>> >>)
      [] x[1] = "fld"  -> Ls(<<S("hashidx"), Tree(x[2], m, full), S(x[3])>>)
      [] x[1] = "if"   -> Ls(<<S("cond"), Tree(x[2], m, full), Tree(x[3], m, full),
                              IF x[4] = NoneAst THEN NilTree ELSE Tree(x[4], m, full)>>)
      [] x[1] = "for"  -> Ls(<<S("for")>>
                             \o (IF x[2] = "" THEN <<>> ELSE <<S(x[2])>>)
                             \o << <<"arr", <<Tree(x[3], m, full), Tree(x[4], m, full), Tree(x[5], m, full)>> >> >>
                             \o (IF x[6][2] = <<>> THEN <<>> ELSE <<AtomTree(x[6], m, full)>>))
      [] x[1] = "ctl"  -> Ls(<<S(x[2])>> \o (IF x[3] = "" THEN <<>> ELSE <<S(x[3])>>))
      [] x[1] = "const" -> x[2]
      [] OTHER -> <<"bad", x[1]>>

(* the translation of a whole block *)
Expected(toks)     == TreeSeq(Stmts(toks), {"decl"}, FALSE)
ExpectedFull(toks) == TreeSeq(Stmts(toks), {"decl"}, TRUE)
Algorithm(toks, D) == TreeSeq(PStmts(toks, D), D, FALSE)

---------------------------------------------------------------------------
(* the domain of the property: token lists the documented grammar accepts.
   ++/-- only end a statement; no malformed piece at any depth.             *)
RECURSIVE AstOK(_), ToksOK(_), TokOK(_)
AstOK(x) ==
    CASE x[1] = "atom" -> IsAtom(x[2]) /\ TokOK(x[2])
      [] x[1] = "bin"  -> AstOK(x[3]) /\ AstOK(x[4])
      [] x[1] = "pre"  -> AstOK(x[3])
      [] x[1] = "post" -> AstOK(x[3])
      [] x[1] = "idx"  -> AstOK(x[2]) /\ TokOK(<<"idx", x[3]>>)
      [] x[1] = "fld"  -> AstOK(x[2])
      [] x[1] = "if"   -> AstOK(x[2]) /\ AstOK(x[3]) /\ (x[4] = NoneAst \/ AstOK(x[4]))
      [] x[1] = "for"  -> AstOK(x[3]) /\ AstOK(x[4]) /\ AstOK(x[5]) /\ TokOK(x[6])
      [] x[1] \in CtlConst -> TRUE
      [] OTHER -> FALSE
TokOK(t) ==
    CASE t[1] = "block" -> ToksOK(t[2])
      [] t[1] = "call"  -> \A i \in 1..Len(t[3]) : IsAtom(t[3][i]) /\ TokOK(t[3][i])
      [] t[1] = "idx"   ->
           LET sel == t[2]
               cp  == {i \in 1..Len(sel) : sel[i][1] = "colon"}
           IN /\ Cardinality(cp) <= 1
              /\ IF cp = {} THEN sel # <<>> /\ AstOK(ParseExpr(sel))
                 ELSE LET c == MinOf(cp)
                          a == SubSeq(sel, 1, c - 1)
                          b == SubSeq(sel, c + 1, Len(sel))
                      IN (a = <<>> \/ AstOK(ParseExpr(a))) /\ (b = <<>> \/ AstOK(ParseExpr(b)))
      [] OTHER -> TRUE
IncOnlyLast(toks) ==      \* ++/-- is followed by the end, a `;` or the start of a statement
    \A i \in 1..Len(toks) :
        IsInc(toks[i]) => (i = Len(toks) \/ IsSemi(toks[i+1]) \/ StartsOperand(toks[i+1]))
ToksOK(toks) ==
    /\ IncOnlyLast(toks)
    /\ LET ss == Stmts(toks) IN \A i \in 1..Len(ss) : AstOK(ss[i])
InDomain(toks) == ToksOK(toks)
=============================================================================
