---------------------------- MODULE MCPackages ----------------------------
(***************************************************************************)
(* Exploration of Packages.tla: every (tree, path, route, alias) up to the *)
(* bounds is one transition; TLC computes the visibility verdict of the    *)
(* specification (PART 1) and the outcome of the implementation-shaped     *)
(* walkers (PART 2, switches D1/D2 from the configuration) and checks      *)
(*   Refines        what the walkers produce (result and tree afterwards)  *)
(*                  is admitted by the specification;                      *)
(*   WalkAudit      the recursive walk of the specification agrees with    *)
(*                  the declarative reading of the statement (some hop is  *)
(*                  a private member <=> "no"; all hops capitalised or     *)
(*                  package traversals => "yes");                          *)
(*   AliasNeutral   the verdict never depends on the alias kind or on the  *)
(*                  route (an alias never widens or narrows access);       *)
(*   PrivateStable  no sequence of outside accesses changes a member that  *)
(*                  is behind a private hop;                               *)
(*   InsideReads    a dot path of the code of a package (relative to the   *)
(*                  package it runs in or to one that encloses it) reaches *)
(*                  every member of its own package, private or not, and   *)
(*                  the keys below it, and stops at the private members of *)
(*                  the packages nested in it.                             *)
(* A dot path written OUTSIDE that is handed to code of a package as a     *)
(* value (Packages!ApplyRel) is one more kind of transition: dereferenced  *)
(* where it was written (outside, where its first name is not bound) it    *)
(* fails, which the specification always admits; dereferenced where the    *)
(* receiving code runs (switch D3, Packages!ImplRel) it reads private      *)
(* members.                                                                *)
(* With D1, D2 or D3 set, Refines must be refuted (self-test of the audit).*)
(***************************************************************************)
EXTENDS Packages, TLC

CONSTANTS D1, D2, D3, MaxSteps, Depth, StepTrees

N(r, s) == <<r, s>>
cU == 1  cL == 2  cN == 3

FullHash(b) ==
    <<"hash", << <<N(75, "Ka"), <<"val", b + 1>>>>, <<N(107, "ka"), <<"val", b + 2>>>>,
                 <<N(95, "_k"), <<"val", b + 3>>>>, <<N(75, "Kf"), <<"fn", b + 4>>>>,
                 <<N(75, "Kh"), <<"hash", << <<N(75, "Kb"), <<"val", b + 5>>>>, <<N(107, "kb"), <<"val", b + 6>>>>,
                                             <<N(75, "Kh"), <<"hash", << <<N(75, "Kc"), <<"val", b + 7>>>>,
                                                                         <<N(107, "kc"), <<"val", b + 8>>>> >> >> >> >> >> >>,
                 <<N(107, "kh"), <<"hash", << <<N(75, "Kb"), <<"val", b + 9>>>> >> >> >> >> >>

RECURSIVE FullPkg(_, _)
FullPkg(d, code) ==
    LET b == code * 1000
        own == << <<N(86, "Va"), <<"val", b + 1>>>>, <<N(118, "va"), <<"val", b + 2>>>>, <<N(95, "_va"), <<"val", b + 3>>>>,
                  <<N(70, "Fu"), <<"fn", b + 4>>>>,  <<N(102, "fu"), <<"fn", b + 5>>>>,  <<N(95, "_fu"), <<"fn", b + 6>>>>,
                  <<N(72, "Ha"), FullHash(b + 100)>>, <<N(104, "ha"), FullHash(b + 200)>>, <<N(95, "_ha"), FullHash(b + 300)>> >>
        sub == IF d <= 1 THEN <<>>
               ELSE << <<N(80, "Pk"), FullPkg(d - 1, code * 4 + 1)>>, <<N(112, "pk"), FullPkg(d - 1, code * 4 + 2)>>,
                       <<N(95, "_pk"), FullPkg(d - 1, code * 4 + 3)>> >>
    IN <<"pkg", own \o sub>>

SmallPkg(b) == <<"pkg", << <<N(86, "Va"), <<"val", b + 1>>>>, <<N(118, "va"), <<"val", b + 2>>>>,
                           <<N(72, "Hb"), <<"hash", << <<N(75, "Ka"), <<"val", b + 3>>>>, <<N(107, "ka"), <<"val", b + 4>>>> >> >> >>,
                           <<N(104, "hb"), <<"hash", << <<N(75, "Ka"), <<"val", b + 5>>>> >> >> >> >> >>

(* packages stored inside hashes inside packages: the hand-offs between    *)
(* the two walkers at every index                                          *)
MixedTree ==
    <<"pkg", << <<N(72, "Ha"), <<"hash", << <<N(75, "Kp"), SmallPkg(10)>>, <<N(107, "kp"), SmallPkg(20)>>,
                                            <<N(75, "Kh"), <<"hash", << <<N(75, "Kp"), SmallPkg(30)>> >> >> >> >> >> >>,
                <<N(104, "ha"), <<"hash", << <<N(75, "Kp"), SmallPkg(40)>> >> >> >>,
                <<N(80, "Pk"), <<"pkg", << <<N(72, "Ha"), <<"hash", << <<N(75, "Kp"), SmallPkg(50)>>, <<N(72, "Ha"), <<"val", 61>>>> >> >> >>,
                                           <<N(86, "Va"), <<"val", 62>>>> >> >> >> >> >>

(* a name used for a member and for a key: a mis-directed walk finds       *)
(* something instead of failing                                            *)
ClashTree ==
    <<"pkg", << <<N(80, "Pk"), <<"pkg", << <<N(72, "Ha"), <<"hash", << <<N(72, "Ha"), <<"hash", << <<N(75, "Ka"), <<"val", 71>>>> >> >> >>,
                                                                     <<N(75, "Ka"), <<"val", 72>>>> >> >> >>,
                                           <<N(112, "pk"), <<"pkg", << <<N(72, "Ha"), <<"hash", << <<N(75, "Ka"), <<"val", 73>>>>,
                                                                       <<N(112, "pk"), <<"hash", << <<N(72, "Ha"), <<"val", 74>>>> >> >> >> >> >> >> >> >> >> >> >> >> >> >>

TinyTree == <<"pkg", << <<N(86, "Va"), <<"val", 1>>>>, <<N(118, "va"), <<"val", 2>>>>, <<N(95, "_v"), <<"val", 3>>>>,
                        <<N(72, "Ha"), <<"hash", << <<N(75, "Ka"), <<"val", 4>>>>, <<N(107, "ka"), <<"val", 5>>>> >> >> >>,
                        <<N(104, "ha"), <<"hash", << <<N(75, "Ka"), <<"val", 6>>>> >> >> >>,
                        <<N(112, "pk"), <<"pkg", << <<N(86, "Va"), <<"val", 7>>>>, <<N(118, "va"), <<"val", 8>>>>,
                                                    <<N(70, "Fu"), <<"fn", 9>>>> >> >> >> >> >>

(* evaluated once by TLC (constant definition) *)
TreeSeq == IF StepTrees THEN <<TinyTree>> ELSE <<FullPkg(Depth, 1), MixedTree, ClashTree, TinyTree>>

RECURSIVE Paths(_)
Paths(n) == IF ~IsCont(n) THEN {}
            ELSE UNION { {<<n[2][i][1]>>} \cup { <<n[2][i][1]>> \o q : q \in Paths(n[2][i][2]) } : i \in 1..Len(n[2]) }

RoutesFor(t, p) ==
    LET n == NodeAt(t, p) par == NodeAt(t, SubSeq(p, 1, Len(p) - 1)) IN
    {"typeq", "uarg", "rhs", "rhsdef", "rhsset", "let", "star", "infix", "prefix", "set", "infixdef", "multi2"}
      \cup (IF n[1] = "val" THEN {"plus"} ELSE {})
      \cup (IF n[1] = "fn" THEN {"call"} ELSE {})
      \cup (IF par[1] = "hash" /\ Len(p) > 1 THEN {"hset"} ELSE {})

Ks(t, p, kind, rt) ==
    LET lim == IF rt = "hset" THEN Len(p) - 2 ELSE Len(p) - 1 IN
    IF kind = "direct" THEN {0}
    ELSE {0} \cup {k \in 1..lim : NodeAt(t, SubSeq(p, 1, k))[1] = "pkg"}

AccessesOf(t, kind, p) ==
    { [op |-> "out", al |-> <<kind, k>>, p |-> p, rt |-> rt, v |-> 7] :
          <<k, rt>> \in { <<k, rt>> \in (0..8) \X RoutesFor(t, p) : k \in Ks(t, p, kind, rt) } }

(* the dot path p[c+1..] written outside and handed to code of the package *)
(* at fp, as an argument / in data                                         *)
PkgPaths(t) == {<<>>} \cup {p \in Paths(t) : NodeAt(t, p)[1] = "pkg"}
RelAccessesOf(t, p) ==
    { [op |-> "rel", fp |-> x[2], c |-> x[1], p |-> p, rt |-> x[3]] :
          x \in { y \in (0..(Len(p) - 1)) \X PkgPaths(t) \X {"arg", "cblet"} :
                     RelDefined(t, [fp |-> y[2], c |-> y[1], p |-> p]) } }

(* the state keeps the index of the initial tree and the writes performed  *)
(* (location, value) instead of the tree itself: small states              *)
VARIABLES ti, writes, last, steps, pend
vars == <<ti, writes, last, steps, pend>>

RECURSIVE Replay(_, _, _)
Replay(t, ws, i) == IF i > Len(ws) THEN t ELSE Replay(SetAt(t, ws[i][1], <<"val", ws[i][2]>>), ws, i + 1)
init == TreeSeq[ti]
tree == Replay(init, writes, 1)

NoPend == <<"none", <<>>>>
Idle == [al |-> <<"direct", 0>>, p |-> <<>>, rt |-> "none", vis |-> "init", ok |-> TRUE, same |-> TRUE, neutral |-> TRUE, privw |-> FALSE, ins |-> TRUE]

(* the result the walkers produce *)
Produced(o, d) ==
    CASE d.k = "err" -> <<"err", "x">>
      [] d.k = "set" -> <<"val", <<"int", o.v>>>>
      [] OTHER -> LET e == ExpectRead(o.rt, d.n, o.v) IN IF e = Skip THEN <<"err", "x">> ELSE <<"val", e>>

Init == /\ ti \in 1..Len(TreeSeq) /\ writes = <<>> /\ last = Idle /\ steps = 0 /\ pend = NoPend

(* choosing (alias kind, path) is a transition of its own so that TLC's    *)
(* workers share the enumeration                                           *)
Pick == /\ steps < MaxSteps /\ pend = NoPend
        /\ \E kind \in AliasKinds \cup {"rel"}, p \in Paths(tree) : pend' = <<kind, p>>
        /\ UNCHANGED <<ti, writes, last, steps>>

Do ==
    /\ pend # NoPend /\ pend[1] # "rel"
    /\ \E a \in AccessesOf(tree, pend[1], pend[2]) :
         LET d == ImplDo(tree, a, D1, D2)
             o == [op |-> "out", al |-> a.al, p |-> a.p, rt |-> a.rt, v |-> a.v, res |-> Produced(a, d)]
             s == ApplyOut(tree, o)
             (* the verdict for the same path through the plainest alias and route *)
             base == OutVis(tree, [al |-> <<"direct", 0>>, p |-> AccessPath(a), rt |-> "uarg"]).vis
             pre == IF a.al[2] = 0 THEN "yes" ELSE Visible(tree, SubSeq(a.p, 1, a.al[2])).vis
         IN /\ writes' = IF s.c = tree THEN writes ELSE Append(writes, <<a.p, a.v>>)
            /\ last' = [al |-> a.al, p |-> a.p, rt |-> a.rt, vis |-> s.vis, ok |-> s.ok, same |-> (s.c = d.c),
                        neutral |-> (s.vis = "undef" \/ s.vis = Join(pre, base)),
                        privw |-> (s.c # tree /\ \E i \in 1..Len(a.p) : PrivateHop(tree, a.p, i)), ins |-> TRUE]
            /\ steps' = steps + 1
            /\ pend' = NoPend
            /\ UNCHANGED ti

DoRel ==
    /\ pend # NoPend /\ pend[1] = "rel"
    /\ \E a \in RelAccessesOf(tree, pend[2]) :
         LET ins == ImplRel(tree, a)
             res == IF ~D3 \/ ins.k = "err" THEN <<"err", "x">> ELSE <<"val", Abs(ins.n)>>
             o == [op |-> "rel", fp |-> a.fp, c |-> a.c, p |-> a.p, rt |-> a.rt, res |-> res]
             s == ApplyRel(tree, o)
             base == RelVis(tree, [fp |-> SubSeq(a.p, 1, a.c), c |-> a.c, p |-> a.p])
             deeper == \E i \in (a.c + 2)..Len(a.p) : PrivateHop(tree, a.p, i)
         IN /\ last' = [al |-> <<"rel", a.c>>, p |-> a.p, rt |-> a.rt, vis |-> s.vis, ok |-> s.ok, same |-> (s.c = tree),
                        neutral |-> (s.vis = base /\ (s.vis = "no" => Visible(tree, a.p).vis = "no")),
                        privw |-> FALSE,
                        ins |-> IF deeper THEN ins.k = "err" ELSE (ins.k = "val" /\ ins.n = NodeAt(tree, a.p))]
            /\ steps' = steps + 1
            /\ pend' = NoPend
            /\ UNCHANGED <<ti, writes>>

Next == Pick \/ Do \/ DoRel
Spec == Init /\ [][Next]_vars

Refines == last.ok /\ last.same
AliasNeutral == last.neutral
NoPrivateWrite == ~last.privw
InsideReads == last.ins

(* the audits range over every path of the tree; they are evaluated on the *)
(* initial trees and on every tree produced by a write (once per write:    *)
(* by Refines the tree does not depend on the alias)                       *)
(* (the trees derived from the big tree are covered by the local check    *)
(* "privw" below; auditing each of them again costs minutes)               *)
BigIdx == IF StepTrees THEN 0 ELSE 1
Audited == pend = NoPend /\ (last.rt = "none" \/ (last.rt \in WriteRoutes /\ last.al = <<"direct", 0>> /\ ti # BigIdx))

WalkAudit ==
    Audited =>
    \A p \in Paths(tree) :
       LET v == Visible(tree, p).vis
           priv == \E i \in 1..Len(p) : PrivateHop(tree, p, i)
           cap == \A i \in 1..Len(p) : CapitalHop(tree, p, i)
       IN /\ v # "undef"
          /\ priv => v = "no"
          /\ cap => v = "yes"
          /\ (KeyRule # "no" /\ v = "no") => priv
          /\ (KeyRule # "yes" /\ v = "yes") => cap

PrivateStable ==
    (Audited /\ last.rt \in WriteRoutes) =>
    \A p \in Paths(tree) :
       (\E i \in 1..Len(p) : PrivateHop(tree, p, i)) => NodeAt(tree, p) = NodeAt(init, p)
=============================================================================
