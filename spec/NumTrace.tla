------------------------------ MODULE NumTrace ------------------------------
(***************************************************************************)
(* Trace validation for C07.  A case is one pair of typed numbers {a, b}   *)
(* with the recorded result of (op a b) (sw = 0) and (op b a) (sw = 1) on  *)
(* the real interpreter for every operator: 22 events, all reached by the  *)
(* route rt of the case ("text": EvalString of the program text, "apply":  *)
(* Zlisp.Apply on the builtin function, "go": the exported Go functions    *)
(* NumericDo / IntegerDo / CompareFunction).  What the statement requires  *)
(* does not depend on the route, so the spec does not read rt: a Go panic  *)
(* recorded on any route is a result outside every expected set.  Every    *)
(* event is judged by NumTower!Expect on the 64-bit tower (8 limbs of 8    *)
(* bits, floats 1+11+52); when the events are exhausted the laws of the    *)
(* statement are checked on the RECORDED results of the case, for every    *)
(* combination of numeric types: for non-NaN operands exactly one of       *)
(* < == > holds (an error or a panic is not "holds"), and (< a b) =        *)
(* (> b a).                                                                *)
(* An event explained only by a named deviation that is enabled in         *)
(* VERIF_DEVS marks the case "known:<id>".                                 *)
(*                                                                         *)
(* Case format (compact, see harness/cmd/zv/fam_num.go): words travel as   *)
(* 4 limbs of 16 bits; r[sw+1][k] is the result of operator Ops[k]; fa, fb *)
(* are the harness's float conversions of a and b, p[sw+1] the float       *)
(* results of + - * / on them and the correctly rounded quotient of the    *)
(* two integer VALUES (named qn[sw+1] after the reading of the two words:   *)
(* "sq", "uq", "suq" signed over unsigned, "usq").  The spec looks these   *)
(* up at ITS conversions and under the name IT derives from the types.     *)
(***************************************************************************)
EXTENDS NumTower, SequencesExt, Json, IOUtils

Cases == ndJsonDeserialize(IOEnv.VERIF_TRACE)
DevList == "," \o (IF "VERIF_DEVS" \in DOMAIN IOEnv THEN IOEnv.VERIF_DEVS ELSE "") \o ","
Enabled(d) == ReplaceFirstSubSeq("", "," \o d \o ",", DevList) # DevList
EnabledDevs == {d \in Deviations : Enabled(d)}

Ops == <<"<", "<=", ">", ">=", "==", "!=", "+", "-", "*", "/", "mod">>
NOps == Len(Ops)

(* 4 x 16-bit limbs -> 8 x 8-bit limbs *)
W8(w) == [i \in 1..8 |-> IF i % 2 = 1 THEN w[(i + 1) \div 2] % 256 ELSE w[i \div 2] \div 256]
Num(t) == <<t[1], W8(t[2])>>
Res(t) == <<t[1], IF Len(t[2]) = 4 THEN W8(t[2]) ELSE t[2]>>

VARIABLES ci, pos, verdict, dev
tvars == <<ci, pos, verdict, dev>>

Case == Cases[ci]
NEv == 2 * NOps

TInit == ci \in 1..Len(Cases) /\ pos = 1 /\ verdict = "run" /\ dev = ""

TStep ==
    /\ verdict = "run" /\ pos <= NEv
    /\ LET c  == Case
           sw == (pos - 1) \div NOps
           k  == ((pos - 1) % NOps) + 1
           op == Ops[k]
           x  == Num(IF sw = 0 THEN c.a ELSE c.b)
           y  == Num(IF sw = 0 THEN c.b ELSE c.a)
           fx == W8(IF sw = 0 THEN c.fa ELSE c.fb)
           fy == W8(IF sw = 0 THEN c.fb ELSE c.fa)
           prim == IF op \in AriOps
                   THEN << <<op, fx, fy, W8(c.p[sw + 1][k - 6])>>,
                           <<c.qn[sw + 1], x[2], y[2], W8(c.p[sw + 1][5])>> >>
                   ELSE <<>>
           res == Res(c.r[sw + 1][k])
           D == {d \in EnabledDevs : DevExplained(d, op, x, y, res)}
       IN IF Explained(op, x, y, prim, res)
          THEN pos' = pos + 1 /\ UNCHANGED <<ci, verdict, dev>>
          ELSE IF D # {}
          THEN /\ pos' = pos + 1 /\ UNCHANGED <<ci, verdict>>
               /\ dev' = IF dev = "" THEN CHOOSE d \in D : TRUE ELSE dev
          ELSE /\ verdict' = "bad" /\ UNCHANGED <<ci, pos, dev>>
               /\ PrintT(<<"VERDICT", c.id, "bad", pos>>)

(* the laws, on the recorded results *)
Rec(k, sw) == Case.r[sw + 1][k]
IsT(r) == r[1] = "bool" /\ r[2] = <<1>>
LT == 1
GT == 3
EQ == 5
NoNaN == ~IsNaNNum(Num(Case.a)) /\ ~IsNaNNum(Num(Case.b))
One3(sw) == LET n(k) == IF IsT(Rec(k, sw)) THEN 1 ELSE 0 IN n(LT) + n(EQ) + n(GT) = 1
LawsHold ==
    /\ NoNaN => One3(0) /\ One3(1)
    /\ IsT(Rec(LT, 0)) = IsT(Rec(GT, 1))
    /\ IsT(Rec(LT, 1)) = IsT(Rec(GT, 0))

(* a law broken although no single event was rejected (int against chr:   *)
(* the events are not judged one by one): the deviations that reproduce    *)
(* every recorded comparison of the case                                   *)
LawDevs ==
    {d \in EnabledDevs : \A sw \in {0, 1} : \A k \in 1..6 :
        DevExplained(d, Ops[k], Num(IF sw = 0 THEN Case.a ELSE Case.b),
                     Num(IF sw = 0 THEN Case.b ELSE Case.a), Res(Rec(k, sw)))}

TDone ==
    /\ verdict = "run" /\ pos > NEv
    /\ UNCHANGED <<ci, pos, dev>>
    /\ IF dev # ""
       THEN verdict' = "known" /\ PrintT(<<"VERDICT", Case.id, "known:" \o dev, pos - 1>>)
       ELSE IF ~LawsHold
       THEN IF LawDevs # {}
            THEN verdict' = "known" /\ PrintT(<<"VERDICT", Case.id, "known:" \o (CHOOSE d \in LawDevs : TRUE), 0>>)
            ELSE verdict' = "bad" /\ PrintT(<<"VERDICT", Case.id, "bad", 0>>)
       ELSE verdict' = "ok" /\ PrintT(<<"VERDICT", Case.id, "ok", pos - 1>>)

TNext == TStep \/ TDone
TSpec == TInit /\ [][TNext]_tvars
=============================================================================
