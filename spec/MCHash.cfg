SPECIFICATION ISpec
CONSTANTS
  Keys <- MCKeys
  Vals <- MCVals
  Code <- MCCode
  MaxLen = 7
  DelAsPinned = FALSE
INVARIANTS Refines CountAgrees OrderExact NoDupKeys Bounded
PROPERTY LookupPure
CHECK_DEADLOCK FALSE
