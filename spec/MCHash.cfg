SPECIFICATION ISpec
CONSTANTS
  Keys <- MCKeys
  Vals <- MCVals
  Code <- MCCode
  MaxLen = 7
  DelAsPinned = FALSE
  StripOnce = FALSE
INVARIANTS Refines CountAgrees OrderExact NoDupKeys Bounded
PROPERTY LookupPure
CHECK_DEADLOCK FALSE
