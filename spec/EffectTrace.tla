---------------------------- MODULE EffectTrace ----------------------------
(***************************************************************************)
(* Binds VMEffects (the instruction table of the abstract bytecode         *)
(* execution) to the real VM.  Every case is one observed signature: an    *)
(* instruction kind with its operand count, the depth of the data stack    *)
(* before it (capped), and the observed change of the data-stack and       *)
(* scope-stack depths when control went on inside the same function.       *)
(*   ok    the change is the one VMEffects states                          *)
(*   bad   it is not                                                       *)
(*   skip  VMEffects states no fixed effect for this instruction           *)
(***************************************************************************)
EXTENDS VMEffects, Json, IOUtils, TLC

ASSUME TLCSet(11, ndJsonDeserialize(IOEnv.VERIF_TRACE))
Cases == TLCGet(11)

VARIABLES ci, verdict
tvars == <<ci, verdict>>

Judge(c) ==
    LET e == Eff(c) IN
    IF e = <<>> THEN
        (* content-dependent instructions: the data stack never grows, scopes do not change; *)
        (* explode replaces one list by its elements                                          *)
        IF Shrinks(c) THEN (IF c.dd <= 0 /\ c.ds = 0 THEN <<"ok", "shrinks">> ELSE <<"bad", "shrinks">>)
        ELSE IF c.op = "explode" THEN (IF c.dd >= -1 /\ c.ds = 0 THEN <<"ok", "explode">> ELSE <<"bad", "explode">>)
        ELSE <<"skip", c.op>>
    ELSE IF c.op = "pop" /\ c.before = 0
         THEN (IF c.dd = 0 /\ c.ds = 0 THEN <<"ok", "pop-empty">> ELSE <<"bad", "pop-empty">>)   \* PopInstr tolerates an empty stack
    ELSE IF c.before < 3 /\ c.before < e[1] THEN <<"bad", "ran-with-too-few-operands">>
    ELSE IF c.dd = e[2] - e[1] /\ c.ds = e[3] THEN <<"ok", c.op>>
    ELSE <<"bad", c.op>>

TInit == ci \in 1..Len(Cases) /\ verdict = "run"
TStep == /\ verdict = "run"
         /\ LET j == Judge(Cases[ci]) IN
            /\ verdict' = j[1]
            /\ PrintT(<<"VERDICT", Cases[ci].id, j[1], j[2]>>)
         /\ UNCHANGED ci
TSpec == TInit /\ [][TStep]_tvars
=============================================================================
