---------------------------- MODULE CrashTrace ----------------------------
(***************************************************************************)
(* C01 -- "For any source text handed to an interpreter through its        *)
(* script-facing entry points (load, parse, compile, macro-expand, run,    *)
(* REPL line), the call returns either a value or an error to the Go       *)
(* caller.  It never panics out of the library or kills the host process,  *)
(* and it returns whenever the program needs only a bounded number of      *)
(* evaluation steps."                                                      *)
(*                                                                         *)
(* The interpreter seen from the Go caller is a one-state machine: every   *)
(* call Eval(text) / LoadRun(text) / ParseEval(text) / MacroExpand(text)   *)
(* returns with an outcome in {value, error, more-input, budget exhausted} *)
(* and leaves the interpreter usable for the next call.  A case is a       *)
(* sequence of calls on ONE real interpreter with the outcome of each;     *)
(* escaped panics, a nil result with a nil error, the death of the process *)
(* and a call that does not return although the step budget bounds the     *)
(* evaluation ("hung": the worker's time limit passed) are outcomes the    *)
(* machine does not have.  The process may also end in an orderly way with *)
(* a status ("exited": os.Exit was called) -- not an outcome either.       *)
(***************************************************************************)
EXTENDS Integers, Sequences, SequencesExt, Json, IOUtils, TLC

ASSUME TLCSet(11, ndJsonDeserialize(IOEnv.VERIF_TRACE))
Cases == TLCGet(11)

(***************************************************************************)
(* Known deviations (open findings of known_findings.json), comma          *)
(* separated in VERIF_DEVS; "none" when there is none.                     *)
(***************************************************************************)
DevList == "," \o (IF "VERIF_DEVS" \in DOMAIN IOEnv THEN IOEnv.VERIF_DEVS ELSE "") \o ","
DevOn(d) == ReplaceFirstSubSeq("", "," \o d \o ",", DevList) # DevList

VARIABLES ci, pos, verdict
tvars == <<ci, pos, verdict>>

(***************************************************************************)
(* What a call may do.  Through EvalString, LoadString+Run, ParseTokens+   *)
(* EvalExpressions and macexpand it returns a value, an error, a request   *)
(* for more input, or the error of the step budget.  A REPL line "returns" *)
(* when the REPL goes on to read the next line; the recorded call is the   *)
(* whole session, which returns when the REPL ends in the ordinary way at  *)
(* the end of its input ("eof").                                           *)
(***************************************************************************)
Returns(c) == IF c.entry = "repl" THEN {"eof"} ELSE {"val", "err", "more", "budget"}

(***************************************************************************)
(* "It returns whenever the program needs only a bounded number of         *)
(* evaluation steps": the step budget makes that true of every generated   *)
(* program except those the generator marks unb (macro expansion and       *)
(* evaluation that call themselves without end, which the budget does not  *)
(* bound); those may fail to return ("hung") but nothing else.             *)
(***************************************************************************)
MayNotReturn(c) == c.unb

(***************************************************************************)
(* Deviation exit-ends-host.  In an interpreter made by NewZlisp (cfg      *)
(* "full") the call (exit n) ends the host process with status n mod 256   *)
(* instead of returning.  prog = <<"exit", n>> is the generator's word     *)
(* that the one text of the case is that call.                             *)
(***************************************************************************)
ExitEndsHost(c, o) ==
    /\ DevOn("exit-ends-host")
    /\ c.cfg = "full" /\ c.prog[1] = "exit"
    /\ o[1] = "exited" /\ o[2] = c.prog[2] % 256

(***************************************************************************)
(* A channel of capacity cap that only the program itself can reach, and   *)
(* the sends and receives the program performs on it, in order, on its one *)
(* thread of control: a send blocks when the buffer is full, a receive     *)
(* when it is empty, and an operation that blocks is never released.       *)
(* Blocks is TRUE when some operation of the sequence blocks.              *)
(***************************************************************************)
RECURSIVE BlocksFrom(_, _, _, _)
BlocksFrom(cap, ops, i, n) ==
    IF i > Len(ops) THEN FALSE
    ELSE IF ops[i] = "send" THEN (n >= cap \/ BlocksFrom(cap, ops, i + 1, n + 1))
    ELSE (n = 0 \/ BlocksFrom(cap, ops, i + 1, n - 1))
Blocks(prog) == BlocksFrom(prog[2], prog[3], 1, 0)

(***************************************************************************)
(* Deviation chan-blocks-forever.  Such a program needs a handful of       *)
(* evaluation steps, and the call does not return.                         *)
(***************************************************************************)
ChanBlocksForever(c, o) ==
    /\ DevOn("chan-blocks-forever")
    /\ c.prog[1] = "chan" /\ Blocks(c.prog)
    /\ o[1] = "hung"

Known(c, o) ==
    IF ExitEndsHost(c, o) THEN "known:exit-ends-host"
    ELSE IF ChanBlocksForever(c, o) THEN "known:chan-blocks-forever"
    ELSE "no"

TInit == ci \in 1..Len(Cases) /\ pos = 1 /\ verdict = "run"

TStep ==
    /\ verdict = "run" /\ pos <= Len(Cases[ci].outs)
    /\ LET c == Cases[ci]
           o == c.outs[pos] IN
       IF o[1] \in Returns(c) THEN pos' = pos + 1 /\ UNCHANGED <<ci, verdict>>
       ELSE IF o[1] = "notrun" THEN /\ verdict' = "skip" /\ UNCHANGED <<ci, pos>>
                                    /\ PrintT(<<"VERDICT", c.id, "skip", "notrun">>)
       ELSE IF o[1] = "hung" /\ MayNotReturn(c)
            THEN /\ verdict' = "ok" /\ UNCHANGED <<ci, pos>>
                 /\ PrintT(<<"VERDICT", c.id, "ok", pos>>)
       ELSE IF Known(c, o) # "no"
            THEN /\ verdict' = "known" /\ UNCHANGED <<ci, pos>>
                 /\ PrintT(<<"VERDICT", c.id, Known(c, o), pos>>)
       ELSE /\ verdict' = "bad" /\ UNCHANGED <<ci, pos>>
            /\ PrintT(<<"VERDICT", c.id, "bad", o[1], pos>>)

TDone ==
    /\ verdict = "run" /\ pos > Len(Cases[ci].outs)
    /\ IF Len(Cases[ci].outs) = Len(Cases[ci].texts)
       THEN verdict' = "ok" /\ PrintT(<<"VERDICT", Cases[ci].id, "ok", pos - 1>>)
       ELSE verdict' = "bad" /\ PrintT(<<"VERDICT", Cases[ci].id, "bad", "missing-outcome", pos>>)
    /\ UNCHANGED <<ci, pos>>

TNext == TStep \/ TDone
TSpec == TInit /\ [][TNext]_tvars
=============================================================================
