---------------------------- MODULE CrashTrace ----------------------------
(***************************************************************************)
(* C01 -- "For any source text handed to an interpreter through its        *)
(* script-facing entry points (load, parse, compile, macro-expand, run,    *)
(* REPL line), the call returns either a value or an error to the Go       *)
(* caller.  It never panics out of the library or kills the host process,  *)
(* and it returns whenever the program needs only a bounded number of      *)
(* evaluation steps."                                                      *)
(*                                                                         *)
(* The interpreter seen from the Go caller is a one-state machine: every   *)
(* call Eval(text) / LoadRun(text) / ParseEval(text) / MacroExpand(text)   *)
(* returns with an outcome in {value, error, more-input, budget exhausted} *)
(* and leaves the interpreter usable for the next call.  A case is a       *)
(* sequence of calls on ONE real interpreter with the outcome of each;     *)
(* escaped panics, a nil result with a nil error, the death of the process *)
(* and a call that does not return although the step budget bounds the     *)
(* evaluation ("hung": the worker's time limit passed) are outcomes the    *)
(* machine does not have.                                                  *)
(***************************************************************************)
EXTENDS Integers, Sequences, Json, IOUtils, TLC

ASSUME TLCSet(11, ndJsonDeserialize(IOEnv.VERIF_TRACE))
Cases == TLCGet(11)

VARIABLES ci, pos, verdict
tvars == <<ci, pos, verdict>>

Returns == {"val", "err", "more", "budget"}

TInit == ci \in 1..Len(Cases) /\ pos = 1 /\ verdict = "run"

TStep ==
    /\ verdict = "run" /\ pos <= Len(Cases[ci].outs)
    /\ LET o == Cases[ci].outs[pos] IN
       IF o[1] \in Returns THEN pos' = pos + 1 /\ UNCHANGED <<ci, verdict>>
       ELSE IF o[1] = "notrun" THEN /\ verdict' = "skip" /\ UNCHANGED <<ci, pos>>
                                    /\ PrintT(<<"VERDICT", Cases[ci].id, "skip", "notrun">>)
       ELSE /\ verdict' = "bad" /\ UNCHANGED <<ci, pos>>
            /\ PrintT(<<"VERDICT", Cases[ci].id, "bad", o[1], pos>>)

TDone ==
    /\ verdict = "run" /\ pos > Len(Cases[ci].outs)
    /\ IF Len(Cases[ci].outs) = Len(Cases[ci].texts)
       THEN verdict' = "ok" /\ PrintT(<<"VERDICT", Cases[ci].id, "ok", pos - 1>>)
       ELSE verdict' = "bad" /\ PrintT(<<"VERDICT", Cases[ci].id, "bad", "missing-outcome", pos>>)
    /\ UNCHANGED <<ci, pos>>

TNext == TStep \/ TDone
TSpec == TInit /\ [][TNext]_tvars
=============================================================================
