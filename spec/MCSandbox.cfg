SPECIFICATION Spec
CONSTANTS
  MaxDepth = 3
  Mint = FALSE
INVARIANTS TypeOK NoMinting DeadStaysDead
CHECK_DEADLOCK FALSE
