SPECIFICATION Spec
CONSTANTS
  MaxDepth = 3
  Mint = FALSE
CONSTANT U <- MCU
INVARIANTS TypeOK NoMinting DeadStaysDead
CHECK_DEADLOCK FALSE
