SPECIFICATION Spec
CONSTANTS
  MaxDepth = 4
  Mint = FALSE
INVARIANTS TypeOK NoMinting DeadStaysDead
CHECK_DEADLOCK FALSE
