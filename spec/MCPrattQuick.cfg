SPECIFICATION Spec
CONSTANTS
  MaxOps = 3
  MaxStmts = 1
  UniqLen = 5
  Devs = {}
INVARIANTS Agree Valid Unique
CHECK_DEADLOCK FALSE
