SPECIFICATION ISpec
CONSTANTS
  Keys <- MCKeysQuick
  Vals <- MCVals
  Code <- MCCode
  MaxLen = 7
  DelAsPinned = TRUE
  StripOnce = FALSE
INVARIANTS Refines CountAgrees OrderExact NoDupKeys Bounded
PROPERTY LookupPure
CHECK_DEADLOCK FALSE
