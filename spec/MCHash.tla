----------------------------- MODULE MCHash -----------------------------
(* Model-checking instance of HashImpl => HashMap: a key universe with     *)
(* every supported key kind, aliases (chr/int, [x]/x) and colliding bucket *)
(* codes (a symbol's number equal to an int key; a string's FNV code equal *)
(* to an int key).  The state space is finite (content is an ordered       *)
(* subset of the keys), so TLC covers histories of every length.           *)
EXTENDS HashImpl

Arr1(x) == <<"arr", <<x>>>>
MCKeysQuick == { <<"sym","a">>, <<"str","s">>, <<"int",7>>, <<"int",100>>, Arr1(Arr1(<<"chr",7>>)) }  \* [[chr 7]] is the chr/int alias and the nested array in one
MCKeys == { <<"sym","a">>, <<"sym","b">>, <<"str","s">>, <<"int",7>>, <<"chr",7>>,
            <<"int",100>>, Arr1(<<"int",100>>), Arr1(Arr1(<<"chr",7>>)) }
MCVals == { <<"int",1>>, <<"int",2>> }
MCCode(k) == CASE k = <<"sym","a">> -> 100      \* collides with the int key 100
               [] k = <<"sym","b">> -> 101
               [] k = <<"str","s">> -> 7        \* collides with the int key 7
               [] k[1] = "int" -> k[2]
               [] k[1] = "arr" -> 900           \* an array is hashed by its printed form
               [] OTHER -> 0
=============================================================================
