------------------------------ MODULE ZSem ------------------------------
(***************************************************************************)
(* ZSem -- a definitional (reference) interpreter of the zygomys core      *)
(* language, written as recursive TLA+ operators.  It is the oracle of     *)
(* C02 (values, control flow, effect order), C03 (lexical scoping), C05    *)
(* (state after a failure), C09 (tail calls are invisible: there is no     *)
(* tail-call optimisation here), C15 (macro templates) and C16 (lazy       *)
(* parameters).                                                            *)
(*                                                                         *)
(* Programs are ASTs as tagged tuples (the JSON the Go harness renders to  *)
(* script text):                                                           *)
(*   <<"int",n>> <<"str",s>> <<"bool",b>> <<"nil">> <<"sym",x>>            *)
(*   <<"quote",datum>> <<"arr",<<e..>>>>                                    *)
(*   <<"def",x,e>> <<"set",x,e>>                                           *)
(*   <<"let",<<<<x,e>>..>>,<<body..>>>> <<"letseq",..>>                     *)
(*   <<"scope",<<body..>>>> <<"begin",<<body..>>>>                          *)
(*   <<"cond",<<<<test,arm>>..>>,default>> <<"and",<<e..>>>> <<"or",..>>    *)
(*   <<"for",label,init,test,step,<<body..>>>> <<"break",label>>           *)
(*   <<"continue",label>>            (label "" = none)                     *)
(*   <<"fn",params,rest,<<body..>>>> <<"defn",name,params,rest,<<body>>>>  *)
(*        params = <<<<name, lazy>>..>>, rest = "" or the name of the      *)
(*        variadic parameter                                               *)
(*   <<"call",callee,<<arg..>>>>     (callee first, then args left→right)  *)
(*   <<"assert",e>>                                                        *)
(*   <<"dot",x,<<k..>>>>    the dot path x.k1.k2: the variable x (looked up  *)
(*        lexically like any variable) holds a hash; the value is            *)
(*        (hget (hget x 'k1) 'k2)                                            *)
(*   <<"setdot",x,<<k..>>,e>>   (set x.k1.k2 e): hset on the hash reached    *)
(*        through the variable x                                             *)
(*   <<"ehash">>            the empty hash literal {}: a new hash per        *)
(*        evaluation, as (hash)                                              *)
(*                                                                         *)
(* Values: <<"int",n>> <<"str",s>> <<"bool",b>> <<"nil">> <<"sym",x>>      *)
(*   <<"list",<<v..>>>> (the empty list is nil) <<"arr",<<v..>>>>          *)
(*   <<"clo",id>> <<"bi",name>> <<"lazy",id>>                              *)
(*   <<"aref",id>> an array made by the running program: a mutable heap    *)
(*   object (aset), shared by every holder of the reference; <<"arr",..>>  *)
(*   remains the immutable array of quoted data                            *)
(*   <<"href",id>> a hash: a heap object holding <<key,value>> pairs in    *)
(*   first-insertion order (hset, hdel, hget, keys, hpair, len)            *)
(*                                                                         *)
(* State: [fr, clo, thk, obj, fx, fuel, calls, failAt, devs, used].  devs: the named        *)
(* deviations (known open findings of the implementation) this evaluation reproduces, used:  *)
(* those that actually changed something; the reference semantics is devs = {}.              *)
(* Frames are heap objects          *)
(* [vars, parent] so that closures share and outlive activations.          *)
(* A result is [k, v, s] with k in                                         *)
(*   "val" | "err" | "brk" | "cnt" (v = label) | "oof" (fuel exhausted) |  *)
(*   "undef" (the reference semantics declines to define the outcome:      *)
(*            the case is then not judged).                                *)
(***************************************************************************)
EXTENDS Integers, Sequences, FiniteSets, TLC

Nil == <<"nil">>
I(n) == <<"int", n>>
B(b) == <<"bool", b>>
MkList(s) == IF Len(s) = 0 THEN Nil ELSE <<"list", s>>

(* ---------------- heap objects: arrays and hashes ---------------- *)
IsArr(v) == v[1] \in {"arr", "aref"}
IsSeqV(v) == v[1] \in {"list", "arr", "aref"}
Elems(v, s) == IF v[1] = "aref" THEN s.obj[v[2]].e ELSE v[2]     \* elements of a list or array
(* fz: the object shares storage with another one (rest of an array): the outcome of a later *)
(* mutation of either is left undefined                                                     *)
AllocObj(kind, tag, e, s) ==
    [k |-> "val", v |-> <<tag, Len(s.obj) + 1>>,
     s |-> [s EXCEPT !.obj = Append(s.obj, [k |-> kind, e |-> e, fz |-> FALSE])]]
AllocArr(e, s) == AllocObj("arr", "aref", e, s)
AllocHash(pairs, s) == AllocObj("hash", "href", pairs, s)

(* what an observer sees of a value at one moment: heap objects by their present contents, *)
(* functions opaque (the projection the harness applies to real values)                    *)
RECURSIVE Snap(_, _, _)
Snap(v, s, d) ==
    IF d = 0 THEN <<"deep">>
    ELSE CASE v[1] \in {"clo", "bi"} -> <<"fn">>
           [] v[1] = "lazy" -> <<"lazy">>
           [] v[1] \in {"list", "arr"} -> <<v[1], [i \in 1..Len(v[2]) |-> Snap(v[2][i], s, d - 1)]>>
           [] v[1] = "aref" -> LET e == s.obj[v[2]].e IN <<"arr", [i \in 1..Len(e) |-> Snap(e[i], s, d - 1)]>>
           [] v[1] = "href" -> LET e == s.obj[v[2]].e IN
                               <<"hash", "hash", [i \in 1..Len(e) |-> <<Snap(e[i][1], s, d - 1), Snap(e[i][2], s, d - 1)>>]>>
           [] OTHER -> v
SnapAll(a, s) == [j \in 1..Len(a) |-> Snap(a[j], s, 12)]

(* IsTruthy: false, nil, integer zero and character zero are falsy;       *)
(* 0.0, "" and [] are truthy                                               *)
Truthy(v) == ~( v = Nil \/ v = B(FALSE) \/ (v[1] \in {"int", "chr"} /\ v[2] = 0) )

Res(k, v, s) == [k |-> k, v |-> v, s |-> s]
Val(v, s) == Res("val", v, s)
ErrR(c, s) == Res("err", c, s)
IsVal(r) == r.k = "val"

MaxInt == 1000000   \* beyond this the arithmetic of the oracle is not trusted (TLC ints are 32-bit)

(* ---------------- frames ---------------- *)
NewFrame(s, parent) ==
    [s EXCEPT !.fr = Append(s.fr, [vars |-> <<>>, parent |-> parent])]
TopId(s) == Len(s.fr)

Has(s, f, x) == x \in DOMAIN s.fr[f].vars

RECURSIVE FindFrame(_, _, _)
FindFrame(s, f, x) ==          \* frame in which x is bound lexically, 0 if none
    IF f = 0 THEN 0
    ELSE IF Has(s, f, x) THEN f
    ELSE FindFrame(s, s.fr[f].parent, x)

Bind(s, f, x, v) ==
    [s EXCEPT !.fr[f].vars = [y \in (DOMAIN s.fr[f].vars) \cup {x} |->
                                   IF y = x THEN v ELSE s.fr[f].vars[y]]]

(* the type BindSymbol compares when a name is re-bound in the same scope *)
TypeOf(v) == CASE v[1] \in {"int", "str", "bool", "sym", "hash", "flt", "chr"} -> v[1]
               [] v[1] \in {"arr", "aref"} -> "arr"
               [] v[1] = "href" -> "hash"
               [] OTHER -> "none"       \* nil, lists, functions: untyped

(* def: bind in the innermost frame; a re-binding must keep the type *)
DefIn(s, f, x, v) ==
    IF Has(s, f, x)
    THEN LET old == s.fr[f].vars[x] IN
         IF TypeOf(old) = "none" \/ TypeOf(v) = "none" \/ (TypeOf(old) = TypeOf(v) /\ TypeOf(v) # "arr")
         THEN Val(v, Bind(s, f, x, v))
         ELSE IF TypeOf(old) = "arr" /\ TypeOf(v) = "arr" THEN Res("undef", "rebind-array", s)
         ELSE ErrR("type", s)
    ELSE Val(v, Bind(s, f, x, v))

Builtins == {"+", "-", "*", "/", "mod", "**", "==", "!=", "<", ">", "<=", ">=", "not",
             "list", "cons", "first", "rest", "len", "append", "concat", "aget", "array",
             "trace", "tr", "map", "apply", "fail", "force", "substitute", "str", "hash", "hget", "hset", "keys",
             "null?", "empty?", "second", "aset", "hdel", "hpair"}

(* ---------------- builtins over data ---------------- *)
AllInts(a) == \A i \in 1..Len(a) : a[i][1] = "int"

RECURSIVE FoldArith(_, _, _)
FoldArith(op, acc, rest) ==
    IF Len(rest) = 0 THEN acc
    ELSE LET n == IF op = "+" THEN acc + rest[1][2]
                  ELSE IF op = "-" THEN acc - rest[1][2] ELSE acc * rest[1][2]
         IN IF n > MaxInt \/ n < -MaxInt THEN MaxInt + 1 ELSE FoldArith(op, n, Tail(rest))

(* hashes: keys are symbols, strings and integers (other key kinds are not modelled) *)
KeyOk(k) == k[1] \in {"sym", "str", "int"}
HIdx(pairs, k) == IF \E i \in 1..Len(pairs) : pairs[i][1] = k
                  THEN CHOOSE i \in 1..Len(pairs) : pairs[i][1] = k ELSE 0

(* the kinds == and != are defined on: nil is the empty list, so nil and lists are one kind *)
KindOf(v) == IF IsArr(v) THEN "arr" ELSE IF v[1] = "href" THEN "hash" ELSE IF v[1] \in {"nil", "list"} THEN "list" ELSE v[1]
EqKinds == {"int", "str", "bool", "sym", "list", "arr", "hash"}

RECURSIVE ValEqS(_, _, _), EqDefined(_, _, _)
ValEqS(a, b, s) ==      \* structural equality on data of the same kind
    IF IsArr(a) /\ IsArr(b)
    THEN LET x == Elems(a, s) y == Elems(b, s) IN
         Len(x) = Len(y) /\ \A i \in 1..Len(x) : ValEqS(x[i], y[i], s)
    ELSE IF a[1] = "href" /\ b[1] = "href"      \* the same keys (in any order) with equal values
    THEN LET x == s.obj[a[2]].e y == s.obj[b[2]].e IN
         Len(x) = Len(y) /\ \A i \in 1..Len(x) : HIdx(y, x[i][1]) # 0 /\ ValEqS(x[i][2], y[HIdx(y, x[i][1])][2], s)
    ELSE IF a[1] # b[1] THEN FALSE        \* also nil (the empty list) against a list, which has elements
    ELSE IF a[1] = "list"
         THEN Len(a[2]) = Len(b[2]) /\ \A i \in 1..Len(a[2]) : ValEqS(a[2][i], b[2][i], s)
         ELSE a = b
(* equality is defined when every pair of corresponding parts is of one kind (what comparing an   *)
(* integer with a string inside two arrays means is left open, as it is at the top)                 *)
EqDefined(a, b, s) ==
    IF KindOf(a) # KindOf(b) \/ KindOf(a) \notin EqKinds THEN FALSE
    ELSE IF IsArr(a)
    THEN LET x == Elems(a, s) y == Elems(b, s) IN
         \A i \in 1..(IF Len(x) < Len(y) THEN Len(x) ELSE Len(y)) : EqDefined(x[i], y[i], s)
    ELSE IF a[1] = "href"
    THEN LET x == s.obj[a[2]].e y == s.obj[b[2]].e IN
         \A i \in 1..Len(x) : HIdx(y, x[i][1]) = 0 \/ EqDefined(x[i][2], y[HIdx(y, x[i][1])][2], s)
    ELSE IF a[1] = "list" /\ b[1] = "list"
    THEN \A i \in 1..(IF Len(a[2]) < Len(b[2]) THEN Len(a[2]) ELSE Len(b[2])) : EqDefined(a[2][i], b[2][i], s)
    ELSE TRUE

SeqOf(v, s) == IF v = Nil THEN <<>> ELSE Elems(v, s)   \* elements of a list or array

HPut(pairs, k, v) == LET i == HIdx(pairs, k) IN
                     IF i # 0 THEN [pairs EXCEPT ![i] = <<k, v>>] ELSE Append(pairs, <<k, v>>)
HDrop(pairs, k) == LET i == HIdx(pairs, k) IN
                   IF i = 0 THEN pairs ELSE SubSeq(pairs, 1, i - 1) \o SubSeq(pairs, i + 1, Len(pairs))
RECURSIVE HBuild(_, _, _)
HBuild(a, i, pairs) == IF i > Len(a) THEN pairs ELSE HBuild(a, i + 2, HPut(pairs, a[i], a[i + 1]))

RECURSIVE ConcatAll(_, _, _, _)
ConcatAll(a, i, acc, s) == IF i > Len(a) THEN acc ELSE ConcatAll(a, i + 1, acc \o Elems(a[i], s), s)
RECURSIVE ConcatStrs(_, _, _)
ConcatStrs(a, i, acc) == IF i > Len(a) THEN acc ELSE ConcatStrs(a, i + 1, acc \o a[i][2])

Pure(name, a, s) ==
  LET n == Len(a) IN
  CASE name \in {"+", "-", "*"} ->
         IF n = 0 THEN ErrR("arity", s)
         ELSE IF n = 1 /\ name # "+" THEN Res("undef", "unary-minus-or-deref", s)
         ELSE IF ~AllInts(a) THEN
              (IF \E i \in 1..n : a[i][1] \notin {"int", "flt", "chr"} THEN ErrR("type", s) ELSE Res("undef", "float", s))
         ELSE IF n = 1 THEN Val(a[1], s)
         ELSE LET r == FoldArith(name, a[1][2], Tail(a)) IN
              IF r > MaxInt THEN Res("undef", "overflow", s) ELSE Val(I(r), s)
    [] name = "/" ->
         IF n # 2 THEN Res("undef", "div-arity", s)
         ELSE IF ~AllInts(a) THEN (IF \E i \in 1..n : a[i][1] \notin {"int", "flt", "chr"} THEN ErrR("type", s) ELSE Res("undef", "float", s))
         ELSE IF a[2][2] = 0 THEN ErrR("div0", s)
         ELSE IF a[1][2] % a[2][2] = 0 /\ a[1][2] >= 0 /\ a[2][2] > 0 THEN Val(I(a[1][2] \div a[2][2]), s)
         ELSE Res("undef", "inexact-or-negative-division", s)
    [] name = "**" ->     \* integer power, defined for a non-negative exponent while the result is small
         IF n # 2 THEN Res("undef", "pow-arity", s)
         ELSE IF ~AllInts(a) THEN (IF \E i \in 1..n : a[i][1] \notin {"int", "flt", "chr"} THEN ErrR("type", s) ELSE Res("undef", "float", s))
         ELSE IF a[2][2] < 0 \/ a[2][2] > 20 THEN Res("undef", "pow-exponent", s)
         ELSE LET r == FoldArith("*", 1, [i \in 1..a[2][2] |-> a[1]]) IN
              IF r > MaxInt THEN Res("undef", "overflow", s) ELSE Val(I(r), s)
    [] name = "mod" ->
         IF n # 2 THEN ErrR("arity", s)
         ELSE IF ~AllInts(a) THEN Res("undef", "mod-type", s)
         ELSE IF a[2][2] = 0 THEN ErrR("div0", s)
         ELSE IF a[1][2] >= 0 /\ a[2][2] > 0 THEN Val(I(a[1][2] % a[2][2]), s)
         ELSE Res("undef", "negative-mod", s)
    [] name \in {"==", "!=", "<", ">", "<=", ">="} ->
         IF n # 2 THEN ErrR("arity", s)
         ELSE IF AllInts(a) THEN
              LET x == a[1][2] y == a[2][2]
                  r == CASE name = "==" -> x = y [] name = "!=" -> x # y [] name = "<" -> x < y
                         [] name = ">" -> x > y [] name = "<=" -> x <= y [] name = ">=" -> x >= y
              IN Val(B(r), s)
         ELSE IF name \in {"==", "!="} /\ EqDefined(a[1], a[2], s)
              THEN Val(B(IF name = "==" THEN ValEqS(a[1], a[2], s) ELSE ~ValEqS(a[1], a[2], s)), s)
         ELSE Res("undef", "compare-kinds", s)
    [] name = "not" ->
         IF n # 1 THEN ErrR("arity", s) ELSE Val(B(~Truthy(a[1])), s)
    [] name = "list" -> Val(MkList(a), s)
    [] name = "array" -> AllocArr(a, s)
    [] name = "cons" ->
         IF n # 2 THEN ErrR("arity", s)
         ELSE IF a[2] = Nil THEN Val(<<"list", <<a[1]>>>>, s)
         ELSE IF a[2][1] = "list" THEN Val(<<"list", <<a[1]>> \o a[2][2]>>, s)
         ELSE Res("undef", "dotted-pair", s)
    [] name = "first" ->
         IF n # 1 THEN ErrR("arity", s)
         ELSE IF IsSeqV(a[1]) /\ Len(Elems(a[1], s)) > 0 THEN Val(Elems(a[1], s)[1], s)
         ELSE IF IsArr(a[1]) \/ a[1] = Nil THEN ErrR("empty", s)
         ELSE ErrR("type", s)
    [] name = "second" ->
         IF n # 1 THEN ErrR("arity", s)
         ELSE IF IsSeqV(a[1]) /\ Len(Elems(a[1], s)) > 1 THEN Val(Elems(a[1], s)[2], s)
         ELSE IF IsSeqV(a[1]) \/ a[1] = Nil THEN ErrR("empty", s)
         ELSE ErrR("type", s)
    [] name = "rest" ->
         IF n # 1 THEN ErrR("arity", s)
         ELSE IF a[1] = Nil THEN Val(Nil, s)
         ELSE IF a[1][1] = "list" THEN Val(MkList(Tail(a[1][2])), s)
         ELSE IF IsArr(a[1]) THEN
              (* the rest of an array shares the array's storage: both are frozen *)
              LET e == Elems(a[1], s)
                  r == AllocArr(IF Len(e) = 0 THEN <<>> ELSE Tail(e), s)
                  s2 == [r.s EXCEPT !.obj[r.v[2]].fz = TRUE]
              IN Val(r.v, IF a[1][1] = "aref" THEN [s2 EXCEPT !.obj[a[1][2]].fz = TRUE] ELSE s2)
         ELSE ErrR("type", s)
    [] name = "len" ->
         IF n # 1 THEN ErrR("arity", s)
         ELSE IF a[1] = Nil THEN Val(I(0), s)
         ELSE IF IsSeqV(a[1]) THEN Val(I(Len(Elems(a[1], s))), s)
         ELSE IF a[1][1] = "href" THEN Val(I(Len(s.obj[a[1][2]].e)), s)
         ELSE IF a[1][1] = "str" THEN Val(I(Len(a[1][2])), s)      \* generated strings are ASCII
         ELSE ErrR("type", s)
    [] name = "append" ->            \* a new array: the argument is left as it was
         IF n # 2 THEN ErrR("arity", s)
         ELSE IF IsArr(a[1]) THEN AllocArr(Append(Elems(a[1], s), a[2]), s)
         ELSE IF a[1][1] = "str" THEN Res("undef", "append-str", s)
         ELSE ErrR("type", s)
    [] name = "concat" ->            \* a new array / string / list
         IF n >= 1 /\ \A i \in 1..n : IsArr(a[i]) THEN AllocArr(ConcatAll(a, 1, <<>>, s), s)
         ELSE IF n >= 1 /\ \A i \in 1..n : a[i][1] = "str" THEN Val(<<"str", ConcatStrs(a, 1, "")>>, s)
         ELSE IF n >= 1 /\ \A i \in 1..n : a[i][1] \in {"nil", "list"}      \* nil is the empty list
              THEN Val(MkList(ConcatAll([i \in 1..n |-> <<"list", SeqOf(a[i], s)>>], 1, <<>>, s)), s)
         ELSE IF n >= 1 /\ (IsArr(a[1]) \/ a[1][1] = "str") THEN ErrR("type", s)
         ELSE Res("undef", "concat", s)
    [] name \in {"aget", "hget"} /\ (n < 1 \/ ~(a[1][1] = "href")) ->
         IF n < 2 \/ n > 3 THEN (IF n = 1 /\ name = "hget" /\ IsArr(a[1]) THEN ErrR("arity", s) ELSE Res("undef", "aget-arity", s))
         ELSE IF ~IsArr(a[1]) THEN ErrR("type", s)
         ELSE IF a[2][1] # "int" THEN (IF a[2][1] \in {"str", "bool", "nil", "flt"} THEN ErrR("type", s) ELSE Res("undef", "aget-index-kind", s))
         ELSE IF a[2][2] >= 0 /\ a[2][2] < Len(Elems(a[1], s)) THEN Val(Elems(a[1], s)[a[2][2] + 1], s)
         ELSE IF n = 3 THEN Val(a[3], s)
         ELSE ErrR("index", s)
    [] name = "aset" ->              \* in place: every holder of the array sees the change
         IF n # 3 THEN (IF n = 2 /\ IsArr(a[1]) THEN ErrR("arity", s) ELSE Res("undef", "aset-arity", s))
         ELSE IF ~IsArr(a[1]) THEN ErrR("type", s)
         ELSE IF a[2][1] # "int" THEN Res("undef", "aset-index-kind", s)
         ELSE IF a[2][2] < 0 \/ a[2][2] >= Len(Elems(a[1], s)) THEN ErrR("index", s)
         ELSE IF a[1][1] # "aref" THEN Res("undef", "aset-on-constant", s)
         ELSE IF s.obj[a[1][2]].fz THEN Res("undef", "aset-on-shared-storage", s)
         ELSE Val(Nil, [s EXCEPT !.obj[a[1][2]].e[a[2][2] + 1] = a[3]])
    [] name = "hash" ->
         IF n % 2 # 0 THEN ErrR("arity", s)
         ELSE IF \E i \in 1..n : i % 2 = 1 /\ ~KeyOk(a[i]) THEN Res("undef", "hash-key-kind", s)
         ELSE AllocHash(HBuild(a, 1, <<>>), s)
    [] name = "hget" /\ n >= 1 /\ a[1][1] = "href" ->              \* first argument is a hash (arrays are handled with aget above)
         IF n < 2 \/ n > 3 THEN Res("undef", "hget-arity", s)
         ELSE IF ~KeyOk(a[2]) THEN Res("undef", "hash-key-kind", s)
         ELSE LET pairs == s.obj[a[1][2]].e i == HIdx(pairs, a[2]) IN
              IF i # 0 THEN Val(pairs[i][2], s)
              ELSE IF n = 3 THEN Val(a[3], s) ELSE ErrR("nokey", s)
    [] name = "hset" ->
         IF n # 3 THEN (IF n \in {1, 2} THEN ErrR("arity", s) ELSE Res("undef", "hset-arity", s))
         ELSE IF a[1][1] # "href" THEN ErrR("type", s)
         ELSE IF ~KeyOk(a[2]) THEN Res("undef", "hash-key-kind", s)
         ELSE Val(Nil, [s EXCEPT !.obj[a[1][2]].e = HPut(@, a[2], a[3])])
    [] name = "hdel" ->
         IF n # 2 THEN (IF n \in {1, 3} THEN ErrR("arity", s) ELSE Res("undef", "hdel-arity", s))
         ELSE IF a[1][1] # "href" THEN ErrR("type", s)
         ELSE IF ~KeyOk(a[2]) THEN Res("undef", "hash-key-kind", s)
         ELSE Val(Nil, [s EXCEPT !.obj[a[1][2]].e = HDrop(@, a[2])])
    [] name = "keys" ->
         IF n # 1 THEN (IF n \in {2, 3} THEN ErrR("arity", s) ELSE Res("undef", "keys-arity", s))
         ELSE IF a[1][1] # "href" THEN ErrR("type", s)
         ELSE LET pairs == s.obj[a[1][2]].e IN AllocArr([i \in 1..Len(pairs) |-> pairs[i][1]], s)
    [] name = "hpair" ->
         IF n # 2 \/ a[1][1] # "href" \/ a[2][1] # "int" THEN Res("undef", "hpair", s)
         ELSE LET pairs == s.obj[a[1][2]].e IN
              IF a[2][2] < 0 \/ a[2][2] >= Len(pairs) THEN ErrR("index", s)
              ELSE Val(<<"list", pairs[a[2][2] + 1]>>, s)
    [] name = "null?" -> IF n # 1 THEN ErrR("arity", s) ELSE Val(B(a[1] = Nil), s)
    [] name = "empty?" ->
         IF n # 1 THEN ErrR("arity", s)
         ELSE IF a[1] = Nil THEN Val(B(TRUE), s)
         ELSE IF IsSeqV(a[1]) THEN Val(B(Len(Elems(a[1], s)) = 0), s)
         ELSE Res("undef", "empty?", s)
    [] name = "tr" ->        \* host function (tr k v): records <<k, v>> and returns v
         IF n # 2 THEN ErrR("arity", s) ELSE Val(a[2], [s EXCEPT !.fx = Append(s.fx, SnapAll(a, s))])
    [] name = "trace" ->     \* host function: the observable side effect
         Val(Nil, [s EXCEPT !.fx = Append(s.fx, SnapAll(a, s))])
    [] name = "fail" ->      \* host function that fails at its k-th call (C05)
         LET c == s.calls + 1 IN
         IF c = s.failAt THEN ErrR("user", [s EXCEPT !.calls = c])
         ELSE Val(I(c), [s EXCEPT !.calls = c])
    [] OTHER -> Res("undef", name, s)

(* the expression of a lazy argument as data (what substitute returns) *)
RECURSIVE Datum(_)
Datum(e) ==
    CASE e[1] \in {"int", "str", "bool", "nil", "sym"} -> e
      [] e[1] = "call" ->
           LET parts == <<Datum(e[2])>> \o [i \in 1..Len(e[3]) |-> Datum(e[3][i])] IN
           IF \E i \in 1..Len(parts) : parts[i] = <<"undef">> THEN <<"undef">> ELSE <<"list", parts>>
      [] OTHER -> <<"undef">>

(* ---------------- state, and what is refused when a text is compiled ---------------- *)
InitState(fuel, failAt) ==
    [fr |-> << [vars |-> <<>>, parent |-> 0] >>, clo |-> <<>>, thk |-> <<>>, obj |-> <<>>, fx |-> <<>>,
     fuel |-> fuel, calls |-> 0, failAt |-> failAt, devs |-> {}, used |-> {}]
DevOn(s, id) == id \in s.devs
UseDev(s, id) == [s EXCEPT !.used = @ \cup {id}]

(* break/continue outside a loop (or naming a label no enclosing loop has) is refused when the text *)
(* is compiled, before anything of it runs: FreeJump(e, labels) with labels the set of labels of     *)
(* the enclosing loops ("" stands for "some loop")                                                   *)
RECURSIVE FreeJump(_, _), FreeJumpSeq(_, _)
FreeJumpSeq(es, L) == \E i \in 1..Len(es) : FreeJump(es[i], L)
FreeJump(e, L) ==
    CASE e[1] \in {"break", "continue"} -> IF e[2] = "" THEN L = {} ELSE e[2] \notin L
      [] e[1] \in {"int", "str", "bool", "nil", "flt", "chr", "sym", "quote"} -> FALSE
      [] e[1] \in {"def", "set"} -> FreeJump(e[3], L)
      [] e[1] = "setdot" -> FreeJump(e[4], L)
      [] e[1] \in {"arr", "scope", "begin", "and", "or"} -> FreeJumpSeq(e[2], L)
      [] e[1] \in {"let", "letseq"} -> (\E i \in 1..Len(e[2]) : FreeJump(e[2][i][2], L)) \/ FreeJumpSeq(e[3], L)
      [] e[1] = "cond" -> (\E i \in 1..Len(e[2]) : FreeJump(e[2][i][1], L) \/ FreeJump(e[2][i][2], L)) \/ FreeJump(e[3], L)
      [] e[1] = "for" -> LET L2 == L \cup {"", e[2]} IN
                         FreeJump(e[3], L2) \/ FreeJump(e[4], L2) \/ FreeJump(e[5], L2) \/ FreeJumpSeq(e[6], L2)
      [] e[1] = "fn" -> FreeJumpSeq(e[4], L)
      [] e[1] = "defn" -> FreeJumpSeq(e[5], L)
      [] e[1] = "call" -> FALSE      \* callee and arguments are compiled when the call runs: what they hold is met then
      [] e[1] \in {"assert", "eval"} -> FALSE
      [] OTHER -> FALSE

(* a template whose unquoted expressions hold such a jump: the expressions are compiled on their own when the    *)
(* template is reached, apart from the loop around the template, so the jump is refused there whether or not it *)
(* would run; what a jump out of a template means is left undefined (see EvT)                                   *)
RECURSIVE TFreeJump(_)
TFreeJump(t) ==
    CASE t[1] \in {"unq", "splice"} -> FreeJump(t[2], {})
      [] t[1] \in {"list", "arr"} -> \E i \in 1..Len(t[2]) : TFreeJump(t[2][i])
      [] OTHER -> FALSE

(* ---------------- the evaluator ---------------- *)
RECURSIVE EvT(_, _, _), EvTSeq(_, _, _, _, _)
RECURSIVE Ev(_, _, _), EvSeq(_, _, _, _), EvArgsC(_, _, _, _, _, _, _), EvLetSeq(_, _, _, _, _), DotGet(_, _, _, _), DotSet(_, _, _, _, _), Call(_, _, _), Loop(_, _, _),
          EvBind(_, _, _, _, _), EvCond(_, _, _, _), EvShort(_, _, _, _, _), MapOver(_, _, _, _, _),
          Force(_, _)

(* a sequence of forms in frame f; value of the last, nil if empty *)
EvSeq(body, i, f, s) ==
    IF Len(body) = 0 THEN Val(Nil, s)
    ELSE LET r == Ev(body[i], f, s) IN
         IF ~IsVal(r) \/ i = Len(body) THEN r ELSE EvSeq(body, i + 1, f, r.s)

(* arguments left to right; lazy positions (mask) are wrapped, not evaluated.  A break or       *)
(* continue met while an argument is evaluated leaves the call as it leaves any other form: *)
(* the arguments evaluated so far are dropped, the call is not made.                         *)
(* Deviation "jump-in-argument" (open finding): the interpreter compiles the arguments of a   *)
(* call one by one when the call runs, each on its own, knowing nothing of the loops around   *)
(* the call; an argument that holds a break/continue of an enclosing loop is refused at that  *)
(* moment (after the callee and the earlier arguments were evaluated) with an error.  Array   *)
(* literals (call = FALSE) are compiled in line and are not affected.                          *)
EvArgsC(args, i, acc, mask, f, s, call) ==
    IF i > Len(args) THEN Val(acc, s)
    ELSE IF i <= Len(mask) /\ mask[i]
         THEN LET id == Len(s.thk) + 1
                  s1 == [s EXCEPT !.thk = Append(s.thk, [e |-> args[i], f |-> f, done |-> FALSE, v |-> Nil])]
              IN EvArgsC(args, i + 1, Append(acc, <<"lazy", id>>), mask, f, s1, call)
         ELSE IF call /\ DevOn(s, "jump-in-argument") /\ FreeJump(args[i], {})
         THEN ErrR("jump-in-argument", UseDev(s, "jump-in-argument"))
         ELSE LET r == Ev(args[i], f, s) IN
              IF ~IsVal(r) THEN r ELSE EvArgsC(args, i + 1, Append(acc, r.v), mask, f, r.s, call)
EvArgs(args, i, acc, mask, f, s) == EvArgsC(args, i, acc, mask, f, s, TRUE)

(* force a lazy argument: its expression is evaluated once, in the frame where it was written, however *)
(* that evaluation ends: a later force of an argument whose evaluation failed fails again without      *)
(* running it, and a force of the argument from inside its own evaluation is refused                   *)
Force(v, s) ==
    IF v[1] # "lazy" THEN Val(v, s)
    ELSE LET t == s.thk[v[2]] IN
         IF t.done THEN (IF t.v \in {<<"failed">>, <<"running">>} THEN ErrR("forced-again", s) ELSE Val(t.v, s))
         ELSE LET s1 == [s EXCEPT !.thk[v[2]] = [t EXCEPT !.done = TRUE, !.v = <<"running">>]]
                  r == Ev(t.e, t.f, s1)
              IN IF r.k = "err" THEN [r EXCEPT !.s.thk[v[2]] = [t EXCEPT !.done = TRUE, !.v = <<"failed">>]]
                 ELSE IF ~IsVal(r) THEN r
                 ELSE Val(r.v, [r.s EXCEPT !.thk[v[2]] = [t EXCEPT !.done = TRUE, !.v = r.v]])

LazyMask(fv, s) ==
    IF fv[1] = "clo" THEN [i \in 1..Len(s.clo[fv[2]].params) |-> s.clo[fv[2]].params[i][2]]
    ELSE <<>>

(* apply a function value to already prepared arguments *)
Call(fv, a, s) ==
    IF fv[1] = "bi" THEN
        CASE fv[2] = "map" ->
               IF Len(a) # 2 THEN Res("undef", "map-arity", s)
               ELSE IF a[1][1] \notin {"clo", "bi"} THEN ErrR("type", s)
               ELSE IF a[2] = Nil THEN Val(Nil, s)        \* nil is the empty list: nothing to apply the function to
               ELSE IF ~IsSeqV(a[2]) THEN ErrR("type", s)
               ELSE MapOver(a[1], <<a[2][1], Elems(a[2], s)>>, 1, <<>>, s)
          [] fv[2] = "apply" ->
               IF Len(a) # 2 THEN Res("undef", "apply-arity", s)
               ELSE IF a[2] # Nil /\ ~IsSeqV(a[2]) THEN ErrR("type", s)
               ELSE IF a[1][1] \notin {"clo", "bi"} THEN ErrR("type", s)
               ELSE Call(a[1], SeqOf(a[2], s), s)
          [] fv[2] = "force" ->
               IF Len(a) # 1 THEN Res("undef", "force-arity", s) ELSE Force(a[1], s)
          [] fv[2] = "substitute" ->      \* the source expression of a lazy argument, unevaluated
               IF Len(a) # 1 THEN Res("undef", "substitute-arity", s)
               ELSE IF a[1][1] # "lazy" THEN Val(a[1], s)
               ELSE LET d == Datum(s.thk[a[1][2]].e) IN
                    IF d = <<"undef">> THEN Res("undef", "substitute-datum", s) ELSE Val(d, s)
          [] OTHER -> Pure(fv[2], a, s)
    ELSE IF fv[1] = "clo" THEN
        LET c == s.clo[fv[2]]
            np == Len(c.params)
        IN IF (c.rest = "" /\ Len(a) # np) \/ (c.rest # "" /\ Len(a) < np) THEN ErrR("arity", s)
           ELSE LET s1 == NewFrame(s, c.env)
                    f == TopId(s1)
                    s2 == [s1 EXCEPT !.fr[f].vars =
                              [x \in {c.params[i][1] : i \in 1..np} \cup (IF c.rest = "" THEN {} ELSE {c.rest}) |->
                                  IF x = c.rest /\ c.rest # "" /\ ~(\E i \in 1..np : c.params[i][1] = x)
                                  THEN MkList(SubSeq(a, np + 1, Len(a)))
                                  ELSE a[CHOOSE i \in 1..np : c.params[i][1] = x /\ \A j \in (i+1)..np : c.params[j][1] # x]]]
                    r == EvSeq(c.body, 1, f, s2)
                IN IF r.k \in {"brk", "cnt"} THEN ErrR("break-outside-loop", r.s) ELSE r
    ELSE ErrR("notfn", s)

MapOver(fv, coll, i, acc, s) ==
    IF i > Len(coll[2]) THEN (IF coll[1] = "list" THEN Val(MkList(acc), s) ELSE AllocArr(acc, s))
    ELSE LET r == Call(fv, <<coll[2][i]>>, s) IN
         IF ~IsVal(r) THEN r ELSE MapOver(fv, coll, i + 1, Append(acc, r.v), r.s)

(* let: the right-hand sides are outside the scope of the names the let binds: all of them are   *)
(* evaluated, left to right, in the frame of the let form itself; then a fresh frame gets the    *)
(* bindings and the body runs in it.  A closure made in a right-hand side therefore closes over  *)
(* the bindings that were in scope where it was written, not over the ones this let adds.         *)
EvBind(seqmode, bs, i, f, st) ==      \* st = [s, vals]
    IF i > Len(bs) THEN Val(st.vals, st.s)
    ELSE LET r == Ev(bs[i][2], f, st.s) IN
         IF ~IsVal(r) THEN r
         ELSE EvBind(seqmode, bs, i + 1, f, [s |-> r.s, vals |-> Append(st.vals, r.v)])

(* letseq: the scope of a name is what follows its binding (the later right-hand sides and the    *)
(* body): every binding opens a frame of its own inside the previous one, so a later binding of   *)
(* the same name shadows the earlier one for what follows it and for nothing else.                 *)
EvLetSeq(bs, i, f, s, body) ==
    IF i > Len(bs)
    THEN (IF Len(bs) = 0 THEN LET s1 == NewFrame(s, f) IN EvSeq(body, 1, TopId(s1), s1) ELSE EvSeq(body, 1, f, s))
    ELSE LET r == Ev(bs[i][2], f, s) IN
         IF ~IsVal(r) THEN r
         ELSE LET s1 == NewFrame(r.s, f) g == TopId(s1) IN
              EvLetSeq(bs, i + 1, g, Bind(s1, g, bs[i][1], r.v), body)

RECURSIVE BindAll(_, _, _, _, _)
BindAll(bs, vals, i, f, s) ==         \* bindings are popped in reverse order
    IF i < 1 THEN Val(Nil, s)
    ELSE LET d == DefIn(s, f, bs[i][1], vals[i]) IN
         IF ~IsVal(d) THEN d ELSE BindAll(bs, vals, i - 1, f, d.s)

EvCond(clauses, i, dflt, fs) ==       \* fs = <<f, s>>
    IF i > Len(clauses) THEN Ev(dflt, fs[1], fs[2])
    ELSE LET t == Ev(clauses[i][1], fs[1], fs[2]) IN
         IF ~IsVal(t) THEN t
         ELSE IF Truthy(t.v) THEN Ev(clauses[i][2], fs[1], t.s)
         ELSE EvCond(clauses, i + 1, dflt, <<fs[1], t.s>>)

EvShort(isor, es, i, f, s) ==         \* value of the last arm evaluated
    LET r == Ev(es[i], f, s) IN
    IF ~IsVal(r) \/ i = Len(es) THEN r
    ELSE IF Truthy(r.v) = isor THEN r
    ELSE EvShort(isor, es, i + 1, f, r.s)

(* one loop: e = <<"for", label, init, test, step, body>>, frame f is the loop's own frame; *)
(* phase "test" | "step"                                                   *)
Loop(e, ph, fs) ==
    LET f == fs[1] s == fs[2] IN
    IF s.fuel <= 0 THEN Res("oof", Nil, s)
    ELSE IF ph = "step"
    THEN LET r == Ev(e[5], f, s) IN IF ~IsVal(r) THEN r ELSE Loop(e, "test", <<f, r.s>>)
    ELSE LET t == Ev(e[4], f, [s EXCEPT !.fuel = s.fuel - 1]) IN
         IF ~IsVal(t) THEN t
         ELSE IF ~Truthy(t.v) THEN Val(Nil, t.s)
         ELSE LET b == EvSeq(e[6], 1, f, t.s) IN
              CASE b.k = "val" -> Loop(e, "step", <<f, b.s>>)
                [] b.k = "brk" /\ (b.v = "" \/ b.v = e[2]) -> Val(Nil, b.s)
                [] b.k = "cnt" /\ (b.v = "" \/ b.v = e[2]) -> Loop(e, "step", <<f, b.s>>)
                [] OTHER -> b

(* dot paths: v is the value reached so far, ks the keys (symbols) still to follow *)
DotGet(v, ks, i, s) ==
    IF i > Len(ks) THEN Val(v, s)
    ELSE IF v[1] # "href" THEN Res("undef", "dot-on-non-hash", s)
    ELSE LET pairs == s.obj[v[2]].e j == HIdx(pairs, <<"sym", ks[i]>>) IN
         IF j = 0 THEN ErrR("nokey", s) ELSE DotGet(pairs[j][2], ks, i + 1, s)
DotSet(v, ks, i, new, s) ==       \* the value of the form is the value assigned, as for set
    IF v[1] # "href" THEN Res("undef", "dot-on-non-hash", s)
    ELSE LET pairs == s.obj[v[2]].e j == HIdx(pairs, <<"sym", ks[i]>>) IN
         IF i = Len(ks) THEN Val(new, [s EXCEPT !.obj[v[2]].e = HPut(@, <<"sym", ks[i]>>, new)])
         ELSE IF j = 0 THEN ErrR("nokey", s) ELSE DotSet(pairs[j][2], ks, i + 1, new, s)

Ev(e, f, s0) ==
  IF s0.fuel <= 0 THEN Res("oof", Nil, s0) ELSE
  LET s == [s0 EXCEPT !.fuel = s0.fuel - 1] IN
  CASE e[1] \in {"int", "str", "bool", "nil", "flt", "chr"} -> Val(e, s)
    [] e[1] = "sym" ->
         LET g == FindFrame(s, f, e[2]) IN
         IF g # 0 THEN Val(s.fr[g].vars[e[2]], s)
         ELSE IF e[2] \in Builtins THEN Val(<<"bi", e[2]>>, s)
         ELSE ErrR("unbound", s)
    [] e[1] = "quote" -> Val(e[2], s)
    [] e[1] = "arr" ->
         LET r == EvArgsC(e[2], 1, <<>>, <<>>, f, s, FALSE) IN
         IF ~IsVal(r) THEN r ELSE AllocArr(r.v, r.s)
    [] e[1] = "def" ->
         LET r == Ev(e[3], f, s) IN IF ~IsVal(r) THEN r ELSE DefIn(r.s, f, e[2], r.v)
    [] e[1] = "set" ->
         LET r == Ev(e[3], f, s) IN
         IF ~IsVal(r) THEN r
         ELSE LET g == FindFrame(r.s, f, e[2]) IN
              IF g # 0 THEN Val(r.v, Bind(r.s, g, e[2], r.v)) ELSE DefIn(r.s, f, e[2], r.v)
    [] e[1] = "let" ->
         LET r == EvBind(FALSE, e[2], 1, f, [s |-> s, vals |-> <<>>])
         IN IF ~IsVal(r) THEN r
            ELSE LET s1 == NewFrame(r.s, f)
                     g == TopId(s1)
                     b == BindAll(e[2], r.v, Len(e[2]), g, s1) IN
                 IF ~IsVal(b) THEN b ELSE EvSeq(e[3], 1, g, b.s)
    [] e[1] = "letseq" -> EvLetSeq(e[2], 1, f, s, e[3])
    [] e[1] = "dot" ->
         LET g == FindFrame(s, f, e[2]) IN
         IF g = 0 THEN ErrR("unbound", s) ELSE DotGet(s.fr[g].vars[e[2]], e[3], 1, s)
    [] e[1] = "setdot" ->
         LET r == Ev(e[4], f, s) IN
         IF ~IsVal(r) THEN r
         ELSE LET g == FindFrame(r.s, f, e[2]) IN
              IF g = 0 THEN ErrR("unbound", r.s) ELSE DotSet(r.s.fr[g].vars[e[2]], e[3], 1, r.v, r.s)
    [] e[1] = "ehash" -> AllocHash(<<>>, s)
    [] e[1] = "scope" ->
         IF Len(e[2]) = 0 THEN Val(Nil, s)
         ELSE LET s1 == NewFrame(s, f) IN EvSeq(e[2], 1, TopId(s1), s1)
    [] e[1] = "begin" -> EvSeq(e[2], 1, f, s)
    [] e[1] = "cond" -> EvCond(e[2], 1, e[3], <<f, s>>)
    [] e[1] = "and" -> EvShort(FALSE, e[2], 1, f, s)
    [] e[1] = "or"  -> EvShort(TRUE, e[2], 1, f, s)
    [] e[1] = "for" ->
         LET s1 == NewFrame(s, f)
             g == TopId(s1)
             r == Ev(e[3], g, s1)
         IN IF ~IsVal(r) THEN r ELSE Loop(e, "test", <<g, r.s>>)
    [] e[1] = "break" -> Res("brk", e[2], s)
    [] e[1] = "continue" -> Res("cnt", e[2], s)
    [] e[1] = "fn" ->
         LET id == Len(s.clo) + 1 IN
         Val(<<"clo", id>>, [s EXCEPT !.clo = Append(s.clo,
               [params |-> e[2], rest |-> e[3], body |-> e[4], env |-> f, name |-> ""])])
    [] e[1] = "defn" ->
         LET id == Len(s.clo) + 1
             s1 == [s EXCEPT !.clo = Append(s.clo,
                       [params |-> e[3], rest |-> e[4], body |-> e[5], env |-> f, name |-> e[2]])]
             d == DefIn(s1, f, e[2], <<"clo", id>>)
         IN IF ~IsVal(d) THEN d ELSE Val(Nil, d.s)
    [] e[1] = "call" ->
         LET c == Ev(e[2], f, s) IN
         IF ~IsVal(c) THEN c
         ELSE IF c.v[1] \notin {"clo", "bi"}
              THEN (IF Len(e[3]) = 0 THEN c        \* a non-function in head position with no arguments is itself
                    ELSE ErrR("notfn", c.s))        \* with arguments it is refused before any argument is evaluated
              ELSE LET r == EvArgs(e[3], 1, <<>>, LazyMask(c.v, c.s), f, c.s) IN
                   IF ~IsVal(r) THEN r ELSE Call(c.v, r.v, r.s)
    [] e[1] = "assert" ->
         LET r == Ev(e[2], f, s) IN
         IF ~IsVal(r) THEN r ELSE IF Truthy(r.v) THEN Val(Nil, r.s) ELSE ErrR("assert", r.s)
    [] e[1] = "sq" -> IF TFreeJump(e[2]) THEN Res("undef", "jump-out-of-template", s)
                      ELSE EvT(e[2], f, s)      \* ^template
    [] e[1] = "eval" ->     \* (eval (quote e)): e is compiled when reached and run in the current scope
         LET r == Ev(e[2], f, s) IN
         IF r.k \in {"brk", "cnt"} THEN ErrR("break-outside-loop", r.s) ELSE r
    [] OTHER -> Res("undef", e[1], s)

(* syntax-quote templates: <<"atom",datum>> <<"unq",e>> <<"splice",e>> <<"list",<<T..>>>> <<"arr",<<T..>>>>; *)
(* unquoted expressions are evaluated left to right in the current frame; a splice contributes the       *)
(* elements of its list                                                                                    *)
EvTSeq(ts, i, acc, f, s) ==
    IF i > Len(ts) THEN Val(acc, s)
    ELSE IF ts[i][1] = "splice"
         THEN LET r == Ev(ts[i][2], f, s) IN
              IF r.k \in {"brk", "cnt"} THEN Res("undef", "jump-out-of-template", r.s)
              ELSE IF ~IsVal(r) THEN r
              ELSE IF r.v = Nil THEN EvTSeq(ts, i + 1, acc, f, r.s)
              ELSE IF r.v[1] = "list" THEN EvTSeq(ts, i + 1, acc \o r.v[2], f, r.s)
              ELSE ErrR("splice-of-non-list", r.s)
         ELSE LET r == EvT(ts[i], f, s) IN
              IF ~IsVal(r) THEN r ELSE EvTSeq(ts, i + 1, Append(acc, r.v), f, r.s)

EvT(t, f, s) ==
    CASE t[1] = "atom" -> Val(t[2], s)
      [] t[1] = "unq" -> LET r == Ev(t[2], f, s) IN
                         IF r.k \in {"brk", "cnt"} THEN Res("undef", "jump-out-of-template", r.s) ELSE r
      [] t[1] = "list" -> LET r == EvTSeq(t[2], 1, <<>>, f, s) IN IF ~IsVal(r) THEN r ELSE Val(MkList(r.v), r.s)
      [] t[1] = "arr" -> LET r == EvTSeq(t[2], 1, <<>>, f, s) IN IF ~IsVal(r) THEN r ELSE AllocArr(r.v, r.s)
      [] OTHER -> Res("undef", "template", s)

(* ---------------- running a program ---------------- *)
(* a program is a sequence of top-level forms evaluated in the global frame *)
RunProgramD(forms, fuel, failAt, devs) ==      \* devs: the named deviations to reproduce ({} = the reference semantics)
    LET s0 == [InitState(fuel, failAt) EXCEPT !.devs = devs] IN
    IF FreeJumpSeq(forms, {}) THEN ErrR("compile", s0)
    ELSE LET r == EvSeq(forms, 1, 1, s0) IN
         IF r.k \in {"brk", "cnt"} THEN ErrR("break-outside-loop", r.s) ELSE r
RunProgram(forms, fuel, failAt) == RunProgramD(forms, fuel, failAt, {})

(* the observable outcome: value (closures opaque), or error, with the effects *)
RECURSIVE Obs(_)
Obs(v) == CASE v[1] \in {"clo", "bi"} -> <<"fn">>
            [] v[1] = "lazy" -> <<"lazy">>
            [] v[1] \in {"list", "arr"} -> <<v[1], [i \in 1..Len(v[2]) |-> Obs(v[2][i])]>>
            [] OTHER -> v
ObsFx(fx) == [i \in 1..Len(fx) |-> [j \in 1..Len(fx[i]) |-> Obs(fx[i][j])]]
(* the value of a result as the caller sees it when the evaluation returns *)
ObsR(r) == Snap(r.v, r.s, 12)
=============================================================================
