----------------------------- MODULE MCNumLit -----------------------------
(***************************************************************************)
(* Exhaustive exploration of the NumLit specification: every spelling of   *)
(* at most MaxLen symbols over the alphabet                                *)
(*    0 1 7 a _ x o b . e - ULL Inf NaN   (Wide: also 9 F E +)             *)
(* (a tree of spellings: each state is a spelling, its successors append   *)
(* one symbol).  Checked for every spelling:                               *)
(*   Disjoint       at most one notation recognises it (the order of the   *)
(*                  cascade cannot matter)                                 *)
(*   Canonical      a value is a canonical Decimal number                  *)
(*   Separators     underscores never change the value of a decimal or a   *)
(*                  float                                                  *)
(*   LeadingZeros   nor does a leading zero of a decimal                   *)
(*   Negation       -s denotes the negated value (decimal, float, Inf)     *)
(*   Bases          a hex / octal literal has the value of its binary      *)
(*                  expansion (two independent routes through BaseVal)     *)
(*   PointAndExp    d. = d ;  s e1 = 10 * s ;  s e-1 * 10 = s  (s with an     *)
(*                  integer part: the grammar has .5 but not .5e3)         *)
(*   RangeEdge      the int64 / uint64 range edges are classified exactly  *)
(***************************************************************************)
EXTENDS NumLit, TLC

CONSTANTS MaxLen,     \* symbols per spelling
          Wide        \* TRUE: the 18-symbol alphabet; FALSE: without 9 F E + (14 symbols)

Core == { <<48>>, <<49>>, <<55>>, <<97>>, <<95>>, <<120>>, <<111>>, <<98>>, <<46>>,
          <<101>>, <<45>>, <<85, 76, 76>>, <<73, 110, 102>>, <<78, 97, 78>> }
Alphabet == IF Wide THEN Core \cup { <<57>>, <<70>>, <<69>>, <<43>> } ELSE Core

VARIABLES s, n
Init == s = <<>> /\ n = 0
Next == n < MaxLen /\ \E a \in Alphabet : s' = s \o a /\ n' = n + 1
Spec == Init /\ [][Next]_<<s, n>>

K == Classify(s)
B2N(b) == IF b THEN 1 ELSE 0
Disjoint == B2N(IsUint(s)) + B2N(IsDec(s)) + B2N(IsHex(s)) + B2N(IsOct(s)) + B2N(IsBin(s))
            + B2N(IsFloat(s)) + B2N(IsNaNLit(s)) + B2N(IsInfLit(s)) <= 1

IsCanon(x) == x = Norm(x)
Canonical == K[1] \in {"int", "uint", "flt"} => IsCanon(K[2])

NotU(c) == c # 95
Separators == (IsDec(s) \/ IsFloat(s)) => LET t == SelectSeq(s, NotU) IN
                  (IsDec(t) \/ IsFloat(t)) /\ Classify(t) = K

LeadingZeros == (IsDec(s) /\ s[1] # Minus) => Classify(<<48>> \o s) = K

NegK(k) == IF k[1] \in {"int", "flt"} THEN <<k[1], Neg(k[2])>> ELSE k
Negation ==
    /\ (IsFloat(s) /\ s[1] # Minus) => Classify(<<Minus>> \o s) = NegK(K)
    /\ (IsDec(s) /\ s[1] # Minus /\ K[1] = "int") => Classify(<<Minus>> \o s) = NegK(K)
    /\ (IsInfLit(s) /\ s[1] \notin {Minus, Plus}) =>
           Classify(<<Minus>> \o s) = <<"inf", -1>> /\ Classify(<<Plus>> \o s) = <<"inf", 1>>

Bits(d, w) == [i \in 1..w |-> (d \div (2 ^ (w - i))) % 2]
RECURSIVE Expand(_, _, _)
Expand(ds, i, w) == IF i > Len(ds) THEN <<>> ELSE Bits(ds[i], w) \o Expand(ds, i + 1, w)
Bases ==
    /\ IsHex(s) => IntMag(s) = BaseVal(Expand(HexDigits(From(s, 3)), 1, 4), 2)
    /\ IsOct(s) => IntMag(s) = BaseVal(Expand(HexDigits(From(s, 3)), 1, 3), 2)
    /\ (IsUint(s) /\ IsHex(UBody(s)) /\ K[1] = "uint") => K[2] = IntNum(1, IntMag(UBody(s)))

Times10(x) == IF x = Zero THEN Zero ELSE <<x[1], x[2], x[3], x[4] + 1>>
NoneOf(t, P(_)) == \A i \in 1..Len(t) : ~P(t[i])
PointAndExp ==
    /\ (IsDec(s) /\ K[1] = "int") => Classify(s \o <<Dot>>) = <<"flt", K[2]>>
    /\ (IsFloat(s) /\ NoneOf(s, IsE) /\ IPart(Mant(FBody(s))) # <<>>) =>     \* (.5e3 is not in the grammar)
          /\ Classify(s \o <<101, 49>>) = <<"flt", Times10(K[2])>>
          /\ Classify(s \o <<69, 43, 48, 49>>) = <<"flt", Times10(K[2])>>
          /\ Times10(Classify(s \o <<101, 45, 49>>)[2]) = K[2]
          /\ Classify(s \o <<101, 48>>) = K

Str(t) == t    \* spellings are written as code sequences
RangeEdge ==       \* (evaluated once, at the spelling "0": a worker thread has the deep stack)
    s = <<48>> =>
      LET C(digs) == Classify([i \in 1..Len(digs) |-> digs[i] + 48]) IN
      /\ C(Int63) = <<"int", IntNum(1, Int63)>> /\ C(Int63p) = <<"range", "int">>
      /\ Classify(<<Minus>> \o [i \in 1..19 |-> Int63p[i] + 48]) = <<"int", IntNum(-1, Int63p)>>
      /\ Classify([i \in 1..20 |-> UInt64[i] + 48] \o ULL) = <<"uint", IntNum(1, UInt64)>>
      /\ Classify([i \in 1..20 |-> UInt64p[i] + 48] \o ULL) = <<"range", "uint">>
      /\ Classify(<<48, 120>> \o [i \in 1..16 |-> 102]) = <<"range", "int">>                \* 0xffffffffffffffff
      /\ Classify(<<48, 120, 55>> \o [i \in 1..15 |-> 102]) = <<"int", IntNum(1, Int63)>>   \* 0x7fffffffffffffff
      /\ Classify(<<48, 120>> \o [i \in 1..16 |-> 70] \o ULL) = <<"uint", IntNum(1, UInt64)>>
      /\ Classify(<<48, 98>> \o [i \in 1..63 |-> 49]) = <<"int", IntNum(1, Int63)>>
      /\ Classify(<<48, 111>> \o [i \in 1..21 |-> 55]) = <<"int", IntNum(1, Int63)>>
=============================================================================
