------------------------------ MODULE MCZVM ------------------------------
(***************************************************************************)
(* All instruction sequences of length <= MaxLen over a small alphabet run *)
(* on ZVM from the empty stack (one scope, names unbound).  hist is the    *)
(* sequence executed so far, snaps[i+1] the data stack after i steps, pcs  *)
(* likewise the program counter.  The invariants are stated over the       *)
(* HISTORY (what was pushed, in which order), not by unfolding Exec, so    *)
(* that a wrong Exec (Variant # "vm") is refuted.                          *)
(***************************************************************************)
EXTENDS ZVM, TLC

CONSTANT MaxLen

I0 == [op |-> "", n |-> 0, b |-> FALSE, sym |-> "", val |-> <<"nil">>, lp |-> 0, off |-> 0]
Push(v) == [I0 EXCEPT !.op = "push", !.val = v]
Op(o) == [I0 EXCEPT !.op = o]
OpS(o, x) == [I0 EXCEPT !.op = o, !.sym = x]
Alphabet ==
    { Push(<<"int", 1>>), Push(<<"int", 2>>), Push(<<"bool", FALSE>>),
      Op("pushmarker"), Op("squash"), Op("vectorize"), Op("explode"), Op("dup"), Op("pop"),
      [I0 EXCEPT !.op = "branch", !.b = TRUE, !.n = 2],
      OpS("pushmark", "m"), OpS("popuntilmark", "m"), OpS("clearmark", "m"),
      OpS("popstackputenv", "x"), OpS("envtostack", "x") }

VARIABLES s, env, hist, snaps, pcs
vars == <<s, env, hist, snaps, pcs>>

Init == /\ s = [pc |-> 0, st |-> <<>>, sc |-> 1, err |-> ""]
        /\ env = [x \in {"x"} |-> <<"unbound">>]
        /\ hist = <<>> /\ snaps = << <<>> >> /\ pcs = <<0>>

Next == /\ s.err = "" /\ Len(hist) < MaxLen
        /\ \E I \in Alphabet :
             LET r == ExecEnv(I, s, env) IN
             /\ s' = r.s /\ env' = r.env
             /\ hist' = Append(hist, I)
             /\ snaps' = Append(snaps, r.s.st)
             /\ pcs' = Append(pcs, r.s.pc)
Spec == Init /\ [][Next]_vars

N == Len(hist)
After(i) == snaps[i + 1]                     \* the data stack after i steps
Ok(i) == i < N \/ s.err = ""                 \* step i completed (only the last one can have failed)
Markers(st) == Cardinality({i \in 1..Len(st) : IsMarker(st[i])})
IsPrefix(a, b) == Len(a) <= Len(b) /\ SubSeq(b, 1, Len(a)) = a

(* squash / vectorize after a marker and k pushes: the list / array of exactly these k values in push order, *)
(* on top of the stack as it was before the marker                                                             *)
CollectExact ==
    \A i \in 1..N : \A k \in 0..(N - i - 1) :
        (/\ hist[i].op = "pushmarker"
         /\ \A j \in (i + 1)..(i + k) : hist[j].op = "push"
         /\ hist[i + k + 1].op \in {"squash", "vectorize"}
         /\ Ok(i + k + 1))
        => LET vs == [j \in 1..k |-> hist[i + j].val] IN
           After(i + k + 1) = Append(After(i - 1), IF hist[i + k + 1].op = "squash" THEN ListOf(vs) ELSE ArrOf(vs))

(* a completed squash / vectorize removes exactly one marker, the nearest; what it built contains none *)
MarkerDiscipline ==
    \A i \in 1..N : (hist[i].op \in {"squash", "vectorize"} /\ Ok(i)) =>
        /\ Markers(After(i)) = Markers(After(i - 1)) - 1
        /\ IsPrefix(Drop(After(i), 1), After(i - 1))
        /\ Top(After(i))[1] \in {"list", "arr", "nil"}
        /\ (Top(After(i))[1] # "nil" => \A e \in 1..Len(Top(After(i))[2]) : ~IsMarker(Top(After(i))[2][e]))

(* dup copies the TOP cell; dup;pop is the identity *)
DupTop ==
    \A i \in 1..N : (hist[i].op = "dup" /\ Ok(i)) =>
        /\ Drop(After(i), 1) = After(i - 1)
        /\ Top(After(i)) = Top(After(i - 1))
DupPop ==
    \A i \in 1..(N - 1) : (hist[i].op = "dup" /\ hist[i + 1].op = "pop" /\ Ok(i + 1)) => After(i + 1) = After(i - 1)

(* branch consumes exactly one cell and nothing else; direction from the cell pushed just before *)
BranchOne ==
    \A i \in 1..N : (hist[i].op = "branch" /\ Ok(i)) => After(i) = Drop(After(i - 1), 1)
BranchDir ==
    \A i \in 1..(N - 1) : (hist[i].op = "push" /\ hist[i + 1].op = "branch" /\ Ok(i + 1)) =>
        pcs[i + 2] = pcs[i + 1] + (IF hist[i].val \in {<<"bool", FALSE>>} THEN 1 ELSE 2)   \* b = TRUE, n = 2; 1 and 2 are true

(* explode undoes squash: the cells come back in push order, the marker does not *)
SquashExplode ==
    \A i \in 1..(N - 1) : (hist[i].op = "squash" /\ hist[i + 1].op = "explode" /\ Ok(i + 1)) =>
        LET b == After(i - 1)  m == TopMarker(After(i - 1)) IN
        After(i + 1) = SubSeq(b, 1, m - 1) \o SubSeq(b, m + 1, Len(b))

(* named marks: popuntilmark leaves the mark on top, clearmark removes it, both leave what was below *)
MarkDiscipline ==
    \A i \in 1..N : (hist[i].op \in {"popuntilmark", "clearmark"} /\ Ok(i)) =>
        /\ IsPrefix(After(i), After(i - 1))
        /\ hist[i].op = "popuntilmark" => IsMark(Top(After(i)), "m")
        /\ \A j \in (Len(After(i)) + (IF hist[i].op = "clearmark" THEN 2 ELSE 1))..Len(After(i - 1)) : ~IsMark(After(i - 1)[j], "m")

(* popstackputenv x pops exactly the cell the next envtostack x (no put between) pushes *)
PutGet ==
    \A i \in 1..N : \A j \in (i + 1)..N :
        (/\ hist[i].op = "popstackputenv" /\ hist[j].op = "envtostack" /\ Ok(j)
         /\ \A k \in (i + 1)..(j - 1) : hist[k].op # "popstackputenv")
        => /\ Top(After(j)) = Top(After(i - 1))
           /\ After(i) = Drop(After(i - 1), 1)
           /\ Drop(After(j), 1) = After(j - 1)
=============================================================================
