SPECIFICATION Spec
CONSTANTS
  KeyRule = "any"
  D1 = FALSE
  D2 = FALSE
  MaxSteps = 1
  Depth = 3
  StepTrees = FALSE
INVARIANTS Refines AliasNeutral NoPrivateWrite WalkAudit PrivateStable
CHECK_DEADLOCK FALSE
