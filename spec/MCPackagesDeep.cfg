SPECIFICATION Spec
CONSTANTS
  KeyRule = "any"
  D1 = FALSE
  D2 = FALSE
  D3 = FALSE
  MaxSteps = 1
  Depth = 3
  StepTrees = FALSE
INVARIANTS Refines AliasNeutral NoPrivateWrite WalkAudit PrivateStable InsideReads
CHECK_DEADLOCK FALSE
