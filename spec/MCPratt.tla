------------------------------ MODULE MCPratt ------------------------------
(***************************************************************************)
(* Design audit of Pratt.tla.  TLC GENERATES every token list of the       *)
(* documented grammar with at most MaxOps operators (every binary, prefix  *)
(* and postfix operator of the table) and at most MaxStmts statements      *)
(* (separated by `;` or by mere juxtaposition = newline), one token per    *)
(* step, and checks at the end of every list that                          *)
(*   - the algorithm of pratt.go (with the deviations Devs) and the        *)
(*     declarative definition produce the same statements,                 *)
(*   - every statement tree satisfies ValidTree (yield + binding powers),  *)
(*   - (lists of at most UniqLen tokens) ValidTree has exactly one         *)
(*     solution among ALL trees over the list.                             *)
(* With Devs = {} this must hold (MCPratt.cfg, MCPrattQuick.cfg); with the *)
(* deviations of the pinned code TLC must refute it (MCPrattPinned.cfg).   *)
(* if/else and go-style for statements are audited on a fixed family of    *)
(* lists in MCPrattForms.tla.                                              *)
(***************************************************************************)
EXTENDS Pratt, TLC

CONSTANTS MaxOps, MaxStmts, UniqLen, Devs

VARIABLES toks, st, ops, nst, phase
vars == <<toks, st, ops, nst, phase>>

A  == <<"sym", "a">>
B  == <<"sym", "b">>
I1 == <<"int", 1>>
Blk == <<"block", <<A, <<"op", "-">>, I1>> >>
AtomsAnywhere == {A}
AtomsAtStart  == {<<"path", "h.x">>, <<"call", "t", <<I1>> >>, Blk}
Postfixes == { <<"idx", <<I1>> >>, <<"dot", ".x">> }
Op(n) == <<"op", n>>

Init == toks = <<>> /\ st = "start" /\ ops = 0 /\ nst = 1 /\ phase = "gen"

GenAtom ==
    /\ phase = "gen" /\ st \in {"start", "operand"}
    /\ \E a \in AtomsAnywhere \cup (IF st = "start" THEN AtomsAtStart ELSE {}) :
          toks' = Append(toks, a)
    /\ st' = "after" /\ UNCHANGED <<ops, nst, phase>>
GenPre ==
    /\ phase = "gen" /\ st \in {"start", "operand"} /\ ops < MaxOps
    /\ \E n \in PreNames : toks' = Append(toks, Op(n))
    /\ st' = "operand" /\ ops' = ops + 1 /\ UNCHANGED <<nst, phase>>
GenBin ==
    /\ phase = "gen" /\ st = "after" /\ ops < MaxOps
    /\ \E n \in BinNames : toks' = Append(toks, Op(n))
    /\ st' = "operand" /\ ops' = ops + 1 /\ UNCHANGED <<nst, phase>>
GenPost ==
    /\ phase = "gen" /\ st = "after" /\ ops < MaxOps
    /\ \E p \in Postfixes : toks' = Append(toks, p)
    /\ ops' = ops + 1 /\ UNCHANGED <<st, nst, phase>>
GenInc ==
    /\ phase = "gen" /\ st = "after" /\ ops < MaxOps
    /\ \E n \in IncNames : toks' = Append(toks, Op(n))
    /\ st' = "ended" /\ ops' = ops + 1 /\ UNCHANGED <<nst, phase>>
GenSemi ==
    /\ phase = "gen" /\ st \in {"after", "ended"} /\ nst < MaxStmts
    /\ toks' = Append(toks, <<"semi">>)
    /\ st' = "start" /\ nst' = nst + 1 /\ UNCHANGED <<ops, phase>>
GenNewline ==            \* the next statement follows without a separator token
    /\ phase = "gen" /\ st \in {"after", "ended"} /\ nst < MaxStmts
    /\ st' = "start" /\ nst' = nst + 1 /\ UNCHANGED <<toks, ops, phase>>
Finish ==
    /\ phase = "gen"
    /\ st \in {"after", "ended"} \/ (st = "start" /\ toks # <<>> /\ IsSemi(toks[Len(toks)]))
    /\ phase' = "done" /\ UNCHANGED <<toks, st, ops, nst>>

Next == GenAtom \/ GenPre \/ GenBin \/ GenPost \/ GenInc \/ GenSemi \/ GenNewline \/ Finish
Spec == Init /\ [][Next]_vars

NoSemis(s) == SelectSeq(s, LAMBDA t : ~IsSemi(t))
RECURSIVE ConcatYield(_)
ConcatYield(ss) == IF ss = <<>> THEN <<>> ELSE Yield(Head(ss)) \o ConcatYield(Tail(ss))

(* the two definitions agree *)
Agree == phase = "done" =>
    LET ss == Stmts(toks)
        ps == PStmts(toks, Devs)
    IN /\ IncOnlyLast(toks) /\ \A i \in 1..Len(ss) : AstOK(ss[i])     \* = InDomain(toks)
       /\ ps = ss
       /\ TreeSeq(ps, Devs, FALSE) = TreeSeq(ss, {"decl"}, FALSE)    \* Algorithm = Expected

(* the result is a valid tree over exactly these tokens *)
Valid == phase = "done" =>
    LET ss == Stmts(toks) IN
    /\ \A i \in 1..Len(ss) : NodeOK(ss[i])
    /\ ConcatYield(ss) = NoSemis(toks)

(* ... and the only one *)
Unique == (phase = "done" /\ nst = 1 /\ Len(toks) <= UniqLen /\ toks = NoSemis(toks)) =>
    {t \in AllTrees(toks) : NodeOK(t)} = {ParseExpr(toks)}

=============================================================================
