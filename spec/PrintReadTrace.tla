-------------------------- MODULE PrintReadTrace --------------------------
(***************************************************************************)
(* Trace validation for C12.  Cases recorded on the real interpreter by    *)
(* `zv printread`:                                                         *)
(*                                                                         *)
(*  kind "pr":  v   the original value; rd = (read (str v)), judged when   *)
(*              rdj (v is built from integers, floats, booleans, nil,      *)
(*              characters, strings, symbols, lists, arrays);              *)
(*              ev = (eval (read (str v))), judged when evj (v is          *)
(*              JSON-like: numbers, strings, booleans, nil, arrays,        *)
(*              hashes); sv = (source f) after (save v f) for a hash v     *)
(*              (svj), judged like ev: data saved as text can be sourced.  *)
(*     required: rd = v and ev = v as abstract values: same kind (an       *)
(*     integer stays an integer, a float a float, ...), same number        *)
(*     (-0.0 and 0.0 are one value, NaN reads back as NaN), same runes,    *)
(*     same structure, same keys in the same order.                        *)
(*                                                                         *)
(*  kind "cls": one member m of a character class printed as a string or   *)
(*              as a character literal: emit = the escape tokens the       *)
(*              printer produced, rd = what the reader made of the text.   *)
(*     required: rd is exactly m.                                          *)
(*                                                                         *)
(*  kind "lit": a spelling sp read as the single element of an array text, *)
(*              between spaces, directly inside the brackets, or behind a  *)
(*              reader prefix (pre: % ^ ~ ~@, which wraps the datum in a   *)
(*              list headed by wrap): n = number of data read, got = the   *)
(*              datum, iv = the rounding interval of a finite float.       *)
(*  kind "qlit": a character or string literal written with the escape     *)
(*              tokens toks (raw, \c, \xHH, \uHHHH, \UHHHHHHHH): rd must be *)
(*              exactly the runes the tokens denote (Codec: ZyTokOK,       *)
(*              TokUnit); tokens that denote no rune are not judged.       *)
(*     required: what NumLit!Classify(sp) says (exact integer values,      *)
(*     correctly rounded floats, errors for out-of-range integers).        *)
(*                                                                         *)
(* Named deviations (ids in VERIF_DEVS):                                   *)
(*   float-prints-without-fraction  an integral float that is not in       *)
(*        e-notation prints as digits only: reads back as an integer, or   *)
(*        not at all when the digits exceed int64                          *)
(*   nil-reads-as-symbol            nil prints as `nil`, which reads as    *)
(*        the symbol nil (data half only; evaluated it is nil again)       *)
(*   char-literal-first-byte        a character printed as itself reads    *)
(*        back as the first byte of its UTF-8 encoding                     *)
(*   escape-not-readable            the printer's Go escapes (\b \f \v     *)
(*        \xHH \uHHHH \UHHHHHHHH: classes with ZyBadClass) are not in the  *)
(*        reader's escape table: the text is rejected                      *)
(*   hash-string-key-printed-raw    a string key is printed between quotes *)
(*        without escaping: keys containing " or \ do not read back        *)
(*   lone-sign-symbol-unreadable    a text whose only datum is the symbol  *)
(*        - or + makes the reader look ahead (for Inf) past the end        *)
(*   hash-symbol-key-printed-bare   a symbol key is printed as  name:  also  *)
(*        when the name is not one the lexer reads as a symbol (my-key, 1, *)
(*        the empty name, a b: what the JSON decoder makes of member       *)
(*        names): the printed hash does not evaluate back                  *)
(*   float-literal-underscore-rejected  a float literal with an underscore *)
(*        that does not stand between two digits is rejected               *)
(*   negative-dot-float-split       -.5 reads as the symbol - and .5       *)
(***************************************************************************)
EXTENDS Codec, NumLit, Json, IOUtils, SequencesExt

ASSUME TLCSet(11, ndJsonDeserialize(IOEnv.VERIF_TRACE))    \* parsed once
Cases == TLCGet(11)

Devs == "," \o (IF "VERIF_DEVS" \in DOMAIN IOEnv THEN IOEnv.VERIF_DEVS ELSE "") \o ","
DevOn(id) == ReplaceFirstSubSeq("", "," \o id \o ",", Devs) # Devs

VARIABLES ci, verdict
tvars == <<ci, verdict>>

IsErr(r) == r[1] = "err"

AllDevs == {"float-prints-without-fraction", "nil-reads-as-symbol", "char-literal-first-byte",
            "escape-not-readable", "hash-string-key-printed-raw", "hash-symbol-key-printed-bare", "lone-sign-symbol-unreadable",
            "float-literal-underscore-rejected", "negative-dot-float-split"}
ASSUME TLCSet(12, {d \in AllDevs : DevOn(d)})
D == TLCGet(12)      \* the enabled deviations

(* one half of a "pr" case: "ok", "bad" or "known:<id>" *)
HalfVerdict(c, r, half) ==
    LET v == c.v IN
    IF Same(v, r, half, {}) THEN "ok"
    ELSE IF IsErr(r) /\ DevOn("escape-not-readable") /\ HasUnreadableEscape(c.cc, v)
         THEN "known:escape-not-readable"
    ELSE IF IsErr(r) /\ DevOn("float-prints-without-fraction") /\ HasHugePlainFloat(v)
         THEN "known:float-prints-without-fraction"
    ELSE IF IsErr(r) /\ half = "rd" /\ DevOn("lone-sign-symbol-unreadable") /\ v \in {<<"sym", <<43>>>>, <<"sym", <<45>>>>}
         THEN "known:lone-sign-symbol-unreadable"
    ELSE IF half = "ev" /\ DevOn("hash-symbol-key-printed-bare") /\ HasBadSymKey(v)
         THEN "known:hash-symbol-key-printed-bare"
    ELSE IF half = "ev" /\ DevOn("hash-string-key-printed-raw") /\ HasRawKey(c.cc, v)
         THEN "known:hash-string-key-printed-raw"
    ELSE IF ~IsErr(r) /\ Same(v, r, half, D) THEN      \* name a deviation the explanation cannot do without
         LET Needs(id) == id \in D /\ ~Same(v, r, half, D \ {id}) IN
         IF Needs("float-prints-without-fraction") THEN "known:float-prints-without-fraction"
         ELSE IF Needs("nil-reads-as-symbol") THEN "known:nil-reads-as-symbol"
         ELSE "known:char-literal-first-byte"
    ELSE "bad"

PrVerdict(c) ==
    LET a == IF c.rdj THEN HalfVerdict(c, c.rd, "rd") ELSE "ok"
        b == IF c.evj THEN HalfVerdict(c, c.ev, "ev") ELSE "ok"
        s == IF c.svj THEN HalfVerdict(c, c.sv, "ev") ELSE "ok"      \* (source file) after (save v file)
    IN IF HasInvalid(c.cc, c.v) THEN <<"ok", "unjudged">>
       ELSE IF a = "bad" THEN <<"bad", "read">>
       ELSE IF b = "bad" THEN <<"bad", "eval">>
       ELSE IF s = "bad" THEN <<"bad", "save-source">>
       ELSE IF a # "ok" THEN <<a, "read">>
       ELSE IF b # "ok" THEN <<b, "eval">>
       ELSE IF s # "ok" THEN <<s, "save-source">>
       ELSE <<"ok", "">>

ClsVerdict(c) ==
    LET m == c.m
        want == IF c.ctx = "chr" THEN <<"chr", m[1]>> ELSE <<"str", m>>
        asTable == Len(m) = 1 /\ c.lexed /\ c.emit = << PTok(c.cls, m[1], c.ctx) >>
        tableOK == c.lexed /\ ZyToksDenote(c.emit, m, c.ctx)
    IN IF c.cls = "invalid" THEN <<"ok", "unjudged">>
       ELSE IF c.rd = want THEN <<"ok", IF ~asTable THEN "drift:printer-form" ELSE IF ~tableOK THEN "drift:reader-table" ELSE "">>
       ELSE IF /\ DevOn("char-literal-first-byte") /\ c.ctx = "chr"
               /\ m[1] >= 128 /\ c.rd = <<"chr", FirstByte(m[1])>>
            THEN <<"known:char-literal-first-byte", "">>
       ELSE IF DevOn("escape-not-readable") /\ asTable /\ ZyBadClass(c.cls, c.ctx) /\ IsErr(c.rd)
            THEN <<"known:escape-not-readable", "">>
       ELSE <<"bad", "escape">>

(* the symbol heading the list a reader prefix wraps its datum in *)
WrapName(pre) ==
    CASE pre = "%"  -> <<113, 117, 111, 116, 101>>                                                  \* quote
      [] pre = "^"  -> <<115, 121, 110, 116, 97, 120, 81, 117, 111, 116, 101>>                      \* syntaxQuote
      [] pre = "~"  -> <<117, 110, 113, 117, 111, 116, 101>>                                        \* unquote
      [] pre = "~@" -> <<117, 110, 113, 117, 111, 116, 101, 45, 115, 112, 108, 105, 99, 105, 110, 103>>  \* unquote-splicing
      [] OTHER -> <<>>

LitOK(c, k) ==
    LET got == c.got  one == c.n = 1 /\ c.wrap = WrapName(c.pre) IN
    CASE k[1] = "notnum" -> TRUE
      [] k[1] \in {"int", "uint"} -> one /\ got[1] = k[1] /\ NumVal(got) = k[2]
      [] k[1] = "nan" -> one /\ got[1] = "flt" /\ got[2] = "nan"
      [] k[1] = "inf" -> one /\ got[1] = "flt" /\ got[2] = "inf" /\ got[3] = k[2]
      [] k[1] = "range" -> IsErr(got)
      [] k[1] = "flt" ->
            IF IsErr(got) THEN Overflows(k[2], Norm(c.ovf))
            ELSE /\ one /\ got[1] = "flt"
                 /\ IF got[2] = "inf" THEN Overflows(k[2], Norm(c.ovf)) /\ got[3] = k[2][2]
                    ELSE got[2] = "fin" /\ InRounding(k[2], Norm(c.iv.lo), Norm(c.iv.hi), c.iv.even)

LitVerdict(c) ==
    LET k == Classify(c.sp) IN
    IF LitOK(c, k) THEN <<"ok", k[1]>>
    ELSE IF /\ k[1] = "flt" /\ DevOn("float-literal-underscore-rejected")
            /\ HasLooseUnderscore(c.sp) /\ IsErr(c.got)
         THEN <<"known:float-literal-underscore-rejected", "">>
    ELSE IF /\ k[1] = "flt" /\ DevOn("negative-dot-float-split") /\ Len(c.sp) >= 2
            /\ c.sp[1] = 45 /\ c.sp[2] = 46 /\ c.n = 2 /\ c.got = <<"sym", <<45>>>>
         THEN <<"known:negative-dot-float-split", "">>
    ELSE <<"bad", k[1]>>

(* a character / string literal written with the escape tokens toks *)
QlitVerdict(c) ==
    LET toks == c.toks
        judged == \A i \in 1..Len(toks) : ZyTokJudged(toks[i], c.ctx)
        den == [i \in 1..Len(toks) |-> TokUnit(toks[i])]
        want == IF c.ctx = "chr" THEN <<"chr", den[1]>> ELSE <<"str", den>>
    IN IF ~judged THEN <<"ok", "unjudged">>
       ELSE IF c.rd = want THEN <<"ok", c.ctx>>
       ELSE <<"bad", "literal">>

Judge(c) == IF c.kind = "cls" THEN ClsVerdict(c) ELSE IF c.kind = "lit" THEN LitVerdict(c)
            ELSE IF c.kind = "qlit" THEN QlitVerdict(c) ELSE PrVerdict(c)

TInit == ci \in 1..Len(Cases) /\ verdict = "run"
TStep == /\ verdict = "run"
         /\ LET j == Judge(Cases[ci]) IN
            /\ verdict' = j[1]
            /\ PrintT(<<"VERDICT", Cases[ci].id, j[1], j[2]>>)
         /\ UNCHANGED ci
TSpec == TInit /\ [][TStep]_tvars
=============================================================================
