SPECIFICATION Spec
CONSTANTS
  MaxChunks = 3
  ApplyAsPinned = FALSE
  EvalFnAsPinned = TRUE
INVARIANTS TypeOK PcInRange
CHECK_DEADLOCK FALSE
