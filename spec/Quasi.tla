------------------------------ MODULE Quasi ------------------------------
(***************************************************************************)
(* C15 -- "A syntax-quoted template evaluates to exactly the template with *)
(* each unquoted expression replaced by its value and each splice replaced *)
(* by the elements of its list, at any depth inside lists, arrays and      *)
(* hashes, leaving everything else literally as written.  Calling a macro  *)
(* evaluates the form its body returns in the caller's scope, which equals *)
(* writing that form by hand, and expanding a macro leaves the caller's    *)
(* interpreter state untouched."                                           *)
(*                                                                         *)
(* Templates:  <<"atom", v>>          a literal datum (int, symbol, string) *)
(*             <<"unq", name>>        ~name                                 *)
(*             <<"unqsum", a, b>>     ~(+ a b)   an unquoted compound form  *)
(*             <<"splice", name>>     ~@name                                *)
(*             <<"list", <<T..>>>>    (T ..)                                *)
(*             <<"arr", <<T..>>>>     [T ..]                                *)
(*             <<"hashform", <<T..>>>> {k v ..}  which the reader turns    *)
(*                                    into the form (hash k v ..)           *)
(* Values are the harness projection: <<"int",n>> <<"sym",s>> <<"str",s>>   *)
(* <<"nil">> (the empty list) <<"list",<<..>>>> <<"arr",<<..>>>>.           *)
(* Subst is the independent substitution function; Err marks a splice of   *)
(* something that is not a list.                                            *)
(***************************************************************************)
EXTENDS Integers, Sequences, TLC

Nil == <<"nil">>
Err == <<"err">>
MkList(s) == IF Len(s) = 0 THEN Nil ELSE <<"list", s>>

IsErr(v) == v = Err

RECURSIVE Subst(_, _), SubstSeq(_, _, _)

(* the elements a template contributes to its enclosing sequence *)
Contribution(t, B) ==
    IF t[1] = "splice"
    THEN LET v == B[t[2]] IN
         IF v = Nil THEN <<>>
         ELSE IF v[1] = "list" THEN v[2]
         ELSE <<Err>>                      \* only lists can be spliced
    ELSE <<Subst(t, B)>>

SubstSeq(ts, i, B) ==
    IF i > Len(ts) THEN <<>> ELSE Contribution(ts[i], B) \o SubstSeq(ts, i + 1, B)

AnyErr(s) == \E i \in 1..Len(s) : IsErr(s[i])

Subst(t, B) ==
    CASE t[1] = "atom" -> t[2]
      [] t[1] = "unq" -> B[t[2]]
      [] t[1] = "unqsum" -> <<"int", t[2] + t[3]>>
      [] t[1] = "list" -> LET s == SubstSeq(t[2], 1, B) IN IF AnyErr(s) THEN Err ELSE MkList(s)
      [] t[1] = "arr" -> LET s == SubstSeq(t[2], 1, B) IN IF AnyErr(s) THEN Err ELSE <<"arr", s>>
      [] t[1] = "hashform" -> LET s == SubstSeq(t[2], 1, B) IN
                              IF AnyErr(s) THEN Err ELSE <<"list", << <<"sym", "hash">> >> \o s>>
      [] OTHER -> Err

(* ---- laws of substitution, model-checked over all small templates (MCQuasi) ---- *)
(* a template without unquotes is returned literally *)
RECURSIVE Literal(_), AsDatum(_)
Literal(t) == CASE t[1] = "atom" -> TRUE
                [] t[1] \in {"list", "arr", "hashform"} -> \A i \in 1..Len(t[2]) : Literal(t[2][i])
                [] OTHER -> FALSE
AsDatum(t) == CASE t[1] = "atom" -> t[2]
                [] t[1] = "list" -> MkList([i \in 1..Len(t[2]) |-> AsDatum(t[2][i])])
                [] t[1] = "arr" -> <<"arr", [i \in 1..Len(t[2]) |-> AsDatum(t[2][i])]>>
                [] t[1] = "hashform" -> <<"list", << <<"sym", "hash">> >> \o [i \in 1..Len(t[2]) |-> AsDatum(t[2][i])]>>
=============================================================================
