------------------------------ MODULE Quasi ------------------------------
(***************************************************************************)
(* C15 -- "A syntax-quoted template evaluates to exactly the template with *)
(* each unquoted expression replaced by its value and each splice replaced *)
(* by the elements of its list, at any depth inside lists, arrays and      *)
(* hashes, leaving everything else literally as written.  Calling a macro  *)
(* evaluates the form its body returns in the caller's scope, which equals *)
(* writing that form by hand, and expanding a macro leaves the caller's    *)
(* interpreter state untouched."                                           *)
(*                                                                         *)
(* Templates:  <<"atom", v>>          a literal datum (int, symbol, string) *)
(*             <<"unq", name>>        ~name                                 *)
(*             <<"unqsum", a, b>>     ~(+ a b)   an unquoted compound form  *)
(*             <<"unqx", e>>          ~e   an unquoted expression e (below) *)
(*             <<"splice", name>>     ~@name                                *)
(*             <<"splicex", e>>       ~@e                                   *)
(*             <<"list", <<T..>>>>    (T ..)                                *)
(*             <<"arr", <<T..>>>>     [T ..]                                *)
(*             <<"hashform", <<T..>>>> {k v ..}  which the reader turns    *)
(*                                    into the form (hash k v ..)           *)
(*             <<"hashobj", <<T..>>>> a hash OBJECT standing in the         *)
(*                                    template (a template that was built   *)
(*                                    as a value): its keys and values in   *)
(*                                    order k1 v1 k2 v2 ..                  *)
(*             <<"sugar", h, T>>      %T (h = "quote") or ^T (h =           *)
(*                                    "syntaxQuote") inside a template: the *)
(*                                    reader's way of writing (h T)         *)
(* Expressions of ~e and ~@e (pure, so their value is all that matters):    *)
(*             <<"lit", v>>           a number or string literal            *)
(*             <<"qt", v>>            (quote v)                             *)
(*             <<"var", name>>        a bound name                          *)
(*             <<"sum", e1, e2>>      (+ e1 e2)                             *)
(*             <<"begin", <<e..>>>>   (begin e ..): the value of the last   *)
(*                                    expression, nil when there is none    *)
(*             <<"scope", <<e..>>>>   (newScope e ..): likewise             *)
(*             <<"mklist", <<e..>>>>  (list e ..)                           *)
(*             <<"bad", label>>       an expression that has no value: it   *)
(*                                    is rejected when written on its own   *)
(*                                    (when compiled or when run)           *)
(* Values are the harness projection: <<"int",n>> <<"sym",s>> <<"str",s>>   *)
(* <<"nil">> (the empty list) <<"list",<<..>>>> <<"arr",<<..>>>>            *)
(* <<"hash", "hash", << <<k, v>> .. >>>>.                                   *)
(* Subst is the independent substitution function; Err marks a template    *)
(* that has no value: a splice of something that is not a list, an unquote *)
(* of an expression that has no value, a hash with a dangling key.         *)
(***************************************************************************)
EXTENDS Integers, Sequences, TLC

Nil == <<"nil">>
Err == <<"err">>
MkList(s) == IF Len(s) = 0 THEN Nil ELSE <<"list", s>>

IsErr(v) == v = Err
AnyErr(s) == \E i \in 1..Len(s) : IsErr(s[i])

(* ---- the value of an unquoted expression ---- *)
RECURSIVE Eval(_, _), EvalSeq(_, _, _)
EvalSeq(es, i, B) == IF i > Len(es) THEN <<>> ELSE <<Eval(es[i], B)>> \o EvalSeq(es, i + 1, B)
Eval(e, B) ==
    CASE e[1] \in {"lit", "qt"} -> e[2]
      [] e[1] = "var" -> B[e[2]]
      [] e[1] = "sum" -> LET a == Eval(e[2], B)
                             b == Eval(e[3], B)
                         IN IF a[1] = "int" /\ b[1] = "int" THEN <<"int", a[2] + b[2]>> ELSE Err
      [] e[1] \in {"begin", "scope"} -> LET s == EvalSeq(e[2], 1, B) IN
                                        IF AnyErr(s) THEN Err ELSE IF Len(s) = 0 THEN Nil ELSE s[Len(s)]
      [] e[1] = "mklist" -> LET s == EvalSeq(e[2], 1, B) IN IF AnyErr(s) THEN Err ELSE MkList(s)
      [] OTHER -> Err                       \* "bad": no value

(* the elements a spliced value contributes: only lists can be spliced *)
Spliced(v) == IF v = Nil THEN <<>>
              ELSE IF v[1] = "list" THEN v[2]
              ELSE <<Err>>

(* ---- a hash built from the sequence k1 v1 k2 v2 ..: insertion order, a repeated key keeps its place ---- *)
KeyKinds == {"int", "sym", "str"}
SameKey(a, b) == a[1] = b[1] /\ a = b
PutPair(acc, k, v) == IF \E j \in 1..Len(acc) : SameKey(acc[j][1], k)
                      THEN [j \in 1..Len(acc) |-> IF SameKey(acc[j][1], k) THEN <<k, v>> ELSE acc[j]]
                      ELSE Append(acc, <<k, v>>)
RECURSIVE HashIns(_, _, _)
HashIns(s, i, acc) == IF i > Len(s) THEN acc ELSE HashIns(s, i + 2, PutPair(acc, s[i], s[i + 1]))
MkHash(s) == IF Len(s) % 2 = 1 \/ (\E i \in 1..Len(s) : i % 2 = 1 /\ s[i][1] \notin KeyKinds) THEN Err
             ELSE <<"hash", "hash", HashIns(s, 1, <<>>)>>

RECURSIVE Subst(_, _), SubstSeq(_, _, _)

(* the elements a template contributes to its enclosing sequence *)
Contribution(t, B) ==
    CASE t[1] = "splice" -> Spliced(B[t[2]])
      [] t[1] = "splicex" -> Spliced(Eval(t[2], B))
      [] OTHER -> <<Subst(t, B)>>

SubstSeq(ts, i, B) ==
    IF i > Len(ts) THEN <<>> ELSE Contribution(ts[i], B) \o SubstSeq(ts, i + 1, B)

Subst(t, B) ==
    CASE t[1] = "atom" -> t[2]
      [] t[1] = "unq" -> B[t[2]]
      [] t[1] = "unqsum" -> <<"int", t[2] + t[3]>>
      [] t[1] = "unqx" -> Eval(t[2], B)
      [] t[1] = "list" -> LET s == SubstSeq(t[2], 1, B) IN IF AnyErr(s) THEN Err ELSE MkList(s)
      [] t[1] = "arr" -> LET s == SubstSeq(t[2], 1, B) IN IF AnyErr(s) THEN Err ELSE <<"arr", s>>
      [] t[1] = "hashform" -> LET s == SubstSeq(t[2], 1, B) IN
                              IF AnyErr(s) THEN Err ELSE <<"list", << <<"sym", "hash">> >> \o s>>
      [] t[1] = "hashobj" -> LET s == SubstSeq(t[2], 1, B) IN IF AnyErr(s) THEN Err ELSE MkHash(s)
      [] t[1] = "sugar" -> Subst(<<"list", << <<"atom", <<"sym", t[2]>>>>, t[3] >> >>, B)
      [] OTHER -> Err

(* ---- laws of substitution, model-checked over all small templates (MCQuasi) ---- *)
(* a template without unquotes is returned literally *)
RECURSIVE Literal(_), AsDatum(_)
Literal(t) == CASE t[1] = "atom" -> TRUE
                [] t[1] \in {"list", "arr", "hashform"} -> \A i \in 1..Len(t[2]) : Literal(t[2][i])
                [] OTHER -> FALSE
AsDatum(t) == CASE t[1] = "atom" -> t[2]
                [] t[1] = "list" -> MkList([i \in 1..Len(t[2]) |-> AsDatum(t[2][i])])
                [] t[1] = "arr" -> <<"arr", [i \in 1..Len(t[2]) |-> AsDatum(t[2][i])]>>
                [] t[1] = "hashform" -> <<"list", << <<"sym", "hash">> >> \o [i \in 1..Len(t[2]) |-> AsDatum(t[2][i])]>>
=============================================================================
