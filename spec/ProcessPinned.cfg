SPECIFICATION Spec
CONSTANT ScanAsPinned = TRUE
INVARIANT Confluent
CHECK_DEADLOCK FALSE
