SPECIFICATION Spec
CONSTANT SharedTypes = TRUE
CONSTANT MaxInterp = 3
INVARIANT HistoryIndependent
CHECK_DEADLOCK FALSE
