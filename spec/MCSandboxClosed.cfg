SPECIFICATION Spec
CONSTANTS
  MaxDepth = 1
  Mint = FALSE
INVARIANTS SandboxClosed HostSurvives
CHECK_DEADLOCK FALSE
