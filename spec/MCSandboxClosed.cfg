SPECIFICATION Spec
CONSTANTS
  MaxDepth = 1
  Mint = FALSE
CONSTANT U <- MCU
INVARIANTS SandboxClosed
CHECK_DEADLOCK FALSE
