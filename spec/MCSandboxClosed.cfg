SPECIFICATION Spec
CONSTANTS
  MaxDepth = 1
  Mint = FALSE
INVARIANTS SandboxClosed
CHECK_DEADLOCK FALSE
