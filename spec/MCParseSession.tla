------------------------- MODULE MCParseSession -------------------------
(***************************************************************************)
(* Model-checking instance of ParseSession (design audit of the spec).     *)
(* A client composes chunks character by character (Type) and hands them   *)
(* to the session: ResetLoad (start a new text: always allowed; from the   *)
(* phase "more" this abandons the unfinished text, with or without queued  *)
(* chunks), Feed / Queue / ParseQueued (continue the text: only while the  *)
(* phase is "more").  TLC visits every text of at most MaxLen classes      *)
(* under every chunking and after every history.                           *)
(*                                                                         *)
(* Invariants                                                              *)
(*  TextOnly      the carried automaton state and the phase are the ones   *)
(*                of Run(txt) computed from scratch: nothing depends on    *)
(*                how txt was cut or on what preceded the ResetLoad        *)
(*  QueueInert    queued chunks do not influence the phase before they are *)
(*                read                                                     *)
(*  Monotone      along the prefixes of txt: quality only degrades, "lost"  *)
(*                is absorbing, the count never decreases, the bracket     *)
(*                depth moves by at most one per character                 *)
(*  BlankNeutral  appending a blank (or a newline) to a text that the      *)
(*                automaton pins down changes neither Unfinished nor the   *)
(*                count: the end of the text terminates the last token     *)
(*                exactly as white space does ("never lost")               *)
(*  Closable      every pinned-down unfinished text has a completion that  *)
(*                is finished and still exact; a finished text needs none  *)
(*  StatusTotal   Statuses is never empty and is a singleton on exact text *)
(***************************************************************************)
EXTENDS ParseSession, TLC

CONSTANTS MaxLen, MaxQueue, Alphabet

VARIABLES S, buf
vars == <<S, buf>>

Used == Len(S.txt) + Len(Flat(S.queue)) + Len(buf)

Init == S = Sess0 /\ buf = <<>>

Type == /\ S.phase \in {"idle", "more"} /\ Used < MaxLen
        /\ \E c \in Alphabet : buf' = Append(buf, c)
        /\ UNCHANGED S
DoResetLoad == /\ S.phase \in {"idle", "more"} /\ buf # <<>> /\ S' = ResetLoad(S, buf) /\ buf' = <<>>
DoFeed  == /\ S.phase = "more" /\ buf # <<>> /\ Used <= MaxLen
           /\ S' = Feed(S, buf) /\ buf' = <<>>
DoQueue == /\ S.phase = "more" /\ buf # <<>> /\ Used <= MaxLen /\ Len(S.queue) < MaxQueue
           /\ S' = QueueChunk(S, buf) /\ buf' = <<>>
DoParse == /\ S.phase = "more" /\ S.queue # <<>> /\ buf = <<>>
           /\ S' = ParseQueued(S) /\ UNCHANGED buf
(* a finished or rejected text is closed; only what kind of history it was remains *)
Close == /\ S.phase \in {"done", "err"} /\ buf = <<>>
         /\ S' = [Sess0 EXCEPT !.hist = S.phase] /\ UNCHANGED buf
Next == Close \/ Type \/ DoResetLoad \/ DoFeed \/ DoQueue \/ DoParse
Spec == Init /\ [][Next]_vars

(* ---- invariants ---- *)
TextOnly == /\ S.aut = Run(S.txt)
            /\ S.phase \in {"idle", Phase(Run(S.txt))}
QueueInert == S.phase = "more" => S.phase = Phase(S.aut)

Rank(q) == CASE q = "exact" -> 0 [] q = "fuzzy" -> 1 [] OTHER -> 2
Abs(x) == IF x < 0 THEN -x ELSE x
Monotone ==
    \A k \in 1..Len(S.txt) :
        LET a == Run(SubSeq(S.txt, 1, k - 1))
            b == Step(a, S.txt[k], FALSE) IN
        /\ Rank(b.q) >= Rank(a.q)
        /\ b.n >= a.n
        /\ Abs(Len(b.st) - Len(a.st)) <= 1
        /\ (a.q = "lost" => b.q = "lost")

BlankNeutral ==
    LET a == S.aut IN
    (a.q = "exact" /\ ~Undecided(a)) =>
        \A w \in {"sp", "nl"} :
            LET b == Step(a, w, FALSE) IN
            /\ Unfinished(b) = Unfinished(a)
            /\ (~Unfinished(a) => Count(b) = Count(a) /\ ~Pending(b))
            /\ (a.m # "stresc" => b.q = "exact")

RECURSIVE ClosersFor(_)
ClosersFor(st) == IF st = <<>> THEN <<>>
                  ELSE <<CASE Last(st) = "(" -> ")" [] Last(st) = "[" -> "]" [] OTHER -> "}">> \o ClosersFor(Front(st))
Completion(a) ==
    (CASE a.m = "str" -> <<"dq">> [] a.m = "stresc" -> <<"dq", "dq">> [] a.m = "bt" -> <<"bt">>
       [] a.m = "bc" -> <<"*", "/">> [] a.m = "bcstar" -> <<"/">>
       [] a.m = "lc" /\ a.st # <<>> -> <<"nl">> [] OTHER -> <<>>) \o ClosersFor(a.st)
Closable ==
    LET a == S.aut IN
    (a.q = "exact" /\ ~Undecided(a)) =>
        LET f == RunFrom(a, Completion(a), FALSE) IN
        /\ ~Unfinished(f) /\ f.q = "exact"
        /\ (Unfinished(a) <=> Completion(a) # <<>>)
        /\ Count(f) >= Count(a)

StatusTotal ==
    LET a == S.aut IN
    /\ Statuses(a) # {}
    /\ (a.q = "exact" /\ ~Undecided(a) => Cardinality(Statuses(a)) = 1)
    /\ ("more" \in Statuses(a) /\ ~Undecided(a) => Unfinished(a) \/ PrefixPending(a))
    /\ (ErrorIsFinal(a) => "more" \in Statuses(a))

HistDomain == S.hist \in {"fresh", "done", "err", "abandoned", "queued"}
=============================================================================
