---------------------------- MODULE EntryPoints ----------------------------
(***************************************************************************)
(* The interpreter as the Go host drives it: the protocol of the public    *)
(* entry points LoadString / LoadExpressions (compile and append to the    *)
(* top-level buffer), Run (execute what is pending), EvalString /          *)
(* EvalExpressions (= Load then Run), Apply (call a script function from   *)
(* Go), SourceStream / SourceFile / SourceExpressions (compile a text and  *)
(* run it at once, apart from the top-level buffer), zygo.EvalFunction     *)
(* (the function behind the eval builtin, which environment.go recommends  *)
(* to hosts over EvalExpressions) and Clear.  This is the control state the four stacks of C04 do not *)
(* show: the top-level instruction buffer, the program counter and the     *)
(* chunks that were loaded but have not run yet.                           *)
(*                                                                         *)
(* A text is abstracted to a chunk <<id, kind>>: kind "ok" runs to the end *)
(* with the effect id and the value id, kind "fail" has the effect id and  *)
(* then raises a run-time error, id 0 is the empty text (it compiles to    *)
(* nothing, so evaluating it runs what is pending and returns nil when     *)
(* nothing is); a text that does not compile or parse never becomes a      *)
(* chunk (C05: a rejected text is a stuttering step).                      *)
(*                                                                         *)
(* Every entry point is a function from state to state (LoadF, RunF, ...), *)
(* so that the same definitions drive the model checker (actions below)    *)
(* and the validation of recorded histories of the real interpreter        *)
(* (EntryTrace.tla).                                                       *)
(*                                                                         *)
(* Code anchors: zygo/environment.go LoadExpressions (a joining pop is     *)
(* emitted when code is still pending), Run (loop while pc # -1 and not    *)
(* ReachedEnd; on error restore and set pc to the end), Apply (pc := -2,   *)
(* call, Run, put pc back), Clear (new empty buffer, pc := 0).             *)
(***************************************************************************)
EXTENDS Integers, Sequences, TLC

CONSTANTS MaxChunks,      \* bound on chunks per behaviour (model checking only)
          ApplyAsPinned,  \* TRUE: Apply leaves pc at -1, as the pinned commit did (must be refuted)
          EvalFnAsPinned  \* TRUE: zygo.EvalFunction called by the host leaves pc one further (must be refuted)

VARIABLES main,      \* size of the top-level buffer (abstract: one unit per chunk)
          pc,        \* program counter inside the top-level buffer; main = at the end (nothing pending)
          pending,   \* chunks loaded and not yet run, oldest first
          fx,        \* effects of everything that ran, in order (ids)
          out,       \* outcome of the last call: <<"val", id>> | <<"err">> | <<"nil">>
          loaded     \* number of chunks loaded so far (bound)
vars == <<main, pc, pending, fx, out, loaded>>

St == [main |-> main, pc |-> pc, pending |-> pending, fx |-> fx, out |-> out, loaded |-> loaded]
Set(s) == /\ main' = s.main /\ pc' = s.pc /\ pending' = s.pending
          /\ fx' = s.fx /\ out' = s.out /\ loaded' = s.loaded

Chunk(id, kind) == <<id, kind>>
S0 == [main |-> 0, pc |-> 0, pending |-> <<>>, fx |-> <<>>, out |-> <<"nil">>, loaded |-> 0]

(* the effects and outcome of running a sequence of chunks: up to and including the first failing one *)
Fails(cs) == \E i \in 1..Len(cs) : cs[i][2] = "fail"
(* the chunks run in order up to and including the first failing one (no recursion: the proof system reads this module) *)
FirstFail(cs) == IF Fails(cs)
                 THEN CHOOSE i \in 1..Len(cs) : cs[i][2] = "fail" /\ \A j \in 1..(i - 1) : cs[j][2] # "fail"
                 ELSE Len(cs)
RunFx(cs, i) == LET t == SelectSeq(SubSeq(cs, i, FirstFail(cs)), LAMBDA c : c[1] # 0)
                IN  [j \in 1..Len(t) |-> t[j][1]]
RunOut(cs) == IF Fails(cs) THEN <<"err">>
              ELSE IF Len(cs) = 0 \/ cs[Len(cs)][1] = 0 THEN <<"nil">>
              ELSE <<"val", cs[Len(cs)][1]>>

(* LoadString / LoadExpressions of a text that compiles: one more pending chunk *)
(* (the empty text compiles to nothing when nothing is pending; otherwise to the pop that joins it to *)
(* the pending code, so that the value of what was pending is dropped and the result is nil)       *)
LoadF(s, c) == IF c[1] = 0 /\ s.pending = <<>> THEN [s EXCEPT !.loaded = @ + 1, !.out = <<"nil">>]
               ELSE [s EXCEPT !.pending = Append(@, c), !.main = @ + 1, !.loaded = @ + 1, !.out = <<"nil">>]
(* a text that does not parse or compile: nothing changes but the outcome *)
RejectF(s) == [s EXCEPT !.out = <<"err">>]
(* Run: everything pending runs, oldest first, until one fails; afterwards nothing is pending. *)
(* With pc at the stop value -1 Run returns at once (what the pinned Apply caused).           *)
RunF(s) == IF s.pc = -1 THEN [s EXCEPT !.out = <<"nil">>]
           ELSE [s EXCEPT !.fx = @ \o RunFx(s.pending, 1), !.out = RunOut(s.pending), !.pending = <<>>, !.pc = s.main]
(* EvalString / EvalExpressions = Load then Run *)
EvalF(s, c) == RunF(LoadF(s, c))
(* Apply of a script function from Go: its effect, its value; the pending code and pc are the host's *)
ApplyF(s, id, kind) ==
    [s EXCEPT !.fx = Append(@, id), !.out = IF kind = "fail" THEN <<"err">> ELSE <<"val", id>>,
              !.pc = IF ApplyAsPinned /\ kind = "ok" THEN -1 ELSE @, !.loaded = @ + 1]
(* SourceStream / SourceFile / SourceExpressions called by the host: the text is compiled and run at   *)
(* once in a function of its own; the host is told only whether it failed. zygo.EvalFunction: the same,  *)
(* and the value comes back. Like Apply, neither touches the code the host has pending nor the pc.       *)
SourceF(s, id, kind) ==
    [s EXCEPT !.fx = IF id = 0 THEN @ ELSE Append(@, id), !.out = IF kind = "fail" THEN <<"err">> ELSE <<"nil">>,
              !.loaded = @ + 1]
EvalFnF(s, id, kind) ==
    [s EXCEPT !.fx = IF id = 0 THEN @ ELSE Append(@, id),
              !.out = IF kind = "fail" THEN <<"err">> ELSE IF id = 0 THEN <<"nil">> ELSE <<"val", id>>,
              !.pc = IF EvalFnAsPinned /\ kind = "ok" /\ id # 0 THEN @ + 1 ELSE @, !.loaded = @ + 1]
ClearF(s) == [s EXCEPT !.main = 0, !.pc = 0, !.pending = <<>>, !.out = <<"nil">>]

(* ---- the state machine, for the model checker ---- *)
Init == main = 0 /\ pc = 0 /\ pending = <<>> /\ fx = <<>> /\ out = <<"nil">> /\ loaded = 0
Ids == 0..MaxChunks
Next == \/ \E id \in Ids, k \in {"ok", "fail"} :
              /\ loaded < MaxChunks /\ (id = 0 => k = "ok")
              /\ \/ Set(LoadF(St, Chunk(id, k))) \/ Set(EvalF(St, Chunk(id, k)))
                 \/ (id # 0 /\ Set(ApplyF(St, id, k)))
                 \/ Set(SourceF(St, id, k)) \/ Set(EvalFnF(St, id, k))
        \/ Set(RejectF(St)) \/ Set(RunF(St)) \/ Set(ClearF(St))

Spec == Init /\ [][Next]_vars

(* ---- what a host relies on ---- *)
(* the program counter is inside the buffer whenever a call has returned *)
PcInRange == pc \in 0..main
(* what is pending is exactly the part of the buffer behind pc *)
PendingIsTail == main - pc = Len(pending)
TypeOK == /\ main \in Nat /\ pc \in Int /\ loaded \in 0..MaxChunks
          /\ out[1] \in {"val", "err", "nil"}
(* a Run drains: after it nothing is pending and pc is at the end *)
RunDrains == [][(pc >= 0 /\ pending # <<>> /\ pending' = <<>>) => pc' = main']_vars
(* effects only grow: nothing that ran is forgotten *)
FxGrows == [][Len(fx') >= Len(fx) /\ SubSeq(fx', 1, Len(fx)) = fx]_vars
=============================================================================
