---------------------------- MODULE TailTrace ----------------------------
(***************************************************************************)
(* C09, space half: "a function that calls itself in tail position ...     *)
(* runs in space independent of the recursion depth, so arbitrarily deep   *)
(* tail recursion completes."                                              *)
(*                                                                         *)
(* A case is one self-recursive function shape (f n acc) whose self call   *)
(* is in tail position through a nesting of tail contexts, run on the real *)
(* interpreter for growing n; every run records the value and the          *)
(* high-water marks of the data, scope and address stacks sampled at every *)
(* VM step.  The spec requires: every run returns n (the accumulator       *)
(* counts the iterations), and the high-water marks are the same for every *)
(* n >= 100 (the marks for n = 10 may only be smaller or equal).           *)
(***************************************************************************)
EXTENDS Integers, Sequences, Json, IOUtils, TLC

ASSUME TLCSet(11, ndJsonDeserialize(IOEnv.VERIF_TRACE))
Cases == TLCGet(11)

VARIABLES ci, verdict
tvars == <<ci, verdict>>

Finished(r) == r.out = <<"val", <<"int", r.n>>>>
Leq(a, b) == \A i \in 1..3 : a[i] <= b[i]

Judge(c) ==
    LET R == c.runs
        big == {i \in 1..Len(R) : R[i].n >= 100}
    IN IF \E i \in 1..Len(R) : ~Finished(R[i]) THEN <<"bad", "did-not-finish">>
       ELSE IF \E i, j \in big : R[i].hw # R[j].hw THEN <<"bad", "space-grows">>
       ELSE IF \E i \in 1..Len(R), j \in big : R[i].n < 100 /\ ~Leq(R[i].hw, R[j].hw) THEN <<"bad", "space-shape">>
       ELSE <<"ok", "constant">>

TInit == ci \in 1..Len(Cases) /\ verdict = "run"
TStep == /\ verdict = "run"
         /\ LET j == Judge(Cases[ci]) IN
            verdict' = j[1] /\ PrintT(<<"VERDICT", Cases[ci].id, j[1], j[2]>>)
         /\ UNCHANGED ci
TSpec == TInit /\ [][TStep]_tvars
=============================================================================
