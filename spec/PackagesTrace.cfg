SPECIFICATION TSpec
CONSTANTS
  KeyRule = "any"
CHECK_DEADLOCK FALSE
