----------------------------- MODULE Process -----------------------------
(***************************************************************************)
(* C20, confluence half.  Several conversions in the library walk a Go map *)
(* (randomised order) and stop at the first match; the observable result   *)
(* is independent of the iteration order only if all orders agree.         *)
(* The type registry is one such map: fillHashHelper / CallGoMethod scan   *)
(* GoStructRegistry.Registry for the first entry whose factory produces    *)
(* the Go type at hand and name the resulting record after that entry.     *)
(*                                                                         *)
(* The registry content is NOT hard-coded: the harness dumps the live      *)
(* registry (name, Go type of the factory's product) of an interpreter     *)
(* with the demo data imported, and TLC explores every iteration order of  *)
(* the scan as nondeterministic choices.  Confluent must hold in every     *)
(* state where the scan has answered.                                      *)
(***************************************************************************)
EXTENDS Integers, Sequences, FiniteSets, Json, IOUtils, TLC

ASSUME TLCSet(12, ndJsonDeserialize(IOEnv.VERIF_REGISTRY))
Reg == TLCGet(12)[1].entries           \* sequence of <<name, gotype>>
Targets == {Reg[i][2] : i \in 1..Len(Reg)} \ {"", "<nil>", "<error>"}

CONSTANT ScanAsPinned   \* TRUE: `for name := range Registry` (Go map order, the pinned commit);
                        \* FALSE: the repaired scan follows registration order

VARIABLES target, visited, answer
vars == <<target, visited, answer>>

Init == target \in Targets /\ visited = {} /\ answer = ""

(* one step of `for name, factory := range Registry`: any unvisited entry *)
Scan == /\ answer = ""
        /\ \E i \in (1..Len(Reg)) \ visited :
              /\ ScanAsPinned \/ \A j \in (1..Len(Reg)) \ visited : i <= j
              /\ visited' = visited \cup {i}
              /\ answer' = IF Reg[i][2] = target THEN Reg[i][1] ELSE ""
        /\ UNCHANGED target

Spec == Init /\ [][Scan]_vars

Canon(t) == Reg[CHOOSE i \in 1..Len(Reg) : Reg[i][2] = t /\ \A j \in 1..(i-1) : Reg[j][2] # t][1]
Confluent == answer # "" => answer = Canon(target)
=============================================================================
