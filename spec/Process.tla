----------------------------- MODULE Process -----------------------------
(***************************************************************************)
(* C20, confluence half.  Several conversions in the library walk a Go map *)
(* (randomised order) and the observable result is fixed by the FIRST      *)
(* entry of some class that the walk meets; the result is independent of   *)
(* the iteration order only if all orders agree.  The modelled walks:      *)
(*  - the type registry: fillHashHelper / CallGoMethod scan                *)
(*    GoStructRegistry.Registry for the first entry whose factory produces *)
(*    the Go type at hand and name the resulting record after that entry   *)
(*    (class of an entry = the Go type of its factory's product);          *)
(*  - the fields of a record converted to its Go struct: SexpToGoStructs   *)
(*    stops at the first field the struct cannot take and names it in the  *)
(*    error (class "bad");                                                 *)
(*  - the members of a package scope being printed: the first member that  *)
(*    holds a given package/hash/function is spelled out, the later ones   *)
(*    refer back to it (class = identity of the value).                    *)
(*                                                                         *)
(* The tables are NOT hard-coded: the harness dumps the live ones (zv      *)
(* determ -registry) and TLC explores every iteration order of each walk   *)
(* as nondeterministic choices.  Confluent must hold in every state where  *)
(* the walk has answered.                                                  *)
(***************************************************************************)
EXTENDS Integers, Sequences, FiniteSets, Json, IOUtils, TLC

ASSUME TLCSet(12, ndJsonDeserialize(IOEnv.VERIF_REGISTRY))
Walks == TLCGet(12)[1].walks           \* sequence of [name, entries: sequence of <<key, class>>]
Reg == TLCGet(12)[1].entries           \* the registry walk (kept for the evidence count)
NoClass == {"", "<nil>", "<error>", "ok"}
Targets(w) == {Walks[w].entries[i][2] : i \in 1..Len(Walks[w].entries)} \ NoClass

CONSTANT ScanAsPinned   \* TRUE: `for k := range aGoMap` (Go map order, the pinned commit);
                        \* FALSE: the repaired walk follows insertion order (registration order, key order,
                        \*        sorted names)

VARIABLES walk, target, visited, answer
vars == <<walk, target, visited, answer>>

Init == /\ walk \in 1..Len(Walks)
        /\ target \in Targets(walk)
        /\ visited = {} /\ answer = ""

E(i) == Walks[walk].entries[i]
N == Len(Walks[walk].entries)

(* one step of `for key, entry := range theMap`: any unvisited entry *)
Scan == /\ answer = ""
        /\ \E i \in (1..N) \ visited :
              /\ ScanAsPinned \/ \A j \in (1..N) \ visited : i <= j
              /\ visited' = visited \cup {i}
              /\ answer' = IF E(i)[2] = target THEN E(i)[1] ELSE ""
        /\ UNCHANGED <<walk, target>>

Spec == Init /\ [][Scan]_vars

Canon == E(CHOOSE i \in 1..N : E(i)[2] = target /\ \A j \in 1..(i-1) : E(j)[2] # target)[1]
Confluent == answer # "" => answer = Canon
=============================================================================
