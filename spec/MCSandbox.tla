----------------------------- MODULE MCSandbox -----------------------------
(***************************************************************************)
(* Model-checking instance of Sandbox over the LIVE universe               *)
(* (IOEnv.VERIF_UNIVERSE, written by `zv sandbox -dump`).                  *)
(*  - TLC explores the derivation closure (every configuration x every     *)
(*    name of the universe x every sequence of derivation routes up to     *)
(*    MaxDepth) and checks NoMinting / DeadStaysDead / TypeOK;             *)
(*    MCSandboxMint.cfg is the self-test (a capability-minting route must  *)
(*    be refuted); MCSandboxClosed.cfg asks for the property itself: its   *)
(*    refutation is the model's PREDICTION of a breach on this universe    *)
(*    (a candidate, never a verdict).                                      *)
(*  - it enumerates the probe vectors (configuration x name x route) for   *)
(*    the harness and writes them to IOEnv.VERIF_VECTORS, each with the    *)
(*    model's prediction (live: the call can happen; cand: capabilities).  *)
(*    Names a configuration cannot call are probed through the routes      *)
(*    direct and sym only unless VERIF_SB_ALLROUTES=1 (thorough tier).     *)
(*    Every vector also exists in the variants of Sandbox!Preludes (the    *)
(*    script first binds the names of Shadow itself) and Sandbox!Histories *)
(*    (an unsandboxed interpreter was set up in the process before).       *)
(***************************************************************************)
EXTENDS Sandbox

AllRoutes == "VERIF_SB_ALLROUTES" \in DOMAIN IOEnv /\ IOEnv.VERIF_SB_ALLROUTES = "1"

RouteSeq == U.routes
NN == Len(U.names)
NR == Len(RouteSeq)

(* variants of a vector: [pre, hist] (Sandbox!Preludes, Sandbox!Histories).   *)
(* quick tier: the prelude defn through the routes direct (the definitions    *)
(* in earlier evaluations) and eval (in the same text) and the prelude defmac *)
(* through direct, for the callable names; the history "after" through direct *)
(* and sym for EVERY name (a name unbound in the sandbox-first order may be   *)
(* bound in the other one).  thorough tier: every prelude kind and both       *)
(* histories through every route, and defn combined with "after".             *)
Variants == <<[pre |-> "", hist |-> ""],
              [pre |-> "defn", hist |-> ""], [pre |-> "defmac", hist |-> ""], [pre |-> "", hist |-> "after"],
              [pre |-> "def", hist |-> ""], [pre |-> "defn", hist |-> "after"]>>
NVar == Len(Variants)
NV == NVar * Len(Cfgs) * NN * NR

VV(k) == Variants[((k - 1) \div (Len(Cfgs) * NN * NR)) + 1]
VC(k) == (((k - 1) \div (NN * NR)) % Len(Cfgs)) + 1
VI(k) == (((k - 1) \div NR) % NN) + 1
VR(k) == RouteSeq[((k - 1) % NR) + 1]

OnlyRepl(i) == \E c \in CfgIx : KindOf(c, i) = "replcmd"

Keep(k) ==
    LET c == VC(k)  i == VI(k)  r == VR(k)  v == VV(k) IN
    IF ~Sandboxed(c)
    THEN v.pre = "" /\ v.hist = "" /\ NameOf(i) \in Known /\ ~OnlyRepl(i)       \* the control
    ELSE /\ OnlyRepl(i) => KindOf(c, i) = "replcmd" /\ r = "direct" /\ v.pre = "" /\ v.hist = ""
         /\ v.hist = "after" => Cfgs[c] \in InProcess          \* (the binary is a process of its own)
         /\ CASE v.pre = "" /\ v.hist = ""      -> Callable(c, i) \/ AllRoutes \/ r \in {"direct", "sym"}
              [] v.pre = "" /\ v.hist = "after" -> AllRoutes \/ r \in {"direct", "sym"}
              [] v.pre = "defn" /\ v.hist = ""   -> Callable(c, i) /\ (AllRoutes \/ r \in {"direct", "eval"})
              [] v.pre = "defmac" /\ v.hist = "" -> Callable(c, i) /\ (AllRoutes \/ r = "direct")
              [] OTHER                           -> AllRoutes /\ Callable(c, i)

Suffix(v) == (IF v.pre = "" THEN "" ELSE "+" \o v.pre) \o (IF v.hist = "" THEN "" ELSE "@" \o v.hist)

Vec(k) ==
    LET c == VC(k)  i == VI(k)  r == VR(k)  v == VV(k) IN
    [id     |-> Cfgs[c] \o "/" \o NameOf(i) \o "/" \o r \o Suffix(v),
     kind   |-> IF Sandboxed(c) THEN "probe" ELSE "control",
     cfg    |-> Cfgs[c],
     names  |-> <<NameOf(i)>>,
     route  |-> r,
     pre    |-> v.pre,
     shadow |-> IF v.pre = "" THEN <<>> ELSE ShadowSeq(c),
     hist   |-> v.hist,
     live   |-> Live(c, i, <<r>>),
     cand   |-> SelectSeq(CapSeq, LAMBDA x : x \in CapOf(c, i, <<r>>))]

(* (operators with a parameter: TLC evaluates a constant definition once per worker at startup) *)
KeptIx(n) == SelectSeq([k \in 1..n |-> k], Keep)
VecSeq(n) == LET kept == KeptIx(n) IN [j \in 1..Len(kept) |-> Vec(kept[j])]

ASSUME IF "VERIF_VECTORS" \in DOMAIN IOEnv
       THEN ndJsonSerialize(IOEnv.VERIF_VECTORS, VecSeq(NV))
       ELSE TRUE
=============================================================================
