----------------------------- MODULE MCSandbox -----------------------------
(***************************************************************************)
(* Model-checking instance of Sandbox over the LIVE universe               *)
(* (IOEnv.VERIF_UNIVERSE, written by `zv sandbox -dump`).                  *)
(*  - TLC explores the derivation closure (every configuration x every     *)
(*    name of the universe x every sequence of derivation routes up to     *)
(*    MaxDepth) and checks NoMinting / DeadStaysDead / TypeOK;             *)
(*    MCSandboxMint.cfg is the self-test (a capability-minting route must  *)
(*    be refuted); MCSandboxClosed.cfg asks for the property itself: its   *)
(*    refutation is the model's PREDICTION of a breach on this universe    *)
(*    (a candidate, never a verdict).                                      *)
(*  - it enumerates the probe vectors (configuration x name x route) for   *)
(*    the harness and writes them to IOEnv.VERIF_VECTORS, each with the    *)
(*    model's prediction (live: the call can happen; cand: capabilities).  *)
(*    Names a configuration cannot call are probed through the routes      *)
(*    direct and sym only unless VERIF_SB_ALLROUTES=1 (thorough tier).     *)
(***************************************************************************)
EXTENDS Sandbox

AllRoutes == "VERIF_SB_ALLROUTES" \in DOMAIN IOEnv /\ IOEnv.VERIF_SB_ALLROUTES = "1"

RouteSeq == U.routes
NN == Len(U.names)
NR == Len(RouteSeq)
NV == Len(Cfgs) * NN * NR

VC(k) == ((k - 1) \div (NN * NR)) + 1
VI(k) == (((k - 1) \div NR) % NN) + 1
VR(k) == RouteSeq[((k - 1) % NR) + 1]

OnlyRepl(i) == \E c \in CfgIx : KindOf(c, i) = "replcmd"

Keep(k) ==
    LET c == VC(k)  i == VI(k)  r == VR(k) IN
    IF Sandboxed(c)
    THEN /\ Callable(c, i) \/ AllRoutes \/ r \in {"direct", "sym"}
         /\ OnlyRepl(i) => KindOf(c, i) = "replcmd" /\ r = "direct"
    ELSE NameOf(i) \in Known /\ ~OnlyRepl(i)       \* the control

Vec(k) ==
    LET c == VC(k)  i == VI(k)  r == VR(k) IN
    [id    |-> Cfgs[c] \o "/" \o NameOf(i) \o "/" \o r,
     kind  |-> IF Sandboxed(c) THEN "probe" ELSE "control",
     cfg   |-> Cfgs[c],
     names |-> <<NameOf(i)>>,
     route |-> r,
     live  |-> Live(c, i, <<r>>),
     cand  |-> SelectSeq(CapSeq, LAMBDA x : x \in CapOf(c, i, <<r>>))]

KeptIx == SelectSeq([k \in 1..NV |-> k], Keep)
VecSeq == [j \in 1..Len(KeptIx) |-> Vec(KeptIx[j])]

ASSUME IF "VERIF_VECTORS" \in DOMAIN IOEnv
       THEN ndJsonSerialize(IOEnv.VERIF_VECTORS, VecSeq)
       ELSE TRUE
=============================================================================
