---------------------------- MODULE MCGoInterop ----------------------------
(***************************************************************************)
(* Exhaustive exploration of the GoInterop specification itself (design    *)
(* audit for C10; verdicts about the code come only from GoInteropTrace).  *)
(*                                                                         *)
(* Initial states: every record graph g = <<root>> \o Pool where the root  *)
(* is a record of one of the registered struct types with at most MaxSet   *)
(* of its (flattened) fields present, each with every value of a palette   *)
(* for the field's type (depth <= 3: slices of slices, maps to interfaces, *)
(* references into a pool of four records that reference each other and    *)
(* the root -- so every sharing pattern of <= 3 records between the        *)
(* pointer-like and value positions, and the cycles through the root, are  *)
(* covered).                                                               *)
(*                                                                         *)
(* Invariants (the laws of the statement, on the specification):           *)
(*   WellTyped   Fill yields a value of the declared shape: one value per  *)
(*               declared field, at every depth (every field filled)       *)
(*   NoLoss      Back(Fill(r)) covers r: every pair of every record is     *)
(*               found, with an equal value, under the field's label       *)
(*   OneObject   exactly one Go object per record that is referenced       *)
(*               through pointer-like positions, however often             *)
(*   MatcherOk   the record Back hands back is accepted by the matcher of  *)
(*               the trace specification (MatchStruct) ...                 *)
(*   DropSeen    ... and the reading of the named deviation                *)
(*               back-drops-field-kinds is NOT accepted for it as soon as  *)
(*               a dropped kind holds a non-zero value (the deviation is   *)
(*               distinguishable, the label cannot be vacuous)             *)
(*   UnknownKey  an undeclared key added to any record reachable from the  *)
(*               root turns the conversion into an error                   *)
(*   WrongKind   so does a value of a wrong kind in place of any field of  *)
(*               the root                                                  *)
(*   Deviations  the deviation flags change nothing on values that do not  *)
(*               trigger them                                              *)
(***************************************************************************)
EXTENDS GoInterop

CONSTANTS MaxSet,     \* at most this many fields of the root are present
          Wide,       \* TRUE: slices and maps also with every pair of elements
          Roots       \* registered type names explored as root

(* phase "seed": g = <<root type, index of the first field present>>, one initial state each, so that *)
(* TLC's workers generate (and check) the graphs of different seeds in parallel; phase "graph": a graph *)
VARIABLES g, phase
vars == <<g, phase>>

(* ---- the pool: records 2..7; the root is record 1, record 8 points back at the root *)
Pool == << <<"zvleaf", << <<"i", <<"int", 7>> >>, <<"plain", <<"str", "p">> >> >> >>,                           \* 2
           <<"zvnode", << <<"name", <<"str", "k">> >>, <<"ptr", <<"ref", 2>> >>, <<"any", <<"ref", 2>> >> >> >>,    \* 3
           <<"zvnode", << <<"next", <<"ref", 3>> >>, <<"val", <<"ref", 2>> >>, <<"kids", <<"arr", << <<"ref", 3>> >> >> >> >> >>, \* 4
           <<"hellcat", << <<"speed", <<"int", 567>> >>, <<"spanCm", <<"int", 3>> >> >> >>,                          \* 5
           <<"persondemo", << <<"first", <<"str", "a">> >> >> >>,                                                   \* 6
           <<"nestinner", << <<"hello", <<"str", "h">> >> >> >> >>                                                  \* 7
PoolIds == 2..7
(* node 8: a node that points back at the root (cycle through the root) *)
BackNode == <<"zvnode", << <<"next", <<"ref", 1>> >>, <<"any", <<"ref", 1>> >> >> >>

Graph(rootNode) == <<rootNode>> \o Pool \o <<BackNode>>

(* records of the pool (and the root itself, and the back node) a position of struct S may reference *)
RefsFor(S, rootS) == {<<"ref", j>> : j \in {j \in PoolIds : RegOf(Pool[j - 1][1]) = S}}
                     \cup (IF rootS = S THEN {<<"ref", 1>>} ELSE {})
                     \cup (IF S = "ZvNode" THEN {<<"ref", 8>>} ELSE {})
IfaceRefs(I, rootS) == UNION {RefsFor(S, rootS) : S \in Impl(I)}

RECURSIVE Palette(_, _, _)
Palette(T, rootS, d) ==
    CASE T[1] = "basic" ->
           (IF T[2] \in {"int", "int64"} THEN {<<"int", 0>>, <<"int", -1>>, <<"int", 300>>}
            ELSE IF T[2] = "int32" THEN {<<"int", 7>>, <<"chr", 97>>}
            ELSE IF T[2] = "int8" THEN {<<"int", -128>>, <<"int", 127>>}
            ELSE IF T[2] = "int16" THEN {<<"int", 300>>}
            ELSE IF T[2] = "dur" THEN {<<"dur", "1s">>}
            ELSE IF T[2] = "nstring" THEN {<<"str", "red">>}
            ELSE IF T[2] = "nfloat64" THEN {<<"flt", "1.5">>}
            ELSE IF T[2] \in UintKinds THEN {<<"int", 5>>}
            ELSE IF T[2] = "float64" THEN {<<"flt", "1.5">>, <<"int", 2>>}
            ELSE IF T[2] = "float32" THEN {<<"flt", "-0.25">>}
            ELSE IF T[2] = "string" THEN {<<"str", "">>, <<"str", "x">>}
            ELSE {<<"bool", TRUE>>, <<"bool", FALSE>>})
      [] T[1] = "bytes" -> {<<"raw", <<104, 105>> >>, <<"nil">>}
      [] T[1] = "time" -> {<<"time", 1>>}
      [] T[1] = "struct" -> RefsFor(T[2], rootS)
      [] T[1] = "ptr" -> {<<"nil">>} \cup RefsFor(T[2], rootS)
      [] T[1] = "iface" -> {<<"nil">>} \cup IfaceRefs(T[2], rootS)
      [] T[1] = "slice" ->
           {<<"nil">>, <<"arr", <<>> >>}
           \cup (IF d >= 3 THEN {}
                 ELSE LET el == Palette(T[2], rootS, d + 1)
                      IN {<<"arr", <<x>> >> : x \in el} \cup {<<"arr", <<x, x>> >> : x \in el}
                         \cup (IF Wide THEN {<<"arr", <<x, y>> >> : x \in el, y \in el} ELSE {}))
      [] T[1] = "map" ->
           {<<"nil">>, <<"hash", <<>> >>}
           \cup LET el == Palette(T[3], rootS, d + 1)
                    k1 == IF T[2] = "string" THEN <<"sym", "a">> ELSE <<"int", 1>>
                    k2 == IF T[2] = "string" THEN <<"str", "b">> ELSE <<"int", 3>>
                IN {<<"hash", << <<k1, x>> >> >> : x \in el} \cup {<<"hash", << <<k1, x>>, <<k2, x>> >> >> : x \in el}
                   \cup (IF Wide THEN {<<"hash", << <<k1, x>>, <<k2, y>> >> >> : x \in el, y \in el} ELSE {})

(* flattened (promoted) fields of a struct: <<key, type>> *)
RECURSIVE Flat(_)
Flat(S) == LET fl == StructOf(S)
               RECURSIVE Go(_)
               Go(i) == IF i > Len(fl) THEN <<>>
                        ELSE (IF FEmb(fl[i]) THEN Flat(FType(fl[i])[2])
                              ELSE << <<FKeys(fl[i])[Len(FKeys(fl[i]))], FType(fl[i])>> >>) \o Go(i + 1)
           IN Go(1)

(* the records of type rn whose first pair sets field i (i = 0: the empty record) *)
RootNodes(rn, i) ==
    LET S == RegOf(rn)
        F == Flat(S)
        n == Len(F)
        Pal(k, d) == Palette(F[k][2], S, d)
        one == {<< <<F[i][1], v>> >> : v \in Pal(i, 1)}
        two == IF MaxSet < 2 THEN {}
               ELSE UNION {{<< <<F[i][1], v>>, <<F[j][1], w>> >> : v \in Pal(i, 1), w \in Pal(j, 1)} : j \in (1..n) \ {i}}
        three == IF MaxSet < 3 THEN {}
                 ELSE UNION {UNION {{<< <<F[i][1], u>>, <<F[j][1], v>>, <<F[k][1], w>> >> :
                                        u \in Pal(i, 2), v \in Pal(j, 2), w \in Pal(k, 2)}
                                    : k \in {kk \in (1..n) \ {i} : kk > j}}
                             : j \in (1..n) \ {i}}
    IN IF i = 0 THEN {<<rn, <<>> >>} ELSE {<<rn, ps>> : ps \in one \cup two \cup three}

Init == /\ phase = "seed"
        /\ \E rn \in Roots : \E i \in 0..Len(Flat(RegOf(rn))) : g = <<rn, i>>
Next == /\ phase = "seed" /\ phase' = "graph"
        /\ \E r \in RootNodes(g[1], g[2]) : g' = Graph(r)
Spec == Init /\ [][Next]_vars

(* ---------------------------------------------------------------- the laws *)
E == Fill(g, 1, NoOpts)
RootS == RegOf(g[1][1])

RECURSIVE WT(_, _, _)
WT(v, T, objs) ==
    CASE T[1] = "basic" -> (IF T[2] \in IntKinds \cup UintKinds THEN v[1] = "int"
                            ELSE IF T[2] \in FloatKinds THEN v[1] = "flt"
                            ELSE IF T[2] \in StringKinds THEN v[1] = "str"
                            ELSE IF T[2] = "dur" THEN v[1] = "dur" ELSE v[1] = "bool")
      [] T[1] = "bytes" -> v[1] = "bytes"
      [] T[1] = "time" -> v[1] = "time"
      [] T[1] = "slice" -> v[1] = "slice" /\ \A i \in 1..Len(v[2]) : WT(v[2][i], T[2], objs)
      [] T[1] = "map" -> v[1] = "map" /\ \A i \in 1..Len(v[2]) : WT(v[2][i][2], T[3], objs)
      [] T[1] = "struct" -> /\ v[1] = "struct" /\ v[2] = T[2] /\ Len(v[3]) = Len(StructOf(T[2]))
                            /\ \A i \in 1..Len(v[3]) : WT(v[3][i], FType(StructOf(T[2])[i]), objs)
      [] T[1] = "ptr" -> v[1] = "nilptr" \/ (v[1] = "ptr" /\ v[2] \in 1..Len(objs) /\ objs[v[2]][2] = T[2])
      [] T[1] = "iface" -> v[1] = "niliface" \/ (v[1] = "iface" /\ v[2][1] = "ptr" /\ v[2][2] \in 1..Len(objs)
                                                 /\ objs[v[2][2]][2] \in Impl(T[2]))
WellTypedG == E.ok =>
                     /\ E.v = <<"ptr", 1>>
                     /\ \A i \in 1..Len(E.st.objs) : WT(E.st.objs[i], ST(E.st.objs[i][2]), E.st.objs)

Acyclic == ~Cyclic(g, 1)
BackRec == BackStruct(E.st.objs[1], E.st.objs)
NoLossG == (E.ok /\ Acyclic) => Covers(g, BackRec, <<"ref", 1>>)

PointedAt == {1} \cup {r[1] : r \in {r \in E.st.refs : r[2] \in {"ptr", "iface"}}}
OneObjectG == E.ok =>
                     /\ Len(E.st.objs) = Cardinality(PointedAt)
                     /\ \A j \in PointedAt : E.st.cache[j] \in 1..Len(E.st.objs)
                     /\ \A j \in PointedAt : \A k \in PointedAt : j # k => E.st.cache[j] # E.st.cache[k]

MatcherOkG == (E.ok /\ Acyclic) => MatchStruct(E.st.objs[1], E.st.objs, BackRec, MatchOpts(FALSE, {}))

(* a dropped kind holds a non-zero value directly in the root object *)
RECURSIVE DroppedNonZero(_, _)
DroppedNonZero(fl, vals) ==
    \E i \in 1..Len(fl) :
        IF FEmb(fl[i]) THEN DroppedNonZero(StructOf(FType(fl[i])[2]), vals[i][3])
        ELSE Dropped(FType(fl[i])) /\ vals[i] # Zero(FType(fl[i]))
DropSeenG == (E.ok /\ Acyclic /\ DroppedNonZero(StructOf(RootS), E.st.objs[1][3]))
               => ~MatchStruct(E.st.objs[1], E.st.objs, BackRec, MatchOpts(TRUE, {}))

AddKey(j) == [g EXCEPT ![j][2] = Append(@, <<"zz", <<"int", 1>> >>)]
UnknownKeyG == E.ok => \A j \in {1} \cup Reach(g, 1) : ~Fill(AddKey(j), 1, NoOpts).ok

WrongFor(T) ==
    CASE T[1] = "basic" -> (IF T[2] \in IntKinds \cup UintKinds \cup FloatKinds
                            THEN {<<"str", "x">>, <<"bool", TRUE>>, <<"arr", <<>> >>, <<"ref", 2>>, <<"time", 1>>, <<"opaque", "int64">>}
                                 \cup (IF T[2] \in {"float64", "nfloat64"} THEN {<<"bigint", "9007199254740993">>} ELSE {})
                                 \cup (IF T[2] = "float32" THEN {<<"flt", "1e+300">>} ELSE {})
                                 \cup (IF T[2] \in FloatKinds THEN {} ELSE {<<"flt", "1.5">>})
                                 \cup (IF T[2] = "int8" THEN {<<"int", 300>>} ELSE {})
                            ELSE IF T[2] \in StringKinds \cup {"dur"}
                            THEN {<<"int", 1>>, <<"bool", TRUE>>, <<"chr", 97>>, <<"raw", <<1>> >>, <<"ref", 2>>,
                                  <<"opaque", "(regexpCompile \"a\")">>, <<"uint", 10>>}
                            ELSE {<<"int", 1>>, <<"str", "true">>, <<"arr", <<>> >>})
      [] T[1] = "bytes" -> {<<"int", 1>>, <<"arr", << <<"int", 1>> >> >>, <<"time", 1>>}
      [] T[1] = "time" -> {<<"int", 1>>, <<"str", "x">>, <<"ref", 2>>}
      [] T[1] = "struct" -> {<<"int", 1>>, <<"hash", <<>> >>, <<"arr", <<>> >>}
                            \cup {<<"ref", j>> : j \in {j \in PoolIds : RegOf(Pool[j - 1][1]) # T[2]}}
      [] T[1] = "ptr" -> {<<"int", 1>>, <<"str", "x">>, <<"hash", <<>> >>}
                         \cup {<<"ref", j>> : j \in {j \in PoolIds : RegOf(Pool[j - 1][1]) # T[2]}}
      [] T[1] = "iface" -> {<<"int", 1>>, <<"hash", <<>> >>}
                           \cup {<<"ref", j>> : j \in {j \in PoolIds : RegOf(Pool[j - 1][1]) \notin Impl(T[2])}}
      [] T[1] = "slice" -> {<<"int", 1>>, <<"str", "x">>, <<"hash", <<>> >>, <<"ref", 2>>}
                           \cup {<<"arr", <<w>> >> : w \in {<<"time", 1>>, <<"hash", << <<<<"sym", "q">>, <<"bool", TRUE>> >> >> >>}
                                                      \ (IF T[2][1] = "time" THEN {<<"time", 1>>} ELSE {})}
      [] T[1] = "map" -> {<<"int", 1>>, <<"arr", <<>> >>, <<"ref", 2>>,
                          <<"hash", << << (IF T[2] = "string" THEN <<"int", 1>> ELSE <<"sym", "a">>), <<"flt", "1.5">> >> >> >>}
WithRootField(i, w) == [g EXCEPT ![1][2][i][2] = w]
FieldType(key) == LET F == Flat(RootS) IN F[CHOOSE i \in 1..Len(F) : F[i][1] = key][2]
WrongKindG == E.ok => \A i \in 1..Len(g[1][2]) : \A w \in WrongFor(FieldType(g[1][2][i][1])) :
                        ~Fill(WithRootField(i, w), 1, NoOpts).ok

(* the deviation flags only matter on their triggers (no int8 out of range, no float in an integer field here) *)
DeviationsG == LET e2 == Fill(g, 1, [NoOpts EXCEPT !.wrap = TRUE, !.trunc = TRUE])
              IN e2.ok = E.ok /\ (E.ok => e2.v = E.v /\ e2.st.objs = E.st.objs)

InGraph == phase = "graph"
WellTyped == InGraph => WellTypedG
NoLoss == InGraph => NoLossG
OneObject == InGraph => OneObjectG
MatcherOk == InGraph => MatcherOkG
DropSeen == InGraph => DropSeenG
UnknownKey == InGraph => UnknownKeyG
WrongKind == InGraph => WrongKindG
Deviations == InGraph => DeviationsG
=============================================================================
