------------------------------ MODULE NumTower ------------------------------
(***************************************************************************)
(* C07: the numeric tower of zygomys -- what (op a b) must yield for two   *)
(* numbers a, b of the types int (int64), uint (uint64), chr (rune) and    *)
(* flt (float64) under the comparisons < <= > >= == !=, the arithmetic     *)
(* operators + - * / and mod.                                              *)
(*                                                                         *)
(* TLC integers are 32-bit, so a machine word is a little-endian sequence  *)
(* of NL limbs of LBITS bits (8 x 8 for the real tower; the same           *)
(* definitions are model-checked against plain integer / rational          *)
(* arithmetic at 8-bit word size by MCNumTower).  A float is its IEEE-754  *)
(* bit pattern in a word: 1 sign bit, EB exponent bits, MB mantissa bits.  *)
(*                                                                         *)
(* The spec defines: wrap-around + - * modulo 2^W, signed and unsigned     *)
(* order, exact division of two integers BY THEIR VALUES (sign and         *)
(* magnitude of the quotient, whether it divides, which integer types can  *)
(* hold it -- also for an int divided by a uint and for min / -1), the     *)
(* conversion int/uint/chr -> float (round to nearest, ties to even),      *)
(* order and equality of floats (-0 = +0, NaN unordered), the dispatch on  *)
(* the operand types, the operands and conversion used and the type of the *)
(* result.  The only delegated primitive is the value of a float64         *)
(* + - * / on two float64 operands (and the correctly rounded quotient of  *)
(* two integers): its graph is supplied per event in `prim` by the         *)
(* harness, computed independently of the library (math/big).  The spec    *)
(* looks the primitive up at the operands IT derives from a and b.         *)
(***************************************************************************)
EXTENDS Integers, Sequences, TLC

CONSTANTS NL,      \* limbs per word
          LBITS,   \* bits per limb  (2^LBITS squared times NL must stay below 2^31)
          EB, MB   \* float format: exponent bits, mantissa bits

RECURSIVE Pow2(_)
Pow2(n) == IF n = 0 THEN 1 ELSE 2 * Pow2(n - 1)

W    == NL * LBITS
LB   == Pow2(LBITS)
HALF == LB \div 2
Bias == Pow2(EB - 1) - 1
P2   == [n \in 0..(LBITS + EB) |-> Pow2(n)]   \* table of the small powers

ASSUME 1 + EB + MB = W /\ NL % 2 = 0
ASSUME Bias + (W - 1) <= Pow2(EB) - 2      \* every W-bit integer is within the finite float range before rounding

Limbs == 1..NL
Zero == [i \in Limbs |-> 0]
One  == [i \in Limbs |-> IF i = 1 THEN 1 ELSE 0]
Bit(x, i) == (x[(i \div LBITS) + 1] \div P2[i % LBITS]) % 2
Sign(x) == x[NL] \div HALF            \* top bit

(* ---------------------------------------------------------------- words *)
RECURSIVE AddFrom(_, _, _, _)
AddFrom(x, y, i, c) ==
    IF i > NL THEN <<>>
    ELSE LET s == x[i] + y[i] + c IN <<s % LB>> \o AddFrom(x, y, i + 1, s \div LB)

Not(x)    == [i \in Limbs |-> LB - 1 - x[i]]
Add(x, y) == AddFrom(x, y, 1, 0)           \* (x + y) mod 2^W
Sub(x, y) == AddFrom(x, Not(y), 1, 1)      \* (x - y) mod 2^W
Neg(x)    == AddFrom(Zero, Not(x), 1, 1)   \* (-x) mod 2^W

RECURSIVE ColSum(_, _, _, _)
ColSum(x, y, k, i) == IF i > k THEN 0 ELSE x[i] * y[k + 1 - i] + ColSum(x, y, k, i + 1)
RECURSIVE MulFrom(_, _, _, _)
MulFrom(x, y, k, c) ==
    IF k > NL THEN <<>>
    ELSE LET s == ColSum(x, y, k, 1) + c IN <<s % LB>> \o MulFrom(x, y, k + 1, s \div LB)
Mul(x, y) == MulFrom(x, y, 1, 0)           \* (x * y) mod 2^W

(* three-way order: -1, 0, 1 *)
RECURSIVE UCmpFrom(_, _, _)
UCmpFrom(x, y, i) ==
    IF i = 0 THEN 0
    ELSE IF x[i] < y[i] THEN -1 ELSE IF x[i] > y[i] THEN 1 ELSE UCmpFrom(x, y, i - 1)
UCmp(x, y) == UCmpFrom(x, y, NL)           \* as unsigned numbers
SCmp(x, y) ==                               \* as two's-complement numbers
    IF Sign(x) # Sign(y) THEN (IF Sign(x) = 1 THEN -1 ELSE 1) ELSE UCmp(x, y)

(* shifts by n bits, 0 <= n < W *)
Limb(x, i) == IF i < 1 \/ i > NL THEN 0 ELSE x[i]
ShR(x, n) ==                                \* x div 2^n
    LET q == n \div LBITS  r == n % LBITS
    IN [i \in Limbs |-> (Limb(x, i + q) \div P2[r]) + (Limb(x, i + q + 1) % P2[r]) * P2[LBITS - r]]
ShL(x, n) ==                                \* (x * 2^n) mod 2^W
    LET q == n \div LBITS  r == n % LBITS
    IN [i \in Limbs |-> ((Limb(x, i - q) * P2[r]) % LB) + (Limb(x, i - q - 1) \div P2[LBITS - r])]
SmallWord(n) == [i \in Limbs |-> IF i = 1 THEN n % LB ELSE IF i = 2 THEN n \div LB ELSE 0]   \* 0 <= n < LB^2

(* index of the highest set bit, -1 for Zero *)
RECURSIVE TopLimbFrom(_, _)
TopLimbFrom(x, i) == IF i = 0 THEN 0 ELSE IF x[i] # 0 THEN i ELSE TopLimbFrom(x, i - 1)
RECURSIVE TopBitOf(_, _)
TopBitOf(v, j) == IF v >= P2[j] THEN j ELSE TopBitOf(v, j - 1)       \* v > 0
HighBit(x) == LET t == TopLimbFrom(x, NL)
              IN IF t = 0 THEN -1 ELSE (t - 1) * LBITS + TopBitOf(x[t], LBITS - 1)

(* unsigned long division, one dividend bit per step; the leading bits of  *)
(* the dividend that cannot yet reach the divisor are shifted in at once   *)
RECURSIVE Shl1From(_, _, _)
Shl1From(x, i, c) ==
    IF i > NL THEN <<>>
    ELSE LET s == 2 * x[i] + c IN <<s % LB>> \o Shl1From(x, i + 1, s \div LB)
Shl1(x, c) == Shl1From(x, 1, c)            \* (2x + c) mod 2^W

RECURSIVE DivFrom(_, _, _, _, _)
DivFrom(x, y, i, q, r) ==                   \* bits i..0 of x still to bring down; r < y
    IF i < 0 THEN [q |-> q, r |-> r]
    ELSE LET sh == Shl1(r, Bit(x, i))
             ge == Sign(r) = 1 \/ UCmp(sh, y) >= 0     \* 2r + bit >= y
         IN DivFrom(x, y, i - 1, Shl1(q, IF ge THEN 1 ELSE 0), IF ge THEN Sub(sh, y) ELSE sh)
UDivMod(x, y) ==                            \* y # Zero: x = q*y + r, r < y
    LET n == HighBit(x) - HighBit(y) + 1    \* at most n quotient bits
    IN IF n <= 0 THEN [q |-> Zero, r |-> x]
       ELSE DivFrom(x, y, n - 1, Zero, ShR(x, n))        \* x div 2^n < 2^HighBit(y) <= y

MinWord == [i \in Limbs |-> IF i = NL THEN HALF ELSE 0]      \* 2^(W-1)

(* the low half of a word, sign-extended: how a rune is held in a word *)
HalfExt(x) ==
    LET s == x[NL \div 2] \div HALF
    IN [i \in Limbs |-> IF i <= NL \div 2 THEN x[i] ELSE IF s = 1 THEN LB - 1 ELSE 0]

(* --------------------------------------------------------------- floats *)
RECURSIVE LimbOf(_, _, _)
LimbOf(bs, k, j) == IF j = LBITS THEN 0 ELSE bs[(k - 1) * LBITS + j] * P2[j] + LimbOf(bs, k, j + 1)
FromBits(bs) == [k \in Limbs |-> LimbOf(bs, k, 0)]

Mag(x) == [i \in Limbs |-> IF i = NL THEN x[i] % HALF ELSE x[i]]
WithSign(m, s) == [i \in Limbs |-> IF i = NL THEN (m[i] % HALF) + s * HALF ELSE m[i]]
InfMag == FromBits([i \in 0..(W - 1) |-> IF i >= MB /\ i < MB + EB THEN 1 ELSE 0])
IsNaN(x)   == UCmp(Mag(x), InfMag) = 1
IsFZero(x) == Mag(x) = Zero
CanonNaN == Add(InfMag, One)

(* three-way order of floats; 2 = unordered *)
FCmp(x, y) ==
    IF IsNaN(x) \/ IsNaN(y) THEN 2
    ELSE IF IsFZero(x) /\ IsFZero(y) THEN 0
    ELSE IF Sign(x) # Sign(y) THEN (IF Sign(x) = 1 THEN -1 ELSE 1)
    ELSE IF Sign(x) = 0 THEN UCmp(Mag(x), Mag(y)) ELSE UCmp(Mag(y), Mag(x))

RECURSIVE AnyBitBelow(_, _)     \* a set bit among positions 0..i-1
AnyBitBelow(x, i) == i > 0 /\ (Bit(x, i - 1) = 1 \/ AnyBitBelow(x, i - 1))

(* unsigned magnitude -> float of the nearest value, ties to even.         *)
(* With h the highest set bit, the MB+1 leading bits 1.mmm are moved so    *)
(* that the leading 1 sits on bit MB, where it adds 1 to the exponent      *)
(* field holding Bias + h - 1.  The float word (sign cleared) read as an   *)
(* integer is monotone in the value, so rounding up is +1 on the word: a   *)
(* mantissa overflow carries into the exponent.                            *)
MagToFloat(m) ==
    IF m = Zero THEN Zero
    ELSE LET h  == HighBit(m)
             sh == h - MB                          \* bits dropped (if > 0)
             S  == IF sh >= 0 THEN ShR(m, sh) ELSE ShL(m, -sh)
             T  == Add(S, ShL(SmallWord(Bias + h - 1), MB))
             up == sh > 0 /\ Bit(m, sh - 1) = 1 /\ (AnyBitBelow(m, sh - 1) \/ Bit(m, sh) = 1)
         IN IF up THEN Add(T, One) ELSE T
UIntToFloat(x) == MagToFloat(x)
SIntToFloat(x) == IF Sign(x) = 1 THEN WithSign(MagToFloat(Neg(x)), 1) ELSE MagToFloat(x)

(* ---------------------------------------------------------------- tower *)
(* a number is <<type, word>>; a chr word is the sign-extended rune        *)
Types  == {"int", "uint", "chr", "flt"}
CmpOps == {"<", "<=", ">", ">=", "==", "!="}
AriOps == {"+", "-", "*", "/"}

AsFloat(a) ==
    CASE a[1] = "flt"  -> a[2]
      [] a[1] = "uint" -> UIntToFloat(a[2])
      [] OTHER         -> SIntToFloat(a[2])
IsZeroNum(a) == IF a[1] = "flt" THEN IsFZero(a[2]) ELSE a[2] = Zero
IsNaNNum(a)  == a[1] = "flt" /\ IsNaN(a[2])

(* what the statement fixes for a comparison of these types ("every        *)
(* combination of numeric types"):                                         *)
(*  exact: same type -- the mathematical order of the values               *)
(*  float: int or chr against flt -- converted to float first              *)
(*  laws : every other combination (int against chr, uint against int,     *)
(*         chr or flt) -- which of < == > holds is not said, but exactly   *)
(*         one of them does, and (< a b) = (> b a): an error is none of    *)
(*         them (checked on the recorded results of the pair, NumTrace)    *)
(* and, in EVERY combination, NaN is unordered against everything.         *)
CmpClass(ta, tb) ==
    IF ta = tb THEN "exact"
    ELSE IF "flt" \in {ta, tb} /\ "uint" \notin {ta, tb} THEN "float"
    ELSE "laws"

Three(a, b) ==
    IF a[1] = "flt" \/ b[1] = "flt" THEN FCmp(AsFloat(a), AsFloat(b))
    ELSE IF a[1] = "uint" THEN UCmp(a[2], b[2])
    ELSE SCmp(a[2], b[2])

Holds(op, r) ==
    CASE op = "<"  -> r = -1
      [] op = "<=" -> r \in {-1, 0}
      [] op = ">"  -> r = 1
      [] op = ">=" -> r \in {0, 1}
      [] op = "==" -> r = 0
      [] op = "!=" -> r # 0

(* arithmetic dispatch:                                                    *)
(*  float: a float operand -- both converted to float, float arithmetic    *)
(*  int / uint: two int64 / two uint64 -- wrap-around, exact division      *)
(*  chr  : chr with chr or int -- integer arithmetic on the rune values;   *)
(*         the statement does not fix whether the result is int or chr     *)
(*  mixed: uint with int or chr -- integer arithmetic on the VALUES (the   *)
(*         int64 read as signed, the uint64 as unsigned); the statement    *)
(*         does not fix whether the result is int or uint.  + - * give the *)
(*         same word under both readings; the quotient does not.           *)
AriClass(ta, tb) ==
    IF "flt" \in {ta, tb} THEN "float"
    ELSE IF ta = "uint" /\ tb = "uint" THEN "uint"
    ELSE IF "uint" \in {ta, tb} THEN "mixed"
    ELSE IF ta = "int" /\ tb = "int" THEN "int"
    ELSE "chr"

(* results are <<kind, payload>> with a tuple payload, so that TLC never   *)
(* compares values of different kinds                                      *)
BoolRes(b) == <<"bool", <<IF b THEN 1 ELSE 0>>>>
ErrRes     == <<"err", <<>>>>
FltRes(w)  == <<"flt", IF IsNaN(w) THEN CanonNaN ELSE w>>   \* every NaN is the same result
NormRes(r) == IF r[1] = "flt" THEN FltRes(r[2]) ELSE r
IntRes(cl, w) ==
    CASE cl = "int"  -> {<<"int", w>>}
      [] cl = "uint" -> {<<"uint", w>>}
      [] cl = "chr"  -> {<<"int", w>>, <<"chr", HalfExt(w)>>}
      [] cl = "mixed" -> {<<"int", w>>, <<"uint", w>>}

(* division of two integers by their values.  The value of <<t, w>> is w   *)
(* read as unsigned for uint and as two's complement otherwise; the exact  *)
(* quotient is (-1)^neg * mag with mag an unsigned word.                   *)
IsNegNum(a) == a[1] # "uint" /\ Sign(a[2]) = 1
MagOf(a)    == IF IsNegNum(a) THEN Neg(a[2]) ELSE a[2]       \* |min| = 2^(W-1) fits the unsigned word
VDiv(a, b) ==                                                 \* b # 0
    LET d == UDivMod(MagOf(a), MagOf(b))
    IN [exact |-> d.r = Zero, mag |-> d.q, neg |-> IsNegNum(a) # IsNegNum(b) /\ d.q # Zero]
(* the integer results of type t that hold the value (-1)^neg * mag: none  *)
(* when the type cannot represent it                                       *)
Holding(t, neg, mag) ==
    IF t = "uint" THEN (IF neg THEN {} ELSE {<<"uint", mag>>})
    ELSE IF neg THEN (IF Sign(mag) = 0 \/ mag = MinWord THEN {<<"int", Neg(mag)>>} ELSE {})
    ELSE (IF Sign(mag) = 0 THEN {<<"int", mag>>} ELSE {})
(* the results of an exact division in class cl; {} when no result type of *)
(* the class holds the quotient: -2^(W-1) / -1, and a uint over a negative *)
(* int whose quotient lies below -2^(W-1)                                  *)
ExactRes(cl, neg, mag) ==
    CASE cl = "int"   -> Holding("int", neg, mag)
      [] cl = "uint"  -> Holding("uint", neg, mag)
      [] cl = "chr"   -> UNION {IntRes("chr", r[2]) : r \in Holding("int", neg, mag)}
      [] cl = "mixed" -> Holding("int", neg, mag) \cup Holding("uint", neg, mag)
(* the name of the correctly rounded quotient in prim: by the reading of   *)
(* the two words                                                           *)
QName(ta, tb) ==
    IF ta = "uint" THEN (IF tb = "uint" THEN "uq" ELSE "usq")
    ELSE (IF tb = "uint" THEN "suq" ELSE "sq")

(* the delegated primitive: prim is a sequence of <<name, x, y, r>>        *)
FP(prim, name, x, y) ==
    LET S == {i \in 1..Len(prim) : prim[i][1] = name /\ prim[i][2] = x /\ prim[i][3] = y}
    IN IF S = {}
       THEN Assert(FALSE, <<"harness did not supply the float primitive at the operands the spec derives", name, x, y>>)
       ELSE prim[CHOOSE i \in S : TRUE][4]

Judged(S) == [j |-> TRUE, acc |-> S]
Unjudged  == [j |-> FALSE, acc |-> {}]

(* the set of results the statement allows for (op a b).  The expectation  *)
(* does not depend on the route by which the operation is reached (program *)
(* text, Apply on the builtin, the exported Go function): a Go panic is    *)
(* never in the set.                                                       *)
Expect(op, a, b, prim) ==
    IF op \in CmpOps THEN
        IF IsNaNNum(a) \/ IsNaNNum(b) THEN Judged({BoolRes(Holds(op, 2))})     \* against everything, from either side
        ELSE IF CmpClass(a[1], b[1]) \in {"exact", "float"}
        THEN Judged({BoolRes(Holds(op, Three(a, b)))}) ELSE Unjudged
    ELSE IF op = "mod" THEN
        IF IsZeroNum(b) THEN Judged({ErrRes}) ELSE Unjudged
    ELSE
    LET cl == AriClass(a[1], b[1]) IN
    IF cl = "float" THEN
        LET r == FltRes(FP(prim, op, AsFloat(a), AsFloat(b)))
        IN IF op = "/" /\ IsZeroNum(b) THEN Judged({r, ErrRes}) ELSE Judged({r})
    ELSE IF op = "+" THEN Judged(IntRes(cl, Add(a[2], b[2])))
    ELSE IF op = "-" THEN Judged(IntRes(cl, Sub(a[2], b[2])))
    ELSE IF op = "*" THEN Judged(IntRes(cl, Mul(a[2], b[2])))
    ELSE IF b[2] = Zero THEN Judged({ErrRes})
    ELSE LET d == VDiv(a, b)
             E == ExactRes(cl, d.neg, d.mag) IN
         IF d.exact /\ E # {} THEN Judged(E)             \* exact when it divides
         ELSE Judged({FltRes(FP(prim, "/", AsFloat(a), AsFloat(b))),   \* floating otherwise: also when the exact
                      FltRes(FP(prim, QName(a[1], b[1]), a[2], b[2]))})  \* quotient is outside the result type (min / -1)

Explained(op, a, b, prim, res) ==
    LET e == Expect(op, a, b, prim) IN ~e.j \/ NormRes(res) \in e.acc

(* -------------------------------------------------- named known deviations *)
(* exact wrong behaviours of the tree at the pinned commit (comparisons.go) *)
SignOfWord(w) == IF w = Zero THEN 0 ELSE IF Sign(w) = 1 THEN -1 ELSE 1
Deviations == {"cmp-int-wrapdiff", "cmp-uint-diff", "cmp-nan-rhs", "cmp-intchr-wrapdiff"}
DevApplies(d, op, a, b) ==
    /\ op \in CmpOps
    /\ CASE d = "cmp-int-wrapdiff" -> a[1] = "int" /\ b[1] = "int"
         [] d = "cmp-uint-diff"    -> a[1] = "uint" /\ b[1] = "uint"
         [] d = "cmp-nan-rhs"      -> a[1] \in {"int", "chr"} /\ IsNaNNum(b)
         [] d = "cmp-intchr-wrapdiff" -> {a[1], b[1]} = {"int", "chr"}   \* breaks (< a b) = (> b a)
         [] OTHER -> FALSE
DevThree(d, a, b) ==
    CASE d = "cmp-int-wrapdiff" -> SignOfWord(Sub(a[2], b[2]))   \* sign of the wrapped difference
      [] d = "cmp-uint-diff"    -> IF a[2] = b[2] THEN 0 ELSE 1  \* "sign" of an unsigned difference
      [] d = "cmp-nan-rhs"      -> 0                             \* signum(x - NaN) = 0
      [] d = "cmp-intchr-wrapdiff" -> SignOfWord(Sub(a[2], b[2]))
DevExplained(d, op, a, b, res) ==
    DevApplies(d, op, a, b) /\ res = BoolRes(Holds(op, DevThree(d, a, b)))
=============================================================================
