INIT Init
NEXT Next
INVARIANTS LiteralLaw SingletonLaw EmptyLaw ErrLaw LengthLaw
CHECK_DEADLOCK FALSE
