INIT Init
NEXT Next
INVARIANTS LiteralLaw SingletonLaw EmptyLaw ErrLaw LengthLaw NilLaw BadLaw HashLaw
CHECK_DEADLOCK FALSE
