SPECIFICATION TSpec
CONSTANTS
  MaxDepth = 0
  Mint = FALSE
CHECK_DEADLOCK FALSE
