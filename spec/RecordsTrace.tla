---------------------------- MODULE RecordsTrace ----------------------------
(***************************************************************************)
(* Trace validation for C17.  Every line of the trace file is one recorded *)
(* history of script-level operations on the real interpreter (declare /   *)
(* redeclare a struct, construct, decode, encode and decode again, write a *)
(* field through one of the routes the language offers, take a pointer and *)
(* keep it, whole-instance assignment through a pointer).  After every     *)
(* step the harness recorded ok / err / panic and, for every instance      *)
(* bound to a variable, its type name, its keys and the type of each       *)
(* value (read off the Go values; only the instances whose observation     *)
(* changed are listed).  Each case is an initial state; TLC                *)
(* steps through the events with Records!Outcomes: the event is explained  *)
(* iff some allowed outcome has the recorded result and produces exactly   *)
(* the recorded instances.  The monitor is total: the first unexplained    *)
(* event ends the case with "bad" (position, reason "res" = no allowed     *)
(* outcome has that result, "obs" = the instances differ); a case that     *)
(* needed a named deviation (enabled through VERIF_DEVS) ends              *)
(* "known:<id>", any other "ok".                                           *)
(***************************************************************************)
EXTENDS Records, Json, IOUtils, TLC, SequencesExt

Cases == ndJsonDeserialize(IOEnv.VERIF_TRACE)

AllDevs == {"decode-error-swallowed", "nonsymbol-key-unchecked", "nil-elem-slice-panics",
            "slice-element-unchecked", "derefset-adopts-definition"}
DevStr == IF "VERIF_DEVS" \in DOMAIN IOEnv THEN IOEnv.VERIF_DEVS ELSE ""
HasDev(d) == ReplaceFirstSubSeq("", d, DevStr) # DevStr
TraceDevs == {d \in AllDevs : HasDev(d)}
TraceNames == {"A", "B", "C", "D"}

VARIABLES ci, pos, verdict, known, view
tvars == <<st, res, steps, ci, pos, verdict, known, view>>

Evs == Cases[ci].evs

(* versions are not observable on a value *)
Norm(v) == IF v[1] \in {"anon", "aptr"} THEN <<v[1], v[2]>> ELSE v
(* slot |-> <<struct name, {<<key, kind of value>>}>> for the live instances *)
ModelView(s) ==
    [k \in {k \in 1..Len(s.inst) : s.inst[k].live} |->
        <<s.inst[k].type, {<<key, Norm(s.inst[k].f[key])>> : key \in DOMAIN s.inst[k].f}>>]
(* the harness records only the slots whose observation changed (type ""  *)
(* = no longer bound to a record); the full observed view is rebuilt here *)
ObsView(v, obs) ==
    LET upd  == {obs[j][1] : j \in 1..Len(obs)}
        gone == {obs[j][1] : j \in {j \in 1..Len(obs) : obs[j][2] = ""}}
    IN [k \in ((DOMAIN v) \cup upd) \ gone |->
          IF k \in upd
          THEN LET j == CHOOSE j \in 1..Len(obs) : obs[j][1] = k
               IN <<obs[j][2], {<<obs[j][3][m][1], obs[j][3][m][2]>> : m \in 1..Len(obs[j][3])}>>
          ELSE v[k]]
EmptyView == [k \in {} |-> <<"", {}>>]

TInit == /\ ci \in 1..Len(Cases) /\ pos = 1 /\ verdict = "run" /\ known = ""
         /\ st = InitSt /\ res = "ok" /\ steps = 0 /\ view = EmptyView

TStep ==
    /\ verdict = "run" /\ pos <= Len(Evs)
    /\ LET e     == Evs[pos]
           seen  == ObsView(view, e.obs)
           outs  == Outcomes(st, e)
           sameR == {o \in outs : o.r = e.res}
           match == {o \in sameR : ModelView(o.s) = seen}
           plain == {o \in match : o.d = ""}
       IN IF match # {}
          THEN LET o == IF plain # {} THEN CHOOSE o \in plain : TRUE ELSE CHOOSE o \in match : TRUE
               IN /\ st' = o.s /\ res' = o.r /\ pos' = pos + 1 /\ view' = seen
                  /\ known' = IF known = "" THEN o.d ELSE known
                  /\ UNCHANGED <<steps, ci, verdict>>
          ELSE /\ verdict' = "bad" /\ UNCHANGED <<st, res, steps, ci, pos, known, view>>
               /\ PrintT(<<"VERDICT", Cases[ci].id, "bad", pos, IF sameR = {} THEN "res" ELSE "obs">>)

TDone ==
    /\ verdict = "run" /\ pos > Len(Evs)
    /\ verdict' = (IF known = "" THEN "ok" ELSE "known:" \o known)
    /\ UNCHANGED <<st, res, steps, ci, pos, known, view>>
    /\ PrintT(<<"VERDICT", Cases[ci].id, IF known = "" THEN "ok" ELSE "known:" \o known, pos - 1>>)

TNext == TStep \/ TDone
TSpec == TInit /\ [][TNext]_tvars
=============================================================================
