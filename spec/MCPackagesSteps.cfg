SPECIFICATION Spec
CONSTANTS
  KeyRule = "any"
  D1 = FALSE
  D2 = FALSE
  MaxSteps = 2
  Depth = 2
  StepTrees = TRUE
INVARIANTS Refines AliasNeutral NoPrivateWrite WalkAudit PrivateStable
CHECK_DEADLOCK FALSE
