SPECIFICATION Spec
CONSTANTS
  KeyRule = "any"
  D1 = FALSE
  D2 = FALSE
  D3 = FALSE
  MaxSteps = 2
  Depth = 2
  StepTrees = TRUE
INVARIANTS Refines AliasNeutral NoPrivateWrite WalkAudit PrivateStable InsideReads
CHECK_DEADLOCK FALSE
