SPECIFICATION Spec
CONSTANTS
  Names <- MCNames1
  MaxScopes = 5
  MaxFuns = 2
  MaxDepth = 5
  Variant = "nocapture"
INVARIANTS TypeOK Refines
CHECK_DEADLOCK FALSE
