---------------------------- MODULE Bytecode ----------------------------
(***************************************************************************)
(* C04 (static half) and C09 (space): abstract execution of the REAL       *)
(* compiler's output.  The input is the instruction listing of every       *)
(* function and top-level chunk the live interpreter compiled during the   *)
(* harness runs (dumped through the verif accessor VerifListing); this     *)
(* module executes each listing abstractly along ALL control paths,        *)
(* tracking only the shape of the data stack (value cells, list markers,   *)
(* named stack marks) and the number of scopes opened.                     *)
(*                                                                         *)
(* Checked on every path of every listing:                                 *)
(*   NeedOK      no instruction pops below the function's entry height     *)
(*   AtReturn    at `ret` exactly one value is left and every scope the    *)
(*               function opened is closed                                 *)
(*   AtEnd       a top-level chunk ends with exactly one value, no scope   *)
(*   TailExact   at a self tail call exactly the arguments are on the      *)
(*               stack and exactly the function's scopes are open, so the  *)
(*               state on re-entry equals the state of the first entry     *)
(*               (constant space for every recursion depth, by induction)  *)
(*   Bounded     heights stay small (an unbalanced loop body shows as       *)
(*               growth)                                                   *)
(* An instruction kind this module does not know makes the listing         *)
(* "unknown" (not judged), never a violation.                              *)
(***************************************************************************)
EXTENDS VMEffects, FiniteSets, Json, IOUtils, TLC

ASSUME TLCSet(11, ndJsonDeserialize(IOEnv.VERIF_TRACE))
Funcs == TLCGet(11)      \* each: [id, name, kind ("fn"|"chunk"), nargs, varargs, instrs]

MaxHeight == 40
MaxScopes == 12

VARIABLES fi,      \* which listing
          pc,      \* 0-based program counter
          cells,   \* abstract data stack above the entry base: <<"v">> | <<"M">> | <<"mark", sym>>
          sd,      \* scopes opened since entry
          st       \* "run" | "done" | "bad:<why>" | "unknown"
vars == <<fi, pc, cells, sd, st>>

F == Funcs[fi]
I == F.instrs[pc + 1]
N == Len(F.instrs)

VC == <<"v">>
MC == <<"M">>
V(n) == [i \in 1..n |-> VC]
Entry(f) == IF f.kind = "fn" THEN V(f.nargs + (IF f.varargs THEN 1 ELSE 0)) ELSE <<>>

Init == fi \in 1..Len(Funcs) /\ pc = 0 /\ cells = Entry(Funcs[fi]) /\ sd = 0 /\ st = "run"

Bad(why) == /\ st' = "bad:" \o why /\ UNCHANGED <<fi, pc, cells, sd>>
            /\ PrintT(<<"VERDICT", F.id, "bad", why, pc>>)
Go(npc, ncells, nsd) ==
    IF Len(ncells) > MaxHeight THEN Bad("height-grows")
    ELSE IF nsd < 0 THEN Bad("scope-underflow")
    ELSE IF nsd > MaxScopes THEN Bad("scopes-grow")
    ELSE pc' = npc /\ cells' = ncells /\ sd' = nsd /\ UNCHANGED <<fi, st>>

Drop(s, k) == SubSeq(s, 1, Len(s) - k)
PopPush(k, m) == IF Len(cells) < k THEN Bad("underflow") ELSE Go(pc + 1, Drop(cells, k) \o V(m), sd)

(* cut the stack back to the nearest cell c (searching from the top); 0 if absent *)
LastIndex(s, c) == IF \E i \in 1..Len(s) : s[i] = c
                   THEN CHOOSE i \in 1..Len(s) : s[i] = c /\ \A j \in (i+1)..Len(s) : s[j] # c
                   ELSE 0

LoopPos(name) == IF \E i \in 1..N : F.instrs[i].op = "loopstart" /\ F.instrs[i].loop = name
                 THEN (CHOOSE i \in 1..N : F.instrs[i].op = "loopstart" /\ F.instrs[i].loop = name) - 1
                 ELSE -1

Known == {"jump", "goto", "branch", "push", "pushlazy", "pushmarker", "pop", "dup", "envtostack", "popstackputenv",
          "update", "call", "callexpr", "dispatch", "return", "returnerr", "addscope", "addfuncscope", "removescope",
          "explode", "squash", "bindlist", "vectorize", "hashize", "label", "break", "continue", "loopstart",
          "pushmark", "popuntilmark", "clearmark", "debug", "createclosure", "assign", "popscopetodata", "tailcall"}

Step ==
  /\ st = "run"
  /\ IF pc >= N
     THEN (* fell off the end: only a top-level chunk may; one value, no scope *)
          IF F.kind = "chunk" /\ Len(cells) = 1 /\ sd = 0 THEN st' = "done" /\ UNCHANGED <<fi, pc, cells, sd>>
          ELSE IF F.kind = "chunk" /\ Len(cells) = 0 /\ sd = 0 /\ N = 0 THEN st' = "done" /\ UNCHANGED <<fi, pc, cells, sd>>
          ELSE Bad("at-end")
     ELSE
     LET op == I.op IN
     CASE op \notin Known -> /\ st' = "unknown" /\ UNCHANGED <<fi, pc, cells, sd>>
                              /\ PrintT(<<"VERDICT", F.id, "unknown", op, pc>>)
       [] op = "jump" -> Go(pc + I.n, cells, sd)
       [] op = "goto" -> Go(I.n, cells, sd)
       [] op = "branch" ->
            IF Len(cells) < 1 THEN Bad("underflow")
            ELSE \/ Go(pc + 1, Drop(cells, 1), sd)
                 \/ Go(pc + I.n, Drop(cells, 1), sd)
       [] op = "pushmarker" -> Go(pc + 1, Append(cells, MC), sd)
       [] op = "pushmark" -> Go(pc + 1, Append(cells, <<"mark", I.sym>>), sd)
       [] op = "pop" ->
            (* PopInstr tolerates an empty stack; only the chunk-joining pop may rely on it *)
            IF Len(cells) = 0 THEN (IF F.kind = "chunk" /\ pc = 0 THEN Go(pc + 1, cells, sd) ELSE Bad("pop-on-empty"))
            ELSE Go(pc + 1, Drop(cells, 1), sd)
       [] op \in {"break", "continue"} ->
            LET p == LoopPos(I.loop) IN
            IF p < 0 THEN Bad("no-loop") ELSE Go(p + I.off, cells, sd + Eff(I)[3])
       [] Eff(I) # <<>> ->      \* the instructions with a fixed effect: the table of VMEffects
            LET e == Eff(I) IN
            IF Len(cells) < e[1] THEN Bad("underflow") ELSE Go(pc + 1, Drop(cells, e[1]) \o V(e[2]), sd + e[3])
       [] op = "return" ->
            IF Len(cells) = 1 /\ sd = 0 THEN st' = "done" /\ UNCHANGED <<fi, pc, cells, sd>>
            ELSE Bad(IF sd # 0 THEN "return-scopes" ELSE "return-height")
       [] op = "returnerr" -> st' = "done" /\ UNCHANGED <<fi, pc, cells, sd>>
       [] op = "explode" ->   \* a list of unknown length is spread: 0, 1 or 2 values
            IF Len(cells) < 1 THEN Bad("underflow")
            ELSE \E k \in 0..2 : Go(pc + 1, Drop(cells, 1) \o V(k), sd)
       [] op \in {"squash", "vectorize", "hashize"} ->
            LET i == LastIndex(cells, MC) IN
            IF i = 0 THEN Bad("no-marker") ELSE Go(pc + 1, Append(SubSeq(cells, 1, i - 1), VC), sd)
       [] op = "popuntilmark" ->
            LET i == LastIndex(cells, <<"mark", I.sym>>) IN
            IF i = 0 THEN Bad("no-mark") ELSE Go(pc + 1, SubSeq(cells, 1, i), sd)
       [] op = "clearmark" ->
            LET i == LastIndex(cells, <<"mark", I.sym>>) IN
            IF i = 0 THEN Bad("no-mark") ELSE Go(pc + 1, SubSeq(cells, 1, i - 1), sd)
       [] op = "tailcall" ->
            (* self case: re-entry with exactly the arguments and the scopes closed;  *)
            (* otherwise (the name was re-bound) an ordinary call                     *)
            \/ IF Len(cells) = I.n /\ sd = I.off /\ \A i \in 1..Len(cells) : cells[i] = VC
               THEN st' = "done" /\ UNCHANGED <<fi, pc, cells, sd>>
               ELSE Bad("tailcall-state")
            \/ PopPush(I.n, 1)

Next == Step
Spec == Init /\ [][Next]_vars

=============================================================================
