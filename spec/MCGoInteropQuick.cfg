SPECIFICATION Spec
CONSTANTS
  MaxSet = 2
  Wide = FALSE
  Roots = {"zvodd", "zvbox", "zvnode", "zvpair", "zvemb", "zvtower", "eventdemo", "snoopy", "weather", "nestouter"}
INVARIANTS WellTyped NoLoss OneObject MatcherOk DropSeen UnknownKey WrongKind Deviations
CHECK_DEADLOCK FALSE
