SPECIFICATION Spec
CONSTANTS
  MaxLen = 3
  MaxN = 3
  Variant = "reuse"
INVARIANTS InvisibleHolds
CHECK_DEADLOCK FALSE
