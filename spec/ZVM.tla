------------------------------- MODULE ZVM -------------------------------
(***************************************************************************)
(* The instructions of the zygomys stack VM (zygo/vm.go) BY VALUE.         *)
(*                                                                         *)
(* VMEffects.tla states how many cells an instruction pops and pushes;     *)
(* this module states WHICH cells.  A machine state is                     *)
(*     [pc |-> Int, st |-> Seq(Cell), sc |-> Int, err |-> STRING]          *)
(* pc   program counter inside the current function,                       *)
(* st   the data stack, bottom first, top = st[Len(st)],                   *)
(* sc   depth of the scope stack,                                          *)
(* err  "" while running, otherwise the class of the error the             *)
(*      instruction returned (the state is then not advanced).             *)
(*                                                                         *)
(* A Cell is a tagged tuple in the projection of CONVENTIONS 1             *)
(* (<<"int",1>>, <<"list",<<..>>>>, <<"nil">>, ...) or one of the cells    *)
(* that only live on the data stack:                                       *)
(*     <<"M">>            the marker pushed before the operands of         *)
(*                        squash / vectorize / hashize (SexpMarker)        *)
(*     <<"mark", name>>   a named stack mark (SexpStackmark)               *)
(*     <<"fn">>           a function / closure (identity is not projected) *)
(*     <<"sel">>          a reference (Selector: a[i], h.k of the infix    *)
(*                        syntax); its value needs the heap                *)
(*     <<"other", type>>  any other host object                            *)
(*                                                                         *)
(* An instruction is a record with at least the fields                     *)
(*     op   kind (the names of VerifListing)                               *)
(*     n    jump offset / goto location / nargs / scopes to pop            *)
(*     b    branch direction                                               *)
(*     sym  name (stack marks, env instructions)                           *)
(*     val  the constant of push (a Cell)                                  *)
(*     lp   break/continue: pc of the loopstart of the loop in the listing *)
(*     off  break/continue: offset from lp; tailcall: scopes to pop        *)
(*                                                                         *)
(* Three classes:                                                          *)
(*  Determined(I)  the new state is a function of I and the state alone:   *)
(*                 Exec(I, s).                                             *)
(*  Oracular(I)    the instruction reads or writes the environment or      *)
(*                 calls out; only the shape is a function of I and the    *)
(*                 state.  ExecOracle(I, s, r) is the new state GIVEN the  *)
(*                 result cell r, which the trace supplies (an ORACLE      *)
(*                 VALUE: not stated by this module); OracleOK(I, s, r)    *)
(*                 states what is known about r.                           *)
(*  otherwise      unknown to this module (popscopetodata, precall,        *)
(*                 returnerr, addfuncscope is Determined).                 *)
(*                                                                         *)
(* Variant = "vm" is the real VM.  The other values are deliberately wrong *)
(* machines that MCZVM must refute (self-test of the invariants).          *)
(***************************************************************************)
EXTENDS Integers, Sequences, FiniteSets

CONSTANT Variant    \* "vm" | "squash-reversed" | "dup-below" | "branch-keeps"

---------------------------------------------------------------------------
(* equality of cells that never compares payloads of different kinds *)
RECURSIVE Eq(_, _)
EqSeq(a, b) == Len(a) = Len(b) /\ \A i \in 1..Len(a) : Eq(a[i], b[i])
Eq(a, b) ==
    /\ a[1] = b[1]
    /\ CASE a[1] \in {"list", "arr"} -> EqSeq(a[2], b[2])
         [] a[1] = "dotted" -> EqSeq(a[2], b[2]) /\ Eq(a[3], b[3])
         [] a[1] = "hash" -> /\ a[2] = b[2]
                             /\ Len(a[3]) = Len(b[3])
                             /\ \A i \in 1..Len(a[3]) : Eq(a[3][i][1], b[3][i][1]) /\ Eq(a[3][i][2], b[3][i][2])
         [] OTHER -> a = b

Marker == <<"M">>
Mark(name) == <<"mark", name>>
Nil == <<"nil">>
IsMarker(c) == c[1] = "M"
IsMark(c, name) == c[1] = "mark" /\ c[2] = name

Top(st) == st[Len(st)]
Drop(st, k) == SubSeq(st, 1, Len(st) - k)          \* without its k top cells
Reverse(s) == [i \in 1..Len(s) |-> s[Len(s) + 1 - i]]

MaxOf(S) == CHOOSE i \in S : \A j \in S : j <= i
(* index of the nearest (highest) marker, 0 if there is none *)
TopMarker(st) == LET S == {i \in 1..Len(st) : IsMarker(st[i])} IN IF S = {} THEN 0 ELSE MaxOf(S)
TopMark(st, name) == LET S == {i \in 1..Len(st) : IsMark(st[i], name)} IN IF S = {} THEN 0 ELSE MaxOf(S)

(* the list value of a sequence of cells: Cons(e1, Cons(e2, ... nil)); the empty list IS nil *)
ListOf(es) == IF Len(es) = 0 THEN Nil ELSE <<"list", es>>
ArrOf(es) == <<"arr", es>>
(* ListToArray: nil and proper lists only *)
IsListCell(c) == c[1] \in {"nil", "list"}
Elems(c) == IF c[1] = "nil" THEN <<>> ELSE c[2]

(* IsTruthy (expressions.go): false are #f, the integers 0, the char 0 and nil; everything else,  *)
(* strings, lists, the empty array, functions, is true.  A reference or a symbol is followed      *)
(* first (RValue), which needs the heap: not known here.                                          *)
TruthKnown(c) == c[1] \notin {"sel", "sym"}
Truthy(c) == CASE c[1] = "bool" -> c[2]
               [] c[1] \in {"int", "chr"} -> c[2] # 0
               [] c[1] = "uint" -> c[2] # "0"
               [] c[1] = "nil" -> FALSE
               [] OTHER -> TRUE

---------------------------------------------------------------------------
Det == {"push", "pushmarker", "pop", "dup", "jump", "goto", "branch", "squash", "vectorize", "explode",
        "pushmark", "popuntilmark", "clearmark", "addscope", "addfuncscope", "removescope",
        "label", "loopstart", "debug", "break", "continue", "return"}
Orc == {"envtostack", "popstackputenv", "update", "call", "callexpr", "dispatch", "createclosure",
        "assign", "pushlazy", "bindlist", "hashize", "tailcall"}
Determined(I) == I.op \in Det
Oracular(I) == I.op \in Orc

Fail(s, why) == [s EXCEPT !.err = why]
Adv(s, st) == [s EXCEPT !.pc = s.pc + 1, !.st = st]

(* the cells a squash-like instruction collects: everything above the nearest marker, in push order *)
Collected(st) == SubSeq(st, TopMarker(st) + 1, Len(st))

Exec(I, s) ==
    LET st == s.st  n == Len(s.st) IN
    CASE I.op = "push" -> Adv(s, Append(st, I.val))
      [] I.op = "pushmarker" -> Adv(s, Append(st, Marker))
      [] I.op = "pushmark" -> Adv(s, Append(st, Mark(I.sym)))
      (* SURPRISING: pop on the empty stack is not an error, it does nothing but advance *)
      [] I.op = "pop" -> IF n = 0 THEN Adv(s, st) ELSE Adv(s, Drop(st, 1))
      [] I.op = "dup" ->
            IF n = 0 THEN Fail(s, "underflow")
            ELSE IF Variant = "dup-below" /\ n >= 2 THEN Adv(s, Append(st, st[n - 1]))
            ELSE Adv(s, Append(st, st[n]))
      [] I.op = "jump" -> [s EXCEPT !.pc = s.pc + I.n]
      [] I.op = "goto" -> [s EXCEPT !.pc = I.n]
      (* branch pops exactly one cell, whatever it is; a non-bool is not an error: it is tested   *)
      (* with IsTruthy.  The jump is relative.                                                     *)
      [] I.op = "branch" ->
            IF n = 0 THEN Fail(s, "underflow")
            ELSE LET rest == IF Variant = "branch-keeps" THEN st ELSE Drop(st, 1) IN
                 IF I.b = Truthy(st[n]) THEN [s EXCEPT !.pc = s.pc + I.n, !.st = rest]
                 ELSE [s EXCEPT !.pc = s.pc + 1, !.st = rest]
      (* squash / vectorize: pop to the nearest marker, the marker too; no marker: the stack is   *)
      (* emptied and the instruction fails                                                         *)
      [] I.op = "squash" ->
            IF TopMarker(st) = 0 THEN Fail([s EXCEPT !.st = <<>>], "underflow")
            ELSE LET es == IF Variant = "squash-reversed" THEN Reverse(Collected(st)) ELSE Collected(st)
                 IN Adv(s, Append(SubSeq(st, 1, TopMarker(st) - 1), ListOf(es)))
      [] I.op = "vectorize" ->
            IF TopMarker(st) = 0 THEN Fail([s EXCEPT !.st = <<>>, !.pc = s.pc + 1], "underflow")   \* pc is advanced first
            ELSE Adv(s, Append(SubSeq(st, 1, TopMarker(st) - 1), ArrOf(Collected(st))))
      (* explode: the list on top becomes its elements, first element deepest; nil becomes nothing; *)
      (* anything else (an array too) is an error and the cell is gone                              *)
      [] I.op = "explode" ->
            IF n = 0 THEN Fail(s, "underflow")
            ELSE IF ~IsListCell(st[n]) THEN Fail([s EXCEPT !.st = Drop(st, 1)], "notalist")
            ELSE Adv(s, Drop(st, 1) \o Elems(st[n]))
      (* popuntilmark: everything above the named mark goes, the mark stays (marks of other names *)
      (* and markers above it go too); clearmark: the mark goes as well                           *)
      [] I.op = "popuntilmark" ->
            IF TopMark(st, I.sym) = 0 THEN Fail([s EXCEPT !.st = <<>>, !.pc = s.pc + 1], "underflow")
            ELSE Adv(s, SubSeq(st, 1, TopMark(st, I.sym)))
      [] I.op = "clearmark" ->
            IF TopMark(st, I.sym) = 0 THEN Fail([s EXCEPT !.st = <<>>], "underflow")
            ELSE Adv(s, SubSeq(st, 1, TopMark(st, I.sym) - 1))
      [] I.op \in {"addscope", "addfuncscope"} -> [Adv(s, st) EXCEPT !.sc = s.sc + 1]
      [] I.op = "removescope" ->
            IF s.sc = 0 THEN Fail([s EXCEPT !.pc = s.pc + 1], "underflow") ELSE [Adv(s, st) EXCEPT !.sc = s.sc - 1]
      [] I.op \in {"label", "loopstart", "debug"} -> Adv(s, st)
      (* break / continue: n scopes are popped, control goes to the loop's start + a fixed offset; *)
      (* the data stack is not touched (the compiler cleans it with the stack marks)              *)
      [] I.op \in {"break", "continue"} ->
            IF s.sc < I.n THEN Fail(s, "underflow") ELSE [s EXCEPT !.pc = I.lp + I.off, !.sc = s.sc - I.n]
      (* return leaves the function: the data stack is handed to the caller as it is (the value is *)
      (* its top cell); pc = -1 stands for "the caller's"                                          *)
      [] I.op = "return" -> [s EXCEPT !.pc = -1]
      [] OTHER -> Fail(s, "not-determined")

---------------------------------------------------------------------------
(* ORACLE instructions: r is the result cell taken from the record *)
OraclePops(I) ==
    CASE I.op \in {"envtostack", "callexpr", "createclosure", "pushlazy", "tailcall"} -> 0
      [] I.op \in {"popstackputenv", "update", "bindlist"} -> 1
      [] I.op = "assign" -> 2
      [] I.op = "call" -> I.n
      [] I.op = "dispatch" -> I.n + 1
      [] OTHER -> 0
OraclePushes(I) == IF I.op \in {"popstackputenv", "update", "bindlist"} THEN 0 ELSE 1

ExecOracle(I, s, r) ==
    LET st == s.st  n == Len(s.st) IN
    IF I.op = "hashize" THEN
        IF TopMarker(st) = 0 THEN Fail([s EXCEPT !.st = <<>>], "underflow")
        ELSE Adv(s, Append(SubSeq(st, 1, TopMarker(st) - 1), r))
    ELSE IF n < OraclePops(I) THEN Fail(s, "underflow")
    ELSE Adv(s, IF OraclePushes(I) = 1 THEN Append(Drop(st, OraclePops(I)), r) ELSE Drop(st, OraclePops(I)))

(* what is determined about the oracle value *)
DistinctKeys(ks) == \A i, j \in 1..Len(ks) : i # j => ~(ks[i][1] = ks[j][1] /\ Eq(ks[i], ks[j]))
OracleOK(I, s, r) ==
    LET st == s.st  n == Len(s.st) IN
    CASE I.op = "createclosure" -> r[1] = "fn"
      [] I.op = "pushlazy" -> r[1] = "other"
      (* an assignment is an expression: it leaves the value it assigned, the cell that was on top *)
      (* (a reference or a symbol is followed first)                                               *)
      [] I.op = "assign" -> n >= 2 /\ (TruthKnown(st[n]) => Eq(r, st[n]))
      (* bindlist: the top cell is a list with at least n elements (nothing is pushed) *)
      [] I.op = "bindlist" -> n >= 1 /\ IsListCell(st[n]) /\ Len(Elems(st[n])) >= I.n
      (* hashize: a hash; a plain hash built from k keys and k values in push order with distinct *)
      (* scalar keys has exactly these pairs in this order                                         *)
      [] I.op = "hashize" ->
            /\ r[1] = "hash"
            /\ LET es == Collected(st) IN
               (/\ r[2] = "hash" /\ Len(es) % 2 = 0
                /\ \A i \in 1..Len(es) : (i % 2 = 1) => es[i][1] \in {"str", "int", "chr"}
                /\ DistinctKeys([i \in 1..(Len(es) \div 2) |-> es[2 * i - 1]]))
               => (/\ Len(r[3]) = Len(es) \div 2
                   /\ \A i \in 1..Len(r[3]) : Eq(r[3][i][1], es[2 * i - 1])
                   /\ \A i \in 1..Len(r[3]) : TruthKnown(es[2 * i]) => Eq(r[3][i][2], es[2 * i]))
      [] OTHER -> TRUE

(***************************************************************************)
(* The environment part that IS determined, stated over an abstract        *)
(* environment env (a function from names to cells, one scope):            *)
(* popstackputenv x pops exactly the cell a following envtostack x in the  *)
(* same scope pushes.  MCZVM explores it.                                  *)
(***************************************************************************)
PutEnv(env, x, v) == [env EXCEPT ![x] = v]
ExecEnv(I, s, env) ==
    CASE I.op = "popstackputenv" ->
            IF Len(s.st) = 0 THEN [s |-> Fail(s, "underflow"), env |-> env]
            ELSE [s |-> Adv(s, Drop(s.st, 1)), env |-> PutEnv(env, I.sym, Top(s.st))]
      [] I.op = "envtostack" ->
            IF env[I.sym] = <<"unbound">> THEN [s |-> Fail(s, "unbound"), env |-> env]
            ELSE [s |-> ExecOracle(I, s, env[I.sym]), env |-> env]
      [] OTHER -> [s |-> Exec(I, s), env |-> env]
=============================================================================
