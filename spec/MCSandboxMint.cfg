SPECIFICATION Spec
CONSTANTS
  MaxDepth = 1
  Mint = TRUE
CONSTANT U <- MCU
INVARIANTS TypeOK NoMinting DeadStaysDead
CHECK_DEADLOCK FALSE
