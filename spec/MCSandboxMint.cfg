SPECIFICATION Spec
CONSTANTS
  MaxDepth = 1
  Mint = TRUE
INVARIANTS TypeOK NoMinting DeadStaysDead
CHECK_DEADLOCK FALSE
