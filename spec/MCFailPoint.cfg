SPECIFICATION MCSpec
CONSTANTS
  Names = {"a", "b"}
  Vers = {"v1", "v2"}
  Policy = "journal"
  MaxLen = 3
INVARIANTS Refines Law
CHECK_DEADLOCK FALSE
