SPECIFICATION Spec
CONSTANTS
  MaxLen = 3
  MaxN = 3
  Variant = "leaky"
INVARIANTS InvisibleHolds SpaceButLeak
CHECK_DEADLOCK FALSE
