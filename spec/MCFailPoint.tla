---------------------------- MODULE MCFailPoint ----------------------------
(***************************************************************************)
(* Exhaustive check of FailPoint for all texts up to MaxLen forms from all *)
(* initial states: the compile-then-run model with the macro journal       *)
(* refines the reference semantics, and the reference semantics satisfies  *)
(* the prefix law.  With MCFailPointNone.cfg (Policy = "none": macros stay *)
(* as compiled) TLC reports the text <<fail, mac>> -- the library before   *)
(* the fix; that configuration is expected to FAIL and is run by hand.     *)
(***************************************************************************)
EXTENDS FailPoint, TLC

CONSTANT MaxLen

VARIABLES text, st0
vars == <<text, st0>>

MCInit == text \in Texts(MaxLen) /\ st0 \in States
MCNext == UNCHANGED vars
MCSpec == MCInit /\ [][MCNext]_vars

Refines == Impl(st0, text) = Ref(st0, text)
Law == PrefixLaw(st0, text)
=============================================================================
