SPECIFICATION Spec
CONSTANTS
  NL = 2
  LBITS = 3
  EB = 4
  MB = 1
INVARIANT PinnedSel
CHECK_DEADLOCK FALSE
