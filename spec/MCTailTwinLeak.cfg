SPECIFICATION Spec
CONSTANTS
  MaxLen = 3
  MaxN = 3
  Variant = "leaky"
INVARIANTS SpaceHolds
CHECK_DEADLOCK FALSE
