------------------------------ MODULE Decimal ------------------------------
(***************************************************************************)
(* Exact decimal numbers for the Codec and NumLit specifications (C11,     *)
(* C12).  TLC integers are 32-bit, so 64-bit integers and the exact value  *)
(* of a float64 are digit sequences (most significant digit first).        *)
(*                                                                         *)
(* A number is  <<cls, sgn, digs, exp>> :                                  *)
(*    cls = "fin":  value = sgn * 0.d1 d2 ... dn * 10^exp  with d1 # 0 and *)
(*                  dn # 0; zero is <<"fin", 0, <<>>, 0>>                  *)
(*    cls = "inf":  sgn * infinity          cls = "nan": not a number      *)
(* The representation is canonical: two numbers have the same value iff    *)
(* the tuples are equal.                                                   *)
(***************************************************************************)
EXTENDS Integers, Sequences

Zero == <<"fin", 0, <<>>, 0>>
Inf(s) == <<"inf", s, <<>>, 0>>
NaN == <<"nan", 0, <<>>, 0>>

RECURSIVE LeadZeros(_, _)
LeadZeros(d, i) == IF i <= Len(d) /\ d[i] = 0 THEN LeadZeros(d, i + 1) ELSE i - 1

RECURSIVE TrailZeros(_, _)
TrailZeros(d, i) == IF i >= 1 /\ d[i] = 0 THEN TrailZeros(d, i - 1) ELSE Len(d) - i

StripLead(d) == SubSeq(d, LeadZeros(d, 1) + 1, Len(d))
StripTrail(d) == SubSeq(d, 1, Len(d) - TrailZeros(d, Len(d)))

(* sgn * 0.<digs> * 10^exp for an arbitrary digit sequence *)
MkNum(sgn, digs, exp) ==
    LET l == LeadZeros(digs, 1)
        b == StripTrail(StripLead(digs))
    IN IF b = <<>> \/ sgn = 0 THEN Zero ELSE <<"fin", sgn, b, exp - l>>

(* the integer sgn * <digs> *)
IntNum(sgn, digs) == MkNum(sgn, digs, Len(digs))

(* re-normalise a number received from outside *)
Norm(n) == IF n[1] = "fin" THEN MkNum(n[2], n[3], n[4])
           ELSE IF n[1] = "inf" THEN Inf(n[2]) ELSE NaN

Neg(n) == IF n[1] = "nan" THEN n ELSE <<n[1], 0 - n[2], n[3], n[4]>>

(* compare the fractions 0.x and 0.y digit by digit *)
RECURSIVE CmpFrac(_, _, _)
CmpFrac(x, y, i) ==
    IF i > Len(x) /\ i > Len(y) THEN 0
    ELSE LET a == IF i <= Len(x) THEN x[i] ELSE 0
             b == IF i <= Len(y) THEN y[i] ELSE 0
         IN IF a < b THEN -1 ELSE IF a > b THEN 1 ELSE CmpFrac(x, y, i + 1)

(* magnitudes of two canonical finite numbers: -1, 0, 1 *)
CmpMag(a, b) ==
    IF a[3] = <<>> THEN (IF b[3] = <<>> THEN 0 ELSE -1)
    ELSE IF b[3] = <<>> THEN 1
    ELSE IF a[4] < b[4] THEN -1
    ELSE IF a[4] > b[4] THEN 1
    ELSE CmpFrac(a[3], b[3], 1)

(* total order on canonical finite and infinite numbers: -1, 0, 1 *)
Cmp(a, b) ==
    LET sa == a[2]  sb == b[2] IN
    IF a[1] = "inf" /\ b[1] = "inf" THEN (IF sa = sb THEN 0 ELSE sa)
    ELSE IF a[1] = "inf" THEN sa
    ELSE IF b[1] = "inf" THEN 0 - sb
    ELSE IF sa < sb THEN -1
    ELSE IF sa > sb THEN 1
    ELSE IF sa = 0 THEN 0
    ELSE sa * CmpMag(a, b)

Less(a, b) == Cmp(a, b) = -1
LessEq(a, b) == Cmp(a, b) # 1

(* a canonical finite number is an integer iff no digit stands after the   *)
(* decimal point                                                            *)
IsIntegral(n) == n[1] = "fin" /\ Len(n[3]) <= n[4]

(* ---------------- integer digit sequences (no sign)  ---------------- *)

(* d * m + c for small m, c (result without leading zeros unless d is) *)
RECURSIVE MulAddR(_, _, _, _)
MulAddR(d, i, m, c) ==
    IF i = 0 THEN (IF c = 0 THEN <<>> ELSE IF c < 10 THEN <<c>> ELSE <<c \div 10, c % 10>>)
    ELSE LET t == d[i] * m + c IN Append(MulAddR(d, i - 1, m, t \div 10), t % 10)
MulAdd(d, m, c) == MulAddR(d, Len(d), m, c)

(* value (as decimal digits) of the digit sequence ds written in base b <= 16 *)
RECURSIVE BaseValR(_, _, _, _)
BaseValR(ds, i, b, acc) == IF i > Len(ds) THEN acc ELSE BaseValR(ds, i + 1, b, MulAdd(acc, b, ds[i]))
BaseVal(ds, b) == StripLead(BaseValR(ds, 1, b, <<>>))

(* compare two integer digit sequences without leading zeros *)
CmpInt(x, y) == IF Len(x) < Len(y) THEN -1 ELSE IF Len(x) > Len(y) THEN 1 ELSE CmpFrac(x, y, 1)

Int63 == <<9,2,2,3,3,7,2,0,3,6,8,5,4,7,7,5,8,0,7>>      \* 2^63 - 1
Int63p == <<9,2,2,3,3,7,2,0,3,6,8,5,4,7,7,5,8,0,8>>     \* 2^63
UInt64 == <<1,8,4,4,6,7,4,4,0,7,3,7,0,9,5,5,1,6,1,5>>   \* 2^64 - 1
UInt64p == <<1,8,4,4,6,7,4,4,0,7,3,7,0,9,5,5,1,6,1,6>>  \* 2^64

(* small integer value of a digit sequence, saturating at 10^8 *)
RECURSIVE SmallValR(_, _, _)
SmallValR(ds, i, acc) == IF i > Len(ds) THEN acc
                         ELSE IF acc >= 100000000 THEN 100000000
                         ELSE SmallValR(ds, i + 1, acc * 10 + ds[i])
SmallVal(ds) == SmallValR(ds, 1, 0)
=============================================================================
