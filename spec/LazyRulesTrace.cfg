SPECIFICATION TSpec
CHECK_DEADLOCK FALSE
