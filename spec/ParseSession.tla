--------------------------- MODULE ParseSession ---------------------------
(***************************************************************************)
(* C13 -- Parsing depends only on the text: not on chunking, not on        *)
(* history.                                                                *)
(*                                                                         *)
(* "The expressions obtained from a source text depend only on the text:   *)
(* delivering it to the parser in arbitrary pieces, with the parser        *)
(* pausing for more input in between, yields exactly the expressions       *)
(* obtained from delivering it whole, and what an interpreter parsed or    *)
(* failed to parse earlier never changes how a later text is read.  The    *)
(* parser asks for more input exactly when the text so far is an           *)
(* unfinished prefix (open bracket, string, raw string or block comment),  *)
(* and the last token of a text is never lost."                            *)
(*                                                                         *)
(* Part 1 is a lexical-mode / bracket automaton over an alphabet of        *)
(* CHARACTER CLASSES.  It is a statement about the language's surface      *)
(* syntax, not about the lexer's data structures: it decides               *)
(*    Unfinished(text)  -- open bracket, "string", `raw string`, /* block  *)
(*                         comment                                         *)
(*    Count(text)       -- how many top-level expressions (comments not    *)
(*                         counted) a finished text consists of, INCLUDING *)
(*                         a last token that only the end of the text      *)
(*                         terminates ("the last token is never lost")     *)
(*    Quality(text)     -- "exact": the automaton pins the text down: it   *)
(*                         is free of errors, status and count are         *)
(*                         demanded;  "fuzzy": the text may legitimately   *)
(*                         be rejected with a hard error (odd atom such as *)
(*                         1a, unknown escape, stray backslash ...); if it *)
(*                         is not rejected the more-input law still        *)
(*                         applies;  "lost": a certain error or a place    *)
(*                         where the automaton cannot follow (closer       *)
(*                         without opener, quote glued to an atom): only   *)
(*                         the relational laws apply.                      *)
(*                                                                         *)
(* Part 2 is the session state machine: ResetLoad(text) / Feed(chunk) /    *)
(* Queue(chunk) / Abandon, with the law that status and result are         *)
(* functions of the text delivered since the last ResetLoad.               *)
(*                                                                         *)
(* The expressions themselves are compared relationally (ParseTrace):      *)
(* pieces vs. the same text parsed whole by a fresh parser of a fresh      *)
(* interpreter.                                                            *)
(***************************************************************************)
EXTENDS Integers, Sequences, FiniteSets, SequencesExt

(* ------------------------------------------------------------------ *)
(* Alphabet.  Base classes (the 20 of DESIGN.md):                      *)
(*   ( ) [ ] { }  dq "  bs \  bt `  sq '  a letter  1 digit            *)
(*   - : . / * ;  sp blank/tab/cr  nl newline                          *)
(* Extra classes used only for corpus files:                           *)
(*   +                      (operator character like - )               *)
(*   op  < > = ! & |        (operator characters, end an atom)         *)
(*   q   % ^                (quote prefixes)                           *)
(*   t   ~                  (unquote prefix)                           *)
(*   @                      (~@ is the unquote-splicing prefix)        *)
(*   ,                      (separator token)                          *)
(*   x   any other character (symbol characters # ? $ _ @, non-ASCII)  *)
(* ------------------------------------------------------------------ *)
BaseAlphabet == {"(", ")", "[", "]", "{", "}", "dq", "bs", "bt", "sq",
                 "a", "1", "-", ":", ".", "/", "*", ";", "sp", "nl"}
ExtraAlphabet == {"+", "op", "q", "t", "@", ",", "x"}

Openers == {"(", "[", "{"}
Closers == {")", "]", "}"}
Match(o, c) == (o = "(" /\ c = ")") \/ (o = "[" /\ c = "]") \/ (o = "{" /\ c = "}")

(* Automaton state                                                       *)
(*  m   lexical mode                                                      *)
(*  st  stack of open brackets                                            *)
(*  at  shape of the atom in progress: none sym dsym int flt odd; in rune mode *)
(*      the number of characters seen: r0 r1 r2                           *)
(*  q   exact | fuzzy | lost                                              *)
(*  n   top-level expressions completed so far (comments not counted)     *)
(*  ec  per open bracket: how many elements are complete (0, 1, 2 = more) *)
(*  lt  the kind of the last completed token if nothing but blanks has    *)
(*      followed it: "minus" (a lone - or +), "prefix" (a quote prefix    *)
(*      % ^ ~), else "none"  (ec and lt are used only by named deviations)*)
A0 == [m |-> "code", st |-> <<>>, ec |-> <<>>, at |-> "none", q |-> "exact", n |-> 0, lt |-> "none"]

(* Front(s) and Last(s) (all but the last / the last element) come from SequencesExt *)

Fz(s)   == [s EXCEPT !.q = IF @ = "lost" THEN "lost" ELSE "fuzzy"]
Lose(s) == [s EXCEPT !.q = "lost"]
(* one token / item completed *)
Bump(ec) == IF ec = <<>> THEN ec ELSE [ec EXCEPT ![Len(ec)] = IF @ >= 2 THEN 2 ELSE @ + 1]
Item(s) == [s EXCEPT !.n = IF s.st = <<>> THEN @ + 1 ELSE @, !.ec = Bump(@), !.lt = "none"]
EndAtom(s) == IF s.at = "none" THEN s ELSE Item([s EXCEPT !.at = "none"])
(* an atom of a shape the automaton does not know (1a, .., a\b) may be an error *)
SetAt(s, a) == IF a = "odd" THEN Fz([s EXCEPT !.at = "odd"]) ELSE [s EXCEPT !.at = a]

(* DevStar: the named deviation "blockcomment-star-star" (see ParseTrace) *)
(* is the only place where a flag changes the automaton.                  *)
RECURSIVE Step(_, _, _)
Code(s, c, DevStar) ==
    CASE c \in {"sp", "nl"} -> EndAtom(s)
      [] c \in Openers -> [EndAtom(s) EXCEPT !.st = Append(@, c), !.ec = Append(@, 0), !.lt = "none"]
      [] c \in Closers ->
           LET t == EndAtom(s) IN
           IF t.st # <<>> /\ Match(Last(t.st), c)
           THEN Item([t EXCEPT !.st = Front(@), !.ec = Front(@)])
           ELSE Lose(t)
      [] c = "dq" -> IF s.at = "none" THEN [s EXCEPT !.m = "str"] ELSE Lose(s)
      [] c = "bt" -> IF s.at = "none" THEN [s EXCEPT !.m = "bt", !.lt = "none"] ELSE Lose(s)
      [] c = "sq" -> IF s.at = "none" THEN [s EXCEPT !.m = "rune", !.at = "r0"] ELSE Lose(s)
      [] c = "bs" -> SetAt(s, "odd")
      [] c = ";"  -> Item(EndAtom(s))
      [] c = ","  -> Fz(Item(EndAtom(s)))
      [] c = ":"  -> IF s.at = "sym" THEN [s EXCEPT !.m = "colon"] ELSE Fz([s EXCEPT !.m = "colon"])
      [] c \in {"-", "*"} -> [EndAtom(s) EXCEPT !.m = "op" \o c]
      [] c = "op" -> Fz([EndAtom(s) EXCEPT !.m = "opx"])
      [] c = "+"  -> Fz([EndAtom(s) EXCEPT !.m = "op+"])
      [] c = "/"  -> [s EXCEPT !.m = "slash"]      \* a/ : the atom ends here, whatever follows
      [] c = "q"  -> IF s.at = "none" THEN Fz([s EXCEPT !.lt = "prefix"]) ELSE Lose(s)
      [] c = "t"  -> IF s.at = "none" THEN Fz([s EXCEPT !.m = "tilde"]) ELSE Lose(s)
      [] c = "a"  -> (* "- Inf" is one number: a word right after a lone sign leaves the count open *)
                     LET t == SetAt(s, CASE s.at \in {"none", "sym"} -> "sym" [] s.at = "dsym" -> "dsym" [] OTHER -> "odd") IN
                     IF s.lt = "minus" /\ s.at = "none" THEN Fz(t) ELSE t
      [] c \in {"x", "@"} -> SetAt(s, "odd")
      [] c = "1"  -> SetAt(s, CASE s.at = "none" -> "int" [] s.at \in {"sym", "dsym", "int", "flt"} -> s.at [] OTHER -> "odd")
      (* a.b is a dotted symbol: a word, but a colon behind it is a token of its own *)
      [] c = "."  -> SetAt(s, CASE s.at \in {"sym", "dsym"} -> "dsym" [] s.at = "int" -> "flt" [] OTHER -> "odd")
      [] OTHER -> Lose(s)

Step(s, c, DevStar) ==
    CASE s.m = "code" -> Code(s, c, DevStar)
      [] s.m = "str" ->
           CASE c = "dq" -> Item([s EXCEPT !.m = "code"])
             [] c = "bs" -> [s EXCEPT !.m = "stresc"]
             [] OTHER -> s
      [] s.m = "stresc" ->
           IF c \in {"bs", "dq", "sq"} THEN [s EXCEPT !.m = "str"] ELSE Fz([s EXCEPT !.m = "str"])
      [] s.m = "bt" ->
           IF c = "bt" THEN Item([s EXCEPT !.m = "code"]) ELSE s
      [] s.m = "rune" ->
           CASE c = "sq" ->
                  LET t == Item([s EXCEPT !.m = "code", !.at = "none"]) IN
                  IF s.at = "r1" THEN t ELSE Lose(t)     \* '' and 'ab' are not character literals
             [] c = "bs" -> Fz([s EXCEPT !.m = "runeesc"])
             [] OTHER -> [s EXCEPT !.at = IF @ = "r0" THEN "r1" ELSE "r2"]
      [] s.m = "runeesc" ->
           [s EXCEPT !.m = "rune", !.at = IF @ = "r0" THEN "r1" ELSE "r2"]
      [] s.m = "lc" ->
           IF c = "nl" THEN [s EXCEPT !.m = "code", !.lt = "none"] ELSE s
      [] s.m = "bc" ->
           IF c = "*" THEN [s EXCEPT !.m = "bcstar"] ELSE s
      [] s.m = "bcstar" ->
           CASE c = "/" -> [s EXCEPT !.m = "code"]
             [] c = "*" -> IF DevStar THEN [s EXCEPT !.m = "bc"] ELSE s
             [] OTHER -> [s EXCEPT !.m = "bc"]
      [] s.m = "slash" ->
           CASE c = "/" -> [EndAtom(s) EXCEPT !.m = "lc"]
             [] c = "*" -> [EndAtom(s) EXCEPT !.m = "bc", !.lt = "none"]
             [] OTHER -> Code(Item([EndAtom(s) EXCEPT !.m = "code"]), c, DevStar)
      [] s.m = "colon" ->
           (* a: is a keyword symbol; any other use of the colon is left open *)
           Code(Item([s EXCEPT !.m = "code", !.at = "none"]), c, DevStar)
      [] s.m \in {"op-", "op*"} ->
           LET p == IF s.m = "op-" THEN "-" ELSE "*"
               t == Item([s EXCEPT !.m = "code"]) IN
           IF c = p THEN t                      \* -- and ** are one token
           ELSE LET u == IF p = "-" THEN [t EXCEPT !.lt = "minus"] ELSE t
                    v == Code(u, c, DevStar) IN
                (* -1 is a number or an operator and a number: left open *)
                IF p = "-" /\ c \in {"1", "."} THEN Fz(v) ELSE v
      [] s.m = "op+" ->
           (* ++ += are one token; otherwise a lone + *)
           LET t == Item([s EXCEPT !.m = "code"]) IN
           IF c \in {"+", "op"} THEN Fz(t) ELSE Fz(Code([t EXCEPT !.lt = "minus"], c, DevStar))
      [] s.m = "opx" ->
           (* two-character operators over the extra class are not resolved *)
           Fz(Code(Item([s EXCEPT !.m = "code"]), c, DevStar))
      [] s.m = "tilde" ->
           (* ~@ is one prefix; otherwise the character after ~ starts the operand *)
           IF c = "@" THEN [s EXCEPT !.m = "code", !.lt = "prefix"]
           ELSE Code([s EXCEPT !.m = "code", !.lt = "prefix"], c, DevStar)
      [] OTHER -> Lose(s)

(* run the automaton from state s over text[i..j] (a fold: TLC evaluates deep *)
(* recursion over a long text in quadratic time)                              *)
RunIx(s, text, i, j, DevStar) ==
    FoldLeft(LAMBDA a, c : Step(a, c, DevStar), s, SubSeq(text, i, j))
RunFrom(s, text, DevStar) == RunIx(s, text, 1, Len(text), DevStar)
Run(text) == RunFrom(A0, text, FALSE)

(* ---- what the automaton says about a text ---- *)
InOpenLiteral(s) == s.m \in {"str", "stresc", "bt", "bc", "bcstar"}
Unfinished(s) == s.st # <<>> \/ InOpenLiteral(s)
(* a last token that only the end of the text terminates *)
(* a quote prefix % ^ ~ ~@ whose operand has not begun: the prefix is the last token *)
PrefixPending(s) == s.m = "tilde" \/ (s.lt = "prefix" /\ s.at = "none" /\ s.m \in {"code", "lc"})
Pending(s) == s.at # "none" \/ s.m \in {"op-", "op*", "op+", "opx", "slash", "colon"} \/ PrefixPending(s)
(* an open character literal is not in the property's list: left open   *)
Undecided(s) == s.q = "lost" \/ s.m \in {"rune", "runeesc"}
(* a: is one token; a/ are two *)
PendingCount(s) == IF s.m = "colon" THEN 1
                   ELSE (IF s.at # "none" THEN 1 ELSE 0)
                        + (IF s.m \in {"op-", "op*", "op+", "opx", "slash"} THEN 1 ELSE 0)
Count(s) == s.n + (IF s.st = <<>> THEN PendingCount(s) ELSE 0)
(* the count is exact only if the pending token is of a known shape *)
CountExact(s) == s.q = "exact" /\ ~Undecided(s) /\ ~Unfinished(s)

(* The status a correct parser reports for a text whose run ends in s:   *)
(* the SET of admissible statuses.                                        *)
(* A text that ends in a quote prefix without operand has no bracket, string or comment  *)
(* open, but reporting it as finished would lose its last token (the prefix): the parser *)
(* may ask for the operand or reject the text, it may not report "done".                *)
Statuses(s) ==
    IF Undecided(s) THEN {"done", "more", "err"}
    ELSE IF PrefixPending(s) /\ ~Unfinished(s) THEN {"more", "err"}
    ELSE LET want == IF Unfinished(s) THEN "more" ELSE "done" IN
         IF s.q = "exact" THEN {want} ELSE {want, "err"}

(* A hard error on an UNFINISHED prefix is a verdict about the text delivered so far:   *)
(* inside an open construct the end of the input decides nothing, so every extension of *)
(* the prefix must be rejected too (ParseTrace checks this against the recorded whole-  *)
(* text results: a prefix of an acceptable text must ask for more input, not fail).     *)
ErrorIsFinal(s) == Unfinished(s) /\ s.q # "lost" /\ ~(s.m \in {"rune", "runeesc"})

(* ------------------------------------------------------------------ *)
(* Part 2: the session state machine.                                  *)
(*   txt    text delivered AND read since the last ResetLoad           *)
(*   queue  chunks handed over but not yet read                        *)
(*   aut    automaton state carried incrementally                      *)
(*   phase  idle | done | more | err | dead                            *)
(*   hist   what happened before the current load                      *)
(* A chunk continues a text only while the phase is "more"; after      *)
(* "done"/"err" or Abandon the next text starts with ResetLoad, which  *)
(* forgets everything: carried automaton state and queued chunks.      *)
(* ------------------------------------------------------------------ *)
Phase(s) == IF s.q = "lost" THEN "err"      \* model-checking instance: certain errors end the text
            ELSE IF Unfinished(s) THEN "more" ELSE "done"

Sess0 == [txt |-> <<>>, queue |-> <<>>, aut |-> A0, phase |-> "idle", hist |-> "fresh"]

RECURSIVE Flat(_)
Flat(q) == IF q = <<>> THEN <<>> ELSE q[1] \o Flat(SubSeq(q, 2, Len(q)))

ResetLoad(S, chunk) ==
    LET a == RunFrom(A0, chunk, FALSE) IN
    [txt |-> chunk, queue |-> <<>>, aut |-> a, phase |-> Phase(a),
     hist |-> CASE S.phase = "idle" -> S.hist
                [] S.phase = "more" -> IF S.queue # <<>> THEN "queued" ELSE "abandoned"
                [] OTHER -> S.phase]
QueueChunk(S, chunk) == [S EXCEPT !.queue = Append(@, chunk)]
ParseQueued(S) ==
    LET add == Flat(S.queue)
        a == RunFrom(S.aut, add, FALSE) IN
    [S EXCEPT !.txt = @ \o add, !.queue = <<>>, !.aut = a, !.phase = Phase(a)]
Feed(S, chunk) == ParseQueued(QueueChunk(S, chunk))
=============================================================================
