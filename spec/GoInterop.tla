------------------------------ MODULE GoInterop ------------------------------
(***************************************************************************)
(* C10 -- records convert to registered Go structs and back without loss.  *)
(*                                                                         *)
(* A small Go type algebra                                                 *)
(*    basic k | struct S | ptr S | iface I | slice T | bytes | map K V |   *)
(*    time                                                                 *)
(* with the struct declarations of the harness family (harness/cmd/zv/     *)
(* gointerop_types.go) and of the library's demo structs mirrored as       *)
(* constants (StructOf, RegOf, Impl).  The harness dumps the same          *)
(* declarations by reflection into every trace; GoInteropTrace compares    *)
(* them with these constants, so the mirror cannot drift.                  *)
(*                                                                         *)
(* Script side: a record GRAPH G, a sequence of nodes <<typeName, pairs>>, *)
(* pairs = <<key, value>>; values are tagged tuples                        *)
(*   <<"int",n>> <<"flt",s>> <<"str",s>> <<"bool",b>> <<"chr",n>>         *)
(*   <<"nil">> <<"raw",bytes>> <<"time",k>> <<"arr",vals>>                 *)
(*   <<"hash",<<k,v>>*>> (plain hash; k = <<"sym"|"str"|"int", x>>)        *)
(*   <<"ref",j>>   (the record G[j]: records have identity)                *)
(*                                                                         *)
(* Go side: abstract Go values in canonical form                           *)
(*   <<"int",n>> <<"flt",s>> <<"str",s>> <<"bool",b>> <<"bytes",bs>>       *)
(*   <<"time",k>> <<"slice",vs>> <<"map",<<k,v>>*>>                        *)
(*   <<"struct",S,vals>> (one value per declared field, in order)          *)
(*   <<"ptr",id>> <<"nilptr">> <<"iface",<<"ptr",id>>>> <<"niliface">>     *)
(* together with the object table objs (id -> struct value); ids are       *)
(* given in first-visit order of a depth-first walk in declaration order,  *)
(* the same walk the harness's reflection dump makes.  nil and empty       *)
(* slices / maps / byte slices are not distinguished.                      *)
(*                                                                         *)
(* Fill(G, root, S, o)  the Go value the conversion of record G[root] to   *)
(*    struct S must produce: every field filled (through embedded structs, *)
(*    struct values, pointers, interfaces, slices, maps), absent fields    *)
(*    zero, ONE object per record however often it is referenced from      *)
(*    pointer-like positions (pointer, interface), a copy per struct-value *)
(*    position; Err when a record has a key no field accepts or a value    *)
(*    of the wrong kind for its field.  (A record that gives an embedded   *)
(*    struct as a whole AND one of its promoted fields is outside the      *)
(*    generated space: which write wins is not stated.)                    *)
(* Back(g, T, objs)     the record (as a tree) a Go value is handed back   *)
(*    as: registered type name, one pair per field (fields of embedded     *)
(*    structs promoted), label = json tag or Go field name.                *)
(* Law (checked by MCGoInterop): Back(Fill(r)) covers r -- every pair of   *)
(*    r is found in it with an equal value, at every depth.                *)
(*                                                                         *)
(* o is a record of flags that switch on the NAMED DEVIATIONS of the       *)
(* pinned code (used only by GoInteropTrace to label known findings):      *)
(*    o.wrap   an int8 field takes n mod 2^8 instead of failing            *)
(*    o.trunc  an int64 field takes a fractional float truncated           *)
(*    o.nouint unsigned fields are unsupported (always an error): this is  *)
(*             a residual, not a deviation -- both outcomes are accepted   *)
(***************************************************************************)
EXTENDS Integers, Sequences, FiniteSets, TLC

(* ------------------------------------------------------------------ types *)
B(k)     == <<"basic", k>>
ST(s)    == <<"struct", s>>
P(s)     == <<"ptr", s>>
IFc(i)    == <<"iface", i>>
SL(t)    == <<"slice", t>>
BYT       == <<"bytes">>
MP(k, v) == <<"map", k, v>>
TM       == <<"time">>

(* a field: <<Go name, accepted record keys (the first is the label), type, embedded>> *)
Tag(n, t, ty)  == <<n, <<t>>, ty, FALSE>>           \* json tag t: only the tag is accepted
Cap(n, l, ty)  == <<n, <<n, l>>, ty, FALSE>>        \* untagged: the name, or the name with a lower-case first letter
EmbT(n, t)     == <<n, <<t>>, ST(n), TRUE>>         \* embedded struct with a json tag
EmbC(n, l)     == <<n, <<n, l>>, ST(n), TRUE>>      \* embedded struct, untagged

StructNames == {"ZvLeaf", "ZvOdd", "ZvBox", "ZvBase", "ZvDeep", "ZvBase2", "ZvNode", "ZvWrap", "ZvHost",
                "ZvPair", "ZvEmb", "ZvL4", "ZvL3", "ZvL2", "ZvTower", "ZvTwin", "ZvCrew", "ZvPriv",
                "Person", "Event", "Wings", "Plane", "Snoopy", "Hornet", "Hellcat", "Weather",
                "SetOfPlanes", "NestOuter", "NestInner"}

StructDecl(S) ==
  CASE S = "ZvLeaf" -> << Tag("I", "i", B("int")), Tag("I64", "i64", B("int64")), Tag("I32", "i32", B("int32")),
                          Tag("F", "f", B("float64")), Tag("S", "s", B("string")), Tag("B", "b", B("bool")),
                          Cap("Plain", "plain", B("string")) >>
    [] S = "ZvOdd"  -> << Tag("I8", "i8", B("int8")), Tag("U", "u", B("uint")), Tag("U8", "u8", B("uint8")),
                          Tag("F32", "f32", B("float32")), Tag("R", "r", B("int32")),
                          Tag("I16", "i16", B("int16")), Tag("U32", "u32", B("uint32")), Tag("U64", "u64", B("uint64")),
                          Tag("D", "d", B("dur")), Tag("Col", "col", B("nstring")), Tag("Temp", "temp", B("nfloat64")) >>
    [] S = "ZvBox"  -> << Tag("Ints", "ints", SL(B("int"))), Tag("Strs", "strs", SL(B("string"))),
                          Tag("Flts", "flts", SL(B("float64"))), Tag("Raw", "raw", BYT), Tag("When", "when", TM),
                          Tag("SS", "ss", MP("string", B("string"))), Tag("SF", "sf", MP("string", B("float64"))),
                          Tag("IF", "nf", MP("int64", B("float64"))), Tag("Grid", "grid", SL(SL(B("int")))),
                          Tag("Times", "times", SL(TM)) >>
    [] S = "ZvBase" -> << Tag("ID", "id", B("int")), Cap("Note", "note", B("string")) >>
    [] S = "ZvDeep" -> << Tag("Deep", "deep", B("int")) >>
    [] S = "ZvBase2" -> << EmbC("ZvDeep", "zvDeep"), Tag("Mid", "mid", B("string")) >>
    [] S = "ZvNode" -> << EmbC("ZvBase", "zvBase"), Tag("Name", "name", B("string")), Tag("Val", "val", ST("ZvLeaf")),
                          Tag("Ptr", "ptr", P("ZvLeaf")), Tag("Next", "next", P("ZvNode")), Tag("Any", "any", IFc("ZvAny")),
                          Tag("Kids", "kids", SL(P("ZvNode"))), Tag("Anys", "anys", SL(IFc("ZvAny"))),
                          Tag("Vals", "vals", SL(ST("ZvLeaf"))), Tag("ByKey", "bykey", MP("string", IFc("ZvAny"))) >>
    [] S = "ZvWrap" -> << EmbC("ZvBase2", "zvBase2"), EmbT("ZvNode", "node"), Tag("Tail", "tail", B("string")) >>
    [] S = "ZvHost" -> << Tag("N", "n", B("int")) >>
    [] S = "ZvPair" -> << Tag("A", "a", P("ZvLeaf")), Tag("B", "b", IFc("ZvAny")), Tag("L", "l", B("string")),
                          Tag("Data", "data", BYT) >>
    [] S = "ZvEmb"  -> << EmbC("ZvBase", "zvBase"), Tag("X", "x", B("string")), Tag("Y", "y", B("int")) >>
    (* four levels of anonymous embedding: ZvTower > ZvL2 > ZvL3 > ZvL4 *)
    [] S = "ZvL4"   -> << Tag("D1", "d1", B("int")), Tag("D2", "d2", B("int")), Tag("DS", "ds", B("string")),
                          Tag("D3", "d3", B("int")), Tag("DP", "dp", P("ZvLeaf")) >>
    [] S = "ZvL3"   -> << EmbC("ZvL4", "zvL4"), Tag("C1", "c1", B("string")), Tag("C2", "c2", B("int")) >>
    [] S = "ZvL2"   -> << EmbC("ZvL3", "zvL3"), Tag("B1", "b1", B("int")) >>
    [] S = "ZvTower" -> << EmbC("ZvL2", "zvL2"), Tag("A1", "a1", B("string")), Tag("Ref", "ref", IFc("ZvAny")) >>
    (* ZvTwin is registered under TWO names (zvtwin, ZvTwin); ZvCrew carries it through a pointer and an interface *)
    [] S = "ZvTwin" -> << Tag("N", "n", B("string")), Tag("K", "k", B("int64")) >>
    [] S = "ZvCrew" -> << Tag("Call", "call", B("string")), Tag("Cap", "cap", P("ZvTwin")), Tag("Rel", "rel", IFc("ZvAny")),
                          Tag("Nest", "nest", P("NestOuter")) >>
    (* an unexported field: the converter writes it (unsafe), so it must come back too *)
    [] S = "ZvPriv" -> << Tag("Name", "name", B("string")), <<"cache", <<"cache", "cache">>, B("int64"), FALSE>>,
                          Tag("N", "n", B("int")) >>
    (* the library's demo structs (zygo/demo_go_structs.go) *)
    [] S = "Person" -> << Tag("First", "first", B("string")), Tag("Last", "last", B("string")) >>
    [] S = "Event"  -> << Tag("Id", "id", B("int")), Tag("User", "user", ST("Person")), Tag("Flight", "flight", B("string")),
                          Tag("Pilot", "pilot", SL(B("string"))), Tag("Cancelled", "cancelled", B("bool")) >>
    [] S = "Wings"  -> << Cap("SpanCm", "spanCm", B("int")) >>
    [] S = "Plane"  -> << EmbC("Wings", "wings"), Tag("ID", "id", B("int")), Tag("Speed", "speed", B("int")),
                          Tag("Chld", "chld", IFc("Flyer")), Tag("Friends", "friends", SL(IFc("Flyer"))) >>
    [] S = "Snoopy" -> << EmbT("Plane", "plane"), Tag("Cry", "cry", B("string")), Tag("Pack", "pack", SL(B("int"))),
                          Tag("Carrying", "carrying", SL(IFc("Flyer"))) >>
    [] S = "Hornet" -> << EmbT("Plane", "plane"), Cap("Mass", "mass", B("float64")), Cap("Nickname", "nickname", B("string")) >>
    [] S = "Hellcat" -> << EmbT("Plane", "plane") >>
    [] S = "Weather" -> << Tag("Time", "time", TM), Tag("Size", "size", B("int64")), Tag("Type", "type", B("string")),
                           Tag("Details", "details", BYT) >>
    [] S = "SetOfPlanes" -> << Tag("Flyers", "flyers", SL(IFc("Flyer"))) >>
    [] S = "NestOuter" -> << Tag("Inner", "inner", P("NestInner")) >>
    [] S = "NestInner" -> << Tag("Hello", "hello", B("string")) >>

(* TLC evaluates a constant definition once: the tables are functions, not operators *)
StructTab == [S \in StructNames |-> StructDecl(S)]
StructOf(S) == StructTab[S]

(* registered record type name -> struct *)
RegNames == {"zvleaf", "zvodd", "zvbox", "zvnode", "zvwrap", "zvhost", "zvpair", "zvemb", "zvtower",
             "persondemo", "eventdemo", "snoopy", "hornet", "hellcat", "weather", "plane", "setOfPlanes",
             "nestouter", "nestinner", "zvtwin", "zvcrew", "zvpriv",
             "ZvTwin", "NestOuter", "NestInner"}
(* the second names of the types registered under two names: RegisterUserdef(rt, true, first, second) *)
SecondNames == {"ZvTwin", "NestOuter", "NestInner"}
RegOf(n) ==
  CASE n = "zvleaf" -> "ZvLeaf" [] n = "zvodd" -> "ZvOdd" [] n = "zvbox" -> "ZvBox" [] n = "zvnode" -> "ZvNode"
    [] n = "zvwrap" -> "ZvWrap" [] n = "zvhost" -> "ZvHost" [] n = "zvpair" -> "ZvPair" [] n = "zvemb" -> "ZvEmb" [] n = "zvtower" -> "ZvTower"
    [] n = "persondemo" -> "Person" [] n = "eventdemo" -> "Event" [] n = "snoopy" -> "Snoopy"
    [] n = "hornet" -> "Hornet" [] n = "hellcat" -> "Hellcat" [] n = "weather" -> "Weather" [] n = "plane" -> "Plane"
    [] n = "setOfPlanes" -> "SetOfPlanes" [] n = "nestouter" -> "NestOuter" [] n = "nestinner" -> "NestInner"
    [] n = "zvtwin" -> "ZvTwin" [] n = "zvcrew" -> "ZvCrew" [] n = "zvpriv" -> "ZvPriv"
    [] n = "ZvTwin" -> "ZvTwin" [] n = "NestOuter" -> "NestOuter" [] n = "NestInner" -> "NestInner"
    [] OTHER -> ""
(* the name a Go value of struct S comes back under: the FIRST name its type was registered with *)
FirstNames == RegNames \ SecondNames
RegNameTab == [S \in StructNames |-> IF \E n \in FirstNames : RegOf(n) = S THEN CHOOSE n \in FirstNames : RegOf(n) = S ELSE ""]
RegNameOf(S) == RegNameTab[S]
AllNamesTab == [S \in StructNames |-> {n \in RegNames : RegOf(n) = S}]
(* Go package of a struct (only compared with what reflection reports) *)
PkgOf(S) == IF S \in {"Person", "Event", "Wings", "Plane", "Snoopy", "Hornet", "Hellcat", "Weather", "SetOfPlanes",
                      "NestOuter", "NestInner"} THEN "zygo" ELSE "main"
(* The names a record made of a Go value of struct S may carry.  A Go value does not remember the   *)
(* name its record had: a record that went in under the first registered name must come back under *)
(* that name (a record survives the trip unchanged); only for the struct types of which a record   *)
(* went in under a second name (loose) either registered name is accepted.                         *)
Aliases(S, loose) == IF S \in loose THEN AllNamesTab[S] ELSE {RegNameOf(S)}

IfaceNames == {"ZvAny", "Flyer"}
Impl(I) == CASE I = "ZvAny" -> {"ZvLeaf", "ZvOdd", "ZvBox", "ZvNode", "ZvWrap", "ZvPair", "ZvEmb", "ZvTower", "ZvTwin", "ZvCrew", "ZvPriv"}
             [] I = "Flyer" -> {"Snoopy", "Hornet", "Hellcat"}
             [] OTHER -> {}

FName(f) == f[1]
FKeys(f) == f[2]
FLabel(f) == f[2][1]
FType(f) == f[3]
FEmb(f) == f[4]

RECURSIVE FlatKeysOf(_)
FlatKeysOf(S) ==
    LET fl == StructOf(S)
    IN UNION {({FKeys(fl[i])[k] : k \in 1..Len(FKeys(fl[i]))}
               \cup (IF FEmb(fl[i]) THEN FlatKeysOf(FType(fl[i])[2]) ELSE {})) : i \in 1..Len(fl)}
FlatTab == [S \in StructNames |-> FlatKeysOf(S)]
FlatKeys(S) == FlatTab[S]

IntKinds  == {"int", "int8", "int16", "int32", "int64"}
UintKinds == {"uint", "uint8", "uint32", "uint64"}
FloatKinds == {"float64", "float32", "nfloat64"}    \* nfloat64 / nstring: NAMED types (type Celsius float64, type Color string)
StringKinds == {"string", "nstring"}               \* dur: time.Duration

(* ------------------------------------------------------------------ palette facts *)
(* the float palette of the generators: spelling (strconv 'g') -> integral?, truncation toward zero *)
FltPalette == {"1.5", "-0.25", "2", "0", "2.5", "4", "-3"}
FltIsInt(s) == s \in {"2", "0", "4", "-3"}
FltTrunc(s) == CASE s = "1.5" -> 1 [] s = "-0.25" -> 0 [] s = "2" -> 2 [] s = "0" -> 0 [] s = "2.5" -> 2
                 [] s = "4" -> 4 [] s = "-3" -> -3 [] OTHER -> 0

InRange(n, k) == CASE k = "int8" -> n >= -128 /\ n <= 127
                   [] k = "int16" -> n >= -32768 /\ n <= 32767
                   [] k \in {"uint32", "uint64"} -> n >= 0
                   [] k = "uint8" -> n >= 0 /\ n <= 255
                   [] k = "uint" -> n >= 0
                   [] OTHER -> TRUE
Wrap8(n) == ((n + 128) % 256) - 128

NoOpts == [wrap |-> FALSE, trunc |-> FALSE, nouint |-> FALSE]

(* ------------------------------------------------------------------ Fill *)
None == <<"none">>

(* a script value into a basic kind: the Go value, or None (wrong kind => error) *)
(* Further script values: <<"uint", n>> (10ULL), <<"bigint", digits>> (an integer beyond 2^30, *)
(* as decimal text), <<"dur", text>> (a duration), <<"opaque", text>> (a value no Go field can *)
(* hold: a regexp, a type value, a channel ...).                                               *)
(* integers a float64 cannot hold exactly; floats a float32 cannot hold (palette of the generators) *)
InexactInFloat64 == {"9007199254740993"}
TooBigForFloat32 == {"1e+300"}
FillBasic(v, k, o) ==
    IF k \in IntKinds THEN
        IF v[1] = "int" THEN (IF InRange(v[2], k) THEN <<"int", v[2]>>
                              ELSE IF o.wrap /\ k = "int8" THEN <<"int", Wrap8(v[2])>> ELSE None)
        ELSE IF v[1] = "bigint" /\ k \in {"int", "int64"} THEN v
        ELSE IF v[1] = "chr" /\ k = "int32" THEN <<"int", v[2]>>
        ELSE IF v[1] = "flt" /\ k = "int64" /\ o.trunc THEN <<"int", FltTrunc(v[2])>>
        ELSE None
    ELSE IF k \in UintKinds THEN
        IF v[1] \in {"int", "uint"} /\ InRange(v[2], k) /\ ~o.nouint THEN <<"int", v[2]>> ELSE None
    ELSE IF k \in {"float64", "nfloat64"} THEN
        IF v[1] = "flt" THEN v ELSE IF v[1] = "int" THEN <<"flt", ToString(v[2])>>
        ELSE None                             \* also a bigint: only inexact ones are generated
    ELSE IF k = "float32" THEN
        IF v[1] = "flt" /\ v[2] \notin TooBigForFloat32 THEN v ELSE None
    ELSE IF k \in StringKinds THEN (IF v[1] = "str" THEN v ELSE None)
    ELSE IF k = "bool" THEN (IF v[1] = "bool" THEN v ELSE None)
    ELSE IF k = "dur" THEN (IF v[1] = "dur" THEN v ELSE None)
    ELSE None

RECURSIVE Zero(_), ZeroFields(_, _)
Zero(T) ==
    CASE T[1] = "basic" -> (IF T[2] \in IntKinds \cup UintKinds THEN <<"int", 0>>
                            ELSE IF T[2] \in FloatKinds THEN <<"flt", "0">>
                            ELSE IF T[2] \in StringKinds THEN <<"str", "">>
                            ELSE IF T[2] = "dur" THEN <<"dur", "0s">> ELSE <<"bool", FALSE>>)
      [] T[1] = "struct" -> <<"struct", T[2], ZeroFields(StructOf(T[2]), 1)>>
      [] T[1] = "ptr" -> <<"nilptr">>
      [] T[1] = "iface" -> <<"niliface">>
      [] T[1] = "slice" -> <<"slice", <<>> >>
      [] T[1] = "bytes" -> <<"bytes", <<>> >>
      [] T[1] = "map" -> <<"map", <<>> >>
      [] T[1] = "time" -> <<"time", 0>>
ZeroFields(fl, i) == IF i > Len(fl) THEN <<>> ELSE <<Zero(FType(fl[i]))>> \o ZeroFields(fl, i + 1)

Err == [ok |-> FALSE]
Ok(v, st) == [ok |-> TRUE, v |-> v, st |-> st]

(* conversion state: cache (record -> object id, 0 = none yet), the object table, and the *)
(* set of <<record, position kind>> through which records were referenced                *)
St0(G) == [cache |-> [j \in 1..Len(G) |-> 0], objs |-> <<>>, refs |-> {}]

(* index of the first pair of a record whose key field f accepts, 0 if none *)
FindKey(pairs, f) ==
    LET ks == {FKeys(f)[k] : k \in 1..Len(FKeys(f))}
        hits == {i \in 1..Len(pairs) : pairs[i][1] \in ks}
    IN IF hits = {} THEN 0 ELSE CHOOSE i \in hits : \A j \in hits : i <= j

MapKey(k, K) == IF K = "string" /\ k[1] \in {"sym", "str"} THEN <<"str", k[2]>>
                ELSE IF K = "int64" /\ k[1] = "int" THEN <<"int", k[2]>>
                ELSE None

IsRefTo(G, v, S) == v[1] = "ref" /\ RegOf(G[v[2]][1]) = S

RECURSIVE FillT(_, _, _, _, _), FillSeq(_, _, _, _, _, _, _), FillMap(_, _, _, _, _, _, _, _),
          FillFields(_, _, _, _, _, _, _), FillStruct(_, _, _, _, _), FillObj(_, _, _, _, _)

FillT(G, v, T, st, o) ==
    CASE T[1] = "basic" -> (LET r == FillBasic(v, T[2], o) IN IF r[1] = "none" THEN Err ELSE Ok(r, st))
      [] T[1] = "bytes" -> (IF v[1] = "raw" THEN Ok(<<"bytes", v[2]>>, st)
                            ELSE IF v[1] = "nil" THEN Ok(Zero(T), st) ELSE Err)
      [] T[1] = "time" -> (IF v[1] = "time" THEN Ok(v, st) ELSE Err)
      [] T[1] = "slice" -> (IF v[1] = "arr" THEN FillSeq(G, v[2], 1, T[2], st, o, <<>>)
                            ELSE IF v[1] = "nil" THEN Ok(Zero(T), st) ELSE Err)
      [] T[1] = "map" -> (IF v[1] = "hash" THEN FillMap(G, v[2], 1, T[2], T[3], st, o, <<>>)
                          ELSE IF v[1] = "nil" THEN Ok(Zero(T), st) ELSE Err)
      [] T[1] = "struct" -> (IF IsRefTo(G, v, T[2])
                             THEN FillStruct(G, v[2], T[2], [st EXCEPT !.refs = @ \cup {<<v[2], "val">>}], o)
                             ELSE Err)
      [] T[1] = "ptr" -> (IF v[1] = "nil" THEN Ok(<<"nilptr">>, st)
                          ELSE IF IsRefTo(G, v, T[2])
                          THEN FillObj(G, v[2], T[2], [st EXCEPT !.refs = @ \cup {<<v[2], "ptr">>}], o)
                          ELSE Err)
      [] T[1] = "iface" -> (IF v[1] = "nil" THEN Ok(<<"niliface">>, st)
                            ELSE IF v[1] = "ref" /\ RegOf(G[v[2]][1]) \in Impl(T[2])
                            THEN LET r == FillObj(G, v[2], RegOf(G[v[2]][1]),
                                                  [st EXCEPT !.refs = @ \cup {<<v[2], "iface">>}], o)
                                 IN IF r.ok THEN Ok(<<"iface", r.v>>, r.st) ELSE Err
                            ELSE Err)

FillSeq(G, vs, i, T, st, o, acc) ==
    IF i > Len(vs) THEN Ok(<<"slice", acc>>, st)
    ELSE LET r == FillT(G, vs[i], T, st, o)
         IN IF r.ok THEN FillSeq(G, vs, i + 1, T, r.st, o, Append(acc, r.v)) ELSE Err

FillMap(G, ps, i, K, V, st, o, acc) ==
    IF i > Len(ps) THEN Ok(<<"map", acc>>, st)
    ELSE LET k == MapKey(ps[i][1], K)
             r == FillT(G, ps[i][2], V, st, o)
         IN IF k[1] # "none" /\ r.ok THEN FillMap(G, ps, i + 1, K, V, r.st, o, Append(acc, <<k, r.v>>)) ELSE Err

(* the fields fl of a struct from the pairs of one record, in declaration order *)
FillFields(G, pairs, fl, i, st, o, acc) ==
    IF i > Len(fl) THEN Ok(acc, st)
    ELSE LET f == fl[i]
             k == FindKey(pairs, f)
             r == IF k # 0 THEN FillT(G, pairs[k][2], FType(f), st, o)
                  ELSE IF FEmb(f)          \* promoted fields of an embedded struct come from the same record
                  THEN LET e == FillFields(G, pairs, StructOf(FType(f)[2]), 1, st, o, <<>>)
                       IN IF e.ok THEN Ok(<<"struct", FType(f)[2], e.v>>, e.st) ELSE Err
                  ELSE Ok(Zero(FType(f)), st)
         IN IF r.ok THEN FillFields(G, pairs, fl, i + 1, r.st, o, Append(acc, r.v)) ELSE Err

(* record G[j] as a value of struct S *)
FillStruct(G, j, S, st, o) ==
    LET pairs == G[j][2]
    IN IF \E i \in 1..Len(pairs) : pairs[i][1] \notin FlatKeys(S) THEN Err      \* a key no field accepts
       ELSE LET r == FillFields(G, pairs, StructOf(S), 1, st, o, <<>>)
            IN IF r.ok THEN Ok(<<"struct", S, r.v>>, r.st) ELSE Err

(* record G[j] as THE object of struct S it is converted to (one per record) *)
FillObj(G, j, S, st, o) ==
    IF st.cache[j] # 0 THEN Ok(<<"ptr", st.cache[j]>>, st)
    ELSE LET id == Len(st.objs) + 1
             st1 == [st EXCEPT !.cache[j] = id, !.objs = Append(@, <<"pending">>)]
             r == FillStruct(G, j, S, st1, o)
         IN IF r.ok THEN Ok(<<"ptr", id>>, [r.st EXCEPT !.objs[id] = r.v]) ELSE Err

(* conversion of the record G[root] (explicit togo, or a method argument of type *S) *)
Fill(G, root, o) ==
    LET S == RegOf(G[root][1])
    IN IF S = "" THEN Err ELSE FillObj(G, root, S, St0(G), o)

(* ------------------------------------------------------------------ facts about a graph *)
RECURSIVE RefsIn(_)
RefsIn(v) == CASE v[1] = "ref" -> {v[2]}
               [] v[1] = "arr" -> UNION {RefsIn(v[2][i]) : i \in 1..Len(v[2])}
               [] v[1] = "hash" -> UNION {RefsIn(v[2][i][2]) : i \in 1..Len(v[2])}
               [] OTHER -> {}
Succ(G, j) == UNION {RefsIn(G[j][2][i][2]) : i \in 1..Len(G[j][2])}
RECURSIVE ReachN(_, _, _)
ReachN(G, S, n) == IF n = 0 THEN S ELSE ReachN(G, S \cup UNION {Succ(G, j) : j \in S}, n - 1)
Reach(G, j) == ReachN(G, Succ(G, j), Len(G))      \* nodes reachable in >= 1 step
Cyclic(G, root) == \E j \in {root} \cup Reach(G, root) : j \in Reach(G, j)

(* a record referenced through positions of different kinds (value / pointer / interface) *)
MixedRefs(refs) == \E a \in refs : \E b \in refs : a[1] = b[1] /\ a[2] # b[2]

(* ------------------------------------------------------------------ Back *)
(* the record tree a Go value comes back as: <<"rec", type name, <<label, value>>*>> *)
RECURSIVE Back(_, _, _), BackFields(_, _, _, _), BackSeq(_, _, _, _), BackMap(_, _, _, _), BackStruct(_, _)
Back(g, T, objs) ==
    CASE T[1] = "basic" -> g
      [] T[1] = "bytes" -> <<"raw", g[2]>>
      [] T[1] = "time" -> g
      [] T[1] = "slice" -> <<"arr", BackSeq(g[2], 1, T[2], objs)>>
      [] T[1] = "map" -> <<"hash", BackMap(g[2], 1, T[3], objs)>>
      [] T[1] = "struct" -> BackStruct(g, objs)
      [] T[1] = "ptr" -> (IF g[1] = "nilptr" THEN <<"nil">> ELSE BackStruct(objs[g[2]], objs))
      [] T[1] = "iface" -> (IF g[1] = "niliface" THEN <<"nil">> ELSE BackStruct(objs[g[2][2]], objs))
BackSeq(gs, i, T, objs) == IF i > Len(gs) THEN <<>> ELSE <<Back(gs[i], T, objs)>> \o BackSeq(gs, i + 1, T, objs)
BackMap(ps, i, V, objs) == IF i > Len(ps) THEN <<>>
                           ELSE << <<ps[i][1], Back(ps[i][2], V, objs)>> >> \o BackMap(ps, i + 1, V, objs)
BackFields(fl, vals, i, objs) ==
    IF i > Len(fl) THEN <<>>
    ELSE (IF FEmb(fl[i]) THEN BackFields(StructOf(FType(fl[i])[2]), vals[i][3], 1, objs)
          ELSE << <<FLabel(fl[i]), Back(vals[i], FType(fl[i]), objs)>> >>) \o BackFields(fl, vals, i + 1, objs)
BackStruct(gs, objs) == <<"rec", RegNameOf(gs[2]), BackFields(StructOf(gs[2]), gs[3], 1, objs)>>

(* ------------------------------------------------------------------ matching a record that came back *)
MatchOpts(drop, loose) == [drop |-> drop, loose |-> loose]
(* field kinds whose value the pinned code hands back as nil (named deviation back-drops-field-kinds) *)
Dropped(T) == \/ T[1] \in {"slice", "map", "time", "struct"}
              \/ T[1] = "basic" /\ T[2] \in {"int8", "int16", "uint", "uint8", "uint32", "uint64", "float32",
                                            "dur", "nstring", "nfloat64"}

(* r: a record as projected by the harness                                                    *)
(*   <<"int",n>> <<"flt",s>> <<"str",s>> <<"bool",b>> <<"nil">> <<"raw",bs>> <<"time",k>>     *)
(*   <<"arr",vs>> <<"hash",<<k,v>>*>> <<"rec",typeName,<<key,v>>*>> <<"other",..>>           *)
(* MatchB: r is the Go value g of type T handed back without loss.  m.drop = TRUE describes *)
(* the pinned behaviour instead: the kinds of Dropped come back as nil; m.loose: see Aliases. *)
RECURSIVE MatchB(_, _, _, _, _), MatchStruct(_, _, _, _), MatchFields(_, _, _, _, _, _)
MatchB(g, T, objs, r, m) ==
    IF m.drop /\ Dropped(T) THEN r[1] = "nil"
    ELSE CASE T[1] = "basic" -> r[1] = g[1] /\ r[2] = g[2]
           [] T[1] = "bytes" -> (r[1] = "raw" /\ r[2] = g[2]) \/ (g[2] = <<>> /\ r[1] = "nil")
           [] T[1] = "time" -> r[1] = "time" /\ r[2] = g[2]
           [] T[1] = "slice" -> \/ g[2] = <<>> /\ r[1] = "nil"
                                \/ /\ r[1] = "arr" /\ Len(r[2]) = Len(g[2])
                                   /\ \A i \in 1..Len(g[2]) : MatchB(g[2][i], T[2], objs, r[2][i], m)
           [] T[1] = "map" -> \/ g[2] = <<>> /\ r[1] = "nil"
                              \/ /\ r[1] = "hash" /\ Len(r[2]) = Len(g[2])
                                 /\ \A i \in 1..Len(g[2]) : \E j \in 1..Len(r[2]) :
                                       /\ (r[2][j][1][1] = "int") = (g[2][i][1][1] = "int")
                                       /\ r[2][j][1][2] = g[2][i][1][2]       \* key by name / number
                                       /\ MatchB(g[2][i][2], T[3], objs, r[2][j][2], m)
           [] T[1] = "struct" -> MatchStruct(g, objs, r, m)
           [] T[1] = "ptr" -> (IF g[1] = "nilptr" THEN r[1] = "nil" ELSE MatchStruct(objs[g[2]], objs, r, m))
           [] T[1] = "iface" -> (IF g[1] = "niliface" THEN r[1] = "nil" ELSE MatchStruct(objs[g[2][2]], objs, r, m))
MatchStruct(gs, objs, r, m) ==
    /\ r[1] = "rec"
    /\ r[2] \in Aliases(gs[2], m.loose)
    /\ MatchFields(StructOf(gs[2]), gs[3], 1, objs, r[3], m)
MatchFields(fl, vals, i, objs, pairs, m) ==
    \/ i > Len(fl)
    \/ /\ i <= Len(fl)
       /\ IF FEmb(fl[i]) THEN MatchFields(StructOf(FType(fl[i])[2]), vals[i][3], 1, objs, pairs, m)
          ELSE \E p \in 1..Len(pairs) : /\ pairs[p][1] = FLabel(fl[i])
                                        /\ MatchB(vals[i], FType(fl[i]), objs, pairs[p][2], m)
       /\ MatchFields(fl, vals, i + 1, objs, pairs, m)

(* ------------------------------------------------------------------ identity of the records handed back *)
(* Occ: the records a Go value comes back as, in the order a depth-first walk in declaration order meets *)
(* them (shared records unfolded: met again, walked again), each named by the Go object it stands for:  *)
(* <<"o", id>> for an object reached through a pointer or an interface, <<"v", parent, path>> for a     *)
(* struct held by value.  Two occurrences must be ONE record exactly when they have the same name: one  *)
(* Go object is one record, as one record was one Go object on the way in.                              *)
RECURSIVE OccT(_, _, _, _, _, _), OccFields(_, _, _, _, _, _, _), OccSeq(_, _, _, _, _, _, _), OccMap(_, _, _, _, _, _, _)
OccObj(id, objs, drop) ==
    LET tok == <<"o", id>> IN <<tok>> \o OccFields(StructOf(objs[id][2]), objs[id][3], 1, objs, tok, <<>>, drop)
OccT(g, T, objs, par, path, drop) ==
    IF drop /\ Dropped(T) THEN <<>>
    ELSE CASE T[1] = "slice" -> OccSeq(g[2], 1, T[2], objs, par, path, drop)
           [] T[1] = "map" -> OccMap(g[2], 1, T[3], objs, par, path, drop)
           [] T[1] = "struct" -> (LET tok == <<"v", par, path>>
                                  IN <<tok>> \o OccFields(StructOf(g[2]), g[3], 1, objs, tok, <<>>, drop))
           [] T[1] = "ptr" -> (IF g[1] = "nilptr" THEN <<>> ELSE OccObj(g[2], objs, drop))
           [] T[1] = "iface" -> (IF g[1] = "niliface" THEN <<>> ELSE OccObj(g[2][2], objs, drop))
           [] OTHER -> <<>>
OccSeq(gs, i, T, objs, par, path, drop) ==
    IF i > Len(gs) THEN <<>>
    ELSE OccT(gs[i], T, objs, par, Append(path, i), drop) \o OccSeq(gs, i + 1, T, objs, par, path, drop)
OccMap(ps, i, V, objs, par, path, drop) ==
    IF i > Len(ps) THEN <<>>
    ELSE OccT(ps[i][2], V, objs, par, Append(path, i), drop) \o OccMap(ps, i + 1, V, objs, par, path, drop)
OccFields(fl, vals, i, objs, par, path, drop) ==
    IF i > Len(fl) THEN <<>>
    ELSE (IF FEmb(fl[i]) THEN OccFields(StructOf(FType(fl[i])[2]), vals[i][3], 1, objs, par, Append(path, i), drop)
          ELSE OccT(vals[i], FType(fl[i]), objs, par, Append(path, i), drop))
         \o OccFields(fl, vals, i + 1, objs, par, path, drop)
(* h: the identities the harness saw (numbers, in first-visit order) along the same walk *)
SamePattern(s, h) == /\ Len(s) = Len(h)
                     /\ \A i \in 1..Len(s) : \A j \in 1..Len(s) : (s[i] = s[j]) = (h[i] = h[j])
AllDistinct(h) == \A i \in 1..Len(h) : \A j \in 1..Len(h) : i # j => h[i] # h[j]

(* a struct value (and everything reachable from it through pointers) has an embedded field *)
RECURSIVE HasNil(_)
HasEmb(S) == \E i \in 1..Len(StructOf(S)) : FEmb(StructOf(S)[i])
(* a nil pointer / nil interface occurs in a Go value *)
HasNil(g) == CASE g[1] \in {"nilptr", "niliface"} -> TRUE
               [] g[1] = "iface" -> HasNil(g[2])
               [] g[1] = "slice" -> \E i \in 1..Len(g[2]) : HasNil(g[2][i])
               [] g[1] = "map" -> \E i \in 1..Len(g[2]) : HasNil(g[2][i][2])
               [] g[1] = "struct" -> \E i \in 1..Len(g[3]) : HasNil(g[3][i])
               [] OTHER -> FALSE
AnyNil(objs) == \E i \in 1..Len(objs) : HasNil(objs[i])
AnyEmb(objs) == \E i \in 1..Len(objs) : HasEmb(objs[i][2])

(* ------------------------------------------------------------------ the law: nothing is lost *)
(* the record tree t (a script record unfolded) is covered by the tree b handed back *)
LabelOf(S, key) ==
    LET RECURSIVE Find(_, _)
        Find(fl, i) == IF i > Len(fl) THEN ""
                       ELSE IF key \in {FKeys(fl[i])[k] : k \in 1..Len(FKeys(fl[i]))} /\ ~FEmb(fl[i]) THEN FLabel(fl[i])
                       ELSE IF FEmb(fl[i]) /\ Find(StructOf(FType(fl[i])[2]), 1) # "" THEN Find(StructOf(FType(fl[i])[2]), 1)
                       ELSE Find(fl, i + 1)
    IN Find(StructOf(S), 1)

RECURSIVE Covers(_, _, _)
(* b covers script value v (of graph G) *)
Covers(G, b, v) ==
    CASE v[1] = "ref" -> /\ b[1] = "rec" /\ b[2] = G[v[2]][1]
                         /\ \A i \in 1..Len(G[v[2]][2]) :
                              LET key == G[v[2]][2][i][1]
                                  lab == LabelOf(RegOf(b[2]), key)
                              IN lab = "" \/ \E p \in 1..Len(b[3]) : b[3][p][1] = lab /\ Covers(G, b[3][p][2], G[v[2]][2][i][2])
      [] v[1] = "arr" -> b[1] = "arr" /\ Len(b[2]) = Len(v[2]) /\ \A i \in 1..Len(v[2]) : Covers(G, b[2][i], v[2][i])
      [] v[1] = "hash" -> b[1] = "hash" /\ Len(b[2]) = Len(v[2])
                          /\ \A i \in 1..Len(v[2]) : \E j \in 1..Len(b[2]) :
                                /\ (b[2][j][1][1] = "int") = (v[2][i][1][1] = "int")
                                /\ b[2][j][1][2] = v[2][i][1][2] /\ Covers(G, b[2][j][2], v[2][i][2])
      [] v[1] = "nil" -> b[1] = "nil" \/ (b[1] \in {"arr", "hash", "raw"} /\ b[2] = <<>>)
      [] v[1] = "int" -> (b[1] = "int" /\ b[2] = v[2]) \/ (b[1] = "flt" /\ b[2] = ToString(v[2]))
      [] v[1] = "chr" -> b[1] = "int" /\ b[2] = v[2]
      [] OTHER -> b[1] = v[1] /\ b[2] = v[2]
=============================================================================
