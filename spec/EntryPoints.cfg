SPECIFICATION Spec
CONSTANTS
  MaxChunks = 4
  ApplyAsPinned = FALSE
INVARIANTS TypeOK PcInRange PendingIsTail
PROPERTIES RunDrains
CHECK_DEADLOCK FALSE
