SPECIFICATION Spec
CONSTANTS
  MaxChunks = 4
  ApplyAsPinned = FALSE
  EvalFnAsPinned = FALSE
INVARIANTS TypeOK PcInRange PendingIsTail
PROPERTIES RunDrains
CHECK_DEADLOCK FALSE
