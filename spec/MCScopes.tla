----------------------------- MODULE MCScopes -----------------------------
(* Model-checking instances of Scopes: the transcription of the real      *)
(* lookup (Variant = "code") must refine lexical lookup in every reachable *)
(* state; every wrong variant (MCScopes<Variant>.cfg) must be refuted.     *)
EXTENDS Scopes
MCNames == {"a", "b"}
MCNames1 == {"a"}
=============================================================================
