SPECIFICATION Spec
CONSTANT SharedTypes = FALSE
CONSTANT MaxInterp = 3
INVARIANT HistoryIndependent
CHECK_DEADLOCK FALSE
