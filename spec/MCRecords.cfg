SPECIFICATION Spec
CONSTANTS
  Names <- MCNames
  Devs = {}
  DefPalette <- MCDefs
  BaseVals <- MCBaseVals
  FieldNames <- MCFields
  Routes <- MCRoutes
  MaxSlots = 3
  MaxPtrs = 1
  MaxVer = 2
  MaxSteps = 4
INVARIANT WellTyped
PROPERTIES RejectedUnchanged KeepsDefinition
CHECK_DEADLOCK FALSE
