SPECIFICATION Spec
CONSTANTS
  MaxChunks = 3
  ApplyAsPinned = TRUE
INVARIANTS TypeOK PcInRange
CHECK_DEADLOCK FALSE
