package main

// Family "entry" (C04/C05): histories of host calls on one interpreter through
// the public entry points — LoadString, Run, EvalString, EvalExpressions,
// Apply, SourceStream / SourceFile / SourceExpressions, zygo.EvalFunction,
// Clear, with texts that run, fail at run time, are empty or are rejected — validated against spec/EntryPoints.tla by EntryTrace.tla: which
// chunks are pending, what runs when, where the program counter is left.

import (
	"bytes"
	"encoding/json"
	"fmt"
	"os"
	"strings"

	zygo "github.com/glycerine/zygomys/v9/zygo"
)

type entryEv struct {
	Op     string `json:"op"`   // load | eval | evalx | reject | run | apply | clear
	ID     int    `json:"id"`   // chunk id (0 = empty text)
	Kind   string `json:"kind"` // ok | fail
	Via    string `json:"via,omitempty"`
	Text   string `json:"text,omitempty"`
	Out    []any  `json:"out"`
	Fx     []int  `json:"fx"`
	PC     int    `json:"pc"`
	Size   int    `json:"size"`
	InMain bool   `json:"inmain"`
	Depths []int  `json:"depths"`
}

type entryCase struct {
	ID  string    `json:"id"`
	Evs []entryEv `json:"evs"`
}

type entryOp struct{ op, kind, via string }

var entryAlphabet = []entryOp{
	{"load", "ok", ""}, {"load", "fail", ""}, {"load", "empty", ""},
	{"eval", "ok", ""}, {"eval", "fail", ""}, {"eval", "empty", ""},
	{"evalx", "ok", ""}, {"evalx", "fail", ""},
	{"reject", "", "eval-compile"}, {"reject", "", "load-compile"}, {"reject", "", "eval-parse"}, {"reject", "", "eval-expansion"}, {"reject", "", "load-jump"},
	{"run", "", ""}, {"apply", "ok", ""}, {"apply", "fail", ""}, {"clear", "", ""},
	// the entry points that compile and run a text apart from the top-level buffer (the first entryOldOps
	// letters are the alphabet without them)
	{"source", "ok", ""}, {"source", "fail", ""}, {"source", "empty", ""}, {"evalfn", "ok", ""}, {"evalfn", "fail", ""},
}

const entryOldOps = 17

var sourceVias = []string{"stream", "file", "exprs"}

const entrySetup = "(defn apok [i] (tr i i))\n(defn apfail [i] (tr i i) (aget [1] 5))\n(defmac zvboom [] (aget [1] 5))\n"

func chunkText(id int, kind string) string {
	switch kind {
	case "ok":
		return fmt.Sprintf("(tr %d %d)\n", id, id)
	case "fail":
		return fmt.Sprintf("(tr %d %d)\n(aget [1] 5)\n(tr 999 999)\n", id, id)
	}
	return []string{"", "\n", "// nothing\n"}[id%3]
}

func rejectText(via string) string {
	switch via {
	case "eval-compile", "load-compile":
		return "(tr 998 998)\n(let [a] 1)\n"
	case "eval-parse":
		return "(tr 998 998)\n(def q ))\n"
	case "eval-expansion":
		return "(tr 998 998)\n(zvboom)\n"
	}
	return "(tr 998 998)\n(break)\n"
}

func runEntryCase(id string, ops []entryOp) entryCase {
	c := entryCase{ID: id}
	quiet(func() {
		se := newSemEnv()
		env := se.env
		defer env.Close()
		if o := evalSafe(env, entrySetup); o.Kind != "val" {
			fatal("entry setup failed: %v", o.Err)
		}
		next := 0
		for _, op := range ops {
			ev := entryEv{Op: op.op, Kind: op.kind, Via: op.via}
			if op.kind == "ok" || op.kind == "fail" {
				next++
				ev.ID = next
			}
			if op.kind == "empty" {
				ev.Kind = "ok"
				ev.ID = 0
			}
			se.fx = nil
			var v zygo.Sexp
			var err error
			call := func(f func() (zygo.Sexp, error)) {
				zygo.VerifSetBudget(defaultBudget)
				defer zygo.VerifSetBudget(-1)
				defer func() {
					if r := recover(); r != nil {
						err = fmt.Errorf("panic: %v", r)
					}
				}()
				v, err = f()
			}
			text := chunkText(next, op.kind)
			if op.kind == "empty" {
				text = chunkText(len(c.Evs), "empty")
			}
			switch op.op {
			case "load":
				ev.Text = text
				call(func() (zygo.Sexp, error) { return zygo.SexpNull, env.LoadString(text) })
			case "eval":
				ev.Text = text
				call(func() (zygo.Sexp, error) { return env.EvalString(text) })
			case "evalx":
				ev.Text = text
				call(func() (zygo.Sexp, error) {
					p := env.VerifParser()
					p.ResetAddNewInput(bytes.NewBufferString(text))
					xs, perr := p.ParseTokens()
					if perr != nil {
						return zygo.SexpNull, perr
					}
					return env.EvalExpressions(xs)
				})
			case "reject":
				ev.Text = rejectText(op.via)
				if op.via == "load-compile" || op.via == "load-jump" {
					call(func() (zygo.Sexp, error) { return zygo.SexpNull, env.LoadString(ev.Text) })
				} else {
					call(func() (zygo.Sexp, error) { return env.EvalString(ev.Text) })
				}
			case "source":
				ev.Text = text
				switch op.via {
				case "exprs":
					call(func() (zygo.Sexp, error) {
						xs, perr := parseForms(env, text)
						if perr != nil {
							return zygo.SexpNull, perr
						}
						return zygo.SexpNull, env.SourceExpressions(xs)
					})
				case "file":
					call(func() (zygo.Sexp, error) {
						f, ferr := os.CreateTemp("", "zvsrc")
						if ferr != nil {
							fatal("%v", ferr)
						}
						defer os.Remove(f.Name())
						defer f.Close()
						f.WriteString(text)
						f.Seek(0, 0)
						return zygo.SexpNull, env.SourceFile(f)
					})
				default:
					call(func() (zygo.Sexp, error) { return zygo.SexpNull, env.SourceStream(strings.NewReader(text)) })
				}
			case "evalfn":
				ev.Text = text
				call(func() (zygo.Sexp, error) {
					xs, perr := parseForms(env, text)
					if perr != nil {
						return zygo.SexpNull, perr
					}
					return zygo.EvalFunction(env, "eval", xs)
				})
			case "run":
				call(func() (zygo.Sexp, error) { return env.Run() })
			case "apply":
				name := "apok"
				if op.kind == "fail" {
					name = "apfail"
				}
				f, _ := env.FindObject(name)
				fn, isFn := f.(*zygo.SexpFunction)
				if !isFn {
					fatal("entry: %s is not defined", name)
				}
				call(func() (zygo.Sexp, error) { return env.Apply(fn, []zygo.Sexp{&zygo.SexpInt{Val: int64(ev.ID)}}) })
			case "clear":
				env.Clear()
			}
			switch {
			case err != nil:
				ev.Out = []any{"err"}
			case v == nil || v == zygo.SexpNull:
				ev.Out = []any{"nil"}
			default:
				if n, ok := v.(*zygo.SexpInt); ok {
					ev.Out = []any{"val", n.Val}
				} else {
					ev.Out = []any{"val", v.SexpString(nil)}
				}
			}
			ev.Fx = []int{}
			for _, rec := range se.fx {
				if r, ok := rec.([]any); ok && len(r) > 0 {
					if p, ok := r[0].([]any); ok && len(p) == 2 {
						if n, ok := p[1].(int64); ok {
							ev.Fx = append(ev.Fx, int(n))
						}
					}
				}
			}
			ev.PC, ev.Size, ev.InMain = env.VerifPC()
			ev.Depths = depthsOf(env)
			c.Evs = append(c.Evs, ev)
		}
	})
	return c
}

func init() {
	register("entry", "C04/C05: histories of host calls through the public entry points", func(args []string) int {
		c := commonFlags("entry", args, nil)
		w := newWriter(c.out)
		defer w.close()
		if c.replay != "" {
			readLines(c.replay, func(line []byte) {
				var in entryCase
				if err := json.Unmarshal(line, &in); err != nil {
					fatal("bad replay: %v", err)
				}
				var ops []entryOp
				for _, e := range in.Evs {
					k := e.Kind
					if e.ID == 0 && (e.Op == "load" || e.Op == "eval" || e.Op == "source") {
						k = "empty"
					}
					ops = append(ops, entryOp{e.Op, k, e.Via})
				}
				w.write(runEntryCase(in.ID, ops))
			})
			return 0
		}
		idx := 0
		L := 3
		if c.thorough() {
			L = 4
		}
		// all histories of <= L calls; of the longest ones that use the entry points added last, the quick
		// tier takes a seeded third
		var rec func(prefix []entryOp, newer bool)
		rec = func(prefix []entryOp, newer bool) {
			if len(prefix) > 0 {
				if c.mine(idx) && (!newer || len(prefix) < L || c.thorough() || hashSel(c.seed, idx, 1, 3)) {
					w.write(runEntryCase(fmt.Sprintf("e%d", idx), prefix))
				}
				idx++
			}
			if len(prefix) == L {
				return
			}
			for oi, op := range entryAlphabet {
				if op.op == "source" {
					op.via = sourceVias[(idx+oi)%len(sourceVias)]
				}
				rec(append(append([]entryOp(nil), prefix...), op), newer || oi >= entryOldOps)
			}
		}
		rec(nil, false)
		n := c.n
		if n == 0 {
			n = 400
			if c.thorough() {
				n = 6000
			}
		}
		for i := 0; i < n; i++ {
			if c.mine(idx) {
				r := newRng(c.seed, uint64(i)+91)
				var ops []entryOp
				for s := 0; s < 14; s++ {
					op := pick(r, entryAlphabet)
					if op.op == "source" {
						op.via = pick(r, sourceVias)
					}
					ops = append(ops, op)
				}
				w.write(runEntryCase(fmt.Sprintf("er%d-%d", c.seed, i), ops))
			}
			idx++
		}
		return 0
	})
}
