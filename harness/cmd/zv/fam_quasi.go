package main

// Family "quasi" (C15): syntax-quote templates with unquote / unquote-splicing
// at every position of lists, arrays and hash forms; macros whose bodies are
// such templates at several call sites. Validated by TLC against
// spec/Quasi.tla (QuasiTrace).

import (
	"encoding/json"
	"fmt"
	"strings"

	zygo "github.com/glycerine/zygomys/v9/zygo"
)

// templates are tagged arrays shared with Quasi.tla
type tmpl = []any

func tAtom(v any) tmpl      { return tmpl{"atom", v} }
func tUnq(n string) tmpl    { return tmpl{"unq", n} }
func tSplice(n string) tmpl { return tmpl{"splice", n} }
func tSum(a, b int) tmpl    { return tmpl{"unqsum", a, b} }
func tSeq(kind string, ts ...tmpl) tmpl {
	s := []any{}
	for _, t := range ts {
		s = append(s, t)
	}
	return tmpl{kind, s}
}

func renderValue(v any) string {
	x := v.([]any)
	switch x[0] {
	case "int":
		return fmt.Sprint(asInt(x[1]))
	case "sym":
		return x[1].(string)
	case "str":
		return fmt.Sprintf("%q", x[1].(string))
	case "nil":
		return "()"
	case "list", "arr":
		var parts []string
		for _, e := range x[1].([]any) {
			parts = append(parts, renderValue(e))
		}
		if x[0] == "list" {
			return "(" + strings.Join(parts, " ") + ")"
		}
		return "[" + strings.Join(parts, " ") + "]"
	}
	return "?"
}

func renderTmpl(t tmpl) string {
	switch t[0] {
	case "atom":
		return renderValue(t[1])
	case "unq":
		return "~" + t[1].(string)
	case "splice":
		return "~@" + t[1].(string)
	case "unqsum":
		return fmt.Sprintf("~(+ %d %d)", asInt(t[1]), asInt(t[2]))
	}
	var parts []string
	for _, e := range t[1].([]any) {
		parts = append(parts, renderTmpl(e.([]any)))
	}
	switch t[0] {
	case "list":
		return "(" + strings.Join(parts, " ") + ")"
	case "arr":
		return "[" + strings.Join(parts, " ") + "]"
	}
	// hashform: keys are written key: value
	var kv []string
	for i := 0; i+1 < len(parts); i += 2 {
		kv = append(kv, parts[i]+": "+parts[i+1])
	}
	return "{" + strings.Join(kv, " ") + "}"
}

// goSubst: the harness's own substitution, used only to WRITE the hand expansion
func goSubst(t tmpl, b map[string]any) (any, bool) {
	mk := func(kind string, es []any) any {
		if kind == "list" && len(es) == 0 {
			return []any{"nil"}
		}
		return []any{kind, es}
	}
	switch t[0] {
	case "atom":
		return t[1], true
	case "unq":
		return b[t[1].(string)], true
	case "unqsum":
		return []any{"int", asInt(t[1]) + asInt(t[2])}, true
	case "splice":
		return nil, false
	}
	var es []any
	for _, e := range t[1].([]any) {
		et := e.([]any)
		if et[0] == "splice" {
			v := b[et[1].(string)].([]any)
			switch v[0] {
			case "nil":
			case "list":
				es = append(es, v[1].([]any)...)
			default:
				return nil, false
			}
			continue
		}
		x, ok := goSubst(et, b)
		if !ok {
			return nil, false
		}
		es = append(es, x)
	}
	switch t[0] {
	case "list":
		return mk("list", es), true
	case "arr":
		return mk("arr", es), true
	}
	return []any{"list", append([]any{[]any{"sym", "hash"}}, es...)}, true
}

type quasiCase struct {
	ID    string `json:"id"`
	Kind  string `json:"kind"` // template | macro
	Tmpl  tmpl   `json:"tmpl"`
	Text  string `json:"text"`
	Binds []any  `json:"binds"`
	Out   any    `json:"out,omitempty"`
	// macro cases
	Site          string `json:"site,omitempty"`
	Expansion     any    `json:"expansion,omitempty"`
	CallOut       any    `json:"callout,omitempty"`
	CallFx        []any  `json:"callfx"`
	HandOut       any    `json:"handout,omitempty"`
	HandFx        []any  `json:"handfx"`
	HandText      string `json:"handtext,omitempty"`
	DepthsBefore  []int  `json:"depthsBefore,omitempty"`
	DepthsAfter   []int  `json:"depthsAfter,omitempty"`
	GlobalsBefore int    `json:"globalsBefore"`
	GlobalsAfter  int    `json:"globalsAfter"`
}

var quasiBinds = []struct {
	name string
	src  string
	val  any
}{
	{"x", "5", []any{"int", 5}},
	{"s", "(quote q)", []any{"sym", "q"}},
	{"lst", "(list 1 2)", []any{"list", []any{[]any{"int", 1}, []any{"int", 2}}}},
	{"one", "(list 9)", []any{"list", []any{[]any{"int", 9}}}},
	{"emp", "(list)", []any{"nil"}},
	{"arr", "[7 8]", []any{"arr", []any{[]any{"int", 7}, []any{"int", 8}}}},
}

func quasiEnv() *semEnv {
	se := newSemEnv()
	for _, b := range quasiBinds {
		if o := evalSafe(se.env, fmt.Sprintf("(def %s %s)\n", b.name, b.src)); o.Kind != "val" {
			fatal("quasi bind %s: %s", b.name, o.Err)
		}
	}
	return se
}

func bindsJSON() []any {
	var out []any
	for _, b := range quasiBinds {
		out = append(out, []any{b.name, b.val})
	}
	return out
}

const scrambleDef = "(defn scramble [v] (cond (array? v) (begin (for [(def i 0) (< i (len v)) (def i (+ i 1))] (scramble (aget v i)) (aset v i 99)) nil) (null? v) nil (list? v) (begin (map scramble v) nil) nil))\n"

func runTemplate(se *semEnv, id string, t tmpl) quasiCase {
	text := "^" + renderTmpl(t) + "\n"
	if strings.HasPrefix(id, "tw") {
		// the template is evaluated by a function called twice; every array reachable from the
		// first result is overwritten in place before the second call: a template is rebuilt by
		// every evaluation, so the second result is again exactly the substitution
		text = scrambleDef + "(defn mkt [] ^" + renderTmpl(t) + ")\n(def r1 (mkt))\n(scramble r1)\n(mkt)\n"
	}
	o := evalSafe(se.env, text)
	var out any
	if o.Kind == "val" {
		out = []any{"val", obsProj(se.env, o.Val)}
	} else {
		out = projOutcome(se.env, o)
	}
	return quasiCase{ID: id, Kind: "template", Tmpl: t, Text: text, Binds: bindsJSON(), Out: out, CallFx: []any{}, HandFx: []any{}}
}

func leafTemplates() []tmpl {
	return []tmpl{
		tAtom([]any{"int", 1}), tAtom([]any{"sym", "a"}), tAtom([]any{"str", "s"}),
		tUnq("x"), tUnq("s"), tUnq("lst"), tUnq("emp"), tSum(1, 2),
		tSplice("lst"), tSplice("one"), tSplice("emp"), tSplice("x"), tSplice("arr"),
	}
}

func nestedTemplates() []tmpl {
	return []tmpl{
		tSeq("list", tAtom([]any{"sym", "b"}), tUnq("x")),
		tSeq("arr", tAtom([]any{"sym", "c"}), tSplice("lst")),
		tSeq("list", tSplice("emp")),
		tSeq("hashform", tAtom([]any{"sym", "k"}), tUnq("x")),
		tSeq("list", tSeq("arr", tSplice("one"), tSeq("list", tUnq("s"), tSplice("lst")))),
		// a template inside a template, a quote inside a template: unquotes are substituted at any depth,
		// whatever symbol heads the list they stand in
		tSeq("list", tAtom([]any{"sym", "syntaxQuote"}), tSeq("list", tAtom([]any{"sym", "b"}), tUnq("x"))),
		tSeq("list", tAtom([]any{"sym", "syntaxQuote"}), tUnq("x")),
		tSeq("list", tAtom([]any{"sym", "quote"}), tUnq("s")),
		tSeq("list", tAtom([]any{"sym", "syntaxQuote"}), tSeq("arr", tSplice("lst"), tSeq("list", tAtom([]any{"sym", "quote"}), tUnq("x")))),
		tSeq("list", tAtom([]any{"sym", "defmac"}), tUnq("s"), tSeq("arr"), tSeq("list", tAtom([]any{"sym", "syntaxQuote"}), tSeq("list", tAtom([]any{"sym", "quote"}), tUnq("x")))),
	}
}

// ---- macros

type macroTmpl struct {
	t tmpl // uses the names p (a form) and q (a list form)
}

func macroTemplates() []tmpl {
	sym := func(s string) tmpl { return tAtom([]any{"sym", s}) }
	return []tmpl{
		tSeq("list", sym("list"), tUnq("p"), tSplice("q")),
		tSeq("list", sym("+"), tUnq("p"), tSplice("q")),
		tSeq("arr", tUnq("p"), tSplice("q"), tUnq("p")),
		tSeq("list", sym("let"), tSeq("arr", sym("z"), tUnq("p")), tSeq("list", sym("+"), sym("z"), tSplice("q"))),
		tSeq("list", sym("begin"), tSplice("q"), tUnq("p")),
		tSeq("list", sym("cond"), tUnq("p"), tSeq("list", sym("list"), tSplice("q")), tAtom([]any{"int", 0})),
		tSeq("list", sym("def"), sym("viaMacro"), tUnq("p")),
		tSeq("list", sym("list"), tSeq("list", sym("quote"), tUnq("p")), tSplice("q")),
		tSeq("list", sym("cond"), tUnq("p"), tSeq("list", sym("break")), tSeq("list", sym("list"), tSplice("q"))),
		tSeq("list", sym("cond"), tUnq("p"), tSeq("list", sym("continue")), tSeq("list", sym("list"), tSplice("q"))),
	}
}

func runMacro(id string, mi int, t tmpl, site string) quasiCase {
	se := quasiEnv()
	pform := []any{"list", []any{[]any{"sym", "tr"}, []any{"int", 1}, []any{"list", []any{[]any{"sym", "+"}, []any{"int", 1}, []any{"int", 2}}}}}
	qform := []any{"list", []any{[]any{"list", []any{[]any{"sym", "tr"}, []any{"int", 2}, []any{"int", 3}}}, []any{"int", 4}}}
	binds := []any{[]any{"p", pform}, []any{"q", qform}}
	c := quasiCase{ID: id, Kind: "macro", Tmpl: t, Binds: binds, Site: site, CallFx: []any{}, HandFx: []any{}}
	mname := fmt.Sprintf("m%d", mi)
	defText := fmt.Sprintf("(defmac %s [p q] ^%s)\n", mname, renderTmpl(t))
	if o := evalSafe(se.env, defText); o.Kind != "val" {
		c.Out = projOutcome(se.env, o)
		c.Text = defText
		c.Kind = "macrodef-failed"
		return c
	}
	callForm := fmt.Sprintf("(%s %s %s)", mname, renderValue(pform), renderValue(qform))
	c.Text = defText + callForm
	// expansion, with the caller's state observed around it
	c.DepthsBefore = depthsOf(se.env)
	c.GlobalsBefore = len(se.env.VerifGlobalNames())
	ex := evalSafe(se.env, "(macexpand "+callForm+")\n")
	c.DepthsAfter = depthsOf(se.env)
	c.GlobalsAfter = len(se.env.VerifGlobalNames())
	if ex.Kind == "val" {
		p := obsProj(se.env, ex.Val).([]any)
		// (quote . expansion): drop the quote
		switch p[0] {
		case "list":
			es := p[1].([]any)
			if len(es) == 1 {
				c.Expansion = []any{"val", []any{"nil"}}
			} else {
				c.Expansion = []any{"val", []any{"list", es[1:]}}
			}
		case "dotted":
			c.Expansion = []any{"val", p[2]}
		default:
			c.Expansion = []any{"val", p}
		}
	} else {
		c.Expansion = projOutcome(se.env, ex)
	}
	// the hand-written expansion
	hv, ok := goSubst(t, map[string]any{"p": pform, "q": qform})
	if !ok {
		c.Kind = "macro-unsubstitutable"
		return c
	}
	hand := renderValue(hv)
	wrap := func(form string) string {
		switch site {
		case "function":
			return "(defn site [] " + form + ")\n(site)\n"
		case "loop":
			return "(def acc [])\n(for [(def i 0) (< i 2) (def i (+ i 1))] (set acc (append acc " + form + ")))\nacc\n"
		case "let":
			return "(let [z 100 q 200] " + form + ")\n"
		case "loop-let":
			// a jump in the expansion must pop the scopes opened between the loop and the call site
			return "(def z 1000)\n(def acc [])\n(for [(def i 0) (< i 3) (def i (+ i 1))] (newScope (let [z i] " + form + " (set acc (append acc z)))))\n(list acc z)\n"
		case "outer-macro":
			return form + "\n"
		}
		return form + "\n"
	}
	callText := wrap(callForm)
	if site == "outer-macro" {
		outer := fmt.Sprintf("(defmac outer%d [a] ^(%s ~a %s))\n", mi, mname, renderValue(qform))
		if o := evalSafe(se.env, outer); o.Kind != "val" {
			c.Kind = "macrodef-failed"
			return c
		}
		callText = fmt.Sprintf("(outer%d %s)\n", mi, renderValue(pform))
	}
	c.HandText = wrap(hand)
	run := func(text string) (any, []any) {
		s2 := quasiEnv()
		if o := evalSafe(s2.env, defText); o.Kind != "val" {
			return []any{"deffail"}, []any{}
		}
		if site == "outer-macro" {
			evalSafe(s2.env, fmt.Sprintf("(defmac outer%d [a] ^(%s ~a %s))\n", mi, mname, renderValue(qform)))
		}
		s2.fx = nil
		o := evalSafe(s2.env, text)
		var out any
		if o.Kind == "val" {
			out = []any{"val", obsProj(s2.env, o.Val)}
		} else {
			out = []any{o.Kind}
		}
		fx := s2.fx
		if fx == nil {
			fx = []any{}
		}
		return out, fx
	}
	c.CallOut, c.CallFx = run(callText)
	c.HandOut, c.HandFx = run(c.HandText)
	return c
}

func init() {
	register("quasi", "C15: syntax-quote templates and macros", func(args []string) int {
		c := commonFlags("quasi", args, nil)
		w := newWriter(c.out)
		defer w.close()
		if c.replay != "" {
			readLines(c.replay, func(line []byte) {
				var in quasiCase
				if err := json.Unmarshal(line, &in); err != nil {
					fatal("bad replay: %v", err)
				}
				if in.Kind == "template" {
					w.write(runTemplate(quasiEnv(), in.ID, in.Tmpl))
					return
				}
				var mi int
				fmt.Sscanf(in.ID, "mac-%d-", &mi)
				w.write(runMacro(in.ID, mi, in.Tmpl, in.Site))
			})
			return 0
		}
		_ = zygo.SexpNull
		se := quasiEnv()
		elems := append(leafTemplates(), nestedTemplates()...)
		idx := 0
		emit := func(t tmpl) {
			if c.mine(idx) {
				w.write(runTemplate(se, fmt.Sprintf("t%d", idx), t))
			}
			idx++
		}
		for _, kind := range []string{"list", "arr"} {
			emit(tSeq(kind))
			for _, a := range elems {
				emit(tSeq(kind, a))
				for _, b := range elems {
					emit(tSeq(kind, a, b))
					for ci, cc := range elems {
						// width 3: complete in thorough, a seeded quarter in quick
						if c.thorough() || hashSel(c.seed, idx*31+ci, 1, 4) {
							emit(tSeq(kind, a, b, cc))
						} else {
							idx++
						}
					}
				}
			}
		}
		keys := []tmpl{tAtom([]any{"sym", "k"}), tAtom([]any{"sym", "j"})}
		for _, v1 := range elems {
			if v1[0] == "splice" {
				continue
			}
			emit(tSeq("hashform", keys[0], v1))
			for _, v2 := range elems {
				if v2[0] == "splice" {
					continue
				}
				emit(tSeq("hashform", keys[0], v1, keys[1], v2))
			}
		}
		// evaluated twice with the first result scrambled in between (templates with array parts)
		for _, a := range elems {
			for _, b := range nestedTemplates() {
				if c.mine(idx) {
					w.write(runTemplate(se, fmt.Sprintf("tw%d", idx), tSeq("list", a, b, tSeq("arr", tAtom([]any{"int", 0}), tAtom([]any{"int", 0})))))
				}
				idx++
				if c.mine(idx) {
					w.write(runTemplate(se, fmt.Sprintf("tw%d", idx), tSeq("arr", tSeq("arr", a), b)))
				}
				idx++
			}
		}
		// depth 3: containers of nested containers
		for _, a := range nestedTemplates() {
			for _, b := range nestedTemplates() {
				emit(tSeq("list", a, tSeq("arr", b, tUnq("x")), tSplice("lst")))
				emit(tSeq("arr", tSeq("list", a, tSplice("one")), b))
			}
		}
		// macros x call sites
		for mi, t := range macroTemplates() {
			for _, site := range []string{"top", "function", "loop", "let", "loop-let", "outer-macro"} {
				if c.mine(idx) {
					w.write(runMacro(fmt.Sprintf("mac-%d-%s", mi, site), mi, t, site))
				}
				idx++
			}
		}
		return 0
	})
}
