package main

// Family "quasi" (C15): syntax-quote templates with unquote / unquote-splicing
// at every position of lists, arrays and hash forms; macros whose bodies are
// such templates at several call sites. Validated by TLC against
// spec/Quasi.tla (QuasiTrace).

import (
	"encoding/json"
	"fmt"
	"strings"

	zygo "github.com/glycerine/zygomys/v9/zygo"
)

// templates are tagged arrays shared with Quasi.tla
type tmpl = []any

func tAtom(v any) tmpl      { return tmpl{"atom", v} }
func tUnq(n string) tmpl    { return tmpl{"unq", n} }
func tSplice(n string) tmpl { return tmpl{"splice", n} }
func tSum(a, b int) tmpl    { return tmpl{"unqsum", a, b} }
func tUnqX(e []any) tmpl    { return tmpl{"unqx", e} }
func tSpliceX(e []any) tmpl { return tmpl{"splicex", e} }
func tSugar(h string, t tmpl) tmpl {
	return tmpl{"sugar", h, t}
}

// expressions of ~e / ~@e (the small pure language of Quasi!Eval)
func eLit(v any) []any        { return []any{"lit", v} }
func eQt(v any) []any         { return []any{"qt", v} }
func eVar(n string) []any     { return []any{"var", n} }
func eBad(label string) []any { return []any{"bad", label} }
func eSeq(kind string, es ...[]any) []any {
	s := []any{}
	for _, e := range es {
		s = append(s, e)
	}
	return []any{kind, s}
}

// expressions that have no value: rejected when written on their own, some when compiled, some when run
var badTexts = map[string]string{
	"let":      "(let)",
	"def":      "(def)",
	"set":      "(set 5 1)",
	"break":    "(break)",
	"letlet":   "(let [z 1] (let))",
	"car":      "(car 5)",
	"unbound":  "(nosuchfn 1)",
	"macarity": "(two 1 2)",
	"macfail":  "(badmac)",
}

func renderExpr(e []any) string {
	seq := func(head string) string {
		parts := []string{head}
		for _, x := range e[1].([]any) {
			parts = append(parts, renderExpr(x.([]any)))
		}
		return "(" + strings.Join(parts, " ") + ")"
	}
	switch e[0] {
	case "lit":
		return renderValue(e[1])
	case "qt":
		return "(quote " + renderValue(e[1]) + ")"
	case "var":
		return e[1].(string)
	case "sum":
		return "(+ " + renderExpr(e[1].([]any)) + " " + renderExpr(e[2].([]any)) + ")"
	case "begin":
		return seq("begin")
	case "scope":
		return seq("newScope")
	case "mklist":
		return seq("list")
	case "bad":
		t, ok := badTexts[e[1].(string)]
		if !ok {
			fatal("quasi: unknown bad expression %v", e[1])
		}
		return t
	}
	fatal("quasi: unknown expression %v", e)
	return ""
}

// goEval: the harness's own evaluation, used only to WRITE the hand expansion
func goEval(e []any, b map[string]any) (any, bool) {
	switch e[0] {
	case "lit", "qt":
		return e[1], true
	case "var":
		v, ok := b[e[1].(string)]
		return v, ok
	case "sum":
		x, ok1 := goEval(e[1].([]any), b)
		y, ok2 := goEval(e[2].([]any), b)
		if !ok1 || !ok2 || x.([]any)[0] != "int" || y.([]any)[0] != "int" {
			return nil, false
		}
		return []any{"int", asInt(x.([]any)[1]) + asInt(y.([]any)[1])}, true
	case "begin", "scope", "mklist":
		var vs []any
		for _, x := range e[1].([]any) {
			v, ok := goEval(x.([]any), b)
			if !ok {
				return nil, false
			}
			vs = append(vs, v)
		}
		if e[0] == "mklist" {
			if len(vs) == 0 {
				return []any{"nil"}, true
			}
			return []any{"list", vs}, true
		}
		if len(vs) == 0 {
			return []any{"nil"}, true
		}
		return vs[len(vs)-1], true
	}
	return nil, false
}

func tSeq(kind string, ts ...tmpl) tmpl {
	s := []any{}
	for _, t := range ts {
		s = append(s, t)
	}
	return tmpl{kind, s}
}

func renderValue(v any) string {
	x := v.([]any)
	switch x[0] {
	case "int":
		return fmt.Sprint(asInt(x[1]))
	case "sym":
		return x[1].(string)
	case "str":
		return fmt.Sprintf("%q", x[1].(string))
	case "nil":
		return "()"
	case "list", "arr":
		var parts []string
		for _, e := range x[1].([]any) {
			parts = append(parts, renderValue(e))
		}
		if x[0] == "list" {
			return "(" + strings.Join(parts, " ") + ")"
		}
		return "[" + strings.Join(parts, " ") + "]"
	}
	return "?"
}

func renderTmpl(t tmpl) string {
	switch t[0] {
	case "atom":
		return renderValue(t[1])
	case "unq":
		return "~" + t[1].(string)
	case "splice":
		return "~@" + t[1].(string)
	case "unqsum":
		return fmt.Sprintf("~(+ %d %d)", asInt(t[1]), asInt(t[2]))
	case "unqx":
		return "~" + renderExpr(t[1].([]any))
	case "splicex":
		return "~@" + renderExpr(t[1].([]any))
	case "sugar":
		if t[1] == "quote" {
			return "%" + renderTmpl(t[2].([]any))
		}
		return "^" + renderTmpl(t[2].([]any))
	case "hashobj":
		fatal("quasi: a hash object cannot be written as text; use buildExpr")
	}
	var parts []string
	for _, e := range t[1].([]any) {
		parts = append(parts, renderTmpl(e.([]any)))
	}
	switch t[0] {
	case "list":
		return "(" + strings.Join(parts, " ") + ")"
	case "arr":
		return "[" + strings.Join(parts, " ") + "]"
	}
	// hashform: keys are written key: value
	var kv []string
	for i := 0; i+1 < len(parts); i += 2 {
		kv = append(kv, parts[i]+": "+parts[i+1])
	}
	return "{" + strings.Join(kv, " ") + "}"
}

// buildExpr writes an expression whose VALUE is the template t (as a datum): the way a program gets a hash
// object into a template, (eval (list (quote syntaxQuote) <built>)) or a macro returning that form
func buildExpr(t tmpl) string {
	switch t[0] {
	case "atom", "unq", "splice", "unqsum", "unqx", "splicex":
		return "(quote " + renderTmpl(t) + ")"
	case "sugar":
		return "(list (quote " + t[1].(string) + ") " + buildExpr(t[2].([]any)) + ")"
	}
	var parts []string
	for _, e := range t[1].([]any) {
		parts = append(parts, buildExpr(e.([]any)))
	}
	switch t[0] {
	case "list":
		return "(list " + strings.Join(parts, " ") + ")"
	case "arr":
		return "[" + strings.Join(parts, " ") + "]"
	case "hashform":
		return "(list (quote hash) " + strings.Join(parts, " ") + ")"
	}
	return "(hash " + strings.Join(parts, " ") + ")"
}

// hasKind: does the template contain a node (template or expression) of one of the kinds
func hasKind(x any, kinds ...string) bool {
	v, ok := x.([]any)
	if !ok {
		return false
	}
	if len(v) > 0 {
		if s, ok := v[0].(string); ok {
			for _, k := range kinds {
				if s == k {
					return true
				}
			}
		}
	}
	for _, y := range v {
		if hasKind(y, kinds...) {
			return true
		}
	}
	return false
}

// goSubst: the harness's own substitution, used only to WRITE the hand expansion
func goSubst(t tmpl, b map[string]any) (any, bool) {
	mk := func(kind string, es []any) any {
		if kind == "list" && len(es) == 0 {
			return []any{"nil"}
		}
		return []any{kind, es}
	}
	switch t[0] {
	case "atom":
		return t[1], true
	case "unq":
		return b[t[1].(string)], true
	case "unqsum":
		return []any{"int", asInt(t[1]) + asInt(t[2])}, true
	case "unqx":
		return goEval(t[1].([]any), b)
	case "sugar":
		return goSubst(tSeq("list", tAtom([]any{"sym", t[1]}), t[2].([]any)), b)
	case "splice", "splicex", "hashobj":
		return nil, false
	}
	var es []any
	for _, e := range t[1].([]any) {
		et := e.([]any)
		if et[0] == "splice" || et[0] == "splicex" {
			var v []any
			if et[0] == "splice" {
				v = b[et[1].(string)].([]any)
			} else {
				x, ok := goEval(et[1].([]any), b)
				if !ok {
					return nil, false
				}
				v = x.([]any)
			}
			switch v[0] {
			case "nil":
			case "list":
				es = append(es, v[1].([]any)...)
			default:
				return nil, false
			}
			continue
		}
		x, ok := goSubst(et, b)
		if !ok {
			return nil, false
		}
		es = append(es, x)
	}
	switch t[0] {
	case "list":
		return mk("list", es), true
	case "arr":
		return mk("arr", es), true
	}
	return []any{"list", append([]any{[]any{"sym", "hash"}}, es...)}, true
}

type quasiCase struct {
	ID    string `json:"id"`
	Kind  string `json:"kind"` // template | macro
	Tmpl  tmpl   `json:"tmpl"`
	Text  string `json:"text"`
	Binds []any  `json:"binds"`
	Out   any    `json:"out,omitempty"`
	Route string `json:"route,omitempty"` // template cases: "" ^T | fn (defn mkt [] ^T) (mkt) | eval / macro: the template is built as a value
	// macro cases
	Name          string `json:"name,omitempty"` // the macro's name (the names dimension)
	DefOut        any    `json:"defout,omitempty"`
	Site          string `json:"site,omitempty"`
	Expansion     any    `json:"expansion,omitempty"`
	CallOut       any    `json:"callout,omitempty"`
	CallFx        []any  `json:"callfx"`
	HandOut       any    `json:"handout,omitempty"`
	HandFx        []any  `json:"handfx"`
	HandText      string `json:"handtext,omitempty"`
	DepthsBefore  []int  `json:"depthsBefore,omitempty"`
	DepthsAfter   []int  `json:"depthsAfter,omitempty"`
	GlobalsBefore int    `json:"globalsBefore"`
	GlobalsAfter  int    `json:"globalsAfter"`
}

var quasiBinds = []struct {
	name string
	src  string
	val  any
}{
	{"x", "5", []any{"int", 5}},
	{"s", "(quote q)", []any{"sym", "q"}},
	{"lst", "(list 1 2)", []any{"list", []any{[]any{"int", 1}, []any{"int", 2}}}},
	{"one", "(list 9)", []any{"list", []any{[]any{"int", 9}}}},
	{"emp", "(list)", []any{"nil"}},
	{"arr", "[7 8]", []any{"arr", []any{[]any{"int", 7}, []any{"int", 8}}}},
	{"pr", "(list 7 (quote j) 8)", []any{"list", []any{[]any{"int", 7}, []any{"sym", "j"}, []any{"int", 8}}}},
}

// macros the erroneous unquoted expressions call
const quasiMacros = "(defmac two [a] ^(list ~a ~a))\n(defmac badmac [] (car 5))\n"

func quasiEnv() *semEnv {
	se := newSemEnv()
	for _, b := range quasiBinds {
		if o := evalSafe(se.env, fmt.Sprintf("(def %s %s)\n", b.name, b.src)); o.Kind != "val" {
			fatal("quasi bind %s: %s", b.name, o.Err)
		}
	}
	if o := evalSafe(se.env, quasiMacros); o.Kind != "val" {
		fatal("quasi macros: %s", o.Err)
	}
	return se
}

// every "bad" expression is rejected when written on its own (the premise of Quasi!Eval's "bad")
func checkBadTexts() {
	for label, text := range badTexts {
		if o := evalSafe(quasiEnv().env, text+"\n"); o.Kind == "val" || o.Kind == "nilres" {
			fatal("quasi: the expression %s (%s) has a value", text, label)
		}
	}
}

func bindsJSON() []any {
	var out []any
	for _, b := range quasiBinds {
		out = append(out, []any{b.name, b.val})
	}
	return out
}

const scrambleDef = "(defn scramble [v] (cond (array? v) (begin (for [(def i 0) (< i (len v)) (def i (+ i 1))] (scramble (aget v i)) (aset v i 99)) nil) (null? v) nil (list? v) (begin (map scramble v) nil) nil))\n"

func runTemplate(se *semEnv, id string, t tmpl, route string) quasiCase {
	if se == nil {
		se = quasiEnv()
	}
	var text string
	switch route {
	case "eval":
		text = "(eval (list (quote syntaxQuote) " + buildExpr(t) + "))\n"
	case "macro":
		text = "(defmac mkh [] (list (quote syntaxQuote) " + buildExpr(t) + "))\n(mkh)\n"
	case "fn":
		text = "(defn mkt [] ^" + renderTmpl(t) + ")\n(mkt)\n"
	default:
		text = "^" + renderTmpl(t) + "\n"
	}
	if strings.HasPrefix(id, "tw") {
		// the template is evaluated by a function called twice; every array reachable from the
		// first result is overwritten in place before the second call: a template is rebuilt by
		// every evaluation, so the second result is again exactly the substitution
		text = scrambleDef + "(defn mkt [] ^" + renderTmpl(t) + ")\n(def r1 (mkt))\n(scramble r1)\n(mkt)\n"
	}
	o := evalSafe(se.env, text)
	var out any
	if o.Kind == "val" {
		out = []any{"val", obsProj(se.env, o.Val)}
	} else {
		out = projOutcome(se.env, o)
	}
	return quasiCase{ID: id, Kind: "template", Tmpl: t, Text: text, Binds: bindsJSON(), Out: out, Route: route, CallFx: []any{}, HandFx: []any{}}
}

func leafTemplates() []tmpl {
	return []tmpl{
		tAtom([]any{"int", 1}), tAtom([]any{"sym", "a"}), tAtom([]any{"str", "s"}),
		tUnq("x"), tUnq("s"), tUnq("lst"), tUnq("emp"), tSum(1, 2),
		tSplice("lst"), tSplice("one"), tSplice("emp"), tSplice("x"), tSplice("arr"),
	}
}

func nestedTemplates() []tmpl {
	return []tmpl{
		tSeq("list", tAtom([]any{"sym", "b"}), tUnq("x")),
		tSeq("arr", tAtom([]any{"sym", "c"}), tSplice("lst")),
		tSeq("list", tSplice("emp")),
		tSeq("hashform", tAtom([]any{"sym", "k"}), tUnq("x")),
		tSeq("list", tSeq("arr", tSplice("one"), tSeq("list", tUnq("s"), tSplice("lst")))),
		// a template inside a template, a quote inside a template: unquotes are substituted at any depth,
		// whatever symbol heads the list they stand in
		tSeq("list", tAtom([]any{"sym", "syntaxQuote"}), tSeq("list", tAtom([]any{"sym", "b"}), tUnq("x"))),
		tSeq("list", tAtom([]any{"sym", "syntaxQuote"}), tUnq("x")),
		tSeq("list", tAtom([]any{"sym", "quote"}), tUnq("s")),
		tSeq("list", tAtom([]any{"sym", "syntaxQuote"}), tSeq("arr", tSplice("lst"), tSeq("list", tAtom([]any{"sym", "quote"}), tUnq("x")))),
		tSeq("list", tAtom([]any{"sym", "defmac"}), tUnq("s"), tSeq("arr"), tSeq("list", tAtom([]any{"sym", "syntaxQuote"}), tSeq("list", tAtom([]any{"sym", "quote"}), tUnq("x")))),
	}
}

// extraTemplates: the unquoted expressions of Quasi!Eval, negative literals, reader sugar
func extraTemplates() []tmpl {
	i := func(n int) any { return []any{"int", n} }
	return []tmpl{
		// no instructions are compiled for these; their value is nil
		tUnqX(eSeq("begin")), tUnqX(eSeq("scope")), tUnqX(eSeq("begin", eSeq("begin"))), tUnqX(eSeq("begin", eSeq("scope"), eSeq("begin"))),
		tSpliceX(eSeq("begin")), tSpliceX(eSeq("begin", eSeq("scope"))),
		// (not (newScope (begin)): a scope around forms that compile to nothing has no value anywhere, also as
		// an argument of a call -- the statement of another property)
		// nil-valued and valued compound expressions
		tUnqX(eSeq("mklist")), tUnqX(eSeq("begin", eLit(i(1)), eLit(i(2)))), tUnqX(eSeq("scope", eVar("x"))),
		tUnqX(eSeq("mklist", eLit(i(1)), eSeq("begin"))), tUnqX(eQt([]any{"sym", "q"})), tUnqX(eLit(i(-5))),
		tUnqX([]any{"sum", eVar("x"), eLit(i(-5))}),
		tSpliceX(eSeq("mklist", eLit(i(-5)), eQt([]any{"sym", "b"}), eLit(i(2)))), tSpliceX(eSeq("mklist")),
		// literally as written: negative numbers, %datum and ^datum inside a template
		tAtom(i(-5)), tSugar("quote", tAtom(i(-5))), tSugar("syntaxQuote", tAtom(i(-5))), tSugar("quote", tAtom([]any{"sym", "a"})),
		tSugar("quote", tUnq("x")), tSugar("syntaxQuote", tSeq("list", tAtom(i(-5)), tUnqX(eLit(i(-5))))),
		// expressions without a value: rejected when compiled, rejected when run
		tUnqX(eBad("let")), tUnqX(eBad("def")), tUnqX(eBad("set")), tUnqX(eBad("break")), tUnqX(eBad("letlet")),
		tUnqX(eBad("car")), tUnqX(eBad("unbound")), tUnqX(eBad("macarity")), tUnqX(eBad("macfail")),
		tUnqX(eSeq("begin", eLit(i(1)), eBad("let"))), tSpliceX(eBad("let")), tSpliceX(eBad("car")),
	}
}

// ---- macros

type macroTmpl struct {
	t tmpl // uses the names p (a form) and q (a list form)
}

func macroTemplates() []tmpl {
	sym := func(s string) tmpl { return tAtom([]any{"sym", s}) }
	return []tmpl{
		tSeq("list", sym("list"), tUnq("p"), tSplice("q")),
		tSeq("list", sym("+"), tUnq("p"), tSplice("q")),
		tSeq("arr", tUnq("p"), tSplice("q"), tUnq("p")),
		tSeq("list", sym("let"), tSeq("arr", sym("z"), tUnq("p")), tSeq("list", sym("+"), sym("z"), tSplice("q"))),
		tSeq("list", sym("begin"), tSplice("q"), tUnq("p")),
		tSeq("list", sym("cond"), tUnq("p"), tSeq("list", sym("list"), tSplice("q")), tAtom([]any{"int", 0})),
		tSeq("list", sym("def"), sym("viaMacro"), tUnq("p")),
		tSeq("list", sym("list"), tSeq("list", sym("quote"), tUnq("p")), tSplice("q")),
		tSeq("list", sym("cond"), tUnq("p"), tSeq("list", sym("break")), tSeq("list", sym("list"), tSplice("q"))),
		tSeq("list", sym("cond"), tUnq("p"), tSeq("list", sym("continue")), tSeq("list", sym("list"), tSplice("q"))),
		// unquoted expressions of the body's own: nil-valued, spliced, without a value
		tSeq("list", sym("list"), tUnq("p"), tUnqX(eSeq("begin")), tSpliceX(eSeq("mklist", eLit([]any{"int", -5}), eLit([]any{"int", 2}))), tSplice("q")),
		tSeq("arr", tUnq("p"), tSpliceX(eSeq("begin")), tSugar("quote", tAtom([]any{"int", -5})), tUnqX(eSeq("scope"))),
		tSeq("list", sym("list"), tUnq("p"), tUnqX(eBad("let")), tSplice("q")),
		tSeq("list", sym("list"), tUnq("p"), tSeq("arr", tUnqX(eBad("letlet"))), tSplice("q")),
	}
}

// macroNames: the names dimension. Ordinary names (mfree, mac2: the controls C15.py insists are accepted), the
// names of the language's special forms, of a builtin function, of a bound variable, of reserved words
func macroNames() []string {
	return []string{"mfree", "mac2",
		"and", "or", "cond", "quote", "def", "mdef", "fn", "defn", "begin", "let", "letseq", "assert", "defmac",
		"macexpand", "syntaxQuote", "include", "for", "set", "break", "continue", "newScope", "package", "return",
		"list", "x", "range", "struct", "func", "method", "interface", "import", "var", "type", "go"}
}

func namedMacroTemplate() tmpl {
	sym := func(s string) tmpl { return tAtom([]any{"sym", s}) }
	return tSeq("list", sym("list"), tSeq("list", sym("quote"), sym("checked")), tUnq("p"), tSplice("q"))
}

func runMacro(id string, mi int, t tmpl, site string, name string) quasiCase {
	se := quasiEnv()
	pform := []any{"list", []any{[]any{"sym", "tr"}, []any{"int", 1}, []any{"list", []any{[]any{"sym", "+"}, []any{"int", 1}, []any{"int", 2}}}}}
	qform := []any{"list", []any{[]any{"list", []any{[]any{"sym", "tr"}, []any{"int", 2}, []any{"int", 3}}}, []any{"int", 4}}}
	binds := []any{[]any{"p", pform}, []any{"q", qform}}
	c := quasiCase{ID: id, Kind: "macro", Tmpl: t, Binds: binds, Site: site, Name: name, CallFx: []any{}, HandFx: []any{}}
	none := []any{"none"}
	c.Expansion, c.CallOut, c.HandOut = none, none, none
	mname := name
	if mname == "" {
		mname = fmt.Sprintf("m%d", mi)
	}
	defText := fmt.Sprintf("(defmac %s [p q] ^%s)\n", mname, renderTmpl(t))
	c.Text = defText
	do := evalSafe(se.env, defText)
	c.DefOut = projOutcome(se.env, do)
	if do.Kind != "val" {
		// refused: there is no macro (QuasiTrace decides what that means for the case)
		return c
	}
	c.DefOut = []any{"val"}
	callForm := fmt.Sprintf("(%s %s %s)", mname, renderValue(pform), renderValue(qform))
	c.Text = defText + callForm
	// expansion, with the caller's state observed around it
	c.DepthsBefore = depthsOf(se.env)
	c.GlobalsBefore = len(se.env.VerifGlobalNames())
	ex := evalSafe(se.env, "(macexpand "+callForm+")\n")
	c.DepthsAfter = depthsOf(se.env)
	c.GlobalsAfter = len(se.env.VerifGlobalNames())
	if ex.Kind == "val" {
		p := obsProj(se.env, ex.Val).([]any)
		// (quote . expansion): drop the quote
		switch p[0] {
		case "list":
			es := p[1].([]any)
			if len(es) == 1 {
				c.Expansion = []any{"val", []any{"nil"}}
			} else {
				c.Expansion = []any{"val", []any{"list", es[1:]}}
			}
		case "dotted":
			c.Expansion = []any{"val", p[2]}
		default:
			c.Expansion = []any{"val", p}
		}
	} else {
		c.Expansion = projOutcome(se.env, ex)
	}
	// the hand-written expansion
	hv, ok := goSubst(t, map[string]any{"p": pform, "q": qform})
	if !ok {
		// the template has no value (Quasi!Subst decides): nothing to write by hand
		return c
	}
	hand := renderValue(hv)
	wrap := func(form string) string {
		switch site {
		case "function":
			return "(defn site [] " + form + ")\n(site)\n"
		case "loop":
			return "(def acc [])\n(for [(def i 0) (< i 2) (def i (+ i 1))] (set acc (append acc " + form + ")))\nacc\n"
		case "let":
			return "(let [z 100 q 200] " + form + ")\n"
		case "loop-let":
			// a jump in the expansion must pop the scopes opened between the loop and the call site
			return "(def z 1000)\n(def acc [])\n(for [(def i 0) (< i 3) (def i (+ i 1))] (newScope (let [z i] " + form + " (set acc (append acc z)))))\n(list acc z)\n"
		case "outer-macro":
			return form + "\n"
		}
		return form + "\n"
	}
	callText := wrap(callForm)
	if site == "outer-macro" {
		outer := fmt.Sprintf("(defmac outer%d [a] ^(%s ~a %s))\n", mi, mname, renderValue(qform))
		if o := evalSafe(se.env, outer); o.Kind != "val" {
			c.DefOut = projOutcome(se.env, o)
			return c
		}
		callText = fmt.Sprintf("(outer%d %s)\n", mi, renderValue(pform))
	}
	c.HandText = wrap(hand)
	run := func(text string) (any, []any) {
		s2 := quasiEnv()
		if o := evalSafe(s2.env, defText); o.Kind != "val" {
			return []any{"deffail"}, []any{}
		}
		if site == "outer-macro" {
			evalSafe(s2.env, fmt.Sprintf("(defmac outer%d [a] ^(%s ~a %s))\n", mi, mname, renderValue(qform)))
		}
		s2.fx = nil
		o := evalSafe(s2.env, text)
		var out any
		if o.Kind == "val" {
			out = []any{"val", obsProj(s2.env, o.Val)}
		} else {
			out = []any{o.Kind}
		}
		fx := s2.fx
		if fx == nil {
			fx = []any{}
		}
		return out, fx
	}
	c.CallOut, c.CallFx = run(callText)
	c.HandOut, c.HandFx = run(c.HandText)
	return c
}

func init() {
	register("quasi", "C15: syntax-quote templates and macros", func(args []string) int {
		c := commonFlags("quasi", args, nil)
		w := newWriter(c.out)
		defer w.close()
		if c.replay != "" {
			readLines(c.replay, func(line []byte) {
				var in quasiCase
				if err := json.Unmarshal(line, &in); err != nil {
					fatal("bad replay: %v", err)
				}
				if in.Kind == "template" {
					w.write(runTemplate(quasiEnv(), in.ID, in.Tmpl, in.Route))
					return
				}
				var mi int
				fmt.Sscanf(in.ID, "mac-%d-", &mi)
				w.write(runMacro(in.ID, mi, in.Tmpl, in.Site, in.Name))
			})
			return 0
		}
		_ = zygo.SexpNull
		checkBadTexts()
		se := quasiEnv()
		elems := append(leafTemplates(), nestedTemplates()...)
		idx := 0
		emit := func(t tmpl) {
			if c.mine(idx) {
				w.write(runTemplate(se, fmt.Sprintf("t%d", idx), t, ""))
			}
			idx++
		}
		for _, kind := range []string{"list", "arr"} {
			emit(tSeq(kind))
			for _, a := range elems {
				emit(tSeq(kind, a))
				for _, b := range elems {
					emit(tSeq(kind, a, b))
					for ci, cc := range elems {
						// width 3: complete in thorough, a seeded fifth in quick
						if c.thorough() || hashSel(c.seed, idx*31+ci, 1, 5) {
							emit(tSeq(kind, a, b, cc))
						} else {
							idx++
						}
					}
				}
			}
		}
		keys := []tmpl{tAtom([]any{"sym", "k"}), tAtom([]any{"sym", "j"})}
		for _, v1 := range elems {
			if v1[0] == "splice" {
				continue
			}
			emit(tSeq("hashform", keys[0], v1))
			for _, v2 := range elems {
				if v2[0] == "splice" {
					continue
				}
				emit(tSeq("hashform", keys[0], v1, keys[1], v2))
			}
		}
		// evaluated twice with the first result scrambled in between (templates with array parts)
		for _, a := range elems {
			for _, b := range nestedTemplates() {
				if c.mine(idx) {
					w.write(runTemplate(se, fmt.Sprintf("tw%d", idx), tSeq("list", a, b, tSeq("arr", tAtom([]any{"int", 0}), tAtom([]any{"int", 0}))), ""))
				}
				idx++
				if c.mine(idx) {
					w.write(runTemplate(se, fmt.Sprintf("tw%d", idx), tSeq("arr", tSeq("arr", a), b), ""))
				}
				idx++
			}
		}
		// depth 3: containers of nested containers
		for _, a := range nestedTemplates() {
			for _, b := range nestedTemplates() {
				emit(tSeq("list", a, tSeq("arr", b, tUnq("x")), tSplice("lst")))
				emit(tSeq("arr", tSeq("list", a, tSplice("one")), b))
			}
		}
		// ---- unquoted expressions (without instructions, nil-valued, valued, without a value), negative
		// literals, reader sugar: an own environment for every case (an expression that is rejected must not
		// decide the outcome of the next case)
		emitR := func(prefix string, t tmpl, route string) {
			if c.mine(idx) {
				w.write(runTemplate(nil, fmt.Sprintf("%s%d", prefix, idx), t, route))
			}
			idx++
		}
		sym := func(n string) tmpl { return tAtom([]any{"sym", n}) }
		extras := extraTemplates()
		for _, e := range extras {
			// the template itself (depth 0), only element, in the middle, nested, as a hash form's value
			if e[0] != "splicex" {
				emitR("x", e, "")
				emitR("x", tSeq("hashform", sym("k"), e), "")
			}
			for _, kind := range []string{"list", "arr"} {
				emitR("x", tSeq(kind, e), "")
				emitR("x", tSeq(kind, sym("a"), e, sym("b")), "")
				emitR("x", tSeq(kind, sym("a"), tSeq("list", sym("b"), e), sym("c")), "")
				emitR("x", tSeq(kind, tSeq("arr", e), tSplice("lst")), "")
			}
			// inside a function: the template is compiled with the function and evaluated by the call
			emitR("x", tSeq("list", sym("a"), e, sym("b"), sym("c")), "fn")
			// beside every other element: complete in thorough, a seeded fifth in quick
			for _, kind := range []string{"list", "arr"} {
				for oi, o := range elems {
					if c.thorough() || hashSel(c.seed, idx*17+oi, 1, 5) {
						emitR("x", tSeq(kind, e, o), "")
						emitR("x", tSeq(kind, o, e), "")
					} else {
						idx += 2
					}
				}
			}
		}
		for _, e := range elems {
			if e[0] != "splice" {
				emitR("x", e, "") // depth 0: the template is one atom, one unquote, one nested container
			}
		}
		// ---- hash OBJECTS in a template (a template built as a value): a splice in a value position changes
		// the pairing exactly as in the textual form
		hvals := append(append([]tmpl{}, elems...), extras...)
		few := []tmpl{tUnq("x"), tSplice("pr"), tSplice("one"), tSeq("list", sym("b"), tUnq("x"))}
		few2 := few
		if !c.thorough() {
			few2 = few[:2]
		}
		var hts []tmpl
		for _, v := range hvals {
			h1 := tSeq("hashobj", sym("k"), v)
			hts = append(hts, h1, tSeq("list", sym("a"), h1, sym("b")), tSeq("arr", h1, tSplice("lst")), tSeq("hashobj", sym("k"), tSeq("hashobj", sym("j"), v)))
			for _, f := range few2 {
				hts = append(hts, tSeq("hashobj", sym("k"), v, sym("j"), f), tSeq("hashobj", sym("k"), f, sym("j"), v))
			}
		}
		hts = append(hts, tSeq("hashobj"))
		for _, f := range few {
			hts = append(hts, tSeq("hashobj", tAtom([]any{"int", 3}), f, tAtom([]any{"str", "s"}), f))
		}
		for hi, h := range hts {
			emitR("h", h, "eval")
			if c.thorough() || hashSel(c.seed, idx*13+hi, 1, 5) {
				emitR("h", h, "macro")
			} else {
				idx++
			}
		}
		// macros x call sites
		for mi, t := range macroTemplates() {
			for _, site := range []string{"top", "function", "loop", "let", "loop-let", "outer-macro"} {
				if c.mine(idx) {
					w.write(runMacro(fmt.Sprintf("mac-%d-%s", mi, site), mi, t, site, ""))
				}
				idx++
			}
		}
		// macro names x call sites: whatever name defmac accepts names a macro that calls reach
		for _, name := range macroNames() {
			for _, site := range []string{"top", "function"} {
				if c.mine(idx) {
					w.write(runMacro(fmt.Sprintf("nm-%s-%s", name, site), 0, namedMacroTemplate(), site, name))
				}
				idx++
			}
		}
		return 0
	})
}
