package main

// Family "printread" (C12): printed data reads back as the same data.
//
//   kind "pr":  a data value v built through the Go API; recorded are the
//               abstract original, (read (str v)) and (eval (read (str v)))
//               (the printed text is handed to the reader between a leading
//               space and a trailing newline: a text that does not end in
//               white space loses its last atom and the lexer's look-back
//               ring survives a reset -- both are C13's statements);
//   kind "cls": one member of a character class as a string and as a
//               character: the escape tokens the printer emitted and what the
//               reader made of them;
//   kind "lit": one numeric literal spelling, read as the only element of an
//               array text; for a finite float result the two neighbouring
//               midpoints (exact, math/big) so that the specification can
//               decide correct rounding of the exact value it computed.
// TLC validates every case against spec/PrintReadTrace.tla (Codec, NumLit).
// Helpers shared with family "codec" live in fam_codec.go.

import (
	"encoding/json"
	"flag"
	"fmt"
	"math"
	"math/big"
	"os"
	"path/filepath"
	"strconv"
	"strings"

	zygo "github.com/glycerine/zygomys/v9/zygo"
)

const readWrapped = "(read (concat \" \" (str v) \"\\n\"))\n"
const evalWrapped = "(eval (read (concat \" \" (str v) \"\\n\")))\n"

func (d *codecDriver) printed(v zygo.Sexp) (string, bool) {
	d.reset()
	d.env.AddGlobal("v", v)
	o := evalSafe(d.env, "(str v)\n")
	if s, ok := o.Val.(*zygo.SexpStr); o.Kind == "val" && ok {
		return s.S, true
	}
	return o.Kind + " " + o.Err, false
}

func (d *codecDriver) prCase(id string, g *gval, lab string) map[string]any {
	c := map[string]any{"id": id, "kind": "pr", "recipe": g.json(), "lab": lab}
	d.reset()
	v, err := g.build(d.env)
	if err != nil {
		fatal("build %s: %v", id, err)
	}
	c["v"] = cproj(d.env, v, 0)
	c["cc"] = ccOfProj(c["v"])
	// which halves speak about the value, from the value itself (a recipe may be a script expression)
	c["rdj"] = !projHasTag(c["v"], "hash")
	c["evj"] = !projHasTag(c["v"], "chr", "sym", "list", "dotted")
	text, ok := d.printed(v)
	c["text"] = trunc(strconv.QuoteToASCII(text), 400)
	c["printed"] = ok
	d.reset()
	d.env.AddGlobal("v", v)
	c["rd"] = cprojOutcome(d.env, evalSafe(d.env, readWrapped))
	d.reset()
	d.env.AddGlobal("v", v)
	if c["evj"].(bool) {
		c["ev"] = cprojOutcome(d.env, evalSafe(d.env, evalWrapped))
	} else {
		c["ev"] = []any{"skipped"}
	}
	// save / source through a file: only a hash is written as one datum by `save`
	c["svj"] = false
	c["sv"] = []any{"skipped"}
	if _, isHash := v.(*zygo.SexpHash); c["evj"].(bool) && isHash {
		path := filepath.Join(os.TempDir(), fmt.Sprintf("zv-printread-%d.zy", os.Getpid()))
		os.Remove(path)
		d.reset()
		d.env.AddGlobal("v", v)
		d.env.AddGlobal("path", &zygo.SexpStr{S: path})
		if o := evalSafe(d.env, "(save v path)\n"); o.Kind == "val" || o.Kind == "nilres" {
			d.reset()
			d.env.AddGlobal("path", &zygo.SexpStr{S: path})
			c["svj"] = true
			c["sv"] = cprojOutcome(d.env, evalSafe(d.env, "(source path)\n"))
		}
		os.Remove(path)
	}
	return c
}

// projHasTag reports whether a projected value contains a sub-value (hash keys excluded) with one of the tags.
func projHasTag(p any, tags ...string) bool {
	t, ok := p.([]any)
	if !ok || len(t) == 0 {
		return false
	}
	tag, _ := t[0].(string)
	for _, x := range tags {
		if tag == x {
			return true
		}
	}
	switch tag {
	case "list", "arr":
		for _, e := range t[1].([]any) {
			if projHasTag(e, tags...) {
				return true
			}
		}
	case "dotted":
		return true
	case "hash":
		for _, kv := range t[2].([]any) {
			if projHasTag(kv.([]any)[1], tags...) {
				return true
			}
		}
	}
	return false
}

func (d *codecDriver) prClsCase(id, cls, m, ctx string) map[string]any {
	var g *gval
	quote := byte('"')
	if ctx == "chr" {
		r := []rune(m)
		g = gChr(r[0])
		quote = '\''
	} else {
		g = gStr(m)
	}
	c := map[string]any{"id": id, "kind": "cls", "cls": cls, "ctx": ctx, "recipe": g.json(), "m": cpsOf(m)}
	d.reset()
	v, _ := g.build(d.env)
	text, ok := d.printed(v)
	c["text"] = trunc(strconv.QuoteToASCII(text), 200)
	c["emit"], c["lexed"] = []any{}, false
	if ok {
		c["emit"], c["lexed"] = lexLiteral(text, quote)
	}
	d.reset()
	d.env.AddGlobal("v", v)
	c["rd"] = cprojOutcome(d.env, evalSafe(d.env, readWrapped))
	return c
}

// ovfThreshold = 2^1024 - 2^970: the smallest magnitude that rounds to infinity.
var ovfThreshold = func() []any {
	a := new(big.Int).Lsh(big.NewInt(1), 1024)
	b := new(big.Int).Lsh(big.NewInt(1), 970)
	return numRat(new(big.Rat).SetInt(a.Sub(a, b)))
}()

// roundingInterval gives the exact midpoints between g and its neighbours.
func roundingInterval(g float64) map[string]any {
	mid := func(a, b float64) []any {
		if math.IsInf(b, 0) {
			t := ovfThreshold
			if b < 0 {
				return []any{"fin", -1, t[2], t[3]}
			}
			return t
		}
		ra, rb := new(big.Rat), new(big.Rat)
		ra.SetFloat64(a)
		rb.SetFloat64(b)
		ra.Add(ra, rb)
		ra.Quo(ra, big.NewRat(2, 1))
		return numRat(ra)
	}
	if g == 0 {
		g = 0 // -0 and +0 have the same neighbours
	}
	return map[string]any{
		"lo":   mid(g, math.Nextafter(g, math.Inf(-1))),
		"hi":   mid(g, math.Nextafter(g, math.Inf(1))),
		"even": math.Float64bits(g)&1 == 0,
	}
}

// litContexts: where a literal stands.  "" = between spaces; a reader prefix (the datum is then
// wrapped in a two-element list headed by the prefix's symbol); "tight" = directly inside brackets.
var litContexts = []string{"", "%", "^", "~", "~@", "tight"}

func (d *codecDriver) litCase(id, sp, pre string) map[string]any {
	c := map[string]any{"id": id, "kind": "lit", "sp": cpsOf(sp), "text": sp, "pre": pre, "recipe": gStr(sp).json()}
	text := "[ " + pre + sp + " ]\n"
	if pre == "tight" {
		text = "[" + sp + "]\n"
	}
	d.reset()
	d.env.AddGlobal("s", &zygo.SexpStr{S: text})
	o := evalSafe(d.env, "(read s)\n")
	c["n"] = 0
	c["wrap"] = []int{}
	c["got"] = cprojOutcome(d.env, o)
	if arr, ok := o.Val.(*zygo.SexpArray); o.Kind == "val" && ok {
		c["n"] = len(arr.Val)
		if len(arr.Val) >= 1 {
			x := arr.Val[0]
			// a two-element list headed by a symbol: report the head and judge the second element
			if p, ok := x.(*zygo.SexpPair); ok {
				if h, ok := p.Head.(*zygo.SexpSymbol); ok {
					if q, ok := p.Tail.(*zygo.SexpPair); ok && q.Tail == zygo.SexpNull {
						c["wrap"] = cpsOf(h.Name())
						x = q.Head
					}
				}
			}
			c["got"] = cproj(d.env, x, 0)
			if f, ok := x.(*zygo.SexpFloat); ok && !math.IsNaN(f.Val) && !math.IsInf(f.Val, 0) {
				c["iv"] = roundingInterval(f.Val)
			}
		} else {
			c["got"] = []any{"none"}
		}
	} else if o.Kind == "val" {
		c["got"] = []any{"notarray"}
	}
	got := c["got"].([]any)
	if got[0] == "err" || (got[0] == "flt" && got[1] == "inf") {
		c["ovf"] = ovfThreshold
	}
	return c
}

// ---- quoted literal spellings: character and string literals written with every escape form

type qtok struct {
	form string // raw esc x2 u4 U8
	v    int
}

func (t qtok) text(r *rng) string {
	hex := func(n int) string {
		h := fmt.Sprintf("%0*x", n, t.v)
		if r != nil && r.intn(3) == 0 {
			h = strings.ToUpper(h)
		}
		return h
	}
	switch t.form {
	case "esc":
		return "\\" + string(rune(t.v))
	case "x2":
		return "\\x" + hex(2)
	case "u4":
		return "\\u" + hex(4)
	case "U8":
		return "\\U" + hex(8)
	}
	return string(rune(t.v))
}

func (d *codecDriver) qlitCase(id, ctx string, toks []qtok, r *rng) map[string]any {
	q := "\""
	if ctx == "chr" {
		q = "'"
	}
	text := q
	tl := []any{}
	for _, t := range toks {
		text += t.text(r)
		tl = append(tl, []any{t.form, t.v})
	}
	text += q
	return d.qlitText(id, ctx, text, tl)
}

func (d *codecDriver) qlitText(id, ctx, text string, toks []any) map[string]any {
	c := map[string]any{"id": id, "kind": "qlit", "ctx": ctx, "toks": toks, "text": trunc(strconv.QuoteToASCII(text), 200),
		"recipe": gStr(text).json()}
	d.reset()
	d.env.AddGlobal("s", &zygo.SexpStr{S: " " + text + "\n"})
	c["rd"] = cprojOutcome(d.env, evalSafe(d.env, "(read s)\n"))
	return c
}

// qlitTokens: the escape tokens worth writing in a literal of the given context
func qlitTokens(ctx string, r *rng, nrand int) []qtok {
	ts := []qtok{}
	for _, l := range "nrtabfv\\'\"#" {
		ts = append(ts, qtok{"esc", int(l)})
	}
	for _, l := range "0eNsxz/ " { // letters that are no escape
		ts = append(ts, qtok{"esc", int(l)})
	}
	for v := 0; v < 256; v++ {
		ts = append(ts, qtok{"x2", v})
	}
	for _, v := range []int{0, 0x7f, 0x80, 0xff, 0x100, 0x7ff, 0x800, 0x2028, 0xd7ff, 0xd800, 0xdbff, 0xdc00, 0xdfff, 0xe000, 0xfeff, 0xfffd, 0xfffe, 0xffff} {
		ts = append(ts, qtok{"u4", v})
	}
	for _, v := range []int{0, 0x41, 0xe9, 0xffff, 0x10000, 0x1f600, 0xd800, 0xe0001, 0x10ffff, 0x110000, 0x7fffffff} {
		ts = append(ts, qtok{"U8", v})
	}
	for i := 0; i < nrand; i++ {
		ts = append(ts, qtok{"u4", r.intn(0x10000)}, qtok{"U8", r.intn(0x110000)})
	}
	for _, cls := range codecClasses {
		ms := classBoundary[cls]
		if cls == "invalid" || cls == "backslash" || (ctx == "chr" && cls == "squote") || (ctx == "str" && cls == "dquote") {
			continue
		}
		for _, m := range ms {
			ts = append(ts, qtok{"raw", int([]rune(m)[0])})
		}
	}
	return ts
}

var litAlphabet = []string{"0", "1", "7", "9", "a", "F", "_", "x", "o", "b", ".", "e", "E", "-", "+", "ULL", "Inf", "NaN"}

// directed spellings: boundaries of every notation, separators, near misses
var litDirected = []string{
	"9223372036854775807", "9223372036854775808", "-9223372036854775808", "-9223372036854775809",
	"9_223_372_036_854_775_807", "-9_223_372_036_854_775_808", "1_000", "1_", "1__0", "0_0", "-0", "-0_1", "00", "007", "08",
	"0x7fffffffffffffff", "0x8000000000000000", "0xffffffffffffffff", "0x7FFFFFFFFFFFFFFF", "0xdeadBEEF", "0x0", "0x", "0xg", "0X1F", "0x1_f", "-0x1f",
	"0o777777777777777777777", "0o1000000000000000000000", "0o17", "0o8", "0o", "0O17",
	"0b111111111111111111111111111111111111111111111111111111111111111", "0b1000000000000000000000000000000000000000000000000000000000000000", "0b101", "0b2", "0b", "0B1",
	"18446744073709551615ULL", "18446744073709551616ULL", "0xffffffffffffffffULL", "0x10000000000000000ULL", "0o1777777777777777777777ULL", "0o2000000000000000000000ULL",
	"0ULL", "1ULL", "12ULL", "-1ULL", "1_0ULL", "1.5ULL", "0x1fULL", "0XFFULL", "1ull", "0b11ULL", "abULL", "0o19ULL", "1aULL", "ULL",
	"1.7976931348623157e308", "1.7976931348623158e308", "1.797693134862315807e308", "1.797693134862315808e308", "1.8e308", "1e309", "-1e309", "1e999", "1e99999",
	"4.9e-324", "5e-324", "2.4703282292062327e-324", "2.4703282292062328e-324", "2.47032822920623272088284396434110686182e-324", "1e-400", "-1e-400", "1e-99999",
	"2.2250738585072014e-308", "2.2250738585072011e-308", "0.1", "0.2", "0.30000000000000004", "0.3", "9007199254740993.0", "9007199254740992.5", "9007199254740993.5",
	"1e23", "8.41e21", "123456789012345678901234567890.0", "0.000000000000000000000000000001", "3.141592653589793238462643383279",
	"1_000.000_1", "1_0.5", "1e1_0", "1_e5", "1e5_", "1._5", "1_.5", "1.5_", "1__0.5", "1e_5", "1.5e1_0", "_1.5", ".5_", "._5",
	"-0.0", "0.0", "-.5", ".5", "5.", "-5.", "1.e5", "1E5", "1e+5", "1e-5", "1E+05", "-1.5e-3", ".5e3", "1e", "1e+", "1.5e", "e5", ".", "-.", "-", "+", "1.2.3", "1e5e5", "1.5.e3",
	"Inf", "+Inf", "-Inf", "inf", "-inf", "+inf", "INF", "Infinity", "NaN", "nan", "-NaN", "+NaN", "NAN", "+5", "+0.5", "--5", "-+5", "1-", "1+", "1e5-",
	"100", "-100", "42", "3.0", "1.0", "-1.0", "10.50", "0001.5", "1e0", "1e00", "0e0", "-0e0", "0.0e-0", "1e-0", "9.999999999999999e22", "1.0000000000000002",
}

func init() {
	register("printread", "C12: print/read round trips and numeric literal spellings", func(args []string) int {
		part, nparts := 0, 1
		c := commonFlags("printread", args, func(fs *flag.FlagSet) {
			fs.IntVar(&part, "part", 0, "produce only the cases of this part (the check validates a large run in parts)")
			fs.IntVar(&nparts, "nparts", 1, "number of parts")
		})
		d := newCodecDriver()
		w := newWriter(c.out)
		defer w.close()
		if c.replay != "" {
			return printreadReplay(d, c, w)
		}
		idx := 0
		mine := func(i int) bool { return i%nparts == part && c.mine(i/nparts) }
		emit := func(prefix string, g *gval, lab string) {
			if mine(idx) {
				w.write(d.prCase(fmt.Sprintf("%s%d", prefix, idx), g, lab))
			}
			idx++
		}
		// (0) per character class, as a string and as a character
		r0 := newRng(c.seed, 21)
		nrand := 20
		if c.thorough() {
			nrand = 200
		}
		for _, cls := range codecClasses {
			ms := append([]string(nil), classBoundary[cls]...)
			for i := 0; i < nrand; i++ {
				ms = append(ms, cdRandMember(r0, cls))
			}
			for _, m := range ms {
				for _, ctx := range []string{"str", "chr"} {
					if ctx == "chr" && cls == "invalid" {
						continue
					}
					if mine(idx) {
						w.write(d.prClsCase(fmt.Sprintf("c%d", idx), cls, m, ctx))
					}
					idx++
				}
			}
		}
		// (a) every scalar member in every context
		r1 := newRng(c.seed, 22)
		nt := 150
		if c.thorough() {
			nt = 1500
		}
		scalars := []cdMember{{gNil(), "nil"}, {gBool(true), "bool"}, {gBool(false), "bool"}}
		for _, i := range gridInts {
			scalars = append(scalars, cdMember{gInt(i), "int"})
		}
		for _, u := range []uint64{0, 12, 1 << 63, math.MaxUint64} {
			scalars = append(scalars, cdMember{gUint(u), "uint"})
		}
		scalars = append(scalars, gridFloats(false)...)
		scalars = append(scalars, stringMembers(r1, nt, true)...)
		scalars = append(scalars, cdMember{gExpr("`back\"tick\\n and 'more'`"), "str-backtick"}, cdMember{gExpr("`line1\nline2`"), "str-backtick"})
		jsonScalars := append([]cdMember(nil), scalars...)
		// data the reader itself makes from its prefix shorthands: (quote a) (syntaxQuote a) (unquote a) (unquote-splicing a)
		for _, t := range []string{"(quote %a)", "(quote ^a)", "(quote ~a)", "(quote ~@a)", "(quote (a ~@b))", "(quote [~@a 1])", "(quote ^(a ~b ~@c))", "(quote %-5)"} {
			scalars = append(scalars, cdMember{gExpr(t), "reader-shorthand"})
		}
		for _, cls := range codecClasses[:len(codecClasses)-1] {
			for _, m := range classBoundary[cls] {
				scalars = append(scalars, cdMember{gChr([]rune(m)[0]), "chr-" + cls})
			}
			for i := 0; i < 3; i++ {
				scalars = append(scalars, cdMember{gChr([]rune(cdRandMember(r1, cls))[0]), "chr-" + cls})
			}
		}
		for _, s := range []string{"a", "foo", "foo_bar", "x1", "+", "-", "*", "/", "==", "<=", "!=", "->", "a.b", ".a", "#sig", "$", "&", "quote", "hash", "\u00e9t\u00e9", "nil?", "a_b", "**", "mod"} {
			scalars = append(scalars, cdMember{gSym(s), "sym"})
		}
		one, s := gInt(1), gStr("s")
		ctxs := []struct {
			name string
			read bool // usable in the read half (no hash)
			mk   func(x *gval) *gval
		}{
			{"top", true, func(x *gval) *gval { return x }},
			{"[x]", true, func(x *gval) *gval { return gArr(x) }},
			{"[1 x s]", true, func(x *gval) *gval { return gArr(one, x, s) }},
			{"(x)", true, func(x *gval) *gval { return gList(x) }},
			{"(a x 2)", true, func(x *gval) *gval { return gList(gSym("a"), x, gInt(2)) }},
			{"((x) s)", true, func(x *gval) *gval { return gList(gList(x), s) }},
			{"[(x)]", true, func(x *gval) *gval { return gArr(gList(x)) }},
			{"([x 1])", true, func(x *gval) *gval { return gList(gArr(x, one)) }},
			{"[[[x]]]", true, func(x *gval) *gval { return gArr(gArr(gArr(x))) }},
			{"(((x)))", true, func(x *gval) *gval { return gList(gList(gList(x))) }},
			{"{a:x}", false, func(x *gval) *gval { return gHash("hash", symKeys("a"), x) }},
			{"{z:x a:1}", false, func(x *gval) *gval { return gHash("hash", symKeys("z", "a"), x, one) }},
			{"{\"k\":x}", false, func(x *gval) *gval { return gHash("hash", []gkey{{Str: true, N: []byte("k")}}, x) }},
			{"[{a:x} 1]", false, func(x *gval) *gval { return gArr(gHash("hash", symKeys("a"), x), one) }},
			{"{a:[x s]}", false, func(x *gval) *gval { return gHash("hash", symKeys("a"), gArr(x, s)) }},
			{"{a:{b:{c:x}}}", false, func(x *gval) *gval {
				return gHash("hash", symKeys("a"), gHash("hash", symKeys("b"), gHash("hash", symKeys("c"), x)))
			}},
		}
		for _, m := range scalars {
			jsonLike := !m.g.hasKind("chr", "sym")
			for ci, cx := range ctxs {
				if !cx.read && !jsonLike {
					continue
				}
				if !c.thorough() && ci != 0 && (idx+ci)%4 != 0 {
					continue
				}
				emit("a", cx.mk(m.g), m.cls+" in "+cx.name)
			}
		}
		// (b) every value of depth <= 2 with <= 2 children over palettes of scalar classes
		pRead := []*gval{gNil(), gBool(true), gInt(7), gFlt(2.5, false), gFlt(1.0, false), gStr("x"), gChr('c'), gSym("q")}
		for i, t := range cdEnumTrees(pRead, []string{"list", "arr"}, 2) {
			if !c.thorough() && t.depth() == 2 && len(t.E) == 2 && !hashSel(c.seed, i, 1, 16) {
				continue
			}
			emit("b", t, "tree-read")
		}
		pEval := []*gval{gNil(), gBool(true), gInt(-7), gFlt(2.5, false), gFlt(1.0, false), gStr("x")}
		for i, t := range cdEnumTrees(pEval, []string{"arr", "hash"}, 2) {
			if !t.hasKind("hash") {
				continue // covered by the read palette
			}
			if !c.thorough() && t.depth() == 2 && len(t.E) == 2 && !hashSel(c.seed, i, 1, 10) {
				continue
			}
			emit("b", t, "tree-eval")
		}
		// (c) hashes with string keys of every kind of content (JSON-like source literals)
		for _, kn := range []string{"t", "u v", "k\"q", "b\\s", "n\nl", "\u00e9", "", "a:b", "z}", "\t", "\U0001f600", "\u2028", "\x01"} {
			for _, val := range []*gval{gInt(1), gStr("s"), gArr(gInt(1))} {
				emit("k", gHash("hash", []gkey{{Str: true, N: []byte(kn)}}, val), "strkey")
				emit("k", gHash("hash", []gkey{{N: []byte("a")}, {Str: true, N: []byte(kn)}}, gInt(0), val), "strkey")
			}
		}
		// (c2) hashes with SYMBOL keys named by arbitrary JSON member names: what (unjson ...) returns
		for _, kn := range []string{"a", "my-key", "content-type", "a b", "1", "9a", "", "b.c", "\u00e9", "k:v", "x(y", "q\"r", "nil", "true", "-", "a_b", "A1", "k\n", "a,b", "~a", "#h", "a*", "\U0001f600"} {
			k := gkey{Raw: true, N: []byte(kn)}
			emit("j", gHash("hash", []gkey{k}, gInt(1)), "symkey")
			emit("j", gHash("hash", []gkey{{N: []byte("a0")}, k}, gInt(0), gArr(gStr("s"))), "symkey")
			emit("j", gArr(gHash("hash", symKeys("m"), gHash("hash", []gkey{k}, gNil()))), "symkey")
		}
		// (d) seeded random nested values to depth 3
		n := c.n
		if n == 0 {
			n = 2000
			if c.thorough() {
				n = 60000
			}
		}
		keyNames := []string{"a", "b", "z", "zz", "A", "k1", "\u00e9t\u00e9", "name", "m_n"}
		for i := 0; i < n; i++ {
			r := newRng(c.seed, uint64(2000+i))
			var t *gval
			if i%2 == 0 {
				t = cdRandTree(r, scalars, []string{"list", "arr"}, keyNames, false, 3)
			} else {
				t = cdRandTree(r, jsonScalars, []string{"arr", "hash", "hash"}, keyNames, i%6 == 1, 3)
			}
			emit("r", t, "random")
		}
		// (e) numeric literal spellings: every string over the alphabet up to a
		// length bound, seeded longer ones, and the directed list
		lit := func(sp, pre string) {
			if mine(idx) {
				w.write(d.litCase(fmt.Sprintf("l%d", idx), sp, pre))
			}
			idx++
		}
		for _, sp := range litDirected {
			for _, pre := range litContexts {
				lit(sp, pre)
			}
		}
		full := 3
		nlong := 3000
		if c.thorough() {
			full, nlong = 4, 40000
		}
		var rec func(prefix string, k int)
		rec = func(prefix string, k int) {
			if prefix != "" {
				lit(prefix, "")
				if k <= 2 && (prefix[0] == '-' || prefix[0] == '.' || (prefix[0] >= '0' && prefix[0] <= '9')) {
					for _, pre := range litContexts[1:] {
						lit(prefix, pre)
					}
				}
			}
			if k == full {
				return
			}
			for _, a := range litAlphabet {
				rec(prefix+a, k+1)
			}
		}
		rec("", 0)
		rl := newRng(c.seed, 23)
		for i := 0; i < nlong; i++ {
			if i%4 != 0 {
				lit(randLiteral(rl), litContexts[rl.intn(len(litContexts))]) // drawn from the grammar (and its edges)
				continue
			}
			k := full + 1 + rl.intn(4)
			sp := ""
			for j := 0; j < k; j++ {
				// bias towards digits so that long spellings stay inside the grammar often
				if rl.intn(3) == 0 {
					sp += pick(rl, litAlphabet[:4])
				} else {
					sp += pick(rl, litAlphabet)
				}
			}
			lit(sp, "")
		}
		// (f) character and string literals written with every escape form: each token alone,
		// and seeded sequences of up to three tokens in a string
		rq := newRng(c.seed, 24)
		nq := 20
		if c.thorough() {
			nq = 400
		}
		qlit := func(ctx string, toks []qtok) {
			if mine(idx) {
				w.write(d.qlitCase(fmt.Sprintf("q%d", idx), ctx, toks, newRng(c.seed, uint64(5000+idx))))
			}
			idx++
		}
		for _, ctx := range []string{"chr", "str"} {
			ts := qlitTokens(ctx, rq, nq)
			for _, t := range ts {
				qlit(ctx, []qtok{t})
			}
			if ctx == "str" {
				for i := 0; i < 40*nq; i++ {
					k := 2 + rq.intn(2)
					seq := []qtok{}
					for j := 0; j < k; j++ {
						seq = append(seq, ts[rq.intn(len(ts))])
					}
					qlit(ctx, seq)
				}
			}
		}
		// malformed character literals: two runes, nothing, an escape and a rune
		for _, text := range []string{"'\\\\n'", "'ab'", "''", "'\\na'", "'\\x4'", "'\\u00e'", "'\\x411'"} {
			if mine(idx) {
				w.write(d.qlitText(fmt.Sprintf("q%d", idx), "chr", text, []any{[]any{"malformed", 0}}))
			}
			idx++
		}
		return 0
	})
}

// randLiteral draws a spelling from the literal grammar: every notation,
// lengths up to and beyond the range of the type, separators in legal and
// doubtful places, decimal ties between neighbouring floats.
func randLiteral(r *rng) string {
	digs := func(n int, set string) string {
		b := make([]byte, n)
		for i := range b {
			b[i] = set[r.intn(len(set))]
		}
		return string(b)
	}
	under := func(s string) string { // sprinkle underscores after the first digit
		if r.intn(3) != 0 {
			return s
		}
		out := []byte{}
		for i := 0; i < len(s); i++ {
			out = append(out, s[i])
			if s[i] >= '0' && s[i] <= '9' && r.intn(5) == 0 {
				out = append(out, '_')
				if r.intn(8) == 0 {
					out = append(out, '_')
				}
			}
		}
		return string(out)
	}
	sign := func() string {
		if r.intn(3) == 0 {
			return "-"
		}
		return ""
	}
	const dec, hexd = "0123456789", "0123456789abcdefABCDEF"
	switch r.intn(12) {
	case 0:
		return sign() + under(digs(1+r.intn(21), dec))
	case 1:
		return "0x" + digs(1+r.intn(17), hexd)
	case 2:
		return "0o" + digs(1+r.intn(23), "01234567")
	case 3:
		return "0b" + digs(1+r.intn(65), "01")
	case 4:
		switch r.intn(3) {
		case 0:
			return digs(1+r.intn(21), dec) + "ULL"
		case 1:
			return "0x" + digs(1+r.intn(17), hexd) + "ULL"
		}
		return "0o" + digs(1+r.intn(23), "01234567") + "ULL"
	case 5:
		return sign() + under(digs(1+r.intn(18), dec)) + "." + under(digs(r.intn(18), dec))
	case 6:
		return sign() + "." + under(digs(1+r.intn(18), dec))
	case 7, 8:
		m := under(digs(1+r.intn(17), dec))
		if r.intn(2) == 0 {
			m += "." + under(digs(r.intn(17), dec))
		}
		e := []string{"e", "E"}[r.intn(2)] + []string{"", "+", "-"}[r.intn(3)]
		switch r.intn(4) {
		case 0:
			e += strconv.Itoa(r.intn(20))
		case 1:
			e += strconv.Itoa(280 + r.intn(60))
		case 2:
			e += under(digs(1+r.intn(4), dec))
		default:
			e += strconv.Itoa(r.intn(400))
		}
		return sign() + m + e
	case 9:
		// perturb a range boundary in its last digits
		b := pick(r, []string{"9223372036854775807", "18446744073709551615", "9007199254740993", "4611686018427387904"})
		n, _ := new(big.Int).SetString(b, 10)
		n.Add(n, big.NewInt(int64(r.intn(5)-2)))
		s := under(n.String())
		switch r.intn(4) {
		case 0:
			return "-" + s
		case 1:
			return s + "ULL"
		case 2:
			return s + ".0"
		}
		return s
	default:
		// the exact decimal tie between two neighbouring floats, and its two sides
		f := math.Float64frombits(uint64(0x3ee0000000000000) + r.next()%(uint64(0x4430000000000000)-uint64(0x3ee0000000000000)))
		ra, rb := new(big.Rat), new(big.Rat)
		ra.SetFloat64(f)
		rb.SetFloat64(math.Nextafter(f, math.Inf(1)))
		ra.Add(ra, rb)
		ra.Quo(ra, big.NewRat(2, 1))
		n := numRat(ra)
		ds := n[2].([]int)
		exp := n[3].(int)
		txt := make([]byte, len(ds))
		for i, d := range ds {
			txt[i] = byte('0' + d)
		}
		switch r.intn(3) {
		case 0:
			txt = append(txt, '1') // just above the tie
		case 1:
			txt[len(txt)-1]-- // just below (the last digit of a tie is 5)
			txt = append(txt, '9')
		}
		return "0." + string(txt) + "e" + strconv.Itoa(exp)
	}
}

func printreadReplay(d *codecDriver, c *common, w *ndWriter) int {
	readLines(c.replay, func(line []byte) {
		var in struct {
			ID     string `json:"id"`
			Kind   string `json:"kind"`
			Cls    string `json:"cls"`
			Ctx    string `json:"ctx"`
			Lab    string `json:"lab"`
			Pre    string `json:"pre"`
			Toks   []any  `json:"toks"`
			Recipe string `json:"recipe"`
		}
		if err := json.Unmarshal(line, &in); err != nil {
			fatal("bad replay file: %v", err)
		}
		var g gval
		if err := json.Unmarshal([]byte(in.Recipe), &g); err != nil {
			fatal("bad recipe in %s: %v", in.ID, err)
		}
		switch in.Kind {
		case "cls":
			m := string(g.S)
			if g.K == "chr" {
				m = string(rune(g.R))
			}
			w.write(d.prClsCase(in.ID, in.Cls, m, in.Ctx))
		case "lit":
			w.write(d.litCase(in.ID, string(g.S), in.Pre))
		case "qlit":
			w.write(d.qlitText(in.ID, in.Ctx, string(g.S), in.Toks))
		default:
			w.write(d.prCase(in.ID, &g, in.Lab))
		}
	})
	return 0
}
