package main

// Family "failpoint" (C05): failure at a known point. A text is a sequence of
// independent forms: valid re-definitions (of every kind of definition of the
// surface language, the catalogue of the noop family) and ONE dedicated
// failing form at position k. The sequence is evaluated in a context: as a
// top-level text, inside begin, as the argument of eval, as a call argument
// (compiled when the call is executed), as a forced lazy argument, as the
// contents of an included or of a sourced file, as the body of a function that
// is then called. A twin interpreter evaluates, in the same context, only the
// forms before position k. spec/FailPoint.tla states the prefix law,
// spec/FailPointTrace.tla says which text the twin evaluates and judges the
// recorded case: an error was returned (not a value, not a Go panic), the VM is
// at rest, both interpreters answer the probes alike, and a fresh definition
// can still be made and used.

import (
	"encoding/json"
	"fmt"
	"os"
	"strings"
)

type fpCase struct {
	ID       string   `json:"id"`
	Ctx      string   `json:"ctx"`
	FailKind string   `json:"failkind"`
	K        int      `json:"k"`
	Defs     []string `json:"defs"`
	HasSet   bool     `json:"hasset"`
	Setup    string   `json:"setup"`
	Forms    []string `json:"forms"`
	Path     string   `json:"path"`
	TPath    string   `json:"tpath"`
	CPath    string   `json:"cpath"`
	Text     string   `json:"text"`
	File     string   `json:"file"`
	TwinText string   `json:"twintext"`
	TwinFile string   `json:"twinfile"`
	CtlText  string   `json:"ctltext"`
	CtlFile  string   `json:"ctlfile"`
	Probes   []string `json:"probes"`
	FOut     any      `json:"fout"`
	Depths   []int    `json:"depths"`
	A        []any    `json:"a"`
	UA       any      `json:"ua"`
	TOut     any      `json:"tout"`
	Twin     []any    `json:"twin"`
	UT       any      `json:"ut"`
	COut     any      `json:"cout"`
	// answers of the twins that model a named deviation (FailPointTrace: Explains), by deviation id
	Devs    map[string][]any `json:"devs"`
	ErrText string           `json:"errtext"`
}

var fpContexts = []string{"top", "begin", "eval", "callarg", "lazy", "include", "source", "fnbody"}

// the dedicated failing forms
var fpFailForms = map[string]string{
	"script":    `(zvfail)`,                 // a host function returns an error
	"gopanic":   `(zvgopanic)`,              // a host function panics
	"rtcompile": `(zvid ` + illFormed + `)`, // an argument that does not compile, compiled when the call is executed
	"rtexpand":  `(zvid (zvboom))`,          // an argument whose macro expansion fails
}
var fpFailKinds = []string{"script", "gopanic", "rtcompile", "rtexpand"}

func fpBody(fs []string) string { return strings.Join(append([]string{"0"}, fs...), " ") }
func fpLines(fs []string) string {
	if len(fs) == 0 {
		return "\n"
	}
	return strings.Join(fs, "\n") + "\n"
}

// the text (and the file it reads, if any) that evaluates the forms in a context
func fpWrap(ctx string, fs []string, path string) (text, file string) {
	switch ctx {
	case "top":
		return fpLines(fs), ""
	case "begin":
		return "(begin " + fpBody(fs) + ")\n", ""
	case "eval":
		return "(eval (quote (begin " + fpBody(fs) + ")))\n", ""
	case "callarg":
		return "(zvid (begin " + fpBody(fs) + "))\n", ""
	case "lazy":
		return "(zvlz (begin " + fpBody(fs) + "))\n", ""
	case "include":
		return "(include \"" + path + "\")\n", fpLines(fs)
	case "source":
		return "(source \"" + path + "\")\n", fpLines(fs)
	case "fnbody":
		return "(defn zvg [] " + fpBody(fs) + ")\n(zvg)\n", ""
	}
	fatal("unknown context %q", ctx)
	return "", ""
}

// the re-definition as a form that runs: a declared variable cannot be declared again
// with another type (the noop family's re-definition of it never runs), it is assigned
func fpRedef(d noopDef) string {
	if d.name == "var" {
		return `(set u%d 7)`
	}
	return d.redef
}

func noopDefByName(n string) noopDef {
	for _, d := range noopDefs {
		if d.name == n {
			return d
		}
	}
	fatal("unknown definition kind %q", n)
	return noopDef{}
}

func runFailPoint(id string, uid int, ctx, failKind string, k int, defs []string, hasSet bool) fpCase {
	c := fpCase{ID: id, Ctx: ctx, FailKind: failKind, K: k, Defs: defs, HasSet: hasSet}
	for _, dn := range defs {
		d := noopDefByName(dn)
		if hasSet {
			c.Setup += inst(d.setup, uid) + "\n"
			c.Forms = append(c.Forms, inst(fpRedef(d), uid))
		} else {
			// without set-up the forms are the first definitions of the names
			c.Forms = append(c.Forms, inst(d.setup, uid))
		}
		for _, p := range d.probes {
			c.Probes = append(c.Probes, inst(p, uid)+"\n")
		}
	}
	// the failing form goes to position k (1-based)
	c.Forms = append(c.Forms[:k-1], append([]string{fpFailForms[failKind]}, c.Forms[k-1:]...)...)
	prefix := c.Forms[:k-1]
	disarmed := append([]string(nil), c.Forms...)
	disarmed[k-1] = "0"
	if ctx == "include" || ctx == "source" {
		c.Path, c.TPath, c.CPath = caseFile(id+"s", ""), caseFile(id+"t", ""), caseFile(id+"c", "")
	}
	c.Text, c.File = fpWrap(ctx, c.Forms, c.Path)
	c.TwinText, c.TwinFile = fpWrap(ctx, prefix, c.TPath)
	if ctx == "fnbody" {
		// the definition of the function completed before the failure: the twin makes it too,
		// and runs the prefix of the body through a second function
		c.TwinText = "(defn zvg [] " + fpBody(c.Forms) + ")\n(defn zvh [] " + fpBody(prefix) + ")\n(zvh)\n"
	}
	c.CtlText, c.CtlFile = fpWrap(ctx, disarmed, c.CPath)
	if c.Path != "" {
		os.WriteFile(c.Path, []byte(c.File), 0644)
		os.WriteFile(c.TPath, []byte(c.TwinFile), 0644)
		os.WriteFile(c.CPath, []byte(c.CtlFile), 0644)
	}
	quiet(func() {
		run := func(text string) (any, string, []int, []any, any) {
			env := newFailEnv()
			defer env.Close()
			evalSafe(env, noopPrelude)
			if c.Setup != "" {
				evalSafe(env, c.Setup)
			}
			o := evalSafe(env, text)
			out, dep := maskedOutcome(env, o), depthsOf(env)
			var outs []any
			for _, p := range c.Probes {
				outs = append(outs, maskedOutcome(env, evalSafe(env, p)))
			}
			return out, trunc(o.Err, 200), dep, outs, maskedOutcome(env, evalSafe(env, noopUsable))
		}
		c.FOut, c.ErrText, c.Depths, c.A, c.UA = run(c.Text)
		c.TOut, _, _, c.Twin, c.UT = run(c.TwinText)
		c.COut, _, _, _, _ = run(c.CtlText)
		// deviation "defmac-behind-failure": the macros of the forms behind the failure point are installed
		// as well (they are installed when the text is compiled). Its twin evaluates the prefix and then the
		// macro definitions among the forms behind the failing one.
		c.Devs = map[string][]any{}
		behind := ""
		for i, dn := range defs {
			// defs[i] is at position i+1 of the forms before the failing form is inserted at k
			if i+1 >= k && (dn == "defmac" || dn == "defmac-nested") {
				if hasSet {
					behind += inst(noopDefByName(dn).redef, uid) + "\n"
				} else {
					behind += inst(noopDefByName(dn).setup, uid) + "\n"
				}
			}
		}
		if behind != "" {
			env := newFailEnv()
			defer env.Close()
			evalSafe(env, noopPrelude)
			if c.Setup != "" {
				evalSafe(env, c.Setup)
			}
			evalSafe(env, c.TwinText)
			evalSafe(env, behind)
			outs := []any{}
			for _, p := range c.Probes {
				outs = append(outs, maskedOutcome(env, evalSafe(env, p)))
			}
			c.Devs["defmac-behind-failure"] = outs
		}
	})
	return c
}

func init() {
	register("failpoint", "C05: failure at a known point: the state is that of the prefix (every kind of definition x context x position)", func(args []string) int {
		c := commonFlags("failpoint", args, nil)
		w := newWriter(c.out)
		defer w.close()
		defer func() {
			if noopDir != "" {
				os.RemoveAll(noopDir)
			}
		}()
		if c.replay != "" {
			readLines(c.replay, func(line []byte) {
				var in fpCase
				if err := json.Unmarshal(line, &in); err != nil {
					fatal("bad replay: %v", err)
				}
				var uid int
				fmt.Sscanf(in.ID, "p%d", &uid)
				w.write(runFailPoint(in.ID, uid, in.Ctx, in.FailKind, in.K, in.Defs, in.HasSet))
			})
			return 0
		}
		// pairs of kinds: quick pairs every kind with the next three (in catalogue order, cyclically),
		// thorough with every other kind; every position of the failing form; every context; the
		// failure kinds and with/without set-up in rotation (thorough: all of them)
		n := len(noopDefs)
		span := 3
		if c.thorough() {
			span = n - 1
		}
		idx := 0
		for d1 := 0; d1 < n; d1++ {
			for off := 1; off <= span; off++ {
				d2 := (d1 + off) % n
				for k := 1; k <= 3; k++ {
					for ci, ctx := range fpContexts {
						for fi, fk := range fpFailKinds {
							for hs := 1; hs >= 0; hs-- {
								if !c.thorough() && (fi != (d1+off+k+ci)%len(fpFailKinds) || (hs == 0) != ((d1+k+ci)%3 == 0)) {
									continue
								}
								if c.mine(idx) {
									uid := 5000000 + idx*10
									w.write(runFailPoint(fmt.Sprintf("p%d", uid), uid, ctx, fk, k,
										[]string{noopDefs[d1].name, noopDefs[d2].name}, hs == 1))
								}
								idx++
							}
						}
					}
				}
			}
		}
		return 0
	})
}
