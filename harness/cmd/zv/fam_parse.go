package main

// Family "parse" (C13): a source text is delivered to the real parser in
// pieces, after a history of earlier parses on the same parser; the status
// (more input / done / hard error) and the printed expression list after every
// piece are recorded, together with the result of delivering the same text
// whole to a fresh parser of a fresh interpreter.  TLC validates every case
// against spec/ParseSession.tla through spec/ParseTrace.tla.
//
// One case per text (everything but txt/strs as integers: reading strings is what costs TLC time):
//   cls   the text as character classes (positions in parseClassNames = ClassNames of ParseTrace.tla)
//   txt   the concrete text
//   strs  the distinct printed expressions of the case
//   tab   interned results [status 1 more|2 done|3 err|4 panic, nc, [positions in strs]]
//   refs  [s, p, i]: substring (s,p] parsed whole by a fresh parser = tab[i]
//   runs  [hist, hl, load, cuts, obs, stale, rk] (see ParseTrace.tla); hist indexes parseHists
//
// zv parse -part gen [-gen specs] | files | rand ; -replay FILE re-executes recorded cases
// (same text, same histories, same cuts) and writes fresh observations.

import (
	"encoding/json"
	"flag"
	"fmt"
	"hash/fnv"
	"os"
	"path/filepath"
	"runtime/pprof"
	"sort"
	"strconv"
	"strings"
	"unicode/utf8"

	zygo "github.com/glycerine/zygomys/v9/zygo"
)

// ---------------------------------------------------------------- alphabet

var parseBase = []string{"(", ")", "[", "]", "{", "}", "dq", "bs", "bt", "sq",
	"a", "1", "-", ":", ".", "/", "*", ";", "sp", "nl"}

// parseClassNames is ClassNames of spec/ParseTrace.tla: a class travels as its
// 1-based position in this list (reading strings is what costs TLC time).
var parseClassNames = []string{"(", ")", "[", "]", "{", "}", "dq", "bs", "bt", "sq",
	"a", "1", "-", ":", ".", "/", "*", ";", "sp", "nl", "op", "q", "t", ",", "x", "none", "?", "+", "@"}

func parseClassCode(c string) int {
	for i, n := range parseClassNames {
		if n == c {
			return i + 1
		}
	}
	return 27 // "?"
}

var parseStatusCode = map[string]int{"more": 1, "done": 2, "err": 3, "panic": 4}

// reduced alphabets for longer texts (symmetric classes dropped)
var parseMid = []string{"(", ")", "{", "}", "dq", "bs", "bt", "a", "1", "-", "/", "*", "sp", "nl"}
var parseSmall = []string{"(", ")", "dq", "bt", "a", "-", "/", "*", "sp"}

// escapes inside strings and character literals (letters spelled x u U n, see parseSpellEsc)
var parseEsc = []string{"dq", "bs", "a", "1", "sp", "("}

// quote prefixes % ^ ~ ~@ and signs, classes outside the 20 of DESIGN.md
var parsePfx = []string{"q", "t", "@", "+", "-", "a", "1", "sp", "nl", "(", ")"}

// brackets only (host texts for comment insertion)
var parseBrk = []string{"(", ")", "[", "]", "{", "}"}

// comments are white space: every host text with a line or block comment inserted at every position
var parseComments = [][]string{{"/", "/", "a", "nl"}, {"/", "*", "a", "*", "/"}}

// concrete spelling of a class; variant selects among the letters/digits
func parseClassChar(c string, variant int) string {
	switch c {
	case "dq":
		return `"`
	case "bs":
		return `\`
	case "bt":
		return "`"
	case "sq":
		return "'"
	case "sp":
		if variant == 2 {
			return "\t"
		}
		return " "
	case "nl":
		return "\n"
	case "q":
		return []string{"%", "^"}[variant%2]
	case "t":
		return "~"
	case "a":
		return []string{"a", "e", "n"}[variant%3]
	case "1":
		return []string{"1", "7", "0"}[variant%3]
	}
	return c
}

func parseClassOf(r rune) string {
	switch r {
	case '(', ')', '[', ']', '{', '}', '-', ':', '.', '/', '*', ';', ',':
		return string(r)
	case '"':
		return "dq"
	case '\\':
		return "bs"
	case '`':
		return "bt"
	case '\'':
		return "sq"
	case ' ', '\t', '\r':
		return "sp"
	case '\n':
		return "nl"
	case '+':
		return "+"
	case '<', '>', '=', '!', '&', '|':
		return "op"
	case '%', '^':
		return "q"
	case '~':
		return "t"
	case '@':
		return "@"
	}
	if r >= '0' && r <= '9' {
		return "1"
	}
	if (r >= 'a' && r <= 'z') || (r >= 'A' && r <= 'Z') {
		return "a"
	}
	return "x"
}

func parseClassesOf(text string) []int {
	out := make([]int, 0, len(text))
	for _, r := range text {
		out = append(out, parseClassCode(parseClassOf(r)))
	}
	return out
}

// ---------------------------------------------------------------- observation

type parseRes struct {
	st string
	nc int
	ex []string
}

func parseShortExpr(s string) string {
	if len(s) <= 120 {
		return s
	}
	h := fnv.New64a()
	h.Write([]byte(s))
	cut := 80
	for cut > 0 && !utf8.RuneStart(s[cut]) {
		cut--
	}
	return fmt.Sprintf("%s#%016x", s[:cut], h.Sum64())
}

func parsePrintExpr(x zygo.Sexp) (s string) {
	defer func() {
		if r := recover(); r != nil {
			s = "<print panic>"
		}
	}()
	return parseShortExpr(strings.ToValidUTF8(x.SexpString(nil), "?"))
}

// parseNow calls ParseTokens; a panic escaping the library is recorded, not judged here.
func parseNow(p *zygo.Parser) (res parseRes) {
	defer func() {
		if r := recover(); r != nil {
			res = parseRes{st: "panic", ex: []string{trunc(fmt.Sprint(r), 80)}}
		}
	}()
	xs, err := p.ParseTokens()
	res.ex = []string{}
	for _, x := range xs {
		if _, isComment := x.(*zygo.SexpComment); !isComment {
			res.nc++
		}
		res.ex = append(res.ex, parsePrintExpr(x))
	}
	switch {
	case err == nil:
		res.st = "done"
	case err == zygo.ErrMoreInputNeeded:
		res.st = "more"
	default:
		// a rejected text is judged on the rejection only (DESIGN C13, "no false alarm"):
		// which expressions accompany a hard error is not part of the property
		res = parseRes{st: "err", ex: []string{}}
	}
	return
}

// parseSafely runs a parser call that may stop a suspended coroutine (which can panic)
func parseSafely(f func()) (panicked bool) {
	defer func() {
		if r := recover(); r != nil {
			panicked = true
		}
	}()
	f()
	return false
}

const (
	parseLoadRAN = 0 // ResetAddNewInput(text)
	parseLoadRNI = 1 // Reset(); NewInput(text)
)

// parseLoadText starts a new text on p.
func parseLoadText(p *zygo.Parser, mode int, text string) parseRes {
	var pk bool
	if mode == parseLoadRNI {
		pk = parseSafely(func() { p.Reset(); p.NewInput(strings.NewReader(text)) })
	} else {
		pk = parseSafely(func() { p.ResetAddNewInput(strings.NewReader(text)) })
	}
	if pk {
		return parseRes{st: "panic", ex: []string{"reset"}}
	}
	return parseNow(p)
}

func parseFeedText(p *zygo.Parser, text string) parseRes {
	if parseSafely(func() { p.NewInput(strings.NewReader(text)) }) {
		return parseRes{st: "panic", ex: []string{"newinput"}}
	}
	return parseNow(p)
}

// freshParse delivers text whole to a fresh parser of the reference interpreter
// (one fresh interpreter per case, never used for anything but references:
// every reference gets a parser of its own, so no lexer or parser state is shared).
func (b *parseCaseBuilder) freshParse(text string) parseRes {
	if b.refEnv == nil {
		b.refEnv = zygo.NewZlisp()
	}
	p := b.refEnv.NewParser()
	r := parseLoadText(p, parseLoadRAN, text)
	if parseSafely(func() { p.Stop() }) || r.st == "panic" {
		parseSafely(func() { b.refEnv.Close() })
		b.refEnv = nil
	}
	return r
}

// ---------------------------------------------------------------- histories

type parseHist struct {
	name   string
	hl     string // class of the last character the lexer read
	stale  string // queued chunk left unread ("" if none)
	run    func(p *zygo.Parser)
	runEnv func(env *zygo.Zlisp, p *zygo.Parser) // histories that go through the interpreter
}

var parseHists = []parseHist{
	{name: "fresh", hl: "none"},
	{name: "ok-paren", hl: ")", run: func(p *zygo.Parser) { parseLoadText(p, parseLoadRAN, "(f 1)") }},
	{name: "ok-nl", hl: "nl", run: func(p *zygo.Parser) { parseLoadText(p, parseLoadRAN, "a 1\n") }},
	{name: "ok-atom", hl: "a", run: func(p *zygo.Parser) { parseLoadText(p, parseLoadRAN, "a 1e") }},
	{name: "err-lex", hl: "dq", run: func(p *zygo.Parser) { parseLoadText(p, parseLoadRAN, `a"b c`) }},
	{name: "err-syn", hl: ")", run: func(p *zygo.Parser) { parseLoadText(p, parseLoadRAN, "(1 2)) 3 ") }},
	{name: "aband-str", hl: "a", run: func(p *zygo.Parser) { parseLoadText(p, parseLoadRAN, `(a "b`) }},
	{name: "aband-bc", hl: "a", run: func(p *zygo.Parser) { parseLoadText(p, parseLoadRAN, "/* x") }},
	{name: "aband-bt", hl: "a", run: func(p *zygo.Parser) { parseLoadText(p, parseLoadRAN, "[`r") }},
	{name: "aband-fed", hl: "a", run: func(p *zygo.Parser) {
		parseLoadText(p, parseLoadRAN, "{a")
		parseFeedText(p, " b")
	}},
	{name: "queued", hl: "a", stale: " zz ", run: func(p *zygo.Parser) {
		parseLoadText(p, parseLoadRAN, "(a")
		parseSafely(func() { p.NewInput(strings.NewReader(" b")) })
		parseSafely(func() { p.NewInput(strings.NewReader(" zz ")) })
	}},
	{name: "queued-err", hl: "a", stale: " zz ", run: func(p *zygo.Parser) {
		parseLoadText(p, parseLoadRAN, "(")
		parseSafely(func() { p.NewInput(strings.NewReader(`"\q"`)) })
		parseSafely(func() { p.NewInput(strings.NewReader(" zz ")) })
		parseNow(p)
	}},
}

// parseCoreHists: the histories above take part in the full product. The "long" histories
// appended below leave an earlier text of 20..47 runes behind (successful, rejected, abandoned):
// long enough to fill and wrap the lexer's 20-rune look-back ring, with a letter or a closing
// bracket -- runes that may NOT precede a signed number -- at every position from 17 on, so that
// whatever slot a stale look-back lands in holds a rune that changes the reading of a following
// text whose FIRST rune is a sign or another character decided by looking back.
const parseCoreHists = 12

var parseLongLens = []int{20, 21, 22, 39, 40, 41, 47}

func init() {
	if len(parseHists) != parseCoreHists {
		panic("parseCoreHists out of date")
	}
	mk := func(name, hl, text string) {
		parseHists = append(parseHists, parseHist{name: name, hl: hl,
			run: func(p *zygo.Parser) { parseLoadText(p, parseLoadRAN, text) }})
	}
	mk("ok-greet", ")", `(def greeting "hello, world")`)
	for _, n := range parseLongLens {
		mk(fmt.Sprintf("ok-long%d", n), ")", "("+strings.Repeat("a", n-2)+")")
		mk(fmt.Sprintf("err-long%d", n), ")", "("+strings.Repeat("a", n-3)+"))")
		mk(fmt.Sprintf("aband-long%d", n), "a", "("+strings.Repeat("a", n-1))
	}
	// an unfinished text abandoned through the iterator protocol, as the read builtin and the
	// repl do: the consumer leaves the ParsingIter loop at the request for more input
	parseHists = append(parseHists, parseHist{name: "iter-break", hl: "a", run: func(p *zygo.Parser) {
		parseSafely(func() {
			p.ResetAddNewInput(strings.NewReader("(a b"))
			for range p.ParsingIter() {
				break
			}
		})
	}})
	parseHists = append(parseHists, parseHist{name: "read-unfinished", hl: "a",
		runEnv: func(env *zygo.Zlisp, p *zygo.Parser) { evalSafe(env, `(read "[a (b")`) }})
	parseTailHists = 2
}

// parseTailHists: histories appended behind the long ones
var parseTailHists int

// parseLookBehindFirst: classes whose reading as the first character of a text is decided by
// looking at the preceding character (sign rule, two-character operators, comments, := ...).
func parseLookBehindFirst(c string) bool {
	switch c {
	case "-", "*", "/", ":", ".", "+", "op":
		return true
	}
	return false
}

// parseLongRuns: the text whole after long histories (all of them, or three lengths chosen by
// the case index: successful, rejected and abandoned each), and cut behind its first character.
func parseLongRuns(n int, idx int, all bool) []parseRun {
	var runs []parseRun
	add := func(hi int) {
		runs = append(runs, parseRun{hist: hi, load: (hi + idx) % 2})
		if n > 1 && (all || hi%3 == idx%3) {
			runs = append(runs, parseRun{hist: hi, load: (hi + idx + 1) % 2, cuts: []int{1}})
		}
	}
	if all {
		for hi := parseCoreHists; hi < len(parseHists); hi++ {
			add(hi)
		}
		return runs
	}
	add(parseCoreHists) // ok-greet
	for k := 1; k <= parseTailHists; k++ {
		runs = append(runs, parseRun{hist: len(parseHists) - k, load: (k + idx) % 2})
	}
	for k := 0; k < 3; k++ {
		li := (idx + 2*k) % len(parseLongLens)
		add(parseCoreHists + 1 + 3*li + k) // k = 0 ok, 1 err, 2 aband
	}
	return runs
}

func parseHistIndex(name string) int {
	for i, h := range parseHists {
		if h.name == name {
			return i
		}
	}
	return -1
}

// ---------------------------------------------------------------- a case

type parseRun struct {
	hist int
	load int
	cuts []int // rune positions, strictly increasing, 0 < c < n
}

type parseCase struct {
	ID   string   `json:"id"`
	Txt  string   `json:"txt"`
	Cls  []int    `json:"cls"`
	Strs []string `json:"strs"`
	Tab  []any    `json:"tab"`
	Refs []any    `json:"refs"`
	Runs []any    `json:"runs"`
}

type parseCaseBuilder struct {
	runes  []rune
	c      *parseCase
	tabIdx map[string]int
	refIdx map[[2]int]int
	refPos map[[2]int]int
	stIdx  map[string]int
	strIdx map[string]int
	env    *zygo.Zlisp
	refEnv *zygo.Zlisp
}

func newParseCase(id, text string) *parseCaseBuilder {
	b := &parseCaseBuilder{runes: []rune(text), tabIdx: map[string]int{}, refIdx: map[[2]int]int{}, refPos: map[[2]int]int{}, stIdx: map[string]int{}, strIdx: map[string]int{}}
	b.c = &parseCase{ID: id, Txt: text, Cls: parseClassesOf(text), Strs: []string{}, Tab: []any{}, Refs: []any{}, Runs: []any{}}
	return b
}

func (b *parseCaseBuilder) intern(r parseRes) int {
	key := r.st + "\x00" + fmt.Sprint(r.nc) + "\x00" + strings.Join(r.ex, "\x00")
	if i, ok := b.tabIdx[key]; ok {
		return i
	}
	ex := []int{}
	for _, e := range r.ex {
		i, ok := b.strIdx[e]
		if !ok {
			b.c.Strs = append(b.c.Strs, e)
			i = len(b.c.Strs)
			b.strIdx[e] = i
		}
		ex = append(ex, i)
	}
	b.c.Tab = append(b.c.Tab, []any{parseStatusCode[r.st], r.nc, ex})
	b.tabIdx[key] = len(b.c.Tab)
	return len(b.c.Tab)
}

func (b *parseCaseBuilder) sub(s, p int) string { return string(b.runes[s:p]) }

// ref records (once) the fresh whole-text result of the substring (s,p].
func (b *parseCaseBuilder) ref(s, p int) int {
	k := [2]int{s, p}
	if i, ok := b.refIdx[k]; ok {
		return i
	}
	i := b.intern(b.freshParse(b.sub(s, p)))
	b.refIdx[k] = i
	b.c.Refs = append(b.c.Refs, []any{s, p, i})
	b.refPos[k] = len(b.c.Refs)
	return i
}

func (b *parseCaseBuilder) staleRef(stale string, s, p int) int {
	key := fmt.Sprintf("%d:%d:%s", s, p, stale)
	if i, ok := b.stIdx[key]; ok {
		return i
	}
	i := b.intern(b.freshParse(stale + b.sub(s, p)))
	b.stIdx[key] = i
	return i
}

// exec delivers the text in the pieces of r on a parser with the run's history.
func (b *parseCaseBuilder) exec(r parseRun) {
	h := parseHists[r.hist]
	if b.env == nil {
		b.env = zygo.NewZlisp()
	}
	var p *zygo.Parser
	switch {
	case h.runEnv != nil:
		p = b.env.VerifParser()
		h.runEnv(b.env, p)
	case h.run != nil:
		p = b.env.VerifParser()
		h.run(p)
	default:
		p = b.env.NewParser()
	}
	freshParser := h.run == nil && h.runEnv == nil
	n := len(b.runes)
	ends := append(append([]int{}, r.cuts...), n)
	obs := []int{}
	stale := []int{}
	rk := []int{}
	s := 0
	start := 0
	status := "new"
	first := true
	poisoned := false
	for _, e := range ends {
		var res parseRes
		if status == "more" {
			res = parseFeedText(p, b.sub(start, e))
		} else {
			s = start
			res = parseLoadText(p, r.load, b.sub(start, e))
		}
		obs = append(obs, b.intern(res))
		b.ref(s, e)
		rk = append(rk, b.refPos[[2]int{s, e}])
		if first && h.stale != "" {
			stale = append(stale, b.staleRef(h.stale, s, e))
		}
		start = e
		status = res.st
		if status != "more" {
			first = false
		}
		if status == "panic" {
			poisoned = true
			break
		}
	}
	if freshParser {
		parseSafely(func() { p.Stop() })
	}
	if poisoned {
		// a panic leaves the coroutine/lexer in an unknown state: take a new interpreter
		b.env = nil
	}
	b.c.Runs = append(b.c.Runs, []any{r.hist, parseClassCode(h.hl), r.load, parseNonNil(r.cuts), obs, stale, rk})
}

func parseNonNil(x []int) []int {
	if x == nil {
		return []int{}
	}
	return x
}

func (b *parseCaseBuilder) finish(allPrefixes bool) *parseCase {
	n := len(b.runes)
	if allPrefixes {
		for p := 1; p <= n; p++ {
			b.ref(0, p)
		}
	} else {
		b.ref(0, n)
	}
	if b.env != nil {
		parseSafely(func() { b.env.Close() })
		b.env = nil
	}
	if b.refEnv != nil {
		parseSafely(func() { b.refEnv.Close() })
		b.refEnv = nil
	}
	return b.c
}

// ---------------------------------------------------------------- enumeration

func parseCutSets(n int, pairs bool) [][]int {
	out := [][]int{nil}
	for i := 1; i < n; i++ {
		out = append(out, []int{i})
	}
	if pairs {
		for i := 1; i < n; i++ {
			for j := i + 1; j < n; j++ {
				out = append(out, []int{i, j})
			}
		}
	}
	return out
}

// parseFullRuns: every cut set x every history (the second load mode on a subset).
func parseFullRuns(n int) []parseRun {
	var runs []parseRun
	for hi := 0; hi < parseCoreHists; hi++ {
		for _, cs := range parseCutSets(n, true) {
			runs = append(runs, parseRun{hist: hi, load: parseLoadRAN, cuts: cs})
		}
	}
	for _, hn := range []string{"ok-paren", "aband-str", "queued"} {
		for _, cs := range parseCutSets(n, false) {
			runs = append(runs, parseRun{hist: parseHistIndex(hn), load: parseLoadRNI, cuts: cs})
		}
	}
	return runs
}

// parseLightRuns: every cut set on a fresh parser; every history with the whole
// text and with one cut set chosen by the case index.
func parseLightRuns(n int, idx int) []parseRun {
	var runs []parseRun
	cs := parseCutSets(n, true)
	for _, c := range cs {
		runs = append(runs, parseRun{hist: 0, load: parseLoadRAN, cuts: c})
	}
	for hi := 1; hi < parseCoreHists; hi++ {
		runs = append(runs, parseRun{hist: hi, load: parseLoadRAN, cuts: nil})
		if len(cs) > 1 {
			runs = append(runs, parseRun{hist: hi, load: parseLoadRAN, cuts: cs[1+(idx+hi)%(len(cs)-1)]})
		}
	}
	runs = append(runs, parseRun{hist: parseHistIndex("ok-paren"), load: parseLoadRNI, cuts: nil})
	return runs
}

func parseSpell(cls []string, variant int) string {
	var sb strings.Builder
	for i, c := range cls {
		v := 0
		if variant > 0 {
			v = (variant + i) % 3
		}
		sb.WriteString(parseClassChar(c, v))
	}
	return sb.String()
}

// parseSpellEsc spells letters as the characters that open an escape of more than one
// character (\x41 \u00e9 \U0001F600) or a plain one (\n), and digits as hex digits.
func parseSpellEsc(cls []string, k int) string {
	var sb strings.Builder
	for i, c := range cls {
		switch c {
		case "a":
			sb.WriteString([]string{"x", "u", "U", "n"}[(k+i)%4])
		case "1":
			sb.WriteString([]string{"4", "0", "9"}[(k+i)%3])
		default:
			sb.WriteString(parseClassChar(c, (k+i)%2))
		}
	}
	return sb.String()
}

// parseForTexts enumerates all class sequences of exactly length n over alpha.
func parseForTexts(alpha []string, n int, fn func(cls []string)) {
	idx := make([]int, n)
	cls := make([]string, n)
	for {
		for i := range idx {
			cls[i] = alpha[idx[i]]
		}
		fn(cls)
		k := n - 1
		for k >= 0 {
			idx[k]++
			if idx[k] < len(alpha) {
				break
			}
			idx[k] = 0
			k--
		}
		if k < 0 {
			return
		}
	}
}

func parseInAlpha(alpha []string, cls []string) bool {
	for _, c := range cls {
		ok := false
		for _, a := range alpha {
			if a == c {
				ok = true
				break
			}
		}
		if !ok {
			return false
		}
	}
	return true
}

// boring texts (only letters, digits, blanks, dots) are pruned above length 3
func parseHasStructure(cls []string) bool {
	for _, c := range cls {
		switch c {
		case "a", "1", "sp", "nl", ".":
		default:
			return true
		}
	}
	return false
}

func parseRandomCuts(r *rng, n, k int) []int {
	if n < 2 {
		return nil
	}
	set := map[int]bool{}
	for i := 0; i < k; i++ {
		set[1+r.intn(n-1)] = true
	}
	out := []int{}
	for c := range set {
		out = append(out, c)
	}
	sort.Ints(out)
	return out
}

// ---------------------------------------------------------------- main

func init() {
	register("parse", "C13: texts x chunkings x histories on the real parser", runParse)
}

func runParse(args []string) int {
	var part, corpus, genSpec string
	c := commonFlags("parse", args, func(fs *flag.FlagSet) {
		fs.StringVar(&part, "part", "gen", "gen | files | rand")
		fs.StringVar(&corpus, "corpus", "/repo/tests", "directory of *.zy files")
		fs.StringVar(&genSpec, "gen", "", "generation specs alphabet,length,full|light,rate,k,n;... (default: quick set)")
	})
	w := newWriter(c.out)
	defer w.close()
	if pf := os.Getenv("ZV_PARSE_PROF"); pf != "" {
		f, _ := os.Create(pf)
		pprof.StartCPUProfile(f)
		defer pprof.StopCPUProfile()
	}
	if c.replay != "" {
		readLines(c.replay, func(line []byte) { w.write(parseReplay(line)) })
		return 0
	}
	switch part {
	case "gen":
		parseGen(c, w, genSpec)
	case "files":
		parseFiles(c, w, corpus)
	case "rand":
		parseRand(c, w, corpus)
	default:
		fatal("unknown part %q", part)
	}
	return 0
}

// A generation spec is "alphabet,length,runs,rate,k,n": all structured texts of exactly
// `length` classes over the alphabet (base = 20 classes, mid = 14, small = 9; base texts are
// not pruned), with runs = full | light, keeping 1 in `rate` (seeded), slice k of n.
type parseGenSpec struct {
	alpha  string
	length int
	full   bool
	rate   int
	k, n   int
}

func parseGenSpecs(c *common, arg string) []parseGenSpec {
	if arg == "" {
		// quick default; the thorough tier is driven by lib/props/C13.py in batches
		return []parseGenSpec{{"base", 1, true, 1, 0, 1}, {"base", 2, true, 1, 0, 1}, {"base", 3, true, 1, 0, 1},
			{"small", 4, false, 1, 0, 1},
			{"esc", 2, false, 1, 0, 1}, {"esc", 3, false, 1, 0, 1}, {"esc", 4, false, 1, 0, 1},
			{"pfx", 1, false, 1, 0, 1}, {"pfx", 2, false, 1, 0, 1}, {"pfx", 3, false, 1, 0, 1},
			{"cmt", 1, false, 1, 0, 1}, {"cmt", 2, false, 1, 0, 1}, {"cmtb", 3, false, 1, 0, 1}}
	}
	var out []parseGenSpec
	for _, one := range strings.Split(arg, ";") {
		f := strings.Split(one, ",")
		if len(f) != 6 {
			fatal("bad -gen spec %q", one)
		}
		atoi := func(x string) int {
			v, err := strconv.Atoi(x)
			if err != nil {
				fatal("bad -gen spec %q", one)
			}
			return v
		}
		out = append(out, parseGenSpec{f[0], atoi(f[1]), f[2] == "full", atoi(f[3]), atoi(f[4]), atoi(f[5])})
	}
	return out
}

// parseSeeds: hand-written texts, one per lexical/parsing mechanism that carries state over a
// pause or a reset (every single cut x every history, seeded pairs of cuts on a fresh parser).
var parseSeeds = []string{
	"42", "\"abc", "(read \"1\")", "/***/ a ", "/* x **/ (b) ", "(a \\ b) ", "(1 * \\ (2)) ",
	"(def a %(b c)) ", "(f ^x ~y ~@z) ", "(g %foo) ", "(- inf) ", "(* -inf - inf) ", "-1 ", "-.5 ", "(- 1 -2) ",
	"(a \"b\\\"c\" 'x' `r\n`) ", "{a: 1 \"k\": 2} ", "[1, 2] ", "(a ;b\n c) ", "a.b:c ", "x := 1e-5 ",
	"(defn hel[] \"gr(((\") ", "// c\n(a) ", "(a /* c */ b) ", "{a = `\n\n`} ", "(x . y) ", "a /", "b:",
	"(+ 1 2) (* 3 4)\n", "'\\n' ", "(h a: [1 2] b: {c: 3}) ", "$x #y ?z ", "(-> a b) ", "a ** b -- c ",
	// texts whose first character is read by looking behind it
	"-7", "-7 ", "+1 ", "- 1 ", "-a ", "-1e-5 ", "+.5 ", "-Inf ", "--x ", "-> a ", "-= 1 ", "/* c */ a ", "// c\n a ",
	":= 1 ", ": a ", "** 2 ", "*= 2 ", "*/ ", "/= 2 ", ".5 ", ".a ", "<= 1 ", "== 1 ", "!= 1 ", "&& a ", "|| a ",
	"1e-5 ", "e-5 ", "(-7) ", " -7 ", "\n-7 ",
	// dotted pairs, quote prefixes at top level, long escapes, braces with comments only
	"(assert (== %(1 \\ 2) (cons 1 2)))\n", "(a \\ (b c)) ", "%+\n", "%-", "^-\n", "~+\n", "(a) % -\n", "%%a", "%~a",
	"^~@a", "(x) ~@%a", "% ++ \n", "x ~ -.5\n", "~", "x ~", "(a) ~", "~a\n", "(f ~@%a)\n",
	"\"ab\\x41cd\"\n", "\"ab\\u00e9cd\" x\n", "(f) \"\\U0001F600\"\n", "'\\x41' ",
	"{ //c\n }\n", "{{ /*c*/ } a}\n", "({ //c\n } b)\n", "{}\n",
}

func parseSeedCases(c *common, w *ndWriter) {
	for i, text := range parseSeeds {
		if !c.mine(i) {
			continue
		}
		b := newParseCase(fmt.Sprintf("k%d", i), text)
		n := len(b.runes)
		r := newRng(c.seed, uint64(9000+i))
		for hi := range parseHists {
			b.exec(parseRun{hist: hi})
			for cut := 1; cut < n; cut++ {
				b.exec(parseRun{hist: hi, load: (hi + cut) % 2, cuts: []int{cut}})
			}
		}
		for k := 0; k < 3*n; k++ {
			b.exec(parseRun{hist: 0, cuts: parseRandomCuts(r, n, 2+r.intn(2))})
		}
		w.write(b.finish(true))
	}
}

func parseContains(cls []string, want ...string) bool {
	for _, c := range cls {
		for _, w := range want {
			if c == w {
				return true
			}
		}
	}
	return false
}

func parseGen(c *common, w *ndWriter, arg string) {
	if arg == "" {
		parseSeedCases(c, w)
	}
	idx := 0
	for _, sp := range parseGenSpecs(c, arg) {
		sp := sp
		// one text of the enumeration: sampling, sharding, spelling, runs
		emit := func(tag string, cls []string, esc bool) {
			idx++
			if sp.n > 1 && idx%sp.n != sp.k {
				return
			}
			if !c.mine(idx / max(sp.n, 1)) {
				return
			}
			if sp.rate > 1 && !hashSel(c.seed, idx, 1, sp.rate) {
				return
			}
			variant := 0
			if idx%4 == 3 || tag == "p" {
				variant = 1 + idx%3
			}
			text := parseSpell(cls, variant)
			if esc {
				text = parseSpellEsc(cls, idx)
			}
			b := newParseCase(fmt.Sprintf("%s%d:%s", tag, variant, strings.Join(cls, "")), text)
			var runs []parseRun
			if sp.full {
				runs = parseFullRuns(len(cls))
			} else {
				runs = parseLightRuns(len(cls), idx)
			}
			if len(cls) <= 2 {
				runs = append(runs, parseLongRuns(len(cls), idx, true)...)
			} else if parseLookBehindFirst(cls[0]) {
				runs = append(runs, parseLongRuns(len(cls), idx, false)...)
			}
			for _, r := range runs {
				b.exec(r)
			}
			w.write(b.finish(true))
		}
		switch sp.alpha {
		case "base":
			parseForTexts(parseBase, sp.length, func(cls []string) { emit("g", cls, false) })
		case "mid", "small":
			alpha, tag := parseMid, "m"
			if sp.alpha == "small" {
				alpha, tag = parseSmall, "s"
			}
			parseForTexts(alpha, sp.length, func(cls []string) {
				if parseHasStructure(cls) {
					emit(tag, cls, false)
				}
			})
		case "esc": // texts with a backslash escape; letters x u U n, hex digits
			parseForTexts(parseEsc, sp.length, func(cls []string) {
				if parseContains(cls, "bs") {
					emit("e", cls, true)
				}
			})
		case "pfx": // texts with a quote prefix
			parseForTexts(parsePfx, sp.length, func(cls []string) {
				if parseContains(cls, "q", "t") {
					emit("p", cls, false)
				}
			})
		case "cmt", "cmtb": // a comment inserted at every position of every host text
			hosts := parseMid
			if sp.alpha == "cmtb" {
				hosts = parseBrk
			}
			parseForTexts(hosts, sp.length, func(cls []string) {
				for pos := 0; pos <= len(cls); pos++ {
					for _, cm := range parseComments {
						t := append(append(append([]string{}, cls[:pos]...), cm...), cls[pos:]...)
						emit("c", t, false)
					}
				}
			})
		default:
			fatal("unknown alphabet %q", sp.alpha)
		}
	}
}

func parseCorpusFiles(dir string) []string {
	fs, _ := filepath.Glob(filepath.Join(dir, "*.zy"))
	sort.Strings(fs)
	return fs
}

// parseFiles: every corpus file x sampled single cuts and pairs x histories.
func parseFiles(c *common, w *ndWriter, dir string) {
	files := parseCorpusFiles(dir)
	for fi, f := range files {
		if !c.mine(fi) {
			continue
		}
		data, err := os.ReadFile(f)
		if err != nil {
			fatal("read %s: %v", f, err)
		}
		text := strings.ToValidUTF8(string(data), "?")
		b := newParseCase("f:"+filepath.Base(f), text)
		n := len(b.runes)
		r := newRng(c.seed, uint64(1000+fi))
		nSingle, nPair, nMulti := 16, 6, 3
		if c.thorough() {
			nSingle, nPair, nMulti = 200, 40, 16
		}
		b.exec(parseRun{hist: 0})
		for hi := 1; hi < parseCoreHists; hi++ {
			b.exec(parseRun{hist: hi, load: hi % 2})
		}
		for k := 0; k < 4; k++ {
			b.exec(parseRun{hist: parseCoreHists + r.intn(len(parseHists)-parseCoreHists), load: k % 2})
		}
		if n >= 2 {
			if c.thorough() && n <= 400 {
				for i := 1; i < n; i++ {
					b.exec(parseRun{hist: 0, cuts: []int{i}})
				}
			}
			for i := 0; i < nSingle; i++ {
				b.exec(parseRun{hist: r.intn(len(parseHists)), load: r.intn(2), cuts: parseRandomCuts(r, n, 1)})
			}
			for i := 0; i < nPair; i++ {
				b.exec(parseRun{hist: r.intn(len(parseHists)), load: r.intn(2), cuts: parseRandomCuts(r, n, 2)})
			}
			for i := 0; i < nMulti; i++ {
				b.exec(parseRun{hist: r.intn(len(parseHists)), load: r.intn(2), cuts: parseRandomCuts(r, n, 3+r.intn(12))})
			}
		}
		w.write(b.finish(false))
	}
}

// parseRand: seeded random texts (class-level and windows of corpus files) x random multi-cuts.
func parseRand(c *common, w *ndWriter, dir string) {
	n := c.n
	if n == 0 {
		n = 1500
		if c.thorough() {
			n = 10000
		}
	}
	files := parseCorpusFiles(dir)
	var corpus [][]rune
	for _, f := range files {
		data, err := os.ReadFile(f)
		if err == nil {
			corpus = append(corpus, []rune(strings.ToValidUTF8(string(data), "?")))
		}
	}
	// class weights: structure-heavy
	weighted := []string{"(", "(", ")", ")", "[", "]", "{", "}", "dq", "dq", "bs", "bt", "sq", "a", "a", "a", "1", "1",
		"-", ":", ".", "/", "/", "*", "*", ";", "sp", "sp", "sp", "nl"}
	for i := 0; i < n; i++ {
		if !c.mine(i) {
			continue
		}
		r := newRng(c.seed, uint64(500000+i))
		var text, id string
		if i%3 == 2 && len(corpus) > 0 {
			src := corpus[r.intn(len(corpus))]
			ln := 10 + r.intn(70)
			if ln > len(src) {
				ln = len(src)
			}
			st := r.intn(len(src) - ln + 1)
			text = string(src[st : st+ln])
			id = fmt.Sprintf("w%d", i)
		} else {
			ln := 6 + r.intn(10)
			cls := make([]string, ln)
			for k := range cls {
				cls[k] = pick(r, weighted)
			}
			text = parseSpell(cls, r.intn(4))
			id = fmt.Sprintf("r%d", i)
		}
		b := newParseCase(id, text)
		ln := len(b.runes)
		b.exec(parseRun{hist: 0})
		for k := 0; k < 10; k++ {
			b.exec(parseRun{hist: r.intn(len(parseHists)), load: r.intn(2), cuts: parseRandomCuts(r, ln, 1+r.intn(6))})
		}
		w.write(b.finish(false))
	}
}

// parseReplay re-executes a recorded case: same text, same runs.
func parseReplay(line []byte) *parseCase {
	var in struct {
		ID   string  `json:"id"`
		Txt  string  `json:"txt"`
		Runs [][]any `json:"runs"`
	}
	if err := json.Unmarshal(line, &in); err != nil {
		fatal("replay: %v", err)
	}
	b := newParseCase(in.ID, in.Txt)
	for _, ru := range in.Runs {
		if len(ru) < 4 {
			continue
		}
		hf, _ := ru[0].(float64)
		hi := int(hf)
		if hi < 0 || hi >= len(parseHists) {
			fatal("replay: unknown history %v", ru[0])
		}
		load := 0
		if f, ok := ru[2].(float64); ok {
			load = int(f)
		}
		var cuts []int
		if cs, ok := ru[3].([]any); ok {
			for _, x := range cs {
				if f, ok := x.(float64); ok {
					cuts = append(cuts, int(f))
				}
			}
		}
		b.exec(parseRun{hist: hi, load: load, cuts: cuts})
	}
	return b.finish(in.ID != "" && strings.ContainsRune("gms", rune(in.ID[0])) && strings.Contains(in.ID, ":"))
}
