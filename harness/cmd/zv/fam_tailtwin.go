package main

// Family "tailtwin" (C09): the second oracle of "tail calls are free and invisible", for the forms the
// reference semantics ZSem does not have (return, typed func, include, named arguments, macros, ...).
//
// The property says: a self tail call "returns the same value and has the same effects ... as the same
// function evaluated without the optimisation".  Every program of the family is therefore run in three
// forms that differ ONLY in how the self call names its callee:
//
//	opt    (f ARGS)          the compiler may recognise the self call
//	alias  (g ARGS)          with (def g f) after the definition: the very same closure, called by another
//	                         name, which defeats the compile-time self test -> the ordinary call path
//	wrap   ((begin f) ARGS)  the callee is an expression with the value of f: the ordinary call path, the
//	                         name f looked up at the same moment as in the optimised form
//
// and the observable outcome of each form is recorded: value or error, the effect trace (host function tr),
// the sizes of the four VM stacks after the evaluation and the user's global bindings.  spec/TailTwin.tla
// states Invisible (opt = alias = wrap) and Space (for the optimised form alone: the high-water marks of the
// stacks and the growth of the symbol table do not depend on the depth n); spec/TailTwinTrace.tla judges the
// recorded cases.
//
// Dimensions: definition kind x what else the name f means (shadows) x form of the self call x the special
// form the call sits in (position: the tail contexts of the property AND every other special form, where the
// tail flag must not leak) x enclosing tail context x body feature before the call x re-binding of the name.

import (
	"crypto/sha1"
	"encoding/json"
	"flag"
	"fmt"
	"os"
	"sort"
	"strings"

	zygo "github.com/glycerine/zygomys/v9/zygo"
)

const (
	ttOpt = iota
	ttAlias
	ttWrap
)

var ttFormNames = []string{"opt", "alias", "wrap"}

func ttHead(form int) string {
	switch form {
	case ttAlias:
		return "g"
	case ttWrap:
		return "(begin f)"
	}
	return "f"
}

// the name that re-binding forms of the body bind: the one the self call looks up
func ttRName(form int) string {
	if form == ttAlias {
		return "g"
	}
	return "f"
}

// ---------------------------------------------------------------- dimensions

// definition kinds
type ttDefKind struct {
	name     string
	mk       func(body string) string
	typed    bool // (func ...) with declared types
	lazy     bool // acc is a lazy formal (#acc)
	variadic bool // acc collects the rest of the arguments
}

var ttDefKinds = []ttDefKind{
	{name: "defn", mk: func(b string) string { return "(defn f [n acc] " + b + ")" }},
	{name: "func", typed: true, mk: func(b string) string { return "(func f [n:int64 acc:int64] [r:int64] " + b + ")" }},
	{name: "deffn", mk: func(b string) string { return "(def f (fn [n acc] " + b + "))" }},
	{name: "setfn", mk: func(b string) string { return "(def f 0)\n(set f (fn [n acc] " + b + "))" }},
	{name: "defnlazy", lazy: true, mk: func(b string) string { return "(defn f [n #acc] " + b + ")" }},
	{name: "defnvar", variadic: true, mk: func(b string) string { return "(defn f [n & acc] " + b + ")" }},
}

func ttDK(name string) ttDefKind {
	for _, d := range ttDefKinds {
		if d.name == name {
			return d
		}
	}
	fatal("tailtwin: unknown definition kind %s", name)
	return ttDefKind{}
}

// the accumulator as the body reads it
func (d ttDefKind) acc() string {
	switch {
	case d.lazy:
		return "(force #acc)"
	case d.variadic:
		return "(len acc)"
	}
	return "acc"
}

// what the name f means besides the function under test
type ttShadow struct {
	name    string
	earlier string // an earlier evaluation (a reload)
	before  string // earlier in the same text
	inner   string // first form of the body
}

var ttShadows = []ttShadow{
	{name: "none"},
	{name: "earlier-lazy", before: "(defn f [n #x] 0)"},
	{name: "earlier-lazy-sep", earlier: "(defn f [n #x] 0)"},
	{name: "earlier-strict-sep", earlier: "(defn f [n x] 0)"},
	{name: "earlier-arity3", before: "(defn f [a b c] 0)"},
	{name: "earlier-arity3-sep", earlier: "(defn f [a b c] 0)"},
	{name: "scope-lazy", inner: "(newScope (defn f [a #b] 0))"},
	{name: "scope-strict", inner: "(newScope (defn f [a b] 0))"},
	{name: "scope-arity1", inner: "(newScope (defn f [a] 0))"},
	{name: "scope-arity3", inner: "(newScope (defn f [a b c] 0))"},
	{name: "scope-variadic", inner: "(newScope (defn f [a & r] 0))"},
	{name: "let-fn-lazy", inner: "(let [z (fn [] (defn f [a #b] 0))] 0)"},
	{name: "other-inner-lazy", before: "(defn other [] (defn f [a #b] 0) 1)\n(other)"},
}

func ttSH(name string) ttShadow {
	for _, s := range ttShadows {
		if s.name == name {
			return s
		}
	}
	fatal("tailtwin: unknown shadow %s", name)
	return ttShadow{}
}

// forms of the self call. h is the callee as the form writes it, r the name a re-binding argument binds.
type ttCallForm struct {
	name  string
	mk    func(d ttDefKind, h, r string) string
	space bool // runs to completion for every n: usable for the space half
	only  func(d ttDefKind) bool
	leak  int  // fn / for forms in the arguments of the self call
	self  bool // ... that are themselves arguments of the self call (not nested in an ordinary call)
}

func ttStep(d ttDefKind) string {
	if d.variadic {
		return "7 8"
	}
	if d.lazy {
		// not a function of the previous accumulator: that would be a chain of n pending computations
		return "(+ n 100)"
	}
	return "(+ " + d.acc() + " 1)"
}

var ttCallForms = []ttCallForm{
	{name: "plain", space: true, mk: func(d ttDefKind, h, r string) string {
		if d.variadic {
			return "(" + h + " (tr 1 (- n 1)) (tr 2 7) 8)"
		}
		return "(" + h + " (tr 1 (- n 1)) (tr 2 " + ttStep(d) + "))"
	}},
	{name: "bare", space: true, mk: func(d ttDefKind, h, r string) string { return "(" + h + " (- n 1) " + ttStep(d) + ")" }},
	{name: "named", space: true, only: func(d ttDefKind) bool { return !d.variadic },
		mk: func(d ttDefKind, h, r string) string { return "(" + h + " acc: " + ttStep(d) + " n: (- n 1))" }},
	{name: "named-inorder", space: true, only: func(d ttDefKind) bool { return !d.variadic },
		mk: func(d ttDefKind, h, r string) string { return "(" + h + " n: (- n 1) acc: " + ttStep(d) + ")" }},
	{name: "named-partial", only: func(d ttDefKind) bool { return !d.variadic },
		mk: func(d ttDefKind, h, r string) string { return "(" + h + " (- n 1) acc: " + ttStep(d) + ")" }},
	{name: "illtyped", mk: func(d ttDefKind, h, r string) string { return "(" + h + " (- n 1) \"s\")" }},
	{name: "illtyped-first", mk: func(d ttDefKind, h, r string) string { return "(" + h + " \"s\" " + ttStep(d) + ")" }},
	{name: "float-for-int", mk: func(d ttDefKind, h, r string) string { return "(" + h + " (- n 1) 1.5)" }},
	{name: "emptyarg", mk: func(d ttDefKind, h, r string) string { return "(" + h + " (- n 1) (begin))" }},
	{name: "emptyarg-first", mk: func(d ttDefKind, h, r string) string { return "(" + h + " (begin) " + ttStep(d) + ")" }},
	{name: "commentarg", space: true, mk: func(d ttDefKind, h, r string) string {
		return "(" + h + " (- n 1) /* c */ " + ttStep(d) + ")"
	}},
	{name: "few", mk: func(d ttDefKind, h, r string) string { return "(" + h + " (- n 1))" }},
	{name: "many", mk: func(d ttDefKind, h, r string) string { return "(" + h + " (- n 1) " + ttStep(d) + " 9)" }},
	{name: "none", mk: func(d ttDefKind, h, r string) string { return "(" + h + ")" }},
	{name: "rebinding-arg", mk: func(d ttDefKind, h, r string) string {
		return "(" + h + " (begin (def " + r + " 5) (- n 1)) " + ttStep(d) + ")"
	}},
	{name: "closure-arg", space: true, leak: 1, self: true, only: func(d ttDefKind) bool { return !d.typed && !d.variadic && !d.lazy },
		mk: func(d ttDefKind, h, r string) string { return "(" + h + " (- n 1) (fn [] n))" }},
	{name: "for-arg", space: true, leak: 1, self: true, only: func(d ttDefKind) bool { return !d.variadic && !d.lazy },
		mk: func(d ttDefKind, h, r string) string {
			return "(" + h + " (- n 1) (begin (for " + ttLoop1 + " i) " + ttStep(d) + "))"
		}},
	{name: "closure-in-call-arg", space: true, leak: 1, only: func(d ttDefKind) bool { return !d.variadic && !d.lazy },
		mk: func(d ttDefKind, h, r string) string { return "(" + h + " (- n 1) (+ acc (len [(fn [] n)])))" }},
	{name: "selfcall-arg", space: true, mk: func(d ttDefKind, h, r string) string {
		return "(" + h + " (- n 1) (" + h + " 0 " + ttStep(d) + "))"
	}},
	// an argument that is a dot path into a local of a scope the optimised call pops
	{name: "dotpath-arg", space: true, only: func(d ttDefKind) bool { return !d.variadic && !d.lazy },
		mk: func(d ttDefKind, h, r string) string {
			return "(let [hx (hash a: " + ttStep(d) + ")] (" + h + " (- n 1) hx.a))"
		}},
	{name: "dotpath-arg-first", space: true, only: func(d ttDefKind) bool { return !d.variadic && !d.lazy },
		mk: func(d ttDefKind, h, r string) string {
			return "(newScope (def hx (hash a: (- n 1) b: (hash c: " + ttStep(d) + "))) (" + h + " hx.a hx.b.c))"
		}},
}

func ttCF(name string) ttCallForm {
	for _, c := range ttCallForms {
		if c.name == name {
			return c
		}
	}
	fatal("tailtwin: unknown call form %s", name)
	return ttCallForm{}
}

// what a position needs besides its own text
type ttAux struct {
	form   int
	before []string // top-level forms before the definition (macros, helpers)
	files  map[string]string
}

// file registers the content of an included file and returns its (content-addressed) name
func (x *ttAux) file(content string) string {
	name := fmt.Sprintf("ttinc-%x.zy", sha1.Sum([]byte(content)))[:22] + ".zy"
	if x.files == nil {
		x.files = map[string]string{}
	}
	x.files[name] = content
	return name
}

func (x *ttAux) need(form string) {
	for _, b := range x.before {
		if b == form {
			return
		}
	}
	x.before = append(x.before, form)
}

// positions: the special form the self call C sits in.  tail: one of the tail contexts the property lists
// (the space half applies); the others are judged on invisibility only.
type ttPos struct {
	name string
	tail bool
	mk   func(c string, x *ttAux) string
}

const ttLoop1 = "[(def i 0) (< i 1) (set i (+ i 1))]"

var ttPositions = []ttPos{
	{"direct", true, func(c string, x *ttAux) string { return c }},
	{"begin-last", true, func(c string, x *ttAux) string { return "(begin (tr 9 n) " + c + ")" }},
	{"let-body", true, func(c string, x *ttAux) string { return "(let [m n] " + c + ")" }},
	{"letseq-body", true, func(c string, x *ttAux) string { return "(letseq [m n m2 m] " + c + ")" }},
	{"scope-last", true, func(c string, x *ttAux) string { return "(newScope (def m n) " + c + ")" }},
	{"and-last", true, func(c string, x *ttAux) string { return "(and true " + c + ")" }},
	{"or-last", true, func(c string, x *ttAux) string { return "(or false " + c + ")" }},
	{"cond-arm", true, func(c string, x *ttAux) string { return "(cond (> n 0) " + c + " 77)" }},
	{"cond-default", true, func(c string, x *ttAux) string { return "(cond (< n 0) 77 " + c + ")" }},
	// ---- other special forms
	{"return-1", false, func(c string, x *ttAux) string { return "(return " + c + ")" }},
	{"return-2-last", false, func(c string, x *ttAux) string { return "(return 1 " + c + ")" }},
	{"return-2-first", false, func(c string, x *ttAux) string { return "(return " + c + " 1)" }},
	{"return-3-mid", false, func(c string, x *ttAux) string { return "(return 1 " + c + " 2)" }},
	{"def-target", false, func(c string, x *ttAux) string { return "(def " + c + " 5)" }},
	{"set-target", false, func(c string, x *ttAux) string { return "(set " + c + " 5)" }},
	{"def-rhs", false, func(c string, x *ttAux) string { return "(def z " + c + ")" }},
	{"set-rhs", false, func(c string, x *ttAux) string { return "(begin (def z 0) (set z " + c + "))" }},
	{"assign-rhs", false, func(c string, x *ttAux) string { return "(z = " + c + ")" }},
	{"assign-2-rhs", false, func(c string, x *ttAux) string { return "(z y = 1 " + c + ")" }},
	{"mdef-rhs", false, func(c string, x *ttAux) string { return "(mdef za zb (list 1 " + c + "))" }},
	{"array-1", false, func(c string, x *ttAux) string { return "[" + c + "]" }},
	{"array-2-last", false, func(c string, x *ttAux) string { return "[1 " + c + "]" }},
	{"hash-value", false, func(c string, x *ttAux) string { return "(hash a: " + c + ")" }},
	{"call-arg-last", false, func(c string, x *ttAux) string { return "(+ 1 " + c + ")" }},
	{"call-arg-first", false, func(c string, x *ttAux) string { return "(+ " + c + " 1)" }},
	{"and-first", false, func(c string, x *ttAux) string { return "(and " + c + " true)" }},
	{"or-first", false, func(c string, x *ttAux) string { return "(or " + c + " false)" }},
	{"begin-first", false, func(c string, x *ttAux) string { return "(begin " + c + " 1)" }},
	{"scope-first", false, func(c string, x *ttAux) string { return "(newScope " + c + " 1)" }},
	{"cond-test", false, func(c string, x *ttAux) string { return "(cond " + c + " 1 2)" }},
	{"let-binding", false, func(c string, x *ttAux) string { return "(let [z " + c + "] z)" }},
	{"letseq-binding", false, func(c string, x *ttAux) string { return "(letseq [z " + c + " w z] w)" }},
	{"assert-arg", false, func(c string, x *ttAux) string { return "(assert (== 0 (- " + c + " " + c + ")))" }},
	{"for-body", false, func(c string, x *ttAux) string { return "(for " + ttLoop1 + " " + c + ")" }},
	{"for-init", false, func(c string, x *ttAux) string { return "(for [(def i " + c + ") (< i 0) (set i (+ i 1))] 1)" }},
	{"for-test", false, func(c string, x *ttAux) string {
		return "(for [(def i 0) (and (< i 1) (!= -1 " + c + ")) (set i (+ i 1))] 1)"
	}},
	{"sq-unquote", false, func(c string, x *ttAux) string { return "(syntaxQuote (1 (unquote " + c + ")))" }},
	{"sq-unquote-only", false, func(c string, x *ttAux) string { return "(syntaxQuote (unquote " + c + "))" }},
	{"fn-called", false, func(c string, x *ttAux) string { return "((fn [] " + c + "))" }},
	{"fn-bound", false, func(c string, x *ttAux) string { return "(let [k (fn [] " + c + ")] (k))" }},
	{"inner-defn", false, func(c string, x *ttAux) string { return "(begin (defn hh [] " + c + ") (hh))" }},
	{"macro-begin", false, func(c string, x *ttAux) string {
		x.need("(defmac mbegin [x] (syntaxQuote (begin (tr 8 1) (unquote x))))")
		return "(mbegin " + c + ")"
	}},
	{"macro-return2", false, func(c string, x *ttAux) string {
		x.need("(defmac mret [x] (syntaxQuote (return 1 (unquote x))))")
		return "(mret " + c + ")"
	}},
	{"macro-arg", false, func(c string, x *ttAux) string {
		x.need("(defmac mplus [x] (syntaxQuote (+ 1 (unquote x))))")
		return "(mplus " + c + ")"
	}},
	{"infix-last", false, func(c string, x *ttAux) string { return "(infix [ 1 ; " + c + " ])" }},
	{"include-1", false, func(c string, x *ttAux) string { return "(include \"" + x.file(c+"\n") + "\")" }},
	{"include-1-mid", false, func(c string, x *ttAux) string { return "(include \"" + x.file(c+"\n7\n") + "\")" }},
	{"include-2-first", false, func(c string, x *ttAux) string {
		return "(include \"" + x.file(c+"\n") + "\" \"" + x.file("7\n") + "\")"
	}},
	{"include-2-last", false, func(c string, x *ttAux) string {
		return "(include \"" + x.file("7\n") + "\" \"" + x.file(c+"\n") + "\")"
	}},
	{"include-arr-first", false, func(c string, x *ttAux) string {
		return "(include [\"" + x.file(c+"\n") + "\" \"" + x.file("7\n") + "\"])"
	}},
	{"include-3-mid", false, func(c string, x *ttAux) string {
		return "(include \"" + x.file("6\n") + "\" [\"" + x.file(c+"\n") + "\"] \"" + x.file("7\n") + "\")"
	}},
}

func ttPO(name string) ttPos {
	for _, p := range ttPositions {
		if p.name == name {
			return p
		}
	}
	fatal("tailtwin: unknown position %s", name)
	return ttPos{}
}

// enclosing tail contexts (the position as a whole stays in tail position)
type ttCtx struct {
	name string
	mk   func(e string) string
}

var ttCtxs = []ttCtx{
	{"direct", func(e string) string { return e }},
	{"let", func(e string) string { return "(let [q n] " + e + ")" }},
	{"scope", func(e string) string { return "(newScope (def q n) " + e + ")" }},
	{"cond-arm", func(e string) string { return "(cond (> n 0) " + e + " 78)" }},
	{"and", func(e string) string { return "(and true " + e + ")" }},
	{"begin", func(e string) string { return "(begin (tr 7 n) " + e + ")" }},
	{"letseq", func(e string) string { return "(letseq [q n q2 q] " + e + ")" }},
	{"or", func(e string) string { return "(or false " + e + ")" }},
	{"cond-default", func(e string) string { return "(cond (< n 0) 78 " + e + ")" }},
}

func ttCX(name string) ttCtx {
	for _, c := range ttCtxs {
		if c.name == name {
			return c
		}
	}
	fatal("tailtwin: unknown context %s", name)
	return ttCtx{}
}

// body features: something the body does before the tail call
type ttFeat struct {
	name   string
	helper string
	pre    string
	leak   int // fn / for forms that are (part of) an argument of a call: compiled at every evaluation
}

var ttFeats = []ttFeat{
	{name: "none"},
	{name: "local", pre: "(def loc (+ n 1))"},
	{name: "inner-scope", pre: "(newScope (def inner n) inner)"},
	{name: "closure-stmt", pre: "(fn [] n)"},
	{name: "closure-def", pre: "(def c (fn [] n))"},
	{name: "closure-call-arg", helper: "(defn ident [x] x)", pre: "(ident (fn [] n))", leak: 1},
	{name: "closure-builtin-arg", pre: "(type? (fn [] n))", leak: 1},
	{name: "closure-global", helper: "(def ks [])", pre: "(set ks (append ks (fn [] n)))", leak: 1},
	{name: "for-stmt", pre: "(for " + ttLoop1 + " i)"},
	{name: "for-call-arg", helper: "(defn ident [x] x)", pre: "(ident (for " + ttLoop1 + " i))", leak: 1},
	{name: "let-call-arg", helper: "(defn ident [x] x)", pre: "(ident (let [z n] z))"},
	{name: "fn-in-let-call-arg", helper: "(defn ident [x] x)", pre: "(ident (let [z (fn [] n)] 1))", leak: 1},
	{name: "nontail-self", pre: "(tr 6 (+ 1 (f 0 0)))"},
}

func ttFE(name string) ttFeat {
	for _, f := range ttFeats {
		if f.name == name {
			return f
		}
	}
	fatal("tailtwin: unknown feature %s", name)
	return ttFeat{}
}

// re-bindings of the name the self call looks up (r), done just before the call; zero: a function of no
// arguments (a value that is not a function, "called" without arguments, is that value)
type ttRebind struct {
	name   string
	helper string
	zero   bool
	mk     func(r, c string) string // the step, given the name to bind and the self call
	param  bool                     // the second parameter is named like the function
	global bool                     // the re-binding outlives the call: the alias form (which re-binds g, not f) is not the same program
}

var ttRebinds = []ttRebind{
	{name: "def-int", zero: true, mk: func(r, c string) string { return "(begin (def " + r + " 5) " + c + ")" }},
	{name: "def-str", zero: true, mk: func(r, c string) string { return "(begin (def " + r + " \"s\") " + c + ")" }},
	{name: "def-nil", zero: true, mk: func(r, c string) string { return "(begin (def " + r + " nil) " + c + ")" }},
	{name: "def-arr", zero: true, mk: func(r, c string) string { return "(begin (def " + r + " [1 2]) " + c + ")" }},
	{name: "def-fn0", zero: true, helper: "(defn h0 [] (tr 5 50))", mk: func(r, c string) string { return "(begin (def " + r + " h0) " + c + ")" }},
	{name: "set-fn0", zero: true, global: true, helper: "(defn h0 [] (tr 5 50))", mk: func(r, c string) string { return "(begin (set " + r + " h0) " + c + ")" }},
	{name: "let-int", zero: true, mk: func(r, c string) string { return "(let [" + r + " 5] " + c + ")" }},
	{name: "def-int", mk: func(r, c string) string { return "(begin (def " + r + " 5) " + c + ")" }},
	{name: "def-fn", helper: "(defn h [a b] (tr 5 (+ a b)))", mk: func(r, c string) string { return "(begin (def " + r + " h) " + c + ")" }},
	{name: "set-fn", global: true, helper: "(defn h [a b] (tr 5 (+ a b)))", mk: func(r, c string) string { return "(begin (set " + r + " h) " + c + ")" }},
	{name: "let-fn", helper: "(defn h [a b] (tr 5 (+ a b)))", mk: func(r, c string) string { return "(let [" + r + " h] " + c + ")" }},
	{name: "def-fn-lazy", helper: "(defn hl [a #b] (tr 5 a))", mk: func(r, c string) string { return "(begin (def " + r + " hl) " + c + ")" }},
	{name: "def-fn-lazy-forced", helper: "(defn hl [a #b] (tr 5 (force #b)))", mk: func(r, c string) string { return "(begin (def " + r + " hl) " + c + ")" }},
	{name: "def-builtin", mk: func(r, c string) string { return "(begin (def " + r + " +) " + c + ")" }},
	{name: "def-fn-arity1", helper: "(defn h1 [a] (tr 5 a))", mk: func(r, c string) string { return "(begin (def " + r + " h1) " + c + ")" }},
	{name: "inner-defn", mk: func(r, c string) string { return "(begin (defn " + r + " [a b] (tr 5 (+ a b))) " + c + ")" }},
	{name: "inner-defn-lazy", mk: func(r, c string) string { return "(begin (defn " + r + " [a #b] (tr 5 a)) " + c + ")" }},
	{name: "param", param: true, helper: "(defn h [a b] (tr 5 a))", mk: func(r, c string) string { return c }},
}

// ---------------------------------------------------------------- programs

type ttSpec struct {
	Key    string `json:"key"`
	Group  string `json:"group"`
	DK     string `json:"dk"`
	Shadow string `json:"shadow"`
	CF     string `json:"cf"`
	Pos    string `json:"pos"`
	Ctxs   string `json:"ctxs"` // '/'-separated, outermost first
	Feat   string `json:"feat"`
	Rebind int    `json:"rebind"`   // index into ttRebinds, -1: none
	Clos   bool   `json:"clos"`     // the accumulator collects closures over n, called afterwards
	Tail   bool   `json:"tail"`     // the self call is in one of the property's tail positions: the space half applies
	Leak   int    `json:"leak"`     // fn / for forms the body evaluates, per level, as (part of) arguments of calls
	LeakS  int    `json:"leakself"` // those of them that are arguments of the self call itself
}

type ttProgram struct {
	earlier string
	text    string
	files   map[string]string
}

func (s ttSpec) program(form int, traced bool) ttProgram {
	d := ttDK(s.DK)
	sh := ttSH(s.Shadow)
	x := &ttAux{form: form}
	h, r := ttHead(form), ttRName(form)
	var rb *ttRebind
	if s.Rebind >= 0 {
		rb = &ttRebinds[s.Rebind]
	}
	var call string
	switch {
	case rb != nil && rb.zero:
		call = "(" + h + ")"
	case rb != nil && rb.param:
		call = "(" + h + " (- n 1) " + r + ")"
	case s.Clos:
		call = "(" + h + " (- n 1) (append acc (fn [] n)))"
	default:
		cf := s.CF
		if !traced && cf == "plain" {
			cf = "bare"
		}
		call = ttCF(cf).mk(d, h, r)
	}
	step := ttPO(s.Pos).mk(call, x)
	if rb != nil {
		step = rb.mk(r, step)
		if rb.helper != "" {
			x.need(rb.helper)
		}
	}
	ft := ttFE(s.Feat)
	if ft.pre != "" {
		step = "(begin " + ft.pre + " " + step + ")"
		if ft.helper != "" {
			x.need(ft.helper)
		}
	}
	if s.Ctxs != "" {
		cs := strings.Split(s.Ctxs, "/")
		for i := len(cs) - 1; i >= 0; i-- {
			step = ttCX(cs[i]).mk(step)
		}
	}
	var def string
	switch {
	case rb != nil && rb.zero:
		// a function of no arguments driven by a global counter
		x.need("(def cnt 0)")
		x.need("(def n 1)")
		body := "(set cnt (+ cnt 1)) (cond (> cnt 3) (tr 0 cnt) " + step + ")"
		switch s.DK {
		case "func":
			def = "(func f [] [r:int64] " + body + ")"
		default:
			def = "(defn f [] " + body + ")"
		}
	case rb != nil && rb.param:
		def = "(defn f [n " + r + "] (cond (<= n 0) (tr 0 n) " + step + "))"
	default:
		base := "(tr 0 " + d.acc() + ")"
		if s.Clos {
			base = "acc"
		}
		body := "(cond (<= n 0) " + base + " " + step + ")"
		if sh.inner != "" {
			body = sh.inner + " " + body
		}
		def = d.mk(body)
	}
	var forms []string
	forms = append(forms, x.before...)
	if sh.before != "" {
		forms = append(forms, sh.before)
	}
	forms = append(forms, def)
	if form == ttAlias {
		forms = append(forms, "(def g f)")
	}
	return ttProgram{earlier: sh.earlier, text: strings.Join(forms, "\n") + "\n", files: x.files}
}

func (s ttSpec) call(n int) string {
	switch {
	case s.Rebind >= 0 && ttRebinds[s.Rebind].zero:
		return "(f)\n"
	case s.Rebind >= 0 && ttRebinds[s.Rebind].param:
		return fmt.Sprintf("(f %d h)\n", n)
	case s.Clos:
		return fmt.Sprintf("(map (fn [c] (c)) (f %d []))\n", n)
	case ttDK(s.DK).variadic:
		return fmt.Sprintf("(f %d)\n", n)
	}
	return fmt.Sprintf("(f %d 0)\n", n)
}

func (s ttSpec) zero() bool { return s.Rebind >= 0 && ttRebinds[s.Rebind].zero }

// ---------------------------------------------------------------- enumeration

func ttEnum(thorough bool) []ttSpec {
	var out []ttSpec
	seen := map[string]bool{}
	add := func(s ttSpec) {
		if s.Shadow == "" {
			s.Shadow = "none"
		}
		if s.Feat == "" {
			s.Feat = "none"
		}
		if s.CF == "" {
			s.CF = "plain"
		}
		d := ttDK(s.DK)
		if s.Rebind < 0 {
			if cf := ttCF(s.CF); cf.only != nil && !cf.only(d) {
				return
			}
		}
		rb := "-"
		if s.Rebind >= 0 {
			rb = ttRebinds[s.Rebind].name
			if ttRebinds[s.Rebind].zero {
				rb += "0"
			}
		}
		s.Tail = ttPO(s.Pos).tail
		s.Leak = ttFE(s.Feat).leak + ttCF(s.CF).leak
		if ttCF(s.CF).self {
			s.LeakS = ttCF(s.CF).leak
		}
		s.Key = fmt.Sprintf("%s|%s|%s|%s|%s|%s|%s|%s|%v", s.Group, s.DK, s.Shadow, s.CF, s.Pos, s.Ctxs, s.Feat, rb, s.Clos)
		if seen[s.Key] {
			return
		}
		seen[s.Key] = true
		out = append(out, s)
	}
	ctxQuick := []string{"", "let", "scope", "cond-arm", "and"}
	var ctxAll []string
	for _, c := range ttCtxs {
		if c.name == "direct" {
			ctxAll = append(ctxAll, "")
		} else {
			ctxAll = append(ctxAll, c.name)
		}
	}
	ctxs := ctxQuick
	if thorough {
		ctxs = append([]string{}, ctxAll...)
		for _, a := range ctxAll[1:] {
			for _, b := range ctxAll[1:] {
				ctxs = append(ctxs, a+"/"+b)
			}
		}
	}
	var tailPos []string
	for _, p := range ttPositions {
		if p.tail {
			tailPos = append(tailPos, p.name)
		}
	}
	// (1) every position under the enclosing tail contexts
	for _, dk := range []string{"defn", "func", "deffn"} {
		for _, p := range ttPositions {
			for _, cx := range ctxs {
				add(ttSpec{Group: "pos", DK: dk, Pos: p.name, Ctxs: cx, Rebind: -1})
			}
		}
	}
	// (2) every form of the self call in every tail position, for every kind of definition
	for _, d := range ttDefKinds {
		for _, cf := range ttCallForms {
			for _, p := range tailPos {
				add(ttSpec{Group: "call", DK: d.name, CF: cf.name, Pos: p, Rebind: -1})
			}
			if thorough {
				for _, cx := range ctxAll[1:] {
					add(ttSpec{Group: "call", DK: d.name, CF: cf.name, Pos: "direct", Ctxs: cx, Rebind: -1})
				}
			}
		}
	}
	// (3) the name f has other meanings
	shPos := []string{"direct", "let-body", "begin-last", "scope-last"}
	if thorough {
		shPos = tailPos
	}
	for _, dk := range []string{"defn", "func", "defnlazy", "defnvar", "deffn"} {
		for _, sh := range ttShadows {
			for _, cf := range []string{"plain", "few", "named"} {
				for _, p := range shPos {
					add(ttSpec{Group: "shadow", DK: dk, Shadow: sh.name, CF: cf, Pos: p, Rebind: -1})
				}
			}
		}
	}
	// (4) the name is re-bound before the call: the call is then not a self call
	for _, dk := range []string{"defn", "func"} {
		for ri := range ttRebinds {
			for _, p := range []string{"direct", "let-body", "begin-last", "scope-last", "and-last", "cond-arm"} {
				add(ttSpec{Group: "rebind", DK: dk, Pos: p, Rebind: ri})
			}
		}
	}
	// (5) body features before the call (incl. closures that earlier iterations created, called afterwards)
	for _, dk := range []string{"defn", "func", "deffn"} {
		for _, ft := range ttFeats {
			for _, p := range tailPos {
				add(ttSpec{Group: "feat", DK: dk, Feat: ft.name, Pos: p, Rebind: -1})
				if dk != "func" {
					add(ttSpec{Group: "feat", DK: dk, Feat: ft.name, Pos: p, Rebind: -1, Clos: true})
				}
			}
		}
	}
	return out
}

// ---------------------------------------------------------------- execution

type ttObs struct {
	Out  any    `json:"out"`  // ["val", v] | ["err"] | ["panic"] | ["budget"] | ["load-err"]
	Cls  string `json:"cls"`  // error class / text (information only, never compared)
	Fx   []any  `json:"fx"`   // effect trace
	Rest []int  `json:"rest"` // data, scope, address, loop stack sizes after a value was returned
}

type ttFormRun struct {
	Text string  `json:"text"`
	Load any     `json:"load"` // outcome of loading the definitions
	Obs  []ttObs `json:"obs"`  // one per depth
	Glob []any   `json:"glob"` // the user's global bindings that are not functions, after the last call
}

type ttSpaceRun struct {
	N    int   `json:"n"`
	Out  any   `json:"out"`
	HW   []int `json:"hw"`   // high-water marks: data, scope, address stacks
	Syms int   `json:"syms"` // symbols interned during the call
}

type ttCase struct {
	ID    string       `json:"id"`
	Kind  string       `json:"kind"` // "inv" | "space"
	Spec  ttSpec       `json:"spec"`
	Ns    []int        `json:"ns"`
	Twins []string     `json:"twins,omitempty"` // the reference forms that apply
	Calls []string     `json:"calls,omitempty"`
	Opt   *ttFormRun   `json:"opt,omitempty"`
	Alias *ttFormRun   `json:"alias,omitempty"`
	Wrap  *ttFormRun   `json:"wrap,omitempty"`
	Text  string       `json:"text,omitempty"`
	Runs  []ttSpaceRun `json:"runs,omitempty"`
}

var ttBaseGlobals map[string]bool

func ttWriteFiles(p ttProgram) {
	for name, content := range p.files {
		if b, err := os.ReadFile(name); err == nil && string(b) == content {
			continue
		}
		tmp := fmt.Sprintf("%s.%d.tmp", name, os.Getpid())
		if err := os.WriteFile(tmp, []byte(content), 0644); err != nil {
			fatal("tailtwin: %v", err)
		}
		os.Rename(tmp, name)
	}
}

func ttLoad(p ttProgram) (*semEnv, outcome) {
	ttWriteFiles(p)
	se := newSemEnv()
	if ttBaseGlobals == nil {
		ttBaseGlobals = map[string]bool{}
		for _, n := range se.env.VerifGlobalNames() {
			ttBaseGlobals[n] = true
		}
	}
	if p.earlier != "" {
		evalSafe(se.env, p.earlier+"\n")
	}
	o := evalSafe(se.env, p.text)
	if o.Kind != "val" {
		se.env.Clear()
	}
	return se, o
}

func ttOutcome(se *semEnv, o outcome) (any, string) {
	switch o.Kind {
	case "val":
		return []any{"val", obsProj(se.env, o.Val)}, ""
	case "err":
		return []any{"err"}, errClass(o.Err) + ": " + trunc(o.Err, 100)
	case "panic":
		return []any{"panic"}, trunc(o.Err, 100)
	}
	return []any{o.Kind}, ""
}

func runTwinForm(s ttSpec, form int, ns []int) *ttFormRun {
	p := s.program(form, true)
	se, lo := ttLoad(p)
	r := &ttFormRun{Text: p.earlier + "\n" + p.text, Obs: []ttObs{}, Glob: []any{}}
	r.Load, _ = ttOutcome(se, lo)
	if lo.Kind == "val" {
		r.Load = []any{"val"}
	}
	for _, n := range ns {
		se.fx = nil
		o := evalSafe(se.env, s.call(n))
		ob := ttObs{Fx: se.fx, Rest: []int{-1, -1, -1, -1}}
		if ob.Fx == nil {
			ob.Fx = []any{}
		}
		ob.Out, ob.Cls = ttOutcome(se, o)
		if o.Kind == "val" {
			ob.Rest = depthsOf(se.env)
		} else {
			se.env.Clear() // what an embedding does after an error
		}
		r.Obs = append(r.Obs, ob)
	}
	names := se.env.VerifGlobalNames()
	sort.Strings(names)
	for _, nm := range names {
		if ttBaseGlobals[nm] || nm == "f" || nm == "g" {
			continue
		}
		if k := se.env.VerifGlobalKind(nm); k != "value" {
			continue
		}
		v, err := se.env.EvalString(nm + "\n")
		if err != nil {
			se.env.Clear()
			continue
		}
		r.Glob = append(r.Glob, []any{nm, obsProj(se.env, v)})
	}
	return r
}

func runTwin(id string, s ttSpec, ns []int) ttCase {
	c := ttCase{ID: id, Kind: "inv", Spec: s, Ns: ns}
	for _, n := range ns {
		c.Calls = append(c.Calls, strings.TrimSpace(s.call(n)))
	}
	c.Opt = runTwinForm(s, ttOpt, ns)
	c.Wrap = runTwinForm(s, ttWrap, ns)
	c.Twins = []string{"wrap"}
	if s.Rebind < 0 || !ttRebinds[s.Rebind].global {
		c.Alias = runTwinForm(s, ttAlias, ns)
		c.Twins = []string{"alias", "wrap"}
	}
	return c
}

func runTwinSpace(id string, s ttSpec, ns []int) ttCase {
	p := s.program(ttOpt, false)
	c := ttCase{ID: id, Kind: "space", Spec: s, Ns: ns, Text: p.earlier + "\n" + p.text}
	for _, n := range ns {
		se, lo := ttLoad(p)
		if lo.Kind != "val" {
			out, _ := ttOutcome(se, lo)
			c.Runs = append(c.Runs, ttSpaceRun{N: n, Out: out, HW: []int{0, 0, 0}})
			continue
		}
		// warm up: everything the first call of a fresh interpreter interns or compiles once
		evalSafe(se.env, s.call(1))
		if s.zero() {
			evalSafe(se.env, "(set cnt 0)\n")
		}
		hw := []int{0, 0, 0}
		zygo.VerifTracer = func(env *zygo.Zlisp, fn *zygo.SexpFunction, pc int, instr zygo.Instruction) {
			d, sc, a, _ := env.VerifDepths()
			if d > hw[0] {
				hw[0] = d
			}
			if sc > hw[1] {
				hw[1] = sc
			}
			if a > hw[2] {
				hw[2] = a
			}
		}
		before := len(se.env.VerifSymtab())
		zygo.VerifSetBudget(int64(n)*3000 + 100000)
		var o outcome
		func() {
			defer func() {
				if r := recover(); r != nil {
					o = outcome{Kind: "panic", Err: fmt.Sprint(r)}
				}
			}()
			v, err := se.env.EvalString(s.call(n))
			if err != nil {
				o = outcome{Kind: "err", Err: err.Error()}
				if err.Error() == zygo.ErrVerifBudget.Error() {
					o.Kind = "budget"
				}
			} else {
				o = outcome{Kind: "val", Val: v}
			}
		}()
		zygo.VerifSetBudget(-1)
		zygo.VerifTracer = nil
		out := any([]any{o.Kind})
		if o.Kind == "val" {
			out = []any{"val"}
		}
		c.Runs = append(c.Runs, ttSpaceRun{N: n, Out: out, HW: hw, Syms: len(se.env.VerifSymtab()) - before})
	}
	return c
}

// spaceApplies: the property's space claim is about a function that calls itself in one of the listed tail
// positions and whose run completes.
func (s ttSpec) spaceApplies() bool {
	if !s.Tail || s.Rebind >= 0 || s.Clos {
		return false
	}
	if s.Group == "pos" || s.Group == "feat" {
		return true
	}
	d := ttDK(s.DK)
	cf := ttCF(s.CF)
	if !cf.space {
		return false
	}
	if (s.CF == "named" || s.CF == "named-inorder") && !d.typed {
		return false // named arguments are a feature of typed functions: elsewhere the call is an arity error
	}
	return true
}

func init() {
	register("tailtwin", "C09: optimised self call vs the same call through an alias / a computed callee; space and symbol growth", func(args []string) int {
		var mode, only string
		c := commonFlags("tailtwin", args, func(fs *flag.FlagSet) {
			fs.StringVar(&mode, "mode", "inv", "inv|space|list")
			fs.StringVar(&only, "only", "", "run only the specs whose key contains this text")
		})
		w := newWriter(c.out)
		defer w.close()
		nsInv := []int{0, 1, 3}
		nsSpace := []int{10, 100, 400}
		if c.thorough() {
			nsInv = []int{0, 1, 2, 3, 5}
			nsSpace = []int{10, 100, 1000, 3000}
		}
		if c.replay != "" {
			all := ttEnum(true)
			byKey := map[string]ttSpec{}
			for _, s := range all {
				byKey[s.Key] = s
			}
			readLines(c.replay, func(line []byte) {
				var in ttCase
				if err := json.Unmarshal(line, &in); err != nil {
					fatal("bad replay: %v", err)
				}
				s, ok := byKey[in.Spec.Key]
				if !ok {
					fatal("tailtwin: no program with key %s", in.Spec.Key)
				}
				if in.Kind == "space" {
					w.write(runTwinSpace(in.ID, s, in.Ns))
				} else {
					w.write(runTwin(in.ID, s, in.Ns))
				}
			})
			return 0
		}
		specs := ttEnum(c.thorough())
		idx := 0
		for si, s := range specs {
			if only != "" && !strings.Contains(s.Key, only) {
				continue
			}
			if mode == "list" {
				p := s.program(ttOpt, true)
				fmt.Printf("%s\n%s%s\n", s.Key, p.text, s.call(3))
				continue
			}
			if mode == "space" && !s.spaceApplies() {
				continue
			}
			mine := c.mine(idx)
			idx++
			if !mine {
				continue
			}
			if mode == "space" {
				ns := nsSpace
				if ttDK(s.DK).name == "deffn" || ttDK(s.DK).name == "setfn" {
					ns = []int{10, 100, 300}
				}
				w.write(runTwinSpace(fmt.Sprintf("sp%d", si), s, ns))
			} else {
				ns := nsInv
				if s.zero() {
					ns = []int{0}
				}
				w.write(runTwin(fmt.Sprintf("tw%d", si), s, ns))
			}
		}
		return 0
	})
}
