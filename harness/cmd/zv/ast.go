package main

// The shared AST vocabulary of the harness and the TLA+ reference semantics
// (spec/ZSem.tla): every node is a JSON array whose head names the kind.
// render() prints an AST as s-expression script text.

import (
	"fmt"
	"strconv"
	"strings"
)

type node = []any

func nInt(n int) node               { return node{"int", n} }
func nStr(s string) node            { return node{"str", s} }
func nBool(b bool) node             { return node{"bool", b} }
func nNil() node                    { return node{"nil"} }
func nSym(x string) node            { return node{"sym", x} }
func nQuote(d node) node            { return node{"quote", d} }
func nArr(es ...node) node          { return node{"arr", seq(es)} }
func nDef(x string, e node) node    { return node{"def", x, e} }
func nSet(x string, e node) node    { return node{"set", x, e} }
func nBegin(body ...node) node      { return node{"begin", seq(body)} }
func nScope(body ...node) node      { return node{"scope", seq(body)} }
func nAnd(es ...node) node          { return node{"and", seq(es)} }
func nOr(es ...node) node           { return node{"or", seq(es)} }
func nBreak(l string) node          { return node{"break", l} }
func nContinue(l string) node       { return node{"continue", l} }
func nAssert(e node) node           { return node{"assert", e} }
func nEval(e node) node             { return node{"eval", e} }
func nCall(f node, a ...node) node  { return node{"call", f, seq(a)} }
func nApp(f string, a ...node) node { return node{"call", nSym(f), seq(a)} }

// nDot is the dot path x.k1.k2 (the variable x holds a hash); nSetDot is (set x.k1.k2 e);
// nEHash is the empty hash literal {}.
func nDot(x string, ks ...string) node {
	k := []any{}
	for _, y := range ks {
		k = append(k, y)
	}
	return node{"dot", x, k}
}
func nSetDot(x string, ks []string, e node) node {
	k := []any{}
	for _, y := range ks {
		k = append(k, y)
	}
	return node{"setdot", x, k, e}
}
func nEHash() node { return node{"ehash"} }

func dotPath(x any, ks any) string {
	p := x.(string)
	for _, k := range asSeq(ks) {
		p += "." + k.(string)
	}
	return p
}

func nTrace(k int, a ...node) node {
	return nApp("trace", append([]node{nInt(k)}, a...)...)
}

type bind struct {
	x string
	e node
}

func nLet(kind string, bs []bind, body ...node) node {
	b := []any{}
	for _, x := range bs {
		b = append(b, []any{x.x, x.e})
	}
	return node{kind, b, seq(body)}
}

type clause struct{ t, a node }

func nCond(cs []clause, dflt node) node {
	c := []any{}
	for _, x := range cs {
		c = append(c, []any{x.t, x.a})
	}
	return node{"cond", c, dflt}
}

func nFor(label string, init, test, step node, body ...node) node {
	return node{"for", label, init, test, step, seq(body)}
}

type param struct {
	name string
	lazy bool
}

func params(ps []param) []any {
	r := []any{}
	for _, p := range ps {
		r = append(r, []any{p.name, p.lazy})
	}
	return r
}

func strict(names ...string) []param {
	r := []param{}
	for _, n := range names {
		r = append(r, param{n, false})
	}
	return r
}

func nFn(ps []param, rest string, body ...node) node {
	return node{"fn", params(ps), rest, seq(body)}
}
func nDefn(name string, ps []param, rest string, body ...node) node {
	return node{"defn", name, params(ps), rest, seq(body)}
}

func seq(es []node) []any {
	r := make([]any, 0, len(es))
	for _, e := range es {
		r = append(r, e)
	}
	return r
}

func asSeq(x any) []any {
	v, _ := x.([]any)
	return v
}

func asNode(x any) node {
	v, _ := x.([]any)
	return v
}

func asInt(x any) int {
	switch v := x.(type) {
	case int:
		return v
	case int64:
		return int(v)
	case float64:
		return int(v)
	}
	return 0
}

// renderDatum prints quoted data.
func renderDatum(d node) string {
	switch d[0] {
	case "int":
		return strconv.Itoa(asInt(d[1]))
	case "str":
		return strconv.Quote(d[1].(string))
	case "bool":
		if d[1].(bool) {
			return "true"
		}
		return "false"
	case "nil":
		return "nil"
	case "sym":
		return d[1].(string)
	case "list":
		parts := []string{}
		for _, x := range asSeq(d[1]) {
			parts = append(parts, renderDatum(asNode(x)))
		}
		return "(" + strings.Join(parts, " ") + ")"
	case "arr":
		parts := []string{}
		for _, x := range asSeq(d[1]) {
			parts = append(parts, renderDatum(asNode(x)))
		}
		return "[" + strings.Join(parts, " ") + "]"
	}
	return "?"
}

// layout supplies the whitespace/comment between tokens; nil means one space.
type layout struct{ r *rng }

func (l *layout) sp() string {
	if l == nil || l.r == nil {
		return " "
	}
	switch l.r.intn(12) {
	case 0:
		return "  "
	case 1:
		return "\n"
	case 2:
		return " \n  "
	case 3:
		return "\t"
	case 4:
		return " /* c */ "
	case 5:
		return " // c\n"
	}
	return " "
}

func renderAll(es []any, l *layout) []string {
	r := []string{}
	for _, e := range es {
		r = append(r, render(asNode(e), l))
	}
	return r
}

func join(l *layout, parts ...string) string {
	var b strings.Builder
	for i, p := range parts {
		if i > 0 {
			b.WriteString(l.sp())
		}
		b.WriteString(p)
	}
	return b.String()
}

func paramList(ps []any, rest string) string {
	names := []string{}
	for _, p := range ps {
		pp := asSeq(p)
		n := pp[0].(string)
		names = append(names, n)
	}
	if rest != "" {
		names = append(names, "&", rest)
	}
	return "[" + strings.Join(names, " ") + "]"
}

// render prints an AST as s-expression text (no trailing newline).
func render(e node, l *layout) string {
	switch e[0] {
	case "flt":
		return e[1].(string) // a float literal, spelled as it is to be read
	case "int":
		return strconv.Itoa(asInt(e[1]))
	case "str":
		return strconv.Quote(e[1].(string))
	case "bool":
		if e[1].(bool) {
			return "true"
		}
		return "false"
	case "nil":
		return "nil"
	case "sym":
		return e[1].(string)
	case "quote":
		return "(quote " + renderDatum(asNode(e[1])) + ")"
	case "arr":
		return "[" + join(l, renderAll(asSeq(e[1]), l)...) + "]"
	case "def", "set":
		return "(" + join(l, e[0].(string), e[1].(string), render(asNode(e[2]), l)) + ")"
	case "let", "letseq":
		bs := []string{}
		for _, b := range asSeq(e[1]) {
			bb := asSeq(b)
			bs = append(bs, bb[0].(string), render(asNode(bb[1]), l))
		}
		parts := append([]string{e[0].(string), "[" + join(l, bs...) + "]"}, renderAll(asSeq(e[2]), l)...)
		return "(" + join(l, parts...) + ")"
	case "scope":
		return "(" + join(l, append([]string{"newScope"}, renderAll(asSeq(e[1]), l)...)...) + ")"
	case "begin":
		return "(" + join(l, append([]string{"begin"}, renderAll(asSeq(e[1]), l)...)...) + ")"
	case "cond":
		parts := []string{"cond"}
		for _, c := range asSeq(e[1]) {
			cc := asSeq(c)
			parts = append(parts, render(asNode(cc[0]), l), render(asNode(cc[1]), l))
		}
		parts = append(parts, render(asNode(e[2]), l))
		return "(" + join(l, parts...) + ")"
	case "and", "or":
		return "(" + join(l, append([]string{e[0].(string)}, renderAll(asSeq(e[1]), l)...)...) + ")"
	case "for":
		parts := []string{"for"}
		if lbl := e[1].(string); lbl != "" {
			parts = append(parts, lbl+":")
		}
		ctl := "[" + join(l, render(asNode(e[2]), l), render(asNode(e[3]), l), render(asNode(e[4]), l)) + "]"
		parts = append(parts, ctl)
		parts = append(parts, renderAll(asSeq(e[5]), l)...)
		return "(" + join(l, parts...) + ")"
	case "break", "continue":
		if lbl := e[1].(string); lbl != "" {
			return "(" + e[0].(string) + " " + lbl + ":)"
		}
		return "(" + e[0].(string) + ")"
	case "fn":
		parts := []string{"fn", paramList(asSeq(e[1]), e[2].(string))}
		parts = append(parts, renderAll(asSeq(e[3]), l)...)
		return "(" + join(l, parts...) + ")"
	case "defn":
		parts := []string{"defn", e[1].(string), paramList(asSeq(e[2]), e[3].(string))}
		parts = append(parts, renderAll(asSeq(e[4]), l)...)
		return "(" + join(l, parts...) + ")"
	case "call":
		parts := []string{render(asNode(e[1]), l)}
		parts = append(parts, renderAll(asSeq(e[2]), l)...)
		return "(" + join(l, parts...) + ")"
	case "assert":
		return "(" + join(l, "assert", render(asNode(e[1]), l)) + ")"
	case "eval":
		return "(" + join(l, "eval", "(quote "+render(asNode(e[1]), nil)+")") + ")"
	case "sq":
		return "^" + renderSq(asNode(e[1]), l)
	case "dot":
		return dotPath(e[1], e[2])
	case "setdot":
		return "(" + join(l, "set", dotPath(e[1], e[2]), render(asNode(e[3]), l)) + ")"
	case "ehash":
		return "{}"
	}
	panic(fmt.Sprintf("render: unknown node %v", e[0]))
}

// templates of ["sq", T]: ["atom",datum] ["unq",e] ["splice",e] ["list",[T..]] ["arr",[T..]]
func renderSq(t node, l *layout) string {
	switch t[0] {
	case "atom":
		return renderDatum(asNode(t[1]))
	case "unq":
		return "~" + render(asNode(t[1]), l)
	case "splice":
		return "~@" + render(asNode(t[1]), l)
	}
	parts := []string{}
	for _, x := range asSeq(t[1]) {
		parts = append(parts, renderSq(asNode(x), l))
	}
	if t[0] == "arr" {
		return "[" + strings.Join(parts, " ") + "]"
	}
	return "(" + strings.Join(parts, " ") + ")"
}

func nSq(t node) node        { return node{"sq", t} }
func tqAtom(d node) node     { return node{"atom", d} }
func tqUnq(e node) node      { return node{"unq", e} }
func tqSplice(e node) node   { return node{"splice", e} }
func tqList(ts ...node) node { return node{"list", seq(ts)} }
func tqArr(ts ...node) node  { return node{"arr", seq(ts)} }

// renderProgram prints top-level forms, one per line, ending in a newline.
func renderProgram(forms []node, l *layout) string {
	var b strings.Builder
	for _, f := range forms {
		b.WriteString(render(f, l))
		b.WriteString("\n")
	}
	return b.String()
}

// size counts AST nodes (arrays whose head is a kind name).
func size(e any) int {
	v, ok := e.([]any)
	if !ok {
		return 0
	}
	n := 0
	if len(v) > 0 {
		if _, isHead := v[0].(string); isHead {
			n = 1
		}
	}
	for _, x := range v {
		n += size(x)
	}
	return n
}

// ---------------------------------------------------------------- infix rendering
// The same AST rendered with the infix surface syntax where one exists ({a + b},
// x := e, x = e, if/else, go-style for, break/continue); everything else is an
// s-expression operand, which infix blocks accept.

var infixBinary = map[string]bool{"+": true, "-": true, "*": true, "==": true, "!=": true, "<": true, ">": true, "<=": true, ">=": true,
	"mod": true, "**": true}

func infixExpr(e node) string { return infixExprC(e, false) }

// infixSelector: the infix spelling of an element or field read through a variable, a[i] for
// (aget a i) and h.k for (hget h (quote k)); "" when the form has none.
func infixSelector(name string, args []any) string {
	if len(args) != 2 || asNode(args[0])[0] != "sym" {
		return ""
	}
	recv := asNode(args[0])[1].(string)
	idx := asNode(args[1])
	switch {
	case name == "aget" && (idx[0] == "sym" || (idx[0] == "int" && asInt(idx[1]) >= 0)):
		return recv + "[" + render(idx, nil) + "]"
	case name == "hget" && idx[0] == "quote" && asNode(idx[1])[0] == "sym":
		return recv + "." + asNode(idx[1])[1].(string)
	}
	return ""
}

// infixExprC: used says that the value of e is consumed where it stands by an operator, a test or an
// assignment. The interpreter keeps a[i] and h.k as references until something consumes them, so
// only there does the infix spelling stand for the element itself; elsewhere the element is read
// with the prefix form.
func infixExprC(e node, used bool) string {
	switch e[0] {
	case "int", "sym":
		return render(e, nil)
	case "call":
		callee := asNode(e[1])
		args := asSeq(e[2])
		if callee[0] == "sym" {
			name := callee[1].(string)
			if infixBinary[name] && len(args) == 2 {
				return "{" + infixExprC(asNode(args[0]), true) + " " + name + " " + infixExprC(asNode(args[1]), true) + "}"
			}
			if name == "not" && len(args) == 1 {
				return "{not " + infixExprC(asNode(args[0]), true) + "}"
			}
			if used {
				if t := infixSelector(name, args); t != "" {
					return t
				}
			}
		}
	case "and", "or":
		es := asSeq(e[1])
		if len(es) == 2 {
			return "{" + infixExprC(asNode(es[0]), used) + " " + e[0].(string) + " " + infixExprC(asNode(es[1]), used) + "}"
		}
	case "cond":
		cs := asSeq(e[1])
		if len(cs) == 1 {
			c := asSeq(cs[0])
			return "{if " + infixExprC(asNode(c[0]), true) + " { " + infixStmt(asNode(c[1])) + " } else { " + infixStmt(asNode(e[2])) + " }}"
		}
	case "ehash":
		return "(hash)" // inside an infix block {} is an empty block
	}
	return render(e, nil)
}

// unbrace drops the grouping braces of an expression that stands alone (a for-header clause)
func unbrace(t string) string {
	if len(t) >= 2 && t[0] == '{' && t[len(t)-1] == '}' && !strings.HasPrefix(t, "{if ") {
		depth := 0
		for i, ch := range t {
			if ch == '{' {
				depth++
			} else if ch == '}' {
				depth--
				if depth == 0 && i != len(t)-1 {
					return t
				}
			}
		}
		return t[1 : len(t)-1]
	}
	return t
}

func infixStmt(e node) string {
	switch e[0] {
	case "set": // (both `x = e` and `x := e` lower to set; def has no infix form)
		return e[1].(string) + " = " + infixExprC(asNode(e[2]), true)
	case "setdot":
		return dotPath(e[1], e[2]) + " = " + infixExprC(asNode(e[3]), true)
	case "break", "continue":
		if e[1].(string) == "" {
			return e[0].(string)
		}
	case "begin":
		var parts []string
		for _, x := range asSeq(e[1]) {
			parts = append(parts, infixStmt(asNode(x)))
		}
		if len(parts) > 0 {
			return "{ " + strings.Join(parts, "; ") + " }"
		}
	}
	return infixExpr(e)
}

// renderInfixProgram prints every top-level form as one infix block.
func renderInfixProgram(forms []node) string {
	var b strings.Builder
	for _, f := range forms {
		b.WriteString("{" + infixStmt(f) + "}\n")
	}
	return b.String()
}
