package main

// The harness struct family of family "gointerop" (C10).  Declared once here
// and mirrored as constants in spec/GoInterop.tla (operator Structs): every
// field kind the converter supports, in every position (value field, pointer
// field, interface field, slice element, map value, embedded struct), with
// json tags and with untagged fields matched by their capitalised name.
//
// The types are registered with the process-global zygo.GoStructRegistry once
// per process (giRegister), before the first interpreter is created, so that
// StandardSetup binds the record constructors (zvleaf ...) as globals.

import (
	"sync"
	"time"

	zygo "github.com/glycerine/zygomys/v9/zygo"
)

// ZvAny is the interface of the interface-typed fields; every struct of the
// family implements it through a pointer receiver.
type ZvAny interface{ ZvTag() string }

// ZvLeaf: the basic kinds.
type ZvLeaf struct {
	I     int     `json:"i"`
	I64   int64   `json:"i64"`
	I32   int32   `json:"i32"`
	F     float64 `json:"f"`
	S     string  `json:"s"`
	B     bool    `json:"b"`
	Plain string  // no json tag: matched by the field name, first letter capitalised
}

// ZvOdd: kinds at the edge of the converter's support.
type ZvOdd struct {
	I8  int8    `json:"i8"`
	U   uint    `json:"u"`
	U8  uint8   `json:"u8"`
	F32 float32 `json:"f32"`
	R   rune    `json:"r"`
	// more kinds, named scalar types, a duration
	I16  int16         `json:"i16"`
	U32  uint32        `json:"u32"`
	U64  uint64        `json:"u64"`
	D    time.Duration `json:"d"`
	Col  ZvColor       `json:"col"`
	Temp ZvCelsius     `json:"temp"`
}

type ZvColor string
type ZvCelsius float64

// ZvPriv has an unexported field: the converter fills it (unexportHelper), so
// it belongs to the struct's record on the way back as well.
type ZvPriv struct {
	Name  string `json:"name"`
	cache int64
	N     int `json:"n"`
}

func (p *ZvPriv) ZvTag() string { return "zvpriv" }

// ZvBox: containers of basic kinds, byte slices, maps, times.
type ZvBox struct {
	Ints  []int              `json:"ints"`
	Strs  []string           `json:"strs"`
	Flts  []float64          `json:"flts"`
	Raw   []byte             `json:"raw"`
	When  time.Time          `json:"when"`
	SS    map[string]string  `json:"ss"`
	SF    map[string]float64 `json:"sf"`
	IF    map[int64]float64  `json:"nf"`
	Grid  [][]int            `json:"grid"`
	Times []time.Time        `json:"times"`
}

// ZvBase is embedded (by value) in ZvNode and ZvWrap.
type ZvBase struct {
	ID   int    `json:"id"`
	Note string // untagged, reached through the embedding
}

// ZvDeep is embedded in ZvBase2, which is embedded in ZvWrap: two levels.
type ZvDeep struct {
	Deep int `json:"deep"`
}

type ZvBase2 struct {
	ZvDeep
	Mid string `json:"mid"`
}

// ZvNode: references to other records in every position.
type ZvNode struct {
	ZvBase
	Name  string           `json:"name"`
	Val   ZvLeaf           `json:"val"`   // nested struct by value
	Ptr   *ZvLeaf          `json:"ptr"`   // nested struct pointer
	Next  *ZvNode          `json:"next"`  // recursive pointer
	Any   ZvAny            `json:"any"`   // interface holding a registered struct
	Kids  []*ZvNode        `json:"kids"`  // slice of struct pointers
	Anys  []ZvAny          `json:"anys"`  // slice of interfaces
	Vals  []ZvLeaf         `json:"vals"`  // slice of struct values
	ByKey map[string]ZvAny `json:"bykey"` // map to interfaces
}

// ZvWrap: embedded struct that itself embeds, embedded struct holding references.
type ZvWrap struct {
	ZvBase2
	ZvNode `json:"node"`
	Tail   string `json:"tail"`
}

// ZvPair: a struct the library can hand back (pointer, interface, string, bytes).
type ZvPair struct {
	A    *ZvLeaf `json:"a"`
	B    ZvAny   `json:"b"`
	L    string  `json:"l"`
	Data []byte  `json:"data"`
}

// ZvEmb: an embedded struct and nothing that could be nil.
type ZvEmb struct {
	ZvBase
	X string `json:"x"`
	Y int    `json:"y"`
}

// ZvTower: four levels of anonymous embedding (ZvTower > ZvL2 > ZvL3 > ZvL4);
// the innermost struct has several fields of one kind, one of another kind and
// a pointer; every intermediate level has a field of its own.  (The field map
// of the converter records an embedded PATH per field: paths of length 4 only
// arise here.)
type ZvL4 struct {
	D1 int     `json:"d1"`
	D2 int     `json:"d2"`
	DS string  `json:"ds"`
	D3 int     `json:"d3"`
	DP *ZvLeaf `json:"dp"`
}

type ZvL3 struct {
	ZvL4
	C1 string `json:"c1"`
	C2 int    `json:"c2"`
}

type ZvL2 struct {
	ZvL3
	B1 int `json:"b1"`
}

type ZvTower struct {
	ZvL2
	A1  string `json:"a1"`
	Ref ZvAny  `json:"ref"`
}

// ZvTwin is registered under TWO names, "zvtwin" and "ZvTwin" (as the library
// registers nestouter/NestOuter and nestinner/NestInner); ZvCrew carries it
// through a pointer and an interface, and a library struct that has two names.
type ZvTwin struct {
	N string `json:"n"`
	K int64  `json:"k"`
}

type ZvCrew struct {
	Call string          `json:"call"`
	Cap  *ZvTwin         `json:"cap"`
	Rel  ZvAny           `json:"rel"`
	Nest *zygo.NestOuter `json:"nest"`
}

func (p *ZvTwin) ZvTag() string  { return "zvtwin" }
func (p *ZvCrew) ZvTag() string  { return "zvcrew" }
func (p *ZvTower) ZvTag() string { return "zvtower" }

// Self: the record is the RECEIVER of the method, i.e. it is converted
// implicitly by (_method r Self:) unless a Go object is already attached to it.
func (p *ZvLeaf) Self() *ZvLeaf   { giLastArg = p; return p }
func (p *ZvOdd) Self() *ZvOdd     { giLastArg = p; return p }
func (p *ZvBox) Self() *ZvBox     { giLastArg = p; return p }
func (p *ZvNode) Self() *ZvNode   { giLastArg = p; return p }
func (p *ZvPair) Self() *ZvPair   { giLastArg = p; return p }
func (p *ZvTower) Self() *ZvTower { giLastArg = p; return p }
func (p *ZvCrew) Self() *ZvCrew   { giLastArg = p; return p }
func (p *ZvLeaf) ZvTag() string   { return "zvleaf" }
func (p *ZvPair) ZvTag() string   { return "zvpair" }
func (p *ZvEmb) ZvTag() string    { return "zvemb" }
func (p *ZvOdd) ZvTag() string    { return "zvodd" }
func (p *ZvBox) ZvTag() string    { return "zvbox" }
func (p *ZvNode) ZvTag() string   { return "zvnode" }
func (p *ZvWrap) ZvTag() string   { return "zvwrap" }

// ZvHost carries the identity methods: (_method host EchoLeaf: r) converts r
// to its Go struct (the implicit conversion of a method argument) and hands the
// same pointer back, which the library turns into a record again.
type ZvHost struct {
	N int `json:"n"`
}

func (h *ZvHost) EchoLeaf(x *ZvLeaf) *ZvLeaf { giLastArg = x; return x }
func (h *ZvHost) EchoOdd(x *ZvOdd) *ZvOdd    { giLastArg = x; return x }
func (h *ZvHost) EchoBox(x *ZvBox) *ZvBox    { giLastArg = x; return x }
func (h *ZvHost) EchoNode(x *ZvNode) *ZvNode { giLastArg = x; return x }
func (h *ZvHost) EchoWrap(x *ZvWrap) *ZvWrap { giLastArg = x; return x }
func (h *ZvHost) EchoPair(x *ZvPair) *ZvPair { giLastArg = x; return x }
func (h *ZvHost) EchoEmb(x *ZvEmb) *ZvEmb    { giLastArg = x; return x }
func (h *ZvHost) EchoPriv(x *ZvPriv) *ZvPriv { giLastArg = x; return x }

// AnyLeaf hands its argument back through a result of INTERFACE type, TakeAny
// takes and returns an interface, PairA hands back a pointer FIELD of its
// argument (nil when the record has none).
func (h *ZvHost) AnyLeaf(x *ZvLeaf) ZvAny    { giLastArg = x; return x }
func (h *ZvHost) TakeAny(x ZvAny) ZvAny      { giLastArg = x; return x }
func (h *ZvHost) PairA(x *ZvPair) *ZvLeaf    { giLastArg = x; return x.A }
func (h *ZvHost) EchoTwin(x *ZvTwin) *ZvTwin { giLastArg = x; return x }
func (h *ZvHost) EchoCrew(x *ZvCrew) *ZvCrew { giLastArg = x; return x }
func (h *ZvHost) EchoNest(x *zygo.NestOuter) *zygo.NestOuter {
	giLastArg = x
	return x
}
func (h *ZvHost) EchoTower(x *ZvTower) *ZvTower {
	giLastArg = x
	return x
}

// giLastArg is the Go value the last Echo method received (the result of the
// implicit conversion of the method argument).
var giLastArg any

type giTypeInfo struct {
	name    string // registered record type name
	goName  string // Go type name (as dumped)
	factory func() any
	echo    string
	second  string // a second name the type is registered under ("" if none)
}

var giTypes = []giTypeInfo{
	{"zvleaf", "ZvLeaf", func() any { return &ZvLeaf{} }, "EchoLeaf", ""},
	{"zvodd", "ZvOdd", func() any { return &ZvOdd{} }, "EchoOdd", ""},
	{"zvbox", "ZvBox", func() any { return &ZvBox{} }, "EchoBox", ""},
	{"zvnode", "ZvNode", func() any { return &ZvNode{} }, "EchoNode", ""},
	{"zvwrap", "ZvWrap", func() any { return &ZvWrap{} }, "EchoWrap", ""},
	{"zvpair", "ZvPair", func() any { return &ZvPair{} }, "EchoPair", ""},
	{"zvemb", "ZvEmb", func() any { return &ZvEmb{} }, "EchoEmb", ""},
	{"zvtower", "ZvTower", func() any { return &ZvTower{} }, "EchoTower", ""},
	{"zvtwin", "ZvTwin", func() any { return &ZvTwin{} }, "EchoTwin", "ZvTwin"},
	{"zvcrew", "ZvCrew", func() any { return &ZvCrew{} }, "EchoCrew", ""},
	{"zvpriv", "ZvPriv", func() any { return &ZvPriv{} }, "EchoPriv", ""},
	{"zvhost", "ZvHost", func() any { return &ZvHost{} }, "", ""},
}

var giRegisterOnce sync.Once

// giRegister registers the family (and the library's demo structs) with the
// process-global registry; must run before the first interpreter is created.
func giRegister() {
	giRegisterOnce.Do(func() {
		zygo.RegisterDemoStructs()
		for _, t := range giTypes {
			f := t.factory
			rt := &zygo.RegisteredType{
				GenDefMap: true,
				Factory: func(env *zygo.Zlisp, h *zygo.SexpHash) (interface{}, error) {
					return f(), nil
				}}
			if t.second != "" {
				zygo.GoStructRegistry.RegisterUserdef(rt, true, t.name, t.second)
			} else {
				zygo.GoStructRegistry.RegisterUserdef(rt, true, t.name)
			}
		}
	})
}

// the palette of time values, bound as globals tm0.. in every interpreter
var giTimes = []time.Time{
	time.Date(2001, 2, 3, 4, 5, 6, 7, time.UTC),
	time.Date(1999, 12, 31, 23, 59, 59, 0, time.UTC),
	time.Unix(0, 0).UTC(),
}
