package main

// Family "pratt" (C06): infix blocks {...} on the real interpreter.
//
// Every case is one block, generated as a list of INTENDED tokens and
// rendered to text with a spacing mode.  Recorded per case:
//   lexed  the token list the real reader delivered for the block
//          (quote {...}), classified back into the token vocabulary
//   tree   the statements (infixExpand {...}) returned; nested blocks are
//          expanded with the same real translator (zygo.InfixExpandArray)
//   ptext  an infix-free prefix program for the same tokens, produced by a
//          small precedence-climbing ptRenderer in this file.  It is NOT
//          trusted: ptree is what the real reader makes of it and the trace
//          specification checks ptree against its own expected tree.
//   val/eff/st     value, trace of the host function (tr x) and final values
//                  of the global variables after evaluating the block
//   pval/peff/pst  the same for the prefix program, from the same initial state
// spec/PrattTrace.tla decides every case with spec/Pratt.tla.

import (
	"encoding/json"
	"flag"
	"fmt"
	"strconv"
	"strings"

	zygo "github.com/glycerine/zygomys/v9/zygo"
)

// ---------------------------------------------------------------- tokens

type ptok struct {
	K   string // int sym path str bool nil chr uint flt call block op idx dot semi colon kw label | nl (render only)
	S   string // name (sym, path, str, op, dot, kw, label, call function); value of uint, flt as projected
	N   int64  // int, chr (code point)
	B   bool
	Sub []ptok // block / idx contents, call arguments
	Alt string // alternative spelling: of an operator (&& ||), an int (0x1F 0o17 0b11), a float (Inf for +Inf)
}

func ptInt(n int64) ptok              { return ptok{K: "int", N: n} }
func ptSym(s string) ptok             { return ptok{K: "sym", S: s} }
func ptPath(s string) ptok            { return ptok{K: "path", S: s} }
func ptStr(s string) ptok             { return ptok{K: "str", S: s} }
func ptBool(b bool) ptok              { return ptok{K: "bool", B: b} }
func ptChr(c rune) ptok               { return ptok{K: "chr", N: int64(c)} }
func ptUint(s string) ptok            { return ptok{K: "uint", S: s} }
func ptFlt(val, spelled string) ptok  { return ptok{K: "flt", S: val, Alt: spelled} }
func ptIntAs(n int64, sp string) ptok { return ptok{K: "int", N: n, Alt: sp} }
func ptOp(s string) ptok              { return ptok{K: "op", S: s} }
func ptKw(s string) ptok              { return ptok{K: "kw", S: s} }
func ptDot(s string) ptok             { return ptok{K: "dot", S: s} }
func ptLabel(s string) ptok           { return ptok{K: "label", S: s} }
func ptIdx(sub ...ptok) ptok          { return ptok{K: "idx", Sub: sub} }
func ptBlock(sub ...ptok) ptok        { return ptok{K: "block", Sub: sub} }
func ptCall(f string, a ...ptok) ptok { return ptok{K: "call", S: f, Sub: a} }

var (
	ptNil   = ptok{K: "nil"}
	ptInf   = ptFlt("+Inf", "Inf")
	ptSemi  = ptok{K: "semi"}
	ptColon = ptok{K: "colon"}
	ptNl    = ptok{K: "nl"}
)

func ptoksJSON(ts []ptok) []any {
	out := []any{}
	for _, t := range ts {
		if t.K == "nl" {
			continue
		}
		out = append(out, t.json())
	}
	return out
}

func (t ptok) json() any {
	switch t.K {
	case "int":
		return []any{"int", t.N}
	case "bool":
		return []any{"bool", t.B}
	case "chr":
		return []any{"chr", t.N}
	case "sym", "path", "str", "op", "dot", "kw", "label", "uint", "flt":
		return []any{t.K, t.S}
	case "call":
		return []any{"call", t.S, ptoksJSON(t.Sub)}
	case "block", "idx":
		return []any{t.K, ptoksJSON(t.Sub)}
	}
	return []any{t.K}
}

// ---------------------------------------------------------------- rendering

// spacing modes: tight (no space unless two tokens would fuse), spaced (spaces
// around binary and word operators, ; and ,), loose (a space in every gap),
// mixed (per operator: spaces on both sides or on neither, chosen by the rng).
type ptRenderer struct {
	mode      string
	r         *rng
	glueColon bool // do not separate a dotted path from a following ':' (slice-colon case)
}

func ptIsWordByte(c byte) bool {
	return c == '_' || c == '.' || (c >= '0' && c <= '9') || (c >= 'a' && c <= 'z') || (c >= 'A' && c <= 'Z')
}

func (t ptok) text(rd *ptRenderer) string {
	switch t.K {
	case "int":
		if t.Alt != "" {
			return t.Alt
		}
		return strconv.FormatInt(t.N, 10)
	case "bool":
		if t.B {
			return "true"
		}
		return "false"
	case "str":
		return strconv.Quote(t.S)
	case "nil":
		return "nil"
	case "chr":
		return "'" + string(rune(t.N)) + "'"
	case "uint":
		return t.S + "ULL"
	case "flt":
		if t.Alt != "" {
			return t.Alt
		}
		return t.S
	case "sym", "path", "dot", "kw":
		return t.S
	case "label":
		return t.S + ":"
	case "op":
		if t.Alt != "" {
			return t.Alt
		}
		return t.S
	case "semi":
		return ";"
	case "colon":
		return ":"
	case "nl":
		return "\n"
	case "call":
		parts := []string{t.S}
		for _, a := range t.Sub {
			parts = append(parts, a.text(rd))
		}
		return "(" + strings.Join(parts, " ") + ")"
	case "block":
		return rd.block(t.Sub)
	case "idx":
		return "[" + rd.seq(t.Sub) + "]"
	}
	return "?"
}

func (rd *ptRenderer) block(ts []ptok) string {
	body := rd.seq(ts)
	if rd.mode == "tight" || body == "" {
		return "{" + body + "}"
	}
	return "{ " + body + " }"
}

// mustSeparate: the two spellings would lex as something else when adjacent.
func (rd *ptRenderer) mustSeparate(a, b ptok, as, bs string) bool {
	if as == "" || bs == "" {
		return false
	}
	la, fb := as[len(as)-1], bs[0]
	if a.K == "nl" || b.K == "nl" {
		return false
	}
	if ptIsWordByte(la) && (ptIsWordByte(fb) || fb == '"' || fb == '\'') {
		return true
	}
	if la == '\'' && (ptIsWordByte(fb) || fb == '\'' || fb == '"') {
		return true
	}
	if a.K == "label" {
		return true
	}
	// '-' or '<' directly before a negative literal would read as -- and <-
	if a.K == "op" && (la == '-' || la == '<') && fb == '-' {
		return true
	}
	// a '-' directly after a word character, ) ] } or a quote is the subtraction operator
	if b.K == "int" && fb == '-' && !strings.ContainsRune(" \t\n([{,;:+-*/<>=!&|", rune(la)) {
		return true
	}
	// a dotted path swallows a directly following ':' (see slice-colon-lost-after-dotpath)
	if a.K == "path" && b.K == "colon" && !rd.glueColon {
		return true
	}
	return false
}

func (rd *ptRenderer) seq(ts []ptok) string {
	n := len(ts)
	texts := make([]string, n)
	around := make([]bool, n) // mixed mode: spaces on both sides of token i
	for i, t := range ts {
		texts[i] = t.text(rd)
		if rd.mode == "mixed" {
			around[i] = rd.r.bool()
		}
	}
	var sb strings.Builder
	for i := 0; i < n; i++ {
		sb.WriteString(texts[i])
		if i+1 == n {
			break
		}
		a, b := ts[i], ts[i+1]
		if a.K == "nl" || b.K == "nl" {
			continue
		}
		sp := false
		switch rd.mode {
		case "loose":
			sp = true
		case "spaced": // postfix tokens and ; : attach to the left, everything else is spaced
			sp = !(b.K == "idx" || b.K == "dot" || b.K == "semi" || b.K == "colon" || a.K == "colon" || (b.K == "op" && (b.S == "++" || b.S == "--" || b.S == ",")))
		case "mixed": // an operator has spaces on both sides or on neither; other gaps are free
			switch {
			case a.K == "op":
				sp = around[i]
			case b.K == "op":
				sp = around[i+1]
			default:
				sp = around[i]
			}
		}
		if sp || rd.mustSeparate(a, b, texts[i], texts[i+1]) {
			sb.WriteByte(' ')
		}
	}
	return sb.String()
}

func ptRenderBlock(ts []ptok, mode string, r *rng, glueColon bool) string {
	rd := &ptRenderer{mode: mode, r: r, glueColon: glueColon}
	return rd.block(ts) + "\n"
}

// ---------------------------------------------------------------- prefix ptRenderer (untrusted helper)

// A conventional precedence-climbing parser over the intended tokens that
// prints the infix-free program.  Its output is validated per case by TLC
// (ptree must equal the expected full tree), never trusted.
type ptClimber struct {
	t []ptok
	i int
}

var ptClimbPrec = map[string]int{
	"=": 10, ":=": 10, "+=": 10, "-=": 10, ",": 15, "and": 30, "or": 30,
	"==": 40, "!=": 40, "<": 40, "<=": 40, ">": 40, ">=": 40,
	"+": 50, "-": 50, "*": 60, "/": 60, "mod": 60, "**": 65,
}
var ptClimbRight = map[int]bool{10: true, 30: true, 65: true}

func ptClimbHead(op string) string {
	switch op {
	case "=", ":=":
		return "set"
	case ",":
		return "comma"
	}
	return op
}

func ptNoNl(ts []ptok) []ptok {
	out := []ptok{}
	for _, t := range ts {
		if t.K != "nl" {
			out = append(out, t)
		}
	}
	return out
}

func (c *ptClimber) peek() (ptok, bool) {
	if c.i < len(c.t) {
		return c.t[c.i], true
	}
	return ptok{}, false
}

func ptPrefixAtom(t ptok) string {
	switch t.K {
	case "int":
		return strconv.FormatInt(t.N, 10)
	case "bool":
		if t.B {
			return "true"
		}
		return "false"
	case "str":
		return strconv.Quote(t.S)
	case "nil", "chr", "uint", "flt":
		return t.text(nil)
	case "sym", "path":
		return t.S
	case "call":
		parts := []string{t.S}
		for _, a := range t.Sub {
			parts = append(parts, ptPrefixAtom(a))
		}
		return "(" + strings.Join(parts, " ") + ")"
	case "block":
		return ptPrefixBlock(t.Sub)
	}
	return "#bad-atom-" + t.K
}

func ptPrefixBlock(ts []ptok) string {
	ss := ptPrefixStmts(ts)
	if len(ss) == 0 {
		return "()"
	}
	return "(begin " + strings.Join(ss, " ") + ")"
}

func ptPrefixStmts(ts []ptok) []string {
	c := &ptClimber{t: ptNoNl(ts)}
	out := []string{}
	for {
		t, ok := c.peek()
		if !ok {
			return out
		}
		if t.K == "semi" {
			c.i++
			continue
		}
		out = append(out, c.stmt())
	}
}

func ptPrefixOne(ts []ptok) string {
	c := &ptClimber{t: ptNoNl(ts)}
	s := c.expr(0)
	if c.i != len(c.t) {
		return "#not-one-expression"
	}
	return s
}

func (c *ptClimber) stmt() string {
	t, _ := c.peek()
	switch {
	case t.K == "kw" && t.S == "if":
		return c.ifStmt()
	case t.K == "kw" && t.S == "for":
		c.i++
		return c.forStmt("")
	case t.K == "label":
		c.i += 2
		return c.forStmt(t.S)
	case t.K == "kw" && (t.S == "break" || t.S == "continue"):
		return c.ctl()
	}
	return c.expr(0)
}

// ctl: break / continue; a symbol after it is the label when no operator or postfix extends it.
func (c *ptClimber) ctl() string {
	t, _ := c.peek()
	c.i++
	if n, ok := c.peek(); ok && n.K == "sym" {
		lone := true
		if c.i+1 < len(c.t) {
			m := c.t[c.i+1]
			lone = !(m.K == "op" && m.S != "not") && m.K != "idx" && m.K != "dot"
		}
		if lone {
			c.i++
			return "(" + t.S + " " + n.S + ")"
		}
	}
	return "(" + t.S + ")"
}

// arm: an arm of if/else: a block or, without braces, one expression or break/continue.
func (c *ptClimber) arm() string {
	t, ok := c.peek()
	switch {
	case !ok:
		return "#missing-arm"
	case t.K == "block":
		c.i++
		return ptPrefixAtom(t)
	case t.K == "kw" && (t.S == "break" || t.S == "continue"):
		return c.ctl()
	}
	return c.expr(0)
}

func (c *ptClimber) ifStmt() string {
	c.i++ // if
	cond := c.expr(0)
	th := c.arm()
	els := "()" // the empty list reads as nil
	if n, ok := c.peek(); ok && n.K == "kw" && n.S == "else" {
		c.i++
		if m, ok := c.peek(); ok && m.K == "kw" && m.S == "if" {
			els = c.ifStmt()
		} else {
			els = c.arm()
		}
	}
	return "(cond " + cond + " " + th + " " + els + ")"
}

func (c *ptClimber) forStmt(label string) string {
	var hd []ptok
	for c.i < len(c.t) && c.t[c.i].K != "block" {
		hd = append(hd, c.t[c.i])
		c.i++
	}
	body := c.t[c.i]
	c.i++
	segs := [][]ptok{{}}
	for _, t := range hd {
		if t.K == "semi" {
			segs = append(segs, []ptok{})
			continue
		}
		segs[len(segs)-1] = append(segs[len(segs)-1], t)
	}
	clause := func(s []ptok, empty string) string {
		if len(s) == 0 {
			return empty
		}
		return ptPrefixOne(s)
	}
	var ctl string
	switch len(segs) {
	case 1:
		ctl = "[() " + clause(segs[0], "true") + " ()]"
	case 3:
		ctl = "[" + clause(segs[0], "()") + " " + clause(segs[1], "true") + " " + clause(segs[2], "()") + "]"
	default:
		ctl = "#bad-for-header"
	}
	s := "(for "
	if label != "" {
		s += label + ": "
	}
	s += ctl
	if len(ptNoNl(body.Sub)) > 0 {
		s += " " + ptPrefixAtom(body)
	}
	return s + ")"
}

// expr parses operators whose precedence is at least min.
func (c *ptClimber) expr(min int) string {
	t, ok := c.peek()
	if !ok {
		return "#missing-operand"
	}
	c.i++
	var lhs string
	if t.K == "op" && t.S == "not" {
		lhs = "(not " + c.expr(71) + ")"
	} else {
		lhs = ptPrefixAtom(t)
	}
	for {
		t, ok := c.peek()
		if !ok {
			return lhs
		}
		switch {
		case t.K == "idx":
			if 80 < min {
				return lhs
			}
			c.i++
			lhs = "(arrayidx " + lhs + " " + ptPrefixSelector(t.Sub) + ")"
		case t.K == "dot":
			if 80 < min {
				return lhs
			}
			c.i++
			lhs = "(hashidx " + lhs + " " + t.S + ")"
		case t.K == "op" && (t.S == "++" || t.S == "--"):
			if 10 < min {
				return lhs
			}
			c.i++
			lhs = "(" + t.S + " " + lhs + ")"
		case t.K == "op" && ptClimbPrec[t.S] > 0:
			pr := ptClimbPrec[t.S]
			if pr < min {
				return lhs
			}
			c.i++
			var rhs string
			if ptClimbRight[pr] {
				rhs = c.expr(pr)
			} else {
				rhs = c.expr(pr + 1)
			}
			lhs = "(" + ptClimbHead(t.S) + " " + lhs + " " + rhs + ")"
		default:
			return lhs
		}
	}
}

func ptPrefixSelector(sel []ptok) string {
	sel = ptNoNl(sel)
	colon := -1
	for i, t := range sel {
		if t.K == "colon" {
			colon = i
			break
		}
	}
	if colon < 0 {
		return "[" + ptPrefixOne(sel) + "]"
	}
	parts := []string{}
	if colon > 0 {
		parts = append(parts, ptPrefixOne(sel[:colon]))
	}
	parts = append(parts, ":")
	if colon+1 < len(sel) {
		parts = append(parts, ptPrefixOne(sel[colon+1:]))
	}
	return "[" + strings.Join(parts, " ") + "]"
}

// ---------------------------------------------------------------- observation

var prattOps = map[string]bool{
	"=": true, ":=": true, "+=": true, "-=": true, "++": true, "--": true, "and": true, "or": true, "not": true,
	"==": true, "!=": true, "<": true, "<=": true, ">": true, ">=": true,
	"+": true, "-": true, "*": true, "/": true, "mod": true, "**": true,
}
var prattKws = map[string]bool{"if": true, "else": true, "for": true, "break": true, "continue": true}

type prattDriver struct {
	env     *zygo.Zlisp
	traced  []any
	initial []string // projections of the variables right after the reset
	bound   bool     // the variables exist in the current interpreter
}

// the global variables every block runs against and their initial values:
//
//	a=3 b=5 c=2 d=7 p=true q=false i=0 j=0 v=[10 20 30 40] s=[5 6 7 8] w=[[1 2] [3 4]]
//	u=[{x:7}] h={x:1 k:2 y:{z:5}}
var prattVars = []string{"a", "b", "c", "d", "p", "q", "i", "j", "v", "s", "w", "u", "h"}

// initialValue builds a fresh initial value of variable k.
func (d *prattDriver) initialValue(k int) zygo.Sexp {
	env := d.env
	in := func(n int64) zygo.Sexp { return &zygo.SexpInt{Val: n} }
	arr := func(xs ...zygo.Sexp) zygo.Sexp { return &zygo.SexpArray{Val: xs, Env: env} }
	hash := func(kv ...zygo.Sexp) zygo.Sexp {
		h, err := zygo.MakeHash(kv, "hash", env)
		if err != nil {
			fatal("MakeHash: %v", err)
		}
		return h
	}
	key := func(n string) zygo.Sexp { return env.MakeSymbol(n) }
	switch prattVars[k] {
	case "a":
		return in(3)
	case "b":
		return in(5)
	case "c":
		return in(2)
	case "d":
		return in(7)
	case "p":
		return &zygo.SexpBool{Val: true}
	case "q":
		return &zygo.SexpBool{Val: false}
	case "i", "j":
		return in(0)
	case "v":
		return arr(in(10), in(20), in(30), in(40))
	case "s":
		return arr(in(5), in(6), in(7), in(8))
	case "w":
		return arr(arr(in(1), in(2)), arr(in(3), in(4)))
	case "u":
		return arr(hash(key("x"), in(7)))
	}
	return hash(key("x"), in(1), key("k"), in(2), key("y"), hash(key("z"), in(5)))
}

func newPrattDriver() *prattDriver {
	d := &prattDriver{}
	d.fresh()
	return d
}

func (d *prattDriver) fresh() {
	d.bound = false
	d.env = zygo.NewZlisp()
	d.env.StandardSetup()
	d.env.AddFunction("tr", func(env *zygo.Zlisp, name string, args []zygo.Sexp) (zygo.Sexp, error) {
		for _, a := range args {
			d.traced = append(d.traced, d.projVal(a))
		}
		if len(args) == 0 {
			return zygo.SexpNull, nil
		}
		return args[0], nil
	})
}

func (d *prattDriver) clean() bool {
	dd := depthsOf(d.env)
	return dd[0] == 0 && dd[1] == 1 && dd[2] == 0 && dd[3] == 0
}

// projVal: value projection; array/hash selectors are read through.
func (d *prattDriver) projVal(x zygo.Sexp) any {
	switch v := x.(type) {
	case *zygo.SexpArraySelector:
		r, err := v.RHS(d.env)
		if err != nil {
			return []any{"selerr"}
		}
		return []any{"sel", proj(d.env, r, 0)}
	case *zygo.SexpHashSelector:
		r, err := v.RHS(d.env)
		if err != nil {
			return []any{"selerr"}
		}
		return []any{"sel", proj(d.env, r, 0)}
	}
	return proj(d.env, x, 0)
}

func (d *prattDriver) outcome(o outcome) any {
	switch o.Kind {
	case "val":
		return []any{"val", d.projVal(o.Val)}
	case "err":
		return []any{"err"}
	}
	return []any{o.Kind}
}

// eval evaluates text from the reset state: (value, effects, final state)
func (d *prattDriver) eval(text string) (any, any, any) {
	if !d.clean() {
		d.fresh()
	}
	if !d.reset() {
		d.fresh()
		if !d.reset() {
			fatal("reset failed")
		}
	}
	d.traced = []any{}
	o := d.safe(text)
	val := d.outcome(o)
	eff := d.traced
	d.traced = []any{}
	var st any
	if o.Kind == "panic" || !d.clean() {
		st = []any{"unknown"}
		d.fresh()
	} else {
		st = d.stateDelta()
	}
	return val, eff, st
}

// stateDelta lists the global variables whose value differs from the value the reset gives them.
func (d *prattDriver) stateDelta() any {
	cur := d.readVars()
	if cur == nil {
		return []any{"unknown"}
	}
	out := []any{}
	for k, name := range prattVars {
		if cur[k] != d.initial[k] {
			var v any
			json.Unmarshal([]byte(cur[k]), &v)
			out = append(out, []any{name, v})
		}
	}
	return []any{"changed", out}
}

// reset binds every global variable whose value differs from its initial value to a fresh
// initial value (through the embedding API: a (def u [(hash ...)]) over an existing binding
// panics in the interpreter, and no text has to be parsed).
func (d *prattDriver) reset() bool {
	if !d.clean() {
		return false
	}
	if d.initial == nil || !d.bound {
		for k := range prattVars {
			d.env.AddGlobal(prattVars[k], d.initialValue(k))
		}
		d.bound = true
		if d.initial == nil {
			d.initial = d.readVars()
		}
		return d.initial != nil
	}
	cur := d.readVars()
	if cur == nil {
		return false
	}
	for k := range prattVars {
		if cur[k] != d.initial[k] {
			d.env.AddGlobal(prattVars[k], d.initialValue(k))
		}
	}
	return true
}

func (d *prattDriver) readVars() (out []string) {
	defer func() {
		if r := recover(); r != nil {
			out = nil
		}
	}()
	out = make([]string, len(prattVars))
	for k, name := range prattVars {
		x, ok := d.env.FindObject(name)
		if !ok {
			out[k] = "[\"unbound\"]"
			continue
		}
		b, _ := json.Marshal(d.projVal(x))
		out[k] = string(b)
	}
	return out
}

// safe: evalSafe plus recovery of panics raised while projecting
func (d *prattDriver) safe(text string) (o outcome) {
	defer func() {
		if r := recover(); r != nil {
			o = outcome{Kind: "panic", Err: fmt.Sprint(r)}
		}
	}()
	return evalSafe(d.env, text)
}

// classify maps a token delivered by the real reader back to the vocabulary.
func (d *prattDriver) classify(x zygo.Sexp) any {
	switch v := x.(type) {
	case *zygo.SexpInt:
		return projInt(v.Val)
	case *zygo.SexpBool:
		return []any{"bool", v.Val}
	case *zygo.SexpStr:
		return []any{"str", v.S}
	case *zygo.SexpSentinel:
		if v == zygo.SexpNull {
			return []any{"nil"}
		}
	case *zygo.SexpChar:
		return []any{"chr", int64(v.Val)}
	case *zygo.SexpUint64:
		return []any{"uint", strconv.FormatUint(v.Val, 10)}
	case *zygo.SexpFloat:
		return []any{"flt", fmtFloat(v.Val)}
	case *zygo.SexpSymbol:
		n := v.Name()
		switch {
		case prattOps[n]:
			return []any{"op", n}
		case prattKws[n]:
			return []any{"kw", n}
		case n == ":":
			return []any{"colon"}
		case strings.HasPrefix(n, ".") && len(n) > 1:
			return []any{"dot", n}
		case strings.Contains(n, "."):
			return []any{"path", n}
		}
		return []any{"sym", n} // a label is a symbol with an unexported colon flag
	case *zygo.SexpComma:
		return []any{"op", ","}
	case *zygo.SexpSemicolon:
		return []any{"semi"}
	case *zygo.SexpArray:
		return []any{"idx", d.classifyAll(v.Val)}
	case *zygo.SexpHash:
		if len(v.KeyOrder) == 0 {
			return []any{"block", []any{}}
		}
		return []any{"other", "hash"}
	case *zygo.SexpPair:
		if raw, ok := ptInfixBody(v); ok {
			return []any{"block", d.classifyAll(raw)}
		}
		if hs, ok := v.Head.(*zygo.SexpSymbol); ok {
			args := []zygo.Sexp{}
			var cur zygo.Sexp = v.Tail
			for {
				pp, ok := cur.(*zygo.SexpPair)
				if !ok {
					break
				}
				args = append(args, pp.Head)
				cur = pp.Tail
			}
			return []any{"call", hs.Name(), d.classifyAll(args)}
		}
	}
	return []any{"other", fmt.Sprintf("%T", x)}
}

func (d *prattDriver) classifyAll(xs []zygo.Sexp) []any {
	out := []any{}
	for _, x := range xs {
		out = append(out, d.classify(x))
	}
	return out
}

// ptInfixBody recognises (infix [tokens...]) / (infix).
func ptInfixBody(p *zygo.SexpPair) ([]zygo.Sexp, bool) {
	hs, ok := p.Head.(*zygo.SexpSymbol)
	if !ok || hs.Name() != "infix" {
		return nil, false
	}
	tail, ok := p.Tail.(*zygo.SexpPair)
	if !ok {
		return []zygo.Sexp{}, true
	}
	arr, ok := tail.Head.(*zygo.SexpArray)
	if !ok {
		return nil, false
	}
	return arr.Val, true
}

// projTree projects a translated statement; a nested block is annotated with
// what the real translator makes of it.
func (d *prattDriver) projTree(x zygo.Sexp, depth int) any {
	if depth > 40 {
		return []any{"deep"}
	}
	switch v := x.(type) {
	case *zygo.SexpHash:
		if len(v.KeyOrder) == 0 {
			return []any{"blockx", []any{}, []any{}}
		}
	case *zygo.SexpComma:
		return []any{"tok", "comma"}
	case *zygo.SexpSemicolon:
		return []any{"tok", "semi"}
	case *zygo.SexpArray:
		out := []any{}
		for _, e := range v.Val {
			out = append(out, d.projTree(e, depth+1))
		}
		return []any{"arr", out}
	case *zygo.SexpPair:
		if raw, ok := ptInfixBody(v); ok {
			toks := d.classifyAll(raw)
			if len(raw) == 0 {
				return []any{"blockx", toks, []any{}}
			}
			xs, err := d.expand(raw)
			if err != nil {
				return []any{"blockerr", toks}
			}
			ss := []any{}
			for _, s := range xs {
				ss = append(ss, d.projTree(s, depth+1))
			}
			return []any{"blockx", toks, ss}
		}
		out := []any{}
		var cur zygo.Sexp = v
		for {
			pp, ok := cur.(*zygo.SexpPair)
			if !ok {
				break
			}
			out = append(out, d.projTree(pp.Head, depth+1))
			cur = pp.Tail
		}
		if cur != zygo.SexpNull {
			return []any{"dotted"}
		}
		return []any{"list", out}
	}
	return proj(d.env, x, 0)
}

func (d *prattDriver) expand(raw []zygo.Sexp) (xs []zygo.Sexp, err error) {
	defer func() {
		if r := recover(); r != nil {
			err = fmt.Errorf("panic: %v", r)
		}
	}()
	return zygo.InfixExpandArray(d.env, &zygo.SexpArray{Val: raw, Env: d.env})
}

func ptListElems(x zygo.Sexp) []zygo.Sexp {
	out := []zygo.Sexp{}
	for {
		p, ok := x.(*zygo.SexpPair)
		if !ok {
			return out
		}
		out = append(out, p.Head)
		x = p.Tail
	}
}

type prattCase struct {
	ID    string `json:"id"`
	Fam   string `json:"fam"`
	Mode  string `json:"mode"`
	Text  string `json:"text"`
	Toks  []any  `json:"toks"`
	Lexed any    `json:"lexed"`
	Tree  any    `json:"tree"`
	Ptext string `json:"ptext"`
	Ptree any    `json:"ptree"`
	Val   any    `json:"val"`
	Eff   any    `json:"eff"`
	St    any    `json:"st"`
	Pval  any    `json:"pval"`
	Peff  any    `json:"peff"`
	Pst   any    `json:"pst"`
}

func (d *prattDriver) observe(id, fam, mode, text string, toks []any, ptext string) prattCase {
	c := prattCase{ID: id, Fam: fam, Mode: mode, Text: text, Toks: toks, Ptext: ptext}
	block := strings.TrimRight(text, "\n")
	// what the reader delivered
	if !d.clean() {
		d.fresh()
	}
	if o := d.safe("(quote " + block + ")\n"); o.Kind == "val" {
		if p, ok := o.Val.(*zygo.SexpPair); ok {
			if raw, ok := ptInfixBody(p); ok {
				c.Lexed = d.classifyAll(raw)
			}
		} else if hh, ok := o.Val.(*zygo.SexpHash); ok && len(hh.KeyOrder) == 0 {
			c.Lexed = []any{}
		}
	}
	if c.Lexed == nil {
		c.Lexed = []any{[]any{"unreadable"}}
	}
	// the translation
	if !d.clean() {
		d.fresh()
	}
	o := d.safe("(infixExpand " + block + ")\n")
	switch {
	case o.Kind == "val" && o.Val == zygo.SexpNull:
		c.Tree = []any{"stmts", []any{}}
	case o.Kind == "val":
		el := ptListElems(o.Val)
		if hs, ok := o.Val.(*zygo.SexpPair); ok && len(el) >= 1 {
			if s, ok := hs.Head.(*zygo.SexpSymbol); ok && s.Name() == "quote" {
				ss := []any{}
				for _, s := range el[1:] {
					ss = append(ss, d.projTree(s, 0))
				}
				c.Tree = []any{"stmts", ss}
			}
		}
		if c.Tree == nil {
			c.Tree = []any{"unexpected"}
		}
	default:
		c.Tree = []any{o.Kind}
	}
	// the prefix program as the reader sees it
	if !d.clean() {
		d.fresh()
	}
	if o := d.safe("(quote " + ptext + ")\n"); o.Kind == "val" {
		c.Ptree = d.projTree(o.Val, 0)
	} else {
		c.Ptree = []any{o.Kind}
	}
	c.Val, c.Eff, c.St = d.eval(text)
	c.Pval, c.Peff, c.Pst = d.eval(ptext + "\n")
	return c
}

func (d *prattDriver) run(id, fam, mode string, toks []ptok, r *rng, glue bool) prattCase {
	text := ptRenderBlock(toks, mode, r, glue)
	return d.observe(id, fam, mode, text, ptoksJSON(toks), ptPrefixBlock(toks))
}

// ---------------------------------------------------------------- generators

var prattBin = []string{"=", ":=", "+=", "-=", ",", "and", "or", "==", "!=", "<", "<=", ">", ">=", "+", "-", "*", "/", "mod", "**"}

func ptAlt(op string) ptok {
	switch op {
	case "&&":
		return ptok{K: "op", S: "and", Alt: "&&"}
	case "||":
		return ptok{K: "op", S: "or", Alt: "||"}
	}
	return ptOp(op)
}

// operand pools
var (
	ptPoolAny = [][]ptok{
		{ptSym("a")}, {ptSym("b")}, {ptSym("c")}, {ptSym("d")}, {ptSym("p")}, {ptSym("q")},
		{ptInt(0)}, {ptInt(1)}, {ptInt(2)}, {ptInt(3)}, {ptInt(-1)}, {ptInt(-2)},
		{ptPath("h.x")}, {ptPath("h.y.z")}, {ptBool(true)},
		{ptCall("tr", ptInt(1))}, {ptCall("tr", ptSym("b"))}, {ptCall("tr", ptBool(false))},
		{ptBlock(ptSym("a"), ptOp("-"), ptInt(1))}, {ptBlock(ptSym("p"), ptOp("or"), ptSym("q"))},
		{ptBlock(ptSym("c"), ptOp("="), ptInt(4), ptSemi, ptSym("c"), ptOp("*"), ptInt(2))},
		{ptCall("tr", ptBlock(ptSym("a"), ptOp("+"), ptInt(1)))},
		{ptNil}, {ptChr('x')}, {ptUint("3")}, {ptFlt("1.5", "")}, {ptIntAs(2, "0x2")}, {ptIntAs(5, "0b101")},
	}
	ptPoolIndexable = [][]ptok{
		{ptSym("v")}, {ptCall("tr", ptSym("v"))}, {ptBlock(ptSym("v"))}, {ptSym("w"), ptIdx(ptInt(1))},
	}
	// slices are only taken from s: storing a slice of an array into that same array makes a cyclic
	// value on which the interpreter's printer does not terminate (not this property's subject)
	ptPoolSliceable = [][]ptok{
		{ptSym("s")}, {ptCall("tr", ptSym("s"))}, {ptBlock(ptSym("s"))},
	}
	ptPoolFielded = [][]ptok{ // operands that do not end in a word character
		{ptCall("tr", ptSym("h"))}, {ptBlock(ptSym("h"))}, {ptSym("u"), ptIdx(ptInt(0))},
	}
	ptPoolSelectors = [][]ptok{
		{ptInt(1)}, {ptSym("c")}, {ptSym("a"), ptOp("-"), ptInt(2)}, {ptInt(1), ptColon, ptInt(3)}, {ptColon, ptSym("c")},
		{ptSym("c"), ptColon}, {ptSym("c"), ptColon, ptSym("c"), ptOp("+"), ptInt(1)}, {ptCall("tr", ptInt(0))},
	}
)

func ptCountOps(p []ptPel) int {
	k := 0
	for _, e := range p {
		if e.kind != "atom" {
			k++
		}
	}
	return k
}

func ptHasColon(ts []ptok) bool {
	for _, t := range ts {
		if t.K == "colon" {
			return true
		}
	}
	return false
}

func ptCat(parts ...[]ptok) []ptok {
	out := []ptok{}
	for _, p := range parts {
		out = append(out, p...)
	}
	return out
}

// pattern elements of the exhaustive family
type ptPel struct {
	kind string // atom not bin idx dot inc
	op   string
}

// ptInstantiate chooses operands for a pattern (deterministically from r).
func ptInstantiate(pat []ptPel, r *rng) []ptok {
	for {
		out := ptInstantiate1(pat, r)
		// the comma operator keeps its operands as unevaluated data: a nested block among them
		// would differ from its prefix form as DATA, which is not what the property is about
		if !(ptHasComma(out) && ptHasBlock(out)) {
			return out
		}
	}
}

func ptHasComma(ts []ptok) bool {
	for _, t := range ts {
		if t.K == "op" && t.S == "," {
			return true
		}
	}
	return false
}

func ptHasBlock(ts []ptok) bool {
	for _, t := range ts {
		if t.K == "block" || ((t.K == "call" || t.K == "idx") && ptHasBlock(t.Sub)) {
			return true
		}
	}
	return false
}

var (
	ptPoolNum = [][]ptok{
		{ptSym("a")}, {ptSym("b")}, {ptSym("c")}, {ptSym("d")}, {ptInt(1)}, {ptInt(2)}, {ptInt(3)}, {ptInt(-1)},
		{ptPath("h.k")}, {ptCall("tr", ptInt(2))}, {ptCall("tr", ptSym("b"))}, {ptBlock(ptSym("a"), ptOp("-"), ptInt(1))},
	}
	ptPoolBool = [][]ptok{
		{ptSym("p")}, {ptSym("q")}, {ptBool(true)}, {ptCall("tr", ptBool(false))}, {ptCall("tr", ptBool(true))},
		{ptBlock(ptSym("p"), ptOp("or"), ptSym("q"))},
	}
	ptPoolLvalue = [][]ptok{{ptSym("a")}, {ptSym("b")}, {ptSym("c")}, {ptSym("d")}, {ptPath("h.x")}}
)

// ptTypedAtom chooses the operand at position i: in two of three cases one that fits the operators
// next to it (so that more blocks evaluate to a value), otherwise any operand form.
func ptTypedAtom(pat []ptPel, i int, r *rng) []ptok {
	if r.intn(3) == 0 {
		return pick(r, ptPoolAny)
	}
	left, right := "", ""
	if i > 0 {
		left = pat[i-1].op
		if pat[i-1].kind == "not" {
			left = "not"
		}
	}
	if i+1 < len(pat) {
		right = pat[i+1].op
	}
	isAssign := func(o string) bool { return o == "=" || o == ":=" || o == "+=" || o == "-=" }
	isBool := func(o string) bool { return o == "and" || o == "or" || o == "&&" || o == "||" || o == "not" }
	switch {
	case isAssign(right) || right == "++" || right == "--":
		return pick(r, ptPoolLvalue)
	case isBool(left) || isBool(right):
		return pick(r, ptPoolBool)
	}
	return pick(r, ptPoolNum)
}

func ptInstantiate1(pat []ptPel, r *rng) []ptok {
	out := []ptok{}
	atomStart := 0
	for i, e := range pat {
		switch e.kind {
		case "atom":
			atomStart = len(out)
			next := ""
			if i+1 < len(pat) {
				next = pat[i+1].kind
			}
			switch next {
			case "idx":
				out = append(out, pick(r, ptPoolIndexable)...)
			case "dot":
				out = append(out, pick(r, ptPoolFielded)...)
			default:
				out = append(out, ptTypedAtom(pat, i, r)...)
			}
		case "not":
			out = append(out, ptOp("not"))
		case "bin":
			out = append(out, ptAlt(e.op))
		case "idx":
			sel := pick(r, ptPoolSelectors)
			if ptHasColon(sel) {
				if i > 0 && pat[i-1].kind == "atom" {
					// re-choose the base operand: the last tokens appended were one pool entry
					out = out[:atomStart]
					out = append(out, pick(r, ptPoolSliceable)...)
				} else {
					sel = []ptok{ptInt(1)}
				}
			}
			out = append(out, ptIdx(sel...))
		case "dot":
			out = append(out, ptDot(".x"))
		case "inc":
			out = append(out, ptOp(e.op))
		}
	}
	return out
}

// ptEnumPatterns: every expression pattern with at most maxOps operators in total
// and at most maxBin binary operators (prefix not, postfix [..] and .x on any
// operand, ++/-- at the end), over every binary operator.
func ptEnumPatterns(maxOps, maxBin int, bins []string, fn func(p []ptPel)) {
	var rec func(p []ptPel, st string, ops, nb int)
	rec = func(p []ptPel, st string, ops, nb int) {
		switch st {
		case "operand":
			rec(append(append([]ptPel(nil), p...), ptPel{kind: "atom"}), "after", ops, nb)
			if ops < maxOps {
				rec(append(append([]ptPel(nil), p...), ptPel{kind: "not"}), "operand", ops+1, nb)
			}
		case "after":
			fn(p)
			if ops >= maxOps {
				return
			}
			last := p[len(p)-1].kind
			if nb < maxBin {
				for _, b := range bins {
					rec(append(append([]ptPel(nil), p...), ptPel{kind: "bin", op: b}), "operand", ops+1, nb+1)
				}
			}
			// a field access needs a non-word operand end: directly after an atom (chosen accordingly) or an index
			if last == "atom" || last == "idx" {
				rec(append(append([]ptPel(nil), p...), ptPel{kind: "idx"}), "after", ops+1, nb)
			}
			if last == "atom" || last == "idx" {
				rec(append(append([]ptPel(nil), p...), ptPel{kind: "dot"}), "after", ops+1, nb)
			}
			for _, o := range []string{"++", "--"} {
				q := append(append([]ptPel(nil), p...), ptPel{kind: "inc", op: o})
				fn(q)
			}
		}
	}
	rec(nil, "operand", 0, 0)
}

// statement templates for the separator family
func ptStmtTemplates() [][]ptok {
	blk := func(t ...ptok) ptok { return ptBlock(t...) }
	return [][]ptok{
		{ptSym("a"), ptOp("="), ptInt(1)},
		{ptSym("b"), ptOp("+="), ptSym("a"), ptOp("*"), ptInt(2)},
		{ptPath("h.x"), ptOp("="), ptSym("a"), ptOp("+"), ptInt(1)},
		{ptPath("h.y.z")},
		{ptOp("not"), ptSym("p")},
		{ptOp("not"), ptSym("q"), ptOp("and"), ptSym("p")},
		{ptCall("tr", ptInt(1))},
		{blk(ptSym("a"), ptOp("="), ptSym("a"), ptOp("+"), ptInt(1))},
		{ptSym("a"), ptOp("++")},
		{ptSym("v"), ptIdx(ptInt(1)), ptOp("="), ptSym("b")},
		{ptSym("u"), ptIdx(ptInt(0)), ptDot(".x"), ptOp("="), ptInt(9)},
		{ptSym("a")},
		{ptInt(-1)},
		{ptSym("p"), ptOp("or"), ptCall("tr", ptBool(true))},
		{ptKw("if"), ptSym("a"), ptOp(">"), ptSym("b"), blk(ptSym("c"), ptOp("="), ptInt(1)), ptKw("else"), blk(ptSym("c"), ptOp("="), ptInt(2))},
		{ptKw("for"), ptSym("i"), ptOp(":="), ptInt(0), ptSemi, ptSym("i"), ptOp("<"), ptInt(3), ptSemi, ptSym("i"), ptOp("++"), blk(ptSym("a"), ptOp("+="), ptSym("i"))},
		{ptSym("c"), ptOp(","), ptSym("d"), ptOp("="), ptSym("d"), ptOp(","), ptSym("c")},
		{ptStr("s")},
		{ptBool(true)},
		{ptSym("d"), ptOp("-="), ptInt(2), ptOp("**"), ptSym("c")},
		{ptSym("s"), ptIdx(ptInt(1), ptColon, ptInt(3))},
		// statements that start with a literal of the other kinds
		{ptNil},
		{ptChr('c'), ptOp("=="), ptChr('c')},
		{ptUint("5")},
		{ptIntAs(31, "0x1F"), ptOp("+"), ptSym("a")},
	}
}

type ptSep struct {
	name string
	toks []ptok
}

var prattSeps = []ptSep{{"nl", []ptok{ptNl}}, {"semi", []ptok{ptSemi}}, {"seminl", []ptok{ptSemi, ptNl}}}

// ---- random expressions

type ptRgen struct {
	r *rng
}

func (g *ptRgen) numAtom(depth int) []ptok {
	switch g.r.intn(12) {
	case 0, 1, 2, 3:
		return []ptok{ptSym(pick(g.r, []string{"a", "b", "c", "d"}))}
	case 4, 5:
		n := int64(g.r.intn(5))
		if g.r.intn(4) == 0 {
			return []ptok{ptIntAs(n, fmt.Sprintf(pick(g.r, []string{"0x%x", "0o%o", "0b%b"}), n))}
		}
		return []ptok{ptInt(n)}
	case 6:
		return []ptok{ptInt(-int64(1 + g.r.intn(3)))}
	case 7:
		return []ptok{ptCall("tr", ptInt(int64(g.r.intn(4))))}
	case 8:
		return []ptok{ptSym("v"), ptIdx(g.index(depth)...)}
	case 9:
		return []ptok{ptSym("w"), ptIdx(ptInt(int64(g.r.intn(2)))), ptIdx(ptInt(int64(g.r.intn(2))))}
	case 10:
		if depth > 0 {
			return []ptok{ptBlock(g.num(depth-1, 2)...)}
		}
		return []ptok{ptPath("h.y.z")}
	}
	return []ptok{ptSym("u"), ptIdx(ptInt(0)), ptDot(".x")}
}

func (g *ptRgen) index(depth int) []ptok {
	switch g.r.intn(4) {
	case 0:
		return []ptok{ptInt(int64(g.r.intn(4)))}
	case 1:
		return []ptok{ptSym("c")}
	case 2:
		return []ptok{ptSym("c"), ptOp("-"), ptInt(int64(g.r.intn(3)))}
	}
	return []ptok{ptCall("tr", ptInt(int64(g.r.intn(4))))}
}

func (g *ptRgen) num(depth, n int) []ptok {
	out := g.numAtom(depth)
	for k := 0; k < n; k++ {
		op := pick(g.r, []string{"+", "-", "*", "/", "mod", "**", "+", "-", "*"})
		out = append(out, ptOp(op))
		if op == "**" {
			out = append(out, ptInt(int64(g.r.intn(3))))
		} else {
			out = append(out, g.numAtom(depth)...)
		}
	}
	return out
}

func (g *ptRgen) boolAtom(depth int) []ptok {
	switch g.r.intn(8) {
	case 0, 1:
		return []ptok{ptSym(pick(g.r, []string{"p", "q"}))}
	case 2:
		return []ptok{ptCall("tr", ptBool(g.r.bool()))}
	case 3:
		return append([]ptok{ptOp("not")}, g.boolAtom(depth)...)
	case 4:
		if depth > 0 {
			return []ptok{ptBlock(g.boolean(depth-1, 1)...)}
		}
		return []ptok{ptBool(g.r.bool())}
	}
	cmp := pick(g.r, []string{"==", "!=", "<", "<=", ">", ">="})
	return ptCat(g.num(depth, g.r.intn(2)), []ptok{ptOp(cmp)}, g.num(depth, g.r.intn(2)))
}

func (g *ptRgen) boolean(depth, n int) []ptok {
	out := g.boolAtom(depth)
	for k := 0; k < n; k++ {
		op := pick(g.r, []string{"and", "or", "&&", "||"})
		out = append(out, ptAlt(op))
		out = append(out, g.boolAtom(depth)...)
	}
	return out
}

func (g *ptRgen) lvalue() []ptok {
	switch g.r.intn(6) {
	case 0:
		return []ptok{ptSym("v"), ptIdx(ptInt(int64(g.r.intn(4))))}
	case 1:
		return []ptok{ptPath("h.x")}
	case 2:
		return []ptok{ptSym("u"), ptIdx(ptInt(0)), ptDot(".x")}
	}
	return []ptok{ptSym(pick(g.r, []string{"a", "b", "c", "d"}))}
}

func (g *ptRgen) stmt(depth int) []ptok {
	switch g.r.intn(10) {
	case 0, 1:
		return ptCat(g.lvalue(), []ptok{ptOp(pick(g.r, []string{"=", ":=", "+=", "-="}))}, g.num(depth, g.r.intn(4)))
	case 2:
		return ptCat([]ptok{ptSym(pick(g.r, []string{"p", "q"})), ptOp("=")}, g.boolean(depth, g.r.intn(3)))
	case 3:
		return ptCat(g.lvalue(), []ptok{ptOp(pick(g.r, []string{"++", "--"}))})
	case 4:
		if depth > 0 {
			arm := func(n int) []ptok { // an arm with braces or, one time in three, without
				if g.r.intn(3) == 0 {
					return ptCat(g.lvalue(), []ptok{ptOp(pick(g.r, []string{"=", "+=", "-="}))}, g.num(0, g.r.intn(2)))
				}
				return []ptok{ptBlock(g.stmts(depth-1, n)...)}
			}
			s := ptCat([]ptok{ptKw("if")}, g.boolean(depth-1, g.r.intn(2)), arm(1+g.r.intn(2)))
			if g.r.bool() {
				s = ptCat(s, []ptok{ptKw("else")}, arm(1))
			}
			return s
		}
		return g.num(depth, 2)
	case 5:
		if depth > 0 {
			v := "j"
			if depth >= 2 {
				v = "i"
			}
			return ptCat([]ptok{ptKw("for"), ptSym(v), ptOp(":="), ptInt(0), ptSemi, ptSym(v), ptOp("<"), ptInt(int64(1 + g.r.intn(3))), ptSemi, ptSym(v), ptOp("++")},
				[]ptok{ptBlock(g.stmts(depth-1, 1+g.r.intn(2))...)})
		}
		return g.boolean(depth, 2)
	case 6:
		return g.boolean(depth, g.r.intn(4))
	case 7:
		return ptCat(g.num(0, 1), []ptok{ptOp(",")}, g.num(0, 1))
	}
	return g.num(depth, g.r.intn(5))
}

func (g *ptRgen) stmts(depth, n int) []ptok {
	out := []ptok{}
	for k := 0; k < n; k++ {
		if k > 0 {
			out = append(out, pick(g.r, prattSeps).toks...)
		}
		out = append(out, g.stmt(depth)...)
	}
	return out
}

// untyped: any operand between any operators
func (g *ptRgen) untyped(nops int) []ptok {
	pat := []ptPel{}
	need := true
	ops := 0
	for {
		if need {
			if ops < nops && g.r.intn(6) == 0 {
				pat = append(pat, ptPel{kind: "not"})
				ops++
				continue
			}
			pat = append(pat, ptPel{kind: "atom"})
			need = false
			continue
		}
		if ops >= nops {
			break
		}
		switch g.r.intn(8) {
		case 0:
			if k := pat[len(pat)-1].kind; k == "atom" || k == "idx" {
				pat = append(pat, ptPel{kind: "idx"})
				ops++
			}
		case 1:
			if k := pat[len(pat)-1].kind; k == "atom" || k == "idx" {
				pat = append(pat, ptPel{kind: "dot"})
				ops++
			}
		default:
			pat = append(pat, ptPel{kind: "bin", op: pick(g.r, append(append([]string(nil), prattBin...), "&&", "||"))})
			ops++
			need = true
		}
	}
	if g.r.intn(8) == 0 {
		pat = append(pat, ptPel{kind: "inc", op: pick(g.r, []string{"++", "--"})})
	}
	return ptInstantiate(pat, g.r)
}

// ---------------------------------------------------------------- the family

func init() {
	register("pratt", "C06: infix blocks vs the precedence table", func(args []string) int {
		chunk, nchunk := 0, 1
		c := commonFlags("pratt", args, func(fs *flag.FlagSet) {
			fs.IntVar(&chunk, "chunk", 0, "emit only cases with index%nchunk == chunk")
			fs.IntVar(&nchunk, "nchunk", 1, "number of chunks")
		})
		d := newPrattDriver()
		w := newWriter(c.out)
		defer w.close()
		if c.replay != "" {
			return prattReplay(d, c, w)
		}
		idx := 0
		emit := func(fam, mode string, toks []ptok, stream uint64, glue bool) {
			if idx%nchunk == chunk && c.mine(idx/nchunk) {
				r := newRng(c.seed, stream)
				w.write(d.run(fmt.Sprintf("%s%d", fam, idx), fam, mode, toks, r, glue))
			}
			idx++
		}
		modes2 := []string{"tight", "spaced"}

		// (x) exhaustive: every operator sequence with at most 3 operators (thorough: 4, at most 3 binary ... plus all 4-binary)
		n := 0
		pats := func(maxOps, maxBin int, fam string) {
			ptEnumPatterns(maxOps, maxBin, prattBin, func(p []ptPel) {
				n++
				toks := ptInstantiate(p, newRng(c.seed, uint64(n)*7919))
				if ptCountOps(p) <= 2 {
					for _, m := range modes2 {
						emit(fam, m, toks, uint64(n), false)
					}
				} else {
					emit(fam, modes2[n%2], toks, uint64(n), false)
				}
			})
		}
		if c.thorough() {
			pats(4, 4, "x")
		} else {
			pats(3, 3, "x")
		}
		// && and || spellings next to every operator
		for _, a := range []string{"&&", "||"} {
			for _, b := range append(append([]string(nil), prattBin...), "&&", "||") {
				for _, order := range [][]string{{a, b}, {b, a}} {
					n++
					toks := ptInstantiate([]ptPel{{kind: "atom"}, {kind: "bin", op: order[0]}, {kind: "atom"}, {kind: "bin", op: order[1]}, {kind: "atom"}}, newRng(c.seed, uint64(n)*7919))
					for _, m := range modes2 {
						emit("x", m, toks, uint64(n), false)
					}
				}
			}
		}

		// (n) indexing, slicing, field access, calls, nested blocks next to every operator, on both sides
		tight := [][]ptok{
			{ptSym("v"), ptIdx(ptInt(1))},
			{ptSym("v"), ptIdx(ptSym("c"), ptOp("-"), ptInt(1))},
			{ptSym("s"), ptIdx(ptInt(1), ptColon, ptInt(3))},
			{ptSym("s"), ptIdx(ptSym("c"), ptColon)},
			{ptSym("s"), ptIdx(ptColon, ptSym("c"), ptOp("+"), ptInt(1))},
			{ptSym("w"), ptIdx(ptInt(1)), ptIdx(ptInt(0))},
			{ptSym("u"), ptIdx(ptInt(0)), ptDot(".x")},
			{ptPath("h.y.z")},
			{ptCall("tr", ptSym("a"))},
			{ptCall("tr", ptSym("h")), ptDot(".k")},
			{ptBlock(ptSym("a"), ptOp("+"), ptSym("b"))},
			{ptBlock(ptSym("v")), ptIdx(ptInt(2))},
			{ptOp("not"), ptSym("v"), ptIdx(ptInt(0))},
		}
		for _, op := range append(append([]string(nil), prattBin...), "&&", "||") {
			for ti, x := range tight {
				ys := [][]ptok{{ptSym("b")}, {ptInt(2)}, tight[(ti+3)%len(tight)]}
				if !c.thorough() {
					ys = ys[(ti+len(op))%3 : (ti+len(op))%3+1]
				}
				for _, y := range ys {
					for _, toks := range [][]ptok{ptCat(x, []ptok{ptAlt(op)}, y), ptCat(y, []ptok{ptAlt(op)}, x),
						ptCat([]ptok{ptSym("a"), ptOp("*")}, x, []ptok{ptAlt(op)}, y), ptCat(y, []ptok{ptAlt(op)}, x, []ptok{ptOp("**"), ptInt(2)})} {
						n++
						if ptHasComma(toks) && ptHasBlock(toks) {
							continue
						}
						for _, m := range []string{"tight", "spaced", "loose"} {
							emit("n", m, toks, uint64(n), false)
						}
					}
				}
			}
		}
		// a dotted path as slice bound, with and without a space before the colon
		for _, sel := range [][]ptok{{ptPath("h.k"), ptColon, ptInt(3)}, {ptPath("h.x"), ptColon}, {ptInt(0), ptColon, ptPath("h.k")}, {ptPath("h.x"), ptColon, ptPath("h.k")}} {
			for _, glue := range []bool{false, true} {
				n++
				emit("n", "tight", []ptok{ptSym("s"), ptIdx(sel...)}, uint64(n), glue)
				emit("n", "spaced", ptCat([]ptok{ptSym("a"), ptOp("+"), ptSym("s"), ptIdx(sel...)}), uint64(n), glue)
			}
		}

		// (s) statement lists: every ordered pair of templates x separator x spacing; value = last statement
		tpl := ptStmtTemplates()
		for _, s1 := range tpl {
			for _, s2 := range tpl {
				for si, sp := range prattSeps {
					for mi, m := range modes2 {
						if !c.thorough() && (si+mi+len(s1)+len(s2))%2 == 1 {
							continue
						}
						emit("s", m, ptCat(s1, sp.toks, s2), uint64(idx), false)
					}
				}
			}
		}
		for i1, s1 := range tpl {
			s2 := tpl[(i1*7+3)%len(tpl)]
			s3 := tpl[(i1*5+1)%len(tpl)]
			for _, sp := range prattSeps {
				for _, sp2 := range prattSeps {
					emit("s", "spaced", ptCat(s1, sp.toks, s2, sp2.toks, s3), uint64(idx), false)
					emit("s", "tight", ptCat([]ptok{ptSemi}, s1, sp.toks, s2, sp2.toks, s3, []ptok{ptSemi}), uint64(idx), false)
				}
			}
		}

		// (i) if / else
		conds := [][]ptok{
			{ptSym("p")}, {ptSym("a"), ptOp(">"), ptSym("b")}, {ptOp("not"), ptSym("q")}, {ptSym("a"), ptOp("<"), ptSym("b"), ptOp("and"), ptSym("p")},
			{ptSym("p"), ptOp("or"), ptSym("q"), ptOp("and"), ptSym("q")}, {ptSym("v"), ptIdx(ptInt(0)), ptOp("=="), ptInt(10)},
			{ptCall("tr", ptBool(false))}, {ptSym("a"), ptOp("+"), ptInt(2), ptOp("*"), ptSym("c"), ptOp("<="), ptSym("d")}, {ptBlock(ptSym("q"))},
			{ptSym("a"), ptOp("="), ptSym("p")},
		}
		bodies := [][]ptok{
			{ptSym("c"), ptOp("="), ptInt(1)}, {ptCall("tr", ptInt(7))}, {ptSym("a"), ptOp("++"), ptSemi, ptSym("a")}, {ptInt(5)},
		}
		for ci, cd := range conds {
			for bi, b1 := range bodies {
				b2 := bodies[(bi+1)%len(bodies)]
				cd2 := conds[(ci+3)%len(conds)]
				forms := [][]ptok{
					ptCat([]ptok{ptKw("if")}, cd, []ptok{ptBlock(b1...)}),
					ptCat([]ptok{ptKw("if")}, cd, []ptok{ptBlock(b1...), ptKw("else"), ptBlock(b2...)}),
					ptCat([]ptok{ptKw("if")}, cd, []ptok{ptBlock(b1...), ptKw("else"), ptKw("if")}, cd2, []ptok{ptBlock(b2...)}),
					ptCat([]ptok{ptKw("if")}, cd, []ptok{ptBlock(b1...), ptKw("else"), ptKw("if")}, cd2, []ptok{ptBlock(b2...), ptKw("else"), ptBlock(b1...)}),
					ptCat([]ptok{ptSym("d"), ptOp("="), ptInt(0), ptNl, ptKw("if")}, cd, []ptok{ptBlock(b1...), ptNl, ptSym("d"), ptOp("+"), ptInt(1)}),
					ptCat([]ptok{ptKw("if")}, cd, []ptok{ptBlock(ptCat([]ptok{ptKw("if")}, cd2, []ptok{ptBlock(b1...), ptKw("else"), ptBlock(b2...)})...)}, []ptok{ptKw("else"), ptBlock(b2...), ptSemi, ptSym("c")}),
				}
				for _, f := range forms {
					for _, m := range modes2 {
						emit("i", m, f, uint64(idx), false)
					}
				}
			}
		}

		// if / else whose arms are written without braces: one expression (every literal kind among them)
		arms := [][]ptok{
			{ptSym("c"), ptOp("="), ptInt(1)}, {ptCall("tr", ptInt(7))}, {ptInt(5)}, {ptNil}, {ptChr('x')}, {ptUint("7")},
			{ptSym("a"), ptOp("++")}, {ptSym("d"), ptOp("+="), ptSym("a"), ptOp("*"), ptInt(2)},
		}
		for ci, cd := range conds {
			cd2 := conds[(ci+3)%len(conds)]
			for k, x := range arms {
				y := arms[(ci+k+3)%len(arms)]
				z := arms[(ci+k+5)%len(arms)]
				b1 := bodies[(ci+k)%len(bodies)]
				forms := [][]ptok{
					ptCat([]ptok{ptKw("if")}, cd, x, []ptok{ptKw("else")}, y),
					ptCat([]ptok{ptSym("d"), ptOp("="), ptInt(0), ptNl, ptKw("if")}, cd, x, []ptok{ptNl, ptSym("d"), ptOp("+"), ptInt(1)}),
				}
				switch (ci + k) % 4 {
				case 0:
					forms = append(forms, ptCat([]ptok{ptKw("if")}, cd, x))
				case 1:
					forms = append(forms, ptCat([]ptok{ptKw("if")}, cd, []ptok{ptBlock(b1...), ptKw("else")}, y))
				case 2:
					forms = append(forms, ptCat([]ptok{ptKw("if")}, cd, x, []ptok{ptKw("else"), ptBlock(b1...), ptSemi, ptSym("c")}))
				case 3:
					forms = append(forms, ptCat([]ptok{ptKw("if")}, cd, x, []ptok{ptKw("else"), ptKw("if")}, cd2, y, []ptok{ptKw("else")}, z))
				}
				for fi, f := range forms {
					emit("i", modes2[(ci+k+fi)%2], f, uint64(idx), false)
				}
			}
		}

		// (f) go-style for headers
		inits := [][]ptok{{ptSym("i"), ptOp(":="), ptInt(0)}, {ptSym("i"), ptOp("="), ptSym("c"), ptOp("-"), ptInt(2)}, {}, {ptSym("i"), ptOp(","), ptSym("j"), ptOp("="), ptInt(0), ptOp(","), ptInt(3)}}
		tests := [][]ptok{{ptSym("i"), ptOp("<"), ptInt(3)}, {ptSym("i"), ptOp("<"), ptSym("c"), ptOp("+"), ptInt(1), ptOp("and"), ptSym("p")}, {ptSym("i"), ptOp("*"), ptInt(2), ptOp("<="), ptSym("v"), ptIdx(ptInt(0)), ptOp("-"), ptInt(6)}, {ptOp("not"), ptSym("q"), ptOp("and"), ptSym("i"), ptOp("<"), ptInt(2)}}
		posts := [][]ptok{{ptSym("i"), ptOp("++")}, {ptSym("i"), ptOp("+="), ptInt(1)}, {ptSym("i"), ptOp("="), ptSym("i"), ptOp("+"), ptInt(2)}}
		fbodies := [][]ptok{
			{ptSym("a"), ptOp("+="), ptSym("i")},
			{ptCall("tr", ptSym("i")), ptSemi, ptSym("b"), ptOp("="), ptSym("b"), ptOp("*"), ptInt(2)},
			{ptKw("if"), ptSym("i"), ptOp("=="), ptInt(1), ptBlock(ptKw("continue")), ptNl, ptCall("tr", ptSym("i"))},
			{ptKw("if"), ptSym("i"), ptOp("=="), ptInt(1), ptBlock(ptKw("break")), ptSemi, ptSym("d"), ptOp("++")},
			{},
			// break / continue without braces, followed by else or by the next statement
			{ptKw("if"), ptSym("i"), ptOp("=="), ptInt(1), ptKw("continue"), ptKw("else"), ptSym("a"), ptOp("+="), ptSym("i")},
			{ptKw("if"), ptSym("i"), ptOp("=="), ptInt(1), ptKw("continue"), ptNl, ptSym("a"), ptOp("+="), ptSym("i")},
			{ptKw("if"), ptSym("i"), ptOp("=="), ptInt(1), ptKw("continue"), ptSemi, ptSym("a"), ptOp("+="), ptSym("i")},
			{ptKw("if"), ptSym("i"), ptOp("=="), ptInt(2), ptKw("break"), ptNl, ptCall("tr", ptSym("i")), ptNl, ptSym("a"), ptOp("+="), ptSym("i")},
			{ptKw("if"), ptSym("i"), ptOp("=="), ptInt(1), ptKw("continue"), ptNl, ptSym("v"), ptIdx(ptSym("i")), ptOp("="), ptSym("a")},
			{ptKw("if"), ptSym("i"), ptOp("=="), ptInt(2), ptKw("break"), ptNl, ptSym("d"), ptOp("++")},
			{ptKw("if"), ptSym("i"), ptOp("=="), ptInt(2), ptKw("break"), ptKw("else"), ptKw("if"), ptSym("i"), ptOp("=="), ptInt(0), ptKw("continue"), ptKw("else"), ptSym("d"), ptOp("++")},
			{ptKw("if"), ptSym("i"), ptOp("=="), ptInt(1), ptBlock(ptKw("continue")), ptKw("else"), ptSym("a"), ptOp("+="), ptSym("i")},
		}
		for ii, in := range inits {
			for ti, ts := range tests {
				for pi, ps := range posts {
					fb := fbodies[(ii+ti+pi)%len(fbodies)]
					f := ptCat([]ptok{ptKw("for")}, in, []ptok{ptSemi}, ts, []ptok{ptSemi}, ps, []ptok{ptBlock(fb...)})
					for _, m := range modes2 {
						emit("f", m, f, uint64(idx), false)
						emit("f", m, ptCat([]ptok{ptSym("d"), ptOp("="), ptInt(1), ptNl}, f, []ptok{ptNl, ptSym("a"), ptOp("+"), ptSym("d")}), uint64(idx), false)
					}
				}
			}
		}
		for _, ts := range tests {
			for _, fb := range fbodies {
				// condition-only loop; the body must make progress
				body := ptCat(fb, []ptok{ptSemi, ptSym("i"), ptOp("++")})
				if len(fb) > 0 && fb[0].K == "kw" {
					body = ptCat([]ptok{ptSym("i"), ptOp("++"), ptSemi}, fb)
				}
				for _, m := range modes2 {
					emit("f", m, ptCat([]ptok{ptKw("for")}, ts, []ptok{ptBlock(body...)}), uint64(idx), false)
					emit("f", m, ptCat([]ptok{ptKw("for"), ptBlock(ptCat(body, []ptok{ptSemi, ptKw("if"), ptSym("i"), ptOp(">"), ptInt(2), ptBlock(ptKw("break"))})...)}, []ptok{ptSemi, ptSym("i")}), uint64(idx), false)
					emit("f", m, ptCat([]ptok{ptKw("for"), ptSemi, ptSemi, ptBlock(ptCat(body, []ptok{ptSemi, ptKw("if"), ptSym("i"), ptOp(">"), ptInt(2), ptBlock(ptKw("break"))})...)}), uint64(idx), false)
				}
			}
		}
		// a statement after an unconditional continue (never run, but translated)
		for _, m := range modes2 {
			emit("f", m, ptCat([]ptok{ptKw("for"), ptSym("i"), ptOp(":="), ptInt(0), ptSemi, ptSym("i"), ptOp("<"), ptInt(3), ptSemi, ptSym("i"), ptOp("++"),
				ptBlock(ptCall("tr", ptSym("i")), ptNl, ptKw("continue"), ptNl, ptSym("a"), ptOp("+="), ptSym("i"))}, []ptok{ptSemi, ptSym("a")}), uint64(idx), false)
			emit("f", m, ptCat([]ptok{ptLabel("outer"), ptKw("for"), ptSym("i"), ptOp(":="), ptInt(0), ptSemi, ptSym("i"), ptOp("<"), ptInt(3), ptSemi, ptSym("i"), ptOp("++"),
				ptBlock(ptKw("for"), ptSym("j"), ptOp(":="), ptInt(0), ptSemi, ptSym("j"), ptOp("<"), ptInt(3), ptSemi, ptSym("j"), ptOp("++"),
					ptBlock(ptKw("if"), ptSym("j"), ptOp("=="), ptInt(1), ptKw("continue"), ptSym("outer"), ptNl, ptSym("a"), ptOp("+="), ptInt(1), ptNl, ptCall("tr", ptSym("i"), ptSym("j"))))}), uint64(idx), false)
			emit("f", m, ptCat([]ptok{ptSym("a"), ptOp("="), ptInt(0), ptSemi, ptLabel("outer"), ptKw("for"), ptSym("i"), ptOp(":="), ptInt(0), ptSemi, ptSym("i"), ptOp("<"), ptInt(3), ptSemi, ptSym("i"), ptOp("++"),
				ptBlock(ptKw("for"), ptSym("j"), ptOp(":="), ptInt(0), ptSemi, ptSym("j"), ptOp("<"), ptInt(3), ptSemi, ptSym("j"), ptOp("++"),
					ptBlock(ptKw("if"), ptSym("i"), ptOp("*"), ptSym("j"), ptOp(">="), ptInt(2), ptKw("break"), ptSym("outer"), ptKw("else"), ptSym("a"), ptOp("+="), ptInt(1))), ptSemi, ptSym("a")}), uint64(idx), false)
		}
		// labels, nested loops
		for _, m := range modes2 {
			emit("f", m, ptCat([]ptok{ptLabel("outer"), ptKw("for"), ptSym("i"), ptOp(":="), ptInt(0), ptSemi, ptSym("i"), ptOp("<"), ptInt(3), ptSemi, ptSym("i"), ptOp("++"),
				ptBlock(ptKw("for"), ptSym("j"), ptOp(":="), ptInt(0), ptSemi, ptSym("j"), ptOp("<"), ptInt(3), ptSemi, ptSym("j"), ptOp("++"),
					ptBlock(ptKw("if"), ptSym("j"), ptOp("=="), ptInt(1), ptBlock(ptKw("continue"), ptSym("outer")), ptNl, ptCall("tr", ptSym("i"), ptSym("j"))))}), uint64(idx), false)
			emit("f", m, ptCat([]ptok{ptSym("a"), ptOp("="), ptInt(0), ptSemi, ptLabel("outer"), ptKw("for"), ptSym("i"), ptOp(":="), ptInt(0), ptSemi, ptSym("i"), ptOp("<"), ptInt(3), ptSemi, ptSym("i"), ptOp("++"),
				ptBlock(ptKw("for"), ptSym("j"), ptOp(":="), ptInt(0), ptSemi, ptSym("j"), ptOp("<"), ptInt(3), ptSemi, ptSym("j"), ptOp("++"),
					ptBlock(ptKw("if"), ptSym("i"), ptOp("*"), ptSym("j"), ptOp(">="), ptInt(2), ptBlock(ptKw("break"), ptSym("outer")), ptSemi, ptSym("a"), ptOp("+="), ptInt(1))), ptSemi, ptSym("a")}), uint64(idx), false)
			emit("f", m, ptCat([]ptok{ptLabel("lp"), ptKw("for"), ptSym("a"), ptOp("<"), ptInt(6), ptBlock(ptSym("a"), ptOp("++"), ptSemi, ptKw("if"), ptSym("a"), ptOp("mod"), ptInt(2), ptOp("=="), ptInt(0), ptBlock(ptKw("continue"), ptSym("lp")), ptSemi, ptCall("tr", ptSym("a")))}), uint64(idx), false)
		}

		// (l) literals: a slice whose lower bound is a literal of any spelling written directly before the colon;
		// Inf as the right operand of + and -
		for _, sel := range [][]ptok{
			{ptIntAs(1, "0x1"), ptColon, ptInt(3)}, {ptIntAs(1, "0b1"), ptColon}, {ptIntAs(1, "0o1"), ptColon, ptSym("c")},
			{ptIntAs(0, "0x0"), ptColon, ptIntAs(2, "0x2")}, {ptUint("1"), ptColon, ptInt(3)}, {ptFlt("1", "1.0"), ptColon, ptInt(3)},
			{ptBool(true), ptColon, ptInt(3)}, {ptInt(-1), ptColon}, {ptInt(1), ptColon, ptIntAs(3, "0b11")},
		} {
			for _, m := range []string{"tight", "spaced", "loose"} {
				emit("l", m, []ptok{ptSym("s"), ptIdx(sel...)}, uint64(idx), false)
			}
			emit("l", "tight", []ptok{ptSym("b"), ptOp("="), ptSym("s"), ptIdx(sel...), ptSemi, ptSym("b"), ptIdx(ptInt(0))}, uint64(idx), false)
		}
		for _, x := range [][]ptok{
			{ptSym("a"), ptOp("="), ptInt(2), ptOp("-"), ptInf, ptSemi, ptSym("a")},
			{ptSym("d"), ptOp("="), ptInf, ptNl, ptSym("d"), ptOp("-"), ptInf},
			{ptSym("a"), ptOp("+"), ptInf},
			{ptInt(2), ptOp("*"), ptSym("c"), ptOp("-"), ptInf, ptOp("<"), ptSym("b")},
			{ptSym("v"), ptIdx(ptInt(0)), ptOp("-"), ptInf},
			{ptCall("tr", ptInt(1)), ptOp("+"), ptInf, ptOp("-"), ptInf},
			{ptBlock(ptSym("a"), ptOp("-"), ptInt(1)), ptOp("-"), ptInf, ptOp("=="), ptSym("a"), ptOp("-"), ptInf},
			{ptSym("d"), ptOp("-="), ptInf, ptSemi, ptSym("d")},
		} {
			for _, m := range []string{"tight", "spaced", "loose"} {
				emit("l", m, x, uint64(idx), false)
			}
		}

		// (t) typed random programs, (r) untyped random operator sequences
		nt := c.n
		if nt == 0 {
			nt = 1200
			if c.thorough() {
				nt = 30000
			}
		}
		mm := []string{"tight", "spaced", "loose", "mixed"}
		for k := 0; k < nt; k++ {
			g := &ptRgen{r: newRng(c.seed, uint64(k)*2+1000003)}
			toks := g.stmts(2, 1+g.r.intn(3))
			emit("t", pick(g.r, mm), toks, uint64(k)+5000, false)
			toks2 := g.untyped(4 + g.r.intn(9))
			emit("r", pick(g.r, mm), toks2, uint64(k)+9000, false)
		}
		return 0
	})
}

// prattReplay re-executes recorded cases from their texts.
func prattReplay(d *prattDriver, c *common, w *ndWriter) int {
	readLines(c.replay, func(line []byte) {
		var in struct {
			ID    string `json:"id"`
			Fam   string `json:"fam"`
			Mode  string `json:"mode"`
			Text  string `json:"text"`
			Toks  []any  `json:"toks"`
			Ptext string `json:"ptext"`
		}
		if err := json.Unmarshal(line, &in); err != nil {
			fatal("bad replay file: %v", err)
		}
		if in.Toks == nil {
			in.Toks = []any{}
		}
		w.write(d.observe(in.ID, in.Fam, in.Mode, in.Text, in.Toks, in.Ptext))
	})
	return 0
}
