package main

// Family "lazy" (C16): every mix of lazy (#) / strict / variadic parameters x
// call routes x force patterns, with effectful argument expressions; validated
// by TLC against the lazy-parameter rules of spec/ZSem.tla (SemTrace).

import (
	"encoding/json"
	"fmt"
	"strings"
)

func lazyPrograms() (ids []string, progs [][]node) {
	routes := []string{"direct", "alias", "param", "computed", "apply", "applylist", "map", "rec", "after-return", "lazy-error-unforced", "strict-error",
		"nested-caller", "nested-caller-returned", "apply-data", "map-data", "rec-reloaded", "direct-reloaded",
		// the name of the running function denotes ANOTHER function (lazy positions complemented) where it is called in
		// tail position: which arguments are wrapped must follow the function that receives the call
		"tail-let", "tail-param", "dead-defn", "old-closure"}
	patterns := []string{"none", "once", "twice", "substitute", "reverse"}
	for n := 1; n <= 3; n++ {
		for mask := 0; mask < 1<<n; mask++ {
			for variadic := 0; variadic < 2; variadic++ {
				for _, route := range routes {
					if (route == "map" || route == "map-data") && (n != 1 || variadic == 1) {
						continue
					}
					for _, pat := range patterns {
						if (route == "lazy-error-unforced" || route == "strict-error") && pat != "none" && pat != "once" {
							continue
						}
						if (route == "tail-let" || route == "tail-param" || route == "dead-defn" || route == "old-closure") && (pat == "substitute" || pat == "reverse") {
							continue
						}
						id := fmt.Sprintf("lz-n%d-m%d-v%d-%s-%s", n, mask, variadic, route, pat)
						prog := lazyProgram(n, mask, variadic == 1, route, pat)
						if prog == nil {
							continue
						}
						ids = append(ids, id)
						progs = append(progs, prog)
					}
				}
			}
		}
	}
	return
}

func lazyProgram(n, mask int, variadic bool, route, pat string) []node {
	var ps []param
	lazy := func(i int) bool { return mask&(1<<i) != 0 }
	for i := 0; i < n; i++ {
		name := fmt.Sprintf("p%d", i)
		if lazy(i) {
			name = "#" + name
		}
		ps = append(ps, param{name, lazy(i)})
	}
	rest := ""
	if variadic {
		rest = "more"
	}
	// body: (tr 90 0) then one observation per parameter
	var bodyFor func(ps []param) []node
	use := func(ps []param, i int) node {
		p := nSym(ps[i].name)
		if !ps[i].lazy {
			return nApp("tr", nInt(60+i), p)
		}
		switch pat {
		case "none":
			return nInt(0)
		case "once", "reverse":
			return nApp("tr", nInt(60+i), nApp("force", p))
		case "twice":
			return nApp("+", nApp("force", p), nApp("tr", nInt(60+i), nApp("force", p)))
		case "substitute":
			return nApp("substitute", p)
		}
		return nInt(0)
	}
	bodyFor = func(ps []param) []node {
		var uses []node
		if pat == "reverse" {
			for i := n - 1; i >= 0; i-- {
				uses = append(uses, use(ps, i))
			}
		} else {
			for i := 0; i < n; i++ {
				uses = append(uses, use(ps, i))
			}
		}
		if variadic {
			uses = append(uses, nSym("more"))
		}
		return []node{nApp("tr", nInt(90), nInt(0)), nApp("list", uses...)}
	}
	body := bodyFor(ps)
	// argument expressions with side effects
	arg := func(i int) node { return nApp("tr", nInt(i+1), nApp("+", nInt(10), nInt(i))) }
	var args []node
	for i := 0; i < n; i++ {
		a := arg(i)
		if route == "lazy-error-unforced" && lazy(i) {
			a = nApp("tr", nInt(i+1), nApp("aget", nArr(nInt(1)), nInt(5)))
		}
		if route == "strict-error" && !lazy(i) {
			a = nApp("tr", nInt(i+1), nApp("aget", nArr(nInt(1)), nInt(5)))
		}
		args = append(args, a)
	}
	if variadic {
		args = append(args, nApp("tr", nInt(40), nInt(7)), nApp("tr", nInt(41), nInt(8)))
	}
	defF := nDefn("F", ps, rest, body...)
	// an earlier definition of F with the lazy positions complemented (same arity), as left by an earlier load
	var ops []param
	for i := 0; i < n; i++ {
		name := fmt.Sprintf("p%d", i)
		if !lazy(i) {
			name = "#" + name
		}
		ops = append(ops, param{name, !lazy(i)})
	}
	switch route {
	case "direct-reloaded":
		return []node{nDefn("F", ops, rest, nInt(0)), defF, nCall(nSym("F"), args...)}
	case "rec-reloaded":
		ps2 := append([]param{{"cnt", false}}, ps...)
		ops2 := append([]param{{"cnt", false}}, ops...)
		rargs := append([]node{nApp("-", nSym("cnt"), nInt(1))}, args...)
		fbody := nCond([]clause{{nApp("<=", nSym("cnt"), nInt(0)), nBegin(body...)}}, nCall(nSym("F"), rargs...))
		first := append([]node{nInt(1)}, args...)
		return []node{nDefn("F", ops2, rest, nInt(0)), nDefn("F", ps2, rest, fbody), nCall(nSym("F"), first...)}
	}
	cnt := param{"cnt", false}
	switch route {
	case "tail-let":
		// (defn F [ps] (let [F (fn [complement] BODY)] (F args)))
		inner := nFn(ops, rest, bodyFor(ops)...)
		return []node{nDefn("F", ps, rest, nLet("let", []bind{{"F", inner}}, nCall(nSym("F"), args...))), nCall(nSym("F"), args...)}
	case "tail-param":
		// (defn F [ps F] (F args 0)): the callee arrives in a parameter named like the function; same number of arguments
		if variadic {
			return nil
		}
		psF := append(append([]param{}, ps...), param{"F", false})
		opsZ := append(append([]param{}, ops...), param{"z", false})
		inner := nFn(opsZ, "", bodyFor(opsZ)...)
		return []node{nDefn("F", psF, "", nCall(nSym("F"), append(append([]node{}, args...), nInt(0))...)),
			nCall(nSym("F"), append(append([]node{}, args...), inner)...)}
	case "dead-defn":
		// an inner defn of the same name, lazy positions complemented, in a branch that is never taken
		ps2 := append([]param{cnt}, ps...)
		ops2 := append([]param{cnt}, ops...)
		rargs := append([]node{nApp("-", nSym("cnt"), nInt(1))}, args...)
		fbody := nCond([]clause{{nApp("<=", nSym("cnt"), nInt(0)), nBegin(body...)}, {nApp("<", nSym("cnt"), nInt(5)), nCall(nSym("F"), rargs...)}},
			nBegin(nDefn("F", ops2, rest, nInt(0)), nInt(0)))
		return []node{nDefn("F", ps2, rest, fbody), nCall(nSym("F"), append([]node{nInt(1)}, args...)...)}
	case "old-closure":
		// a closure of the old definition kept under another name: its tail call reaches the NEW function
		ps2 := append([]param{cnt}, ps...)
		ops2 := append([]param{cnt}, ops...)
		rargs := append([]node{nApp("-", nSym("cnt"), nInt(1))}, args...)
		oldBody := nCond([]clause{{nApp("<=", nSym("cnt"), nInt(0)), nInt(0)}}, nCall(nSym("F"), rargs...))
		return []node{nDefn("F", ps2, rest, oldBody), nDef("old", nSym("F")), nDefn("F", ops2, rest, bodyFor(ops)...),
			nCall(nSym("old"), append([]node{nInt(1)}, args...)...)}
	}
	switch route {
	case "direct", "lazy-error-unforced", "strict-error":
		return []node{defF, nCall(nSym("F"), args...)}
	case "alias":
		return []node{defF, nDef("G", nSym("F")), nCall(nSym("G"), args...)}
	case "param":
		return []node{defF, nDefn("H", strict("fn2"), "", nCall(nSym("fn2"), args...)), nCall(nSym("H"), nSym("F"))}
	case "computed":
		return []node{defF, nCall(nBegin(nApp("tr", nInt(50), nInt(0)), nSym("F")), args...)}
	case "apply":
		return []node{defF, nApp("apply", nSym("F"), nArr(args...))}
	case "applylist":
		return []node{defF, nApp("apply", nSym("F"), nApp("list", args...))}
	case "map":
		return []node{defF, nApp("map", nSym("F"), nArr(nApp("tr", nInt(1), nInt(10)), nApp("tr", nInt(2), nInt(11))))}
	case "rec":
		// tail self call with lazy parameters: (defn F [cnt p..] (cond (<= cnt 0) BODY (F (- cnt 1) args)))
		ps2 := append([]param{{"cnt", false}}, ps...)
		rargs := append([]node{nApp("-", nSym("cnt"), nInt(1))}, args...)
		fbody := nCond([]clause{{nApp("<=", nSym("cnt"), nInt(0)), nBegin(body...)}}, nCall(nSym("F"), rargs...))
		first := append([]node{nInt(1)}, args...)
		return []node{nDefn("F", ps2, rest, fbody), nCall(nSym("F"), first...)}
	case "nested-caller", "nested-caller-returned":
		// the call site is inside a nested function and its lazy arguments mention a variable
		// of the ENCLOSING function (the caller's lexical environment, through its parent chain)
		var largs []node
		for i := 0; i < n; i++ {
			largs = append(largs, nApp("tr", nInt(i+1), nApp("+", nSym("encl"), nInt(i))))
		}
		if variadic {
			largs = append(largs, nApp("tr", nInt(40), nInt(7)), nApp("tr", nInt(41), nInt(8)))
		}
		inner := nFn(nil, "", nCall(nSym("F"), largs...))
		if route == "nested-caller" {
			return []node{defF, nDef("encl", nInt(500)), nDefn("outer", strict("encl"), "", nCall(inner)), nCall(nSym("outer"), nInt(20))}
		}
		return []node{defF, nDef("encl", nInt(500)), nDefn("outer", strict("encl"), "", inner), nDef("g", nCall(nSym("outer"), nInt(20))), nApp("tr", nInt(70), nInt(0)), nCall(nSym("g"))}
	case "apply-data", "map-data":
		// values that are not self-evaluating reach a lazy parameter through apply / map: forcing
		// returns the value, it is not evaluated again
		data := func(i int) node {
			if i%2 == 0 {
				return nQuote(node{"list", []any{node{"sym", "tr"}, node{"int", 80 + i}, node{"int", 1}}})
			}
			return nQuote(nSym("encl"))
		}
		if route == "map-data" {
			return []node{defF, nDef("encl", nInt(500)), nApp("map", nSym("F"), nArr(data(0), data(1)))}
		}
		var dargs []node
		for i := 0; i < n; i++ {
			dargs = append(dargs, data(i))
		}
		if variadic {
			dargs = append(dargs, nInt(7), nInt(8))
		}
		return []node{defF, nDef("encl", nInt(500)), nApp("apply", nSym("F"), nArr(dargs...))}
	case "after-return":
		// forcing after the caller has returned, through a closure
		// the callee and the closure have their own `loc`: a lazy argument must see the caller's
		var largs []node
		for i := 0; i < n; i++ {
			largs = append(largs, nApp("tr", nInt(i+1), nApp("+", nSym("loc"), nInt(i))))
		}
		if variadic {
			largs = append(largs, nApp("tr", nInt(40), nInt(7)), nApp("tr", nInt(41), nInt(8)))
		}
		mk := nDefn("F", ps, rest, nLet("let", []bind{{"loc", nInt(100)}}, nFn(nil, "", nLet("let", []bind{{"loc", nInt(200)}}, body...))))
		call := nCall(nSym("F"), largs...)
		return []node{mk, nDefn("W", nil, "", nLet("let", []bind{{"loc", nInt(5)}}, call)), nDef("c", nCall(nSym("W"))), nApp("tr", nInt(70), nInt(0)), nCall(nSym("c")), nCall(nSym("c"))}
	}
	return nil
}

func init() {
	register("lazy", "C16: lazy/strict/variadic parameters x call routes x force patterns", func(args []string) int {
		c := commonFlags("lazy", args, nil)
		w := newWriter(c.out)
		defer w.close()
		if c.replay != "" {
			readLines(c.replay, func(line []byte) {
				var in semCase
				if err := json.Unmarshal(line, &in); err != nil {
					fatal("bad replay: %v", err)
				}
				prog := make([]node, len(in.Prog))
				for i := range in.Prog {
					prog[i] = asNode(in.Prog[i])
				}
				w.write(runSem(in.ID, in.Slice, prog, in.Text))
			})
			return 0
		}
		ids, progs := lazyPrograms()
		for i := range ids {
			if c.mine(i) {
				text := renderProgram(progs[i], nil)
				if strings.Contains(ids[i], "-reloaded-") {
					// the earlier definition was left by an earlier evaluation
					text = renderSplit(progs[i], 1)
				}
				if strings.Contains(ids[i], "-old-closure-") {
					// every form in an evaluation of its own
					var parts []string
					for _, f := range progs[i] {
						parts = append(parts, renderProgram([]node{f}, nil))
					}
					text = strings.Join(parts, splitMark)
				}
				w.write(runSem(ids[i], "lazy", progs[i], text))
			}
		}
		return 0
	})
}
