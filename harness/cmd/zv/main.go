// zv: conformance harness binding the TLA+ specifications in /verif/spec to
// the real zygomys library (built from /repo with -tags verif).
//
// Every family registers a subcommand in an init() function of its own file:
//
//	zv <family> [flags]
//
// Common flags (parsed by each family through commonFlags):
//
//	-out FILE      ndjson output, one case per line
//	-seed N        seed for every random choice
//	-tier quick|thorough
//	-shard i -nshard k   run only cases with index%k == i
//	-replay FILE   re-execute the single case stored in FILE
package main

import (
	"fmt"
	"os"
	"sort"
)

type family struct {
	name string
	help string
	run  func(args []string) int
}

var families = map[string]*family{}

func register(name, help string, run func(args []string) int) {
	families[name] = &family{name: name, help: help, run: run}
}

func main() {
	if len(os.Args) < 2 {
		usage()
		os.Exit(2)
	}
	f, ok := families[os.Args[1]]
	if !ok {
		usage()
		os.Exit(2)
	}
	os.Exit(f.run(os.Args[2:]))
}

func usage() {
	fmt.Fprintln(os.Stderr, "usage: zv <family> [flags]")
	names := make([]string, 0, len(families))
	for n := range families {
		names = append(names, n)
	}
	sort.Strings(names)
	for _, n := range names {
		fmt.Fprintf(os.Stderr, "  %-12s %s\n", n, families[n].help)
	}
}
