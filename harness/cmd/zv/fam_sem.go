package main

// Family "sem" (C02/C03): core-language programs evaluated on the real
// interpreter; value/error and the effect trace are recorded and validated by
// TLC against the reference semantics spec/ZSem.tla (spec/SemTrace.tla).

import (
	"encoding/json"
	"flag"
	"fmt"
	"strings"

	zygo "github.com/glycerine/zygomys/v9/zygo"
)

type semCase struct {
	ID    string `json:"id"`
	Slice string `json:"slice"`
	Prog  []any  `json:"prog"`
	Text  string `json:"text"`
	Out   any    `json:"out"`
	Fx    []any  `json:"fx"`
	Dep   []int  `json:"depths"`
	Err   string `json:"errtext,omitempty"`
}

// obsProj is proj() with functions opaque, as ZSem!Obs.
func obsProj(env *zygo.Zlisp, x zygo.Sexp) any {
	return obsNorm(proj(env, x, 0))
}

func obsNorm(p any) any {
	v, ok := p.([]any)
	if !ok || len(v) == 0 {
		return p
	}
	switch v[0] {
	case "fn":
		return []any{"fn"}
	case "other":
		if len(v) > 1 && v[1] == "*zygo.SexpLazyArg" {
			return []any{"lazy"}
		}
		return p
	case "list", "arr":
		es := v[1].([]any)
		out := make([]any, len(es))
		for i, e := range es {
			out[i] = obsNorm(e)
		}
		return []any{v[0], out}
	case "hash":
		ps := v[2].([]any)
		out := make([]any, len(ps))
		for i, p := range ps {
			kv := p.([]any)
			out[i] = []any{obsNorm(kv[0]), obsNorm(kv[1])}
		}
		return []any{v[0], v[1], out}
	}
	return p
}

type semEnv struct {
	env *zygo.Zlisp
	fx  []any
}

// newSemEnv: a fresh interpreter with the two host functions of the effect trace.
func newSemEnv() *semEnv {
	se := &semEnv{env: zygo.NewZlisp()}
	se.env.StandardSetup() // the infix builder and the ++ macro, as every embedding sets up
	se.env.AddFunction("tr", func(env *zygo.Zlisp, name string, args []zygo.Sexp) (zygo.Sexp, error) {
		if len(args) != 2 {
			return zygo.SexpNull, fmt.Errorf("tr: wrong number of arguments")
		}
		se.fx = append(se.fx, []any{obsProj(env, args[0]), obsProj(env, args[1])})
		return args[1], nil
	})
	se.env.AddFunction("trace", func(env *zygo.Zlisp, name string, args []zygo.Sexp) (zygo.Sexp, error) {
		rec := []any{}
		for _, a := range args {
			rec = append(rec, obsProj(env, a))
		}
		se.fx = append(se.fx, rec)
		return zygo.SexpNull, nil
	})
	return se
}

// splitMark separates the pieces of a program that are handed to the interpreter in separate
// evaluations, one after the other (the reference semantics evaluates the forms in one sequence)
const splitMark = "\n//--next-evaluation--\n"

func renderSplit(prog []node, split int) string {
	if split <= 0 || split >= len(prog) {
		return renderProgram(prog, nil)
	}
	return renderProgram(prog[:split], nil) + splitMark + renderProgram(prog[split:], nil)
}

func runSem(id, slice string, prog []node, text string) semCase {
	se := newSemEnv()
	var o outcome
	for _, piece := range strings.Split(text, splitMark) {
		o = evalSafe(se.env, piece)
		if o.Kind != "val" {
			break
		}
	}
	var out any
	switch o.Kind {
	case "val":
		out = []any{"val", obsProj(se.env, o.Val)}
	default:
		out = projOutcome(se.env, o)
	}
	fx := se.fx
	if fx == nil {
		fx = []any{}
	}
	p := make([]any, len(prog))
	for i := range prog {
		p[i] = prog[i]
	}
	return semCase{ID: id, Slice: slice, Prog: p, Text: text, Out: out, Fx: fx, Dep: depthsOf(se.env), Err: trunc(o.Err, 160)}
}

var semSlices = map[string]weights{
	"control": {0, 0, 0, 0, 1},
	"loops":   {10, 0, 0, 0, 1},
	"calls":   {0, 10, 0, 0, 1},
	"data":    {0, 5, 10, 0, 1},
	"scoping": {3, 10, 0, 10, 0},
	"mixed":   {5, 5, 5, 3, 1},
}

func init() {
	register("sem", "C02/C03: core-language programs vs the reference semantics", func(args []string) int {
		var slices string
		c := commonFlags("sem", args, func(fs *flag.FlagSet) {
			fs.StringVar(&slices, "slices", "shapes,scopeshapes,control,loops,calls,data,heap,scoping,mixed", "comma separated slices")
		})
		w := newWriter(c.out)
		defer w.close()
		if c.replay != "" {
			readLines(c.replay, func(line []byte) {
				var in semCase
				if err := json.Unmarshal(line, &in); err != nil {
					fatal("bad replay: %v", err)
				}
				prog := make([]node, len(in.Prog))
				for i := range in.Prog {
					prog[i] = asNode(in.Prog[i])
				}
				w.write(runSem(in.ID, in.Slice, prog, in.Text))
			})
			return 0
		}
		n := c.n
		if n == 0 {
			n = 1500
			if c.thorough() {
				n = 30000
			}
		}
		idx := 0
		for _, sl := range splitComma(slices) {
			if sl == "shapes" {
				// exhaustive: every nesting (depth 2) of the control forms with traced
				// leaves, at top level and as a function body (tail positions)
				pats := []func(i int) node{
					func(i int) node { return nInt(1) },
					func(i int) node { return nInt(0) },
					func(i int) node { return nInt(i % 2) },
					func(i int) node {
						if i%2 == 1 {
							return nNil()
						}
						return nInt(i)
					},
				}
				for si, sh := range enumShapes(2) {
					for pi, pat := range pats {
						for wrap := 0; wrap < 2; wrap++ {
							if !c.mine(idx) {
								idx++
								continue
							}
							k := 0
							body := asNode(fillLeaves(cloneTree(sh), &k, func(i int) node { return nApp("tr", nInt(i), pat(i)) }))
							var prog []node
							if wrap == 0 {
								prog = []node{body}
							} else {
								prog = []node{nDefn("f", strict("n"), "", body), nCall(nSym("f"), nInt(1))}
							}
							w.write(runSem(fmt.Sprintf("shape-%d-%d-%d", si, pi, wrap), sl, prog, renderProgram(prog, nil)))
							idx++
						}
					}
					// a self call at every leaf position of the shape (tail or not): (f 2)
					nl := countLeaves(sh)
					for pos := 1; pos <= nl; pos++ {
						for pi := 0; pi < 3; pi++ {
							if pi == 2 && (si+pos)%3 != 0 {
								continue // the re-binding variant on a third of the positions
							}
							if !c.mine(idx) {
								idx++
								continue
							}
							k := 0
							pat := pats[pi%2]
							body := asNode(fillLeaves(cloneTree(sh), &k, func(i int) node {
								if i == pos && pi == 2 {
									// the argument re-binds f: this call still goes to the f that was looked up
									// before the argument, the next one reaches the new function
									return nCall(nSym("f"), nBegin(nSet("f", nFn(strict("m"), "", nApp("tr", nInt(98), nSym("m")))), nApp("-", nSym("n"), nInt(1))))
								}
								if i == pos {
									return nCall(nSym("f"), nApp("-", nSym("n"), nInt(1)))
								}
								return nApp("tr", nInt(i), pat(i))
							}))
							def := nDefn("f", strict("n"), "", nCond([]clause{{nApp("<=", nSym("n"), nInt(0)), nApp("tr", nInt(99), nInt(pi))}}, body))
							prog := []node{def, nCall(nSym("f"), nInt(2))}
							w.write(runSem(fmt.Sprintf("selfpos-%d-%d-%d", si, pos, pi), sl, prog, renderProgram(prog, nil)))
							idx++
						}
					}
				}
				// the small exhaustive families of gen_ext.go
				for _, np := range append(enumJumpPrograms(), enumDataPrograms()...) {
					if c.mine(idx) {
						w.write(runSem(np.id, sl, np.prog, renderProgram(np.prog, nil)))
					}
					idx++
				}
				for _, np := range enumSelectorPrograms() {
					if c.mine(idx) {
						w.write(runSem(np.id, sl, np.prog, renderProgram(np.prog, nil)))
						w.write(runSem(np.id+"-infix", sl+":infix", np.prog, renderInfixProgram(np.prog)))
					}
					idx++
				}
				continue
			}
			if sl == "scopeshapes" {
				for _, np := range enumScopePrograms() {
					if c.mine(idx) {
						w.write(runSem(np.id, sl, np.prog, renderProgram(np.prog, nil)))
					}
					idx++
				}
				continue
			}
			wt, ok := semSlices[sl]
			if sl == "heap" {
				ok = true
			}
			if !ok {
				fatal("unknown slice %s", sl)
			}
			for i := 0; i < n; i++ {
				if !c.mine(idx) {
					idx++
					continue
				}
				r := newRng(c.seed, uint64(idx)*7+uint64(len(sl)))
				var prog []node
				if sl == "heap" {
					prog = genHeapProgramX(r, true)
				} else {
					prog = genProgramX(r, wt, 2+r.intn(2))
				}
				var lay *layout
				if r.intn(3) == 0 {
					lay = &layout{r: newRng(c.seed, uint64(idx)+999)}
				}
				text := renderProgram(prog, lay)
				w.write(runSem(fmt.Sprintf("%s-%d-%d", sl, c.seed, i), sl, prog, text))
				if lay == nil && r.intn(2) == 0 {
					// the same program in the infix surface syntax
					w.write(runSem(fmt.Sprintf("%s-%d-%d-infix", sl, c.seed, i), sl+":infix", prog, renderInfixProgram(prog)))
				}
				idx++
			}
		}
		return 0
	})
}

func splitComma(s string) []string {
	var out []string
	cur := ""
	for _, ch := range s {
		if ch == ',' {
			if cur != "" {
				out = append(out, cur)
			}
			cur = ""
		} else {
			cur += string(ch)
		}
	}
	if cur != "" {
		out = append(out, cur)
	}
	return out
}
