package main

// Family "gointerop" (C10): records <-> registered Go structs.
// (work in progress: debug subcommand and dumper first)

import (
	"encoding/json"
	"fmt"
	"reflect"
	"sort"
	"strings"
	"time"

	zygo "github.com/glycerine/zygomys/v9/zygo"
)

// ---------------------------------------------------------------- canonical dump of a Go value

type giDumper struct {
	ids  map[uintptr]int
	objs []any
}

func newGiDumper() *giDumper { return &giDumper{ids: map[uintptr]int{}} }

func giTimeIndex(t time.Time) any {
	for i, p := range giTimes {
		if p.Equal(t) {
			return []any{"time", i + 1}
		}
	}
	if t.IsZero() {
		return []any{"time", 0}
	}
	return []any{"time", -1}
}

var giTimeType = reflect.TypeOf(time.Time{})

func (d *giDumper) val(v reflect.Value) any {
	switch v.Kind() {
	case reflect.Bool:
		return []any{"bool", v.Bool()}
	case reflect.Int, reflect.Int8, reflect.Int16, reflect.Int32, reflect.Int64:
		return projInt(v.Int())
	case reflect.Uint, reflect.Uint8, reflect.Uint16, reflect.Uint32, reflect.Uint64:
		return projInt(int64(v.Uint()))
	case reflect.Float32, reflect.Float64:
		return []any{"flt", fmtFloat(v.Float())}
	case reflect.String:
		return []any{"str", v.String()}
	case reflect.Slice:
		if v.Type().Elem().Kind() == reflect.Uint8 {
			bs := []any{}
			for i := 0; i < v.Len(); i++ {
				bs = append(bs, int(v.Index(i).Uint()))
			}
			return []any{"bytes", bs}
		}
		xs := []any{}
		for i := 0; i < v.Len(); i++ {
			xs = append(xs, d.val(v.Index(i)))
		}
		return []any{"slice", xs}
	case reflect.Map:
		type kv struct {
			ks string
			k  any
			v  any
		}
		var kvs []kv
		it := v.MapRange()
		for it.Next() {
			k := d.val(it.Key())
			b, _ := json.Marshal(k)
			kvs = append(kvs, kv{string(b), k, it.Value()})
		}
		sort.Slice(kvs, func(i, j int) bool { return kvs[i].ks < kvs[j].ks })
		ps := []any{}
		for _, e := range kvs {
			ps = append(ps, []any{e.k, d.val(e.v.(reflect.Value))})
		}
		return []any{"map", ps}
	case reflect.Struct:
		if v.Type() == giTimeType {
			return giTimeIndex(v.Interface().(time.Time))
		}
		fs := []any{}
		for i := 0; i < v.NumField(); i++ {
			fs = append(fs, []any{v.Type().Field(i).Name, d.val(v.Field(i))})
		}
		return []any{"struct", v.Type().Name(), fs}
	case reflect.Ptr:
		if v.IsNil() {
			return []any{"nilptr"}
		}
		p := v.Pointer()
		if id, ok := d.ids[p]; ok {
			return []any{"ptr", id}
		}
		id := len(d.objs) + 1
		d.ids[p] = id
		d.objs = append(d.objs, nil)
		d.objs[id-1] = d.val(v.Elem())
		return []any{"ptr", id}
	case reflect.Interface:
		if v.IsNil() {
			return []any{"niliface"}
		}
		return []any{"iface", d.val(v.Elem())}
	}
	return []any{"other", v.Kind().String()}
}

// giDump renders a Go value (normally a pointer to a family struct).
func giDump(x any) (root any, objs []any) {
	d := newGiDumper()
	root = d.val(reflect.ValueOf(x))
	return root, d.objs
}

// ---------------------------------------------------------------- interpreter

func newGiEnv() *zygo.Zlisp {
	giRegister()
	env := zygo.NewZlisp()
	env.StandardSetup()
	for i, t := range giTimes {
		env.AddGlobal(fmt.Sprintf("tm%d", i+1), &zygo.SexpTime{Tm: t})
	}
	return env
}

func init() {
	register("gointerop", "C10: records <-> Go structs (togo / _method Echo), dumped by reflection", func(args []string) int {
		if len(args) > 0 && args[0] == "debug" {
			return giDebug(args[1:])
		}
		fatal("not yet")
		return 2
	})
}

// zv gointerop debug TEXT...: evaluate texts; a text of the form "@name" dumps
// the Go shadow struct of the record bound to name; "@@" dumps the last Echo argument.
func giDebug(args []string) int {
	env := newGiEnv()
	for _, t := range args {
		if t == "@@" {
			r, o := giDump(giLastArg)
			b, _ := json.Marshal([]any{r, o})
			fmt.Printf("lastarg => %s\n", b)
			continue
		}
		if strings.HasPrefix(t, "@") {
			x, ok := env.FindObject(t[1:])
			if !ok {
				fmt.Printf("%s: not bound\n", t)
				continue
			}
			h, isH := x.(*zygo.SexpHash)
			if !isH {
				fmt.Printf("%s: not a hash\n", t)
				continue
			}
			if !h.ShadowSet || h.GoShadowStruct == nil {
				fmt.Printf("%s: no shadow\n", t)
				continue
			}
			r, o := giDump(h.GoShadowStruct)
			b, _ := json.Marshal([]any{r, o})
			fmt.Printf("%s => %s\n", t, b)
			continue
		}
		o := evalSafe(env, t+"\n")
		b, _ := json.Marshal(projOutcome(env, o))
		fmt.Printf("%s\n  => %s", t, b)
		if o.Kind == "val" {
			fmt.Printf(" printed=%s", trunc(o.Val.SexpString(nil), 400))
		}
		if o.Err != "" {
			e := o.Err
			if i := strings.Index(e, "stack trace"); i > 0 {
				e = e[:i]
			}
			fmt.Printf(" err=%q", trunc(e, 400))
		}
		fmt.Println()
	}
	return 0
}
