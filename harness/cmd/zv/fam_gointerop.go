package main

// Family "gointerop" (C10): records <-> registered Go structs.
//
// A case is one record graph (records have identity: a record may be
// referenced from several places, or reach itself), built on the real
// interpreter from script text, and one conversion of its root record:
//
//   kind "fwd"    (togo r): the Go value attached to the record is dumped by
//                 reflection into the canonical abstract form of
//                 spec/GoInterop.tla (tagged tuples, one value per declared
//                 field, pointer identities renamed in first-visit order);
//   kind "echo"   (_method host EchoX: r) with the identity methods of
//                 gointerop_types.go: the Go value the method received (the
//                 implicit conversion of a method argument) in the same form,
//                 and the record the library made of the returned pointer;
//   kind "echo0"  the same through the library's Snoopy.EchoWeather.
//   kind "types"  the struct declarations as reflection sees them (first
//                 line of every trace; GoInteropTrace compares them with the
//                 constants of the specification).
//
// The converter ranges over Go maps, so the order in which it meets the
// fields of a record varies from call to call; a graph in which a record is
// referenced more than once is therefore converted several times (from
// freshly built records) and every distinct outcome is recorded.  Graphs
// that reach themselves are converted in a child process (the pinned code
// dies of a stack overflow, which cannot be recovered in-process).
//
// The expected Go value is NOT computed here: TLC evaluates Fill on the graph
// (spec/GoInteropTrace.tla).  The generators only know the Go declarations
// (by reflection) in order to build records of every shape.

import (
	"bytes"
	"encoding/json"
	"flag"
	"fmt"
	"os"
	"os/exec"
	"reflect"
	"runtime/debug"
	"sort"
	"strconv"
	"strings"
	"time"
	"unicode"

	zygo "github.com/glycerine/zygomys/v9/zygo"
)

// ---------------------------------------------------------------- canonical dump of a Go value

// an object is identified by its address AND its type: a struct and its
// first field share an address.
type giObjKey struct {
	p uintptr
	t reflect.Type
}

type giDumper struct {
	ids  map[giObjKey]int
	objs []any
}

func newGiDumper() *giDumper { return &giDumper{ids: map[giObjKey]int{}} }

func giTimeIndex(t time.Time) any {
	for i, p := range giTimes {
		if p.Equal(t) {
			return []any{"time", i + 1}
		}
	}
	if t.IsZero() {
		return []any{"time", 0}
	}
	return []any{"time", -1}
}

var giTimeType = reflect.TypeOf(time.Time{})
var giDurType = reflect.TypeOf(time.Duration(0))

func (d *giDumper) val(v reflect.Value) any {
	if v.Type() == giDurType {
		return []any{"dur", time.Duration(v.Int()).String()}
	}
	switch v.Kind() {
	case reflect.Bool:
		return []any{"bool", v.Bool()}
	case reflect.Int, reflect.Int8, reflect.Int16, reflect.Int32, reflect.Int64:
		return projInt(v.Int())
	case reflect.Uint, reflect.Uint8, reflect.Uint16, reflect.Uint32, reflect.Uint64:
		return projInt(int64(v.Uint()))
	case reflect.Float32, reflect.Float64:
		return []any{"flt", fmtFloat(v.Float())}
	case reflect.String:
		return []any{"str", v.String()}
	case reflect.Slice:
		if v.Type().Elem().Kind() == reflect.Uint8 {
			bs := []any{}
			for i := 0; i < v.Len(); i++ {
				bs = append(bs, int(v.Index(i).Uint()))
			}
			return []any{"bytes", bs}
		}
		xs := []any{}
		for i := 0; i < v.Len(); i++ {
			xs = append(xs, d.val(v.Index(i)))
		}
		return []any{"slice", xs}
	case reflect.Map:
		type kv struct {
			ks string
			k  any
			v  reflect.Value
		}
		var kvs []kv
		it := v.MapRange()
		for it.Next() {
			k := d.val(it.Key())
			b, _ := json.Marshal(k)
			kvs = append(kvs, kv{string(b), k, it.Value()})
		}
		sort.Slice(kvs, func(i, j int) bool { return kvs[i].ks < kvs[j].ks })
		ps := []any{}
		for _, e := range kvs {
			ps = append(ps, []any{e.k, d.val(e.v)})
		}
		return []any{"map", ps}
	case reflect.Struct:
		if v.Type() == giTimeType {
			return giTimeIndex(v.Interface().(time.Time))
		}
		fs := []any{}
		for i := 0; i < v.NumField(); i++ {
			fs = append(fs, d.val(v.Field(i)))
		}
		return []any{"struct", v.Type().Name(), fs}
	case reflect.Ptr:
		if v.IsNil() {
			return []any{"nilptr"}
		}
		p := giObjKey{v.Pointer(), v.Type()}
		if id, ok := d.ids[p]; ok {
			return []any{"ptr", id}
		}
		id := len(d.objs) + 1
		d.ids[p] = id
		d.objs = append(d.objs, nil)
		d.objs[id-1] = d.val(v.Elem())
		return []any{"ptr", id}
	case reflect.Interface:
		if v.IsNil() {
			return []any{"niliface"}
		}
		return []any{"iface", d.val(v.Elem())}
	}
	return []any{"other", v.Kind().String()}
}

// giDump renders a Go value (a pointer to a family struct).
func giDump(x any) (root any, objs []any) {
	d := newGiDumper()
	root = d.val(reflect.ValueOf(x))
	if d.objs == nil {
		d.objs = []any{}
	}
	return root, d.objs
}

// ---------------------------------------------------------------- projection of a record that came back

func giProj(x zygo.Sexp, depth int) any {
	if depth > 64 {
		return []any{"other", "deep"}
	}
	switch v := x.(type) {
	case *zygo.SexpSentinel:
		if v == zygo.SexpNull {
			return []any{"nil"}
		}
		return []any{"other", "sentinel"}
	case *zygo.SexpInt:
		return projInt(v.Val)
	case *zygo.SexpFloat:
		return []any{"flt", fmtFloat(v.Val)}
	case *zygo.SexpStr:
		return []any{"str", v.S}
	case *zygo.SexpBool:
		return []any{"bool", v.Val}
	case *zygo.SexpChar:
		return []any{"chr", int64(v.Val)}
	case *zygo.SexpRaw:
		bs := []any{}
		for _, b := range v.Val {
			bs = append(bs, int(b))
		}
		return []any{"raw", bs}
	case *zygo.SexpTime:
		return giTimeIndex(v.Tm)
	case *zygo.SexpDur:
		return []any{"dur", v.Dur.String()}
	case *zygo.SexpUint64:
		return projInt(int64(v.Val))
	case *zygo.SexpArray:
		xs := []any{}
		for _, e := range v.Val {
			xs = append(xs, giProj(e, depth+1))
		}
		return []any{"arr", xs}
	case *zygo.SexpHash:
		pairs := []any{}
		for _, k := range v.KeyOrder {
			val, err := v.HashGet(nil, k)
			if err != nil {
				continue
			}
			var key any
			switch kk := k.(type) {
			case *zygo.SexpSymbol:
				key = []any{"sym", kk.Name()}
			case *zygo.SexpStr:
				key = []any{"str", kk.S}
			case *zygo.SexpInt:
				key = projInt(kk.Val)
			default:
				key = []any{"other", fmt.Sprintf("%T", k)}
			}
			if v.TypeName != "hash" {
				key = key.([]any)[1]
				if _, isS := key.(string); !isS {
					key = fmt.Sprint(key)
				}
			}
			pairs = append(pairs, []any{key, giProj(val, depth+1)})
		}
		if v.TypeName == "hash" {
			return []any{"hash", pairs}
		}
		return []any{"rec", v.TypeName, pairs}
	}
	return []any{"other", fmt.Sprintf("%T", x)}
}

// giOcc lists the identities of the records met by a depth-first walk of a
// value that came back (records in key order, arrays by index, plain hashes by
// key text; a record met again is walked again): the number a record gets is
// its first-visit rank, so two occurrences carry one number exactly when they
// are ONE record object.
func giOcc(x zygo.Sexp) []int {
	ids := map[*zygo.SexpHash]int{}
	out := []int{}
	var walk func(x zygo.Sexp, depth int)
	walk = func(x zygo.Sexp, depth int) {
		if depth > 40 || len(out) > 400 {
			return
		}
		switch v := x.(type) {
		case *zygo.SexpArray:
			for _, e := range v.Val {
				walk(e, depth+1)
			}
		case *zygo.SexpHash:
			if v.TypeName != "hash" {
				id, ok := ids[v]
				if !ok {
					id = len(ids) + 1
					ids[v] = id
				}
				out = append(out, id)
				for _, k := range v.KeyOrder {
					if val, err := v.HashGet(nil, k); err == nil {
						walk(val, depth+1)
					}
				}
				return
			}
			type kv struct {
				ks string
				v  zygo.Sexp
			}
			var kvs []kv
			for _, k := range v.KeyOrder {
				val, err := v.HashGet(nil, k)
				if err != nil {
					continue
				}
				var key any
				switch kk := k.(type) {
				case *zygo.SexpSymbol:
					key = []any{"str", kk.Name()}
				case *zygo.SexpStr:
					key = []any{"str", kk.S}
				case *zygo.SexpInt:
					key = projInt(kk.Val)
				}
				b, _ := json.Marshal(key)
				kvs = append(kvs, kv{string(b), val})
			}
			sort.SliceStable(kvs, func(i, j int) bool { return kvs[i].ks < kvs[j].ks })
			for _, e := range kvs {
				walk(e.v, depth+1)
			}
		}
	}
	walk(x, 0)
	return out
}

// ---------------------------------------------------------------- script values and record graphs

// giVal is a script value; JSON form = the tagged tuple of the specification.
type giVal struct {
	K  string   // int flt str bool chr nil raw time arr hash ref
	N  int64    // int, chr, time index, ref (node number, 1-based)
	S  string   // flt (canonical spelling), str
	B  bool     // bool
	Bs []byte   // raw
	Xs []giVal  // arr
	Ps []giPair // hash
}

type giPair struct {
	KK string // sym | str | int
	KS string
	KN int64
	V  giVal
}

type giField struct {
	Key string
	Str bool // written as a string key "k": instead of the symbol k:
	V   giVal
}

type giNode struct {
	Tn string
	Fs []giField
}

type giGraph struct {
	Nodes []giNode
	Root  int // 1-based
}

func giInt(n int64) giVal     { return giVal{K: "int", N: n} }
func giFlt(s string) giVal    { return giVal{K: "flt", S: s} }
func giStr(s string) giVal    { return giVal{K: "str", S: s} }
func giBool(b bool) giVal     { return giVal{K: "bool", B: b} }
func giChr(c rune) giVal      { return giVal{K: "chr", N: int64(c)} }
func giNil() giVal            { return giVal{K: "nil"} }
func giRaw(s string) giVal    { return giVal{K: "raw", Bs: []byte(s)} }
func giTm(i int) giVal        { return giVal{K: "time", N: int64(i)} }
func giArr(xs ...giVal) giVal { return giVal{K: "arr", Xs: xs} }
func giRef(j int) giVal       { return giVal{K: "ref", N: int64(j)} }
func giDur(s string) giVal    { return giVal{K: "dur", S: s} }    // a duration, spelled as time.Duration prints it
func giUint(n int64) giVal    { return giVal{K: "uint", N: n} }   // nULL
func giBig(s string) giVal    { return giVal{K: "bigint", S: s} } // an integer beyond 2^30, decimal text
func giOpq(s string) giVal    { return giVal{K: "opaque", S: s} } // script text of a value no Go field can hold

// giHash builds a plain hash; pairs are kept in the order of the canonical dump
// (JSON text of the Go key), which is the order Fill lists them in.
func giHash(ps ...giPair) giVal {
	cp := append([]giPair(nil), ps...)
	sort.SliceStable(cp, func(i, j int) bool { return cp[i].goKeyText() < cp[j].goKeyText() })
	return giVal{K: "hash", Ps: cp}
}
func giPSym(k string, v giVal) giPair { return giPair{KK: "sym", KS: k, V: v} }
func giPStr(k string, v giVal) giPair { return giPair{KK: "str", KS: k, V: v} }
func giPInt(k int64, v giVal) giPair  { return giPair{KK: "int", KN: k, V: v} }

func (p giPair) goKeyText() string {
	var k any
	if p.KK == "int" {
		k = projInt(p.KN)
	} else {
		k = []any{"str", p.KS}
	}
	b, _ := json.Marshal(k)
	return string(b)
}

func (v giVal) tagged() any {
	switch v.K {
	case "int", "chr", "time", "ref", "uint":
		return []any{v.K, v.N}
	case "flt", "str", "dur", "bigint", "opaque":
		return []any{v.K, v.S}
	case "bool":
		return []any{v.K, v.B}
	case "nil":
		return []any{"nil"}
	case "raw":
		bs := []any{}
		for _, b := range v.Bs {
			bs = append(bs, int(b))
		}
		return []any{"raw", bs}
	case "arr":
		xs := []any{}
		for _, e := range v.Xs {
			xs = append(xs, e.tagged())
		}
		return []any{"arr", xs}
	case "hash":
		ps := []any{}
		for _, p := range v.Ps {
			var k any
			if p.KK == "int" {
				k = []any{"int", p.KN}
			} else {
				k = []any{p.KK, p.KS}
			}
			ps = append(ps, []any{k, p.V.tagged()})
		}
		return []any{"hash", ps}
	}
	return []any{"bad", v.K}
}

func (g *giGraph) tagged() any {
	ns := []any{}
	for _, n := range g.Nodes {
		fs := []any{}
		for _, f := range n.Fs {
			fs = append(fs, []any{f.Key, f.V.tagged()})
		}
		ns = append(ns, []any{n.Tn, fs})
	}
	return ns
}

func (v giVal) refs(out *[]int) {
	switch v.K {
	case "ref":
		*out = append(*out, int(v.N))
	case "arr":
		for _, e := range v.Xs {
			e.refs(out)
		}
	case "hash":
		for _, p := range v.Ps {
			p.V.refs(out)
		}
	}
}

// shared reports whether some record is referenced more than once; cyclic whether a record reaches itself.
func (g *giGraph) shape() (shared, cyclic bool) {
	cnt := map[int]int{}
	succ := map[int][]int{}
	for i, n := range g.Nodes {
		var rs []int
		for _, f := range n.Fs {
			f.V.refs(&rs)
		}
		succ[i+1] = rs
		for _, r := range rs {
			cnt[r]++
			if cnt[r] > 1 {
				shared = true
			}
		}
	}
	state := map[int]int{}
	var dfs func(j int)
	dfs = func(j int) {
		state[j] = 1
		for _, k := range succ[j] {
			if state[k] == 1 {
				cyclic = true
			} else if state[k] == 0 {
				dfs(k)
			}
		}
		state[j] = 2
	}
	dfs(g.Root)
	return
}

// ---- script text

func giFltSpelling(s string) string {
	if strings.ContainsAny(s, ".eE") {
		return s
	}
	return s + ".0"
}

func (v giVal) text(sfx string) string {
	switch v.K {
	case "int":
		return strconv.FormatInt(v.N, 10)
	case "uint":
		return strconv.FormatInt(v.N, 10) + "ULL"
	case "bigint", "opaque":
		return v.S
	case "dur":
		return "(dur " + strconv.Quote(v.S) + ")"
	case "flt":
		return giFltSpelling(v.S)
	case "str":
		return strconv.Quote(v.S)
	case "bool":
		if v.B {
			return "true"
		}
		return "false"
	case "chr":
		return "'" + string(rune(v.N)) + "'"
	case "nil":
		return "nil"
	case "raw":
		return "(raw " + strconv.Quote(string(v.Bs)) + ")"
	case "time":
		return fmt.Sprintf("tm%d", v.N)
	case "arr":
		parts := []string{}
		for _, e := range v.Xs {
			parts = append(parts, e.text(sfx))
		}
		return "[" + strings.Join(parts, " ") + "]"
	case "hash":
		parts := []string{}
		for _, p := range v.Ps {
			var k string
			switch p.KK {
			case "sym":
				k = p.KS + ":"
			case "str":
				k = strconv.Quote(p.KS) + ":"
			default:
				k = strconv.FormatInt(p.KN, 10) + ":"
			}
			parts = append(parts, k+p.V.text(sfx))
		}
		return "(hash " + strings.Join(parts, " ") + ")"
	case "ref":
		return fmt.Sprintf("n%d%s", v.N, sfx)
	}
	return "nil"
}

func (f giField) keyText() string {
	if f.Str {
		return strconv.Quote(f.Key) + ":"
	}
	return f.Key + ":"
}

// text builds the graph: records whose references are all defined go through
// the record constructor; a field that refers to a record defined later (a
// cycle) is set afterwards with hset.
func (g *giGraph) text(sfx string) string {
	var sb strings.Builder
	defined := map[int]bool{}
	visiting := map[int]bool{}
	type later struct {
		node int
		f    giField
	}
	var deferred []later
	var emit func(j int)
	emit = func(j int) {
		if defined[j] || visiting[j] {
			return
		}
		visiting[j] = true
		n := g.Nodes[j-1]
		for _, f := range n.Fs {
			var rs []int
			f.V.refs(&rs)
			for _, r := range rs {
				emit(r)
			}
		}
		parts := []string{}
		for _, f := range n.Fs {
			var rs []int
			f.V.refs(&rs)
			ok := true
			for _, r := range rs {
				if !defined[r] {
					ok = false
				}
			}
			if ok {
				parts = append(parts, f.keyText()+f.V.text(sfx))
			} else {
				deferred = append(deferred, later{j, f})
			}
		}
		fmt.Fprintf(&sb, "(def n%d%s (%s %s))\n", j, sfx, n.Tn, strings.Join(parts, " "))
		defined[j] = true
		visiting[j] = false
	}
	emit(g.Root)
	for _, d := range deferred {
		k := d.f.Key + ":"
		if d.f.Str {
			k = strconv.Quote(d.f.Key)
		}
		fmt.Fprintf(&sb, "(hset n%d%s %s %s)\n", d.node, sfx, k, d.f.V.text(sfx))
	}
	return sb.String()
}

// ---------------------------------------------------------------- the Go declarations, by reflection

var giIfaces = map[string]reflect.Type{
	"ZvAny": reflect.TypeOf((*ZvAny)(nil)).Elem(),
	"Flyer": reflect.TypeOf((*zygo.Flyer)(nil)).Elem(),
}

// every struct of the specification's table: registered name ("" for structs that only occur embedded)
var giStructs = []struct {
	reg string
	typ reflect.Type
}{
	{"zvleaf", reflect.TypeOf(ZvLeaf{})}, {"zvodd", reflect.TypeOf(ZvOdd{})}, {"zvbox", reflect.TypeOf(ZvBox{})},
	{"", reflect.TypeOf(ZvBase{})}, {"", reflect.TypeOf(ZvDeep{})}, {"", reflect.TypeOf(ZvBase2{})},
	{"zvnode", reflect.TypeOf(ZvNode{})}, {"zvwrap", reflect.TypeOf(ZvWrap{})}, {"zvhost", reflect.TypeOf(ZvHost{})},
	{"zvpair", reflect.TypeOf(ZvPair{})}, {"zvemb", reflect.TypeOf(ZvEmb{})},
	{"zvtwin", reflect.TypeOf(ZvTwin{})}, {"zvcrew", reflect.TypeOf(ZvCrew{})}, {"zvpriv", reflect.TypeOf(ZvPriv{})},
	{"", reflect.TypeOf(ZvL4{})}, {"", reflect.TypeOf(ZvL3{})}, {"", reflect.TypeOf(ZvL2{})}, {"zvtower", reflect.TypeOf(ZvTower{})},
	{"persondemo", reflect.TypeOf(zygo.Person{})}, {"eventdemo", reflect.TypeOf(zygo.Event{})},
	{"", reflect.TypeOf(zygo.Wings{})}, {"plane", reflect.TypeOf(zygo.Plane{})}, {"snoopy", reflect.TypeOf(zygo.Snoopy{})},
	{"hornet", reflect.TypeOf(zygo.Hornet{})}, {"hellcat", reflect.TypeOf(zygo.Hellcat{})},
	{"weather", reflect.TypeOf(zygo.Weather{})}, {"setOfPlanes", reflect.TypeOf(zygo.SetOfPlanes{})},
	{"nestouter", reflect.TypeOf(zygo.NestOuter{})}, {"nestinner", reflect.TypeOf(zygo.NestInner{})},
}

// the second names of the types registered under two names (the first one is giStructs.reg)
var giSecondNames = map[string]string{"ZvTwin": "zvtwin", "NestOuter": "nestouter", "NestInner": "nestinner"}

// giFirstName maps a record type name onto the first registered name of its type.
func giFirstName(tn string) string {
	if f, ok := giSecondNames[tn]; ok {
		return f
	}
	return tn
}

func giRegOf(t reflect.Type) string {
	for _, s := range giStructs {
		if s.typ == t {
			return s.reg
		}
	}
	return ""
}

func giTypeOfReg(reg string) reflect.Type {
	reg = giFirstName(reg)
	for _, s := range giStructs {
		if s.reg == reg {
			return s.typ
		}
	}
	return nil
}

func giLowerFirst(s string) string {
	r := []rune(s)
	r[0] = unicode.ToLower(r[0])
	return string(r)
}

// giKeys: the record keys a field answers to -- its json tag, else its name or
// the name with a lower-case first letter (the converter capitalises the key).
func giKeys(f reflect.StructField) []string {
	if tag := f.Tag.Get("json"); tag != "" {
		return []string{tag}
	}
	return []string{f.Name, giLowerFirst(f.Name)}
}

func giTypeEnc(t reflect.Type) any {
	if t == giDurType {
		return []any{"basic", "dur"}
	}
	// named scalar types: the Go kind with the prefix n
	if t.PkgPath() != "" && (t.Kind() == reflect.String || t.Kind() == reflect.Float64) {
		return []any{"basic", "n" + t.Kind().String()}
	}
	switch t.Kind() {
	case reflect.Bool, reflect.String, reflect.Int, reflect.Int8, reflect.Int16, reflect.Int32, reflect.Int64,
		reflect.Uint, reflect.Uint8, reflect.Uint16, reflect.Uint32, reflect.Uint64, reflect.Float32, reflect.Float64:
		return []any{"basic", t.Kind().String()}
	case reflect.Struct:
		if t == giTimeType {
			return []any{"time"}
		}
		return []any{"struct", t.Name()}
	case reflect.Ptr:
		return []any{"ptr", t.Elem().Name()}
	case reflect.Interface:
		return []any{"iface", t.Name()}
	case reflect.Slice:
		if t.Elem().Kind() == reflect.Uint8 {
			return []any{"bytes"}
		}
		return []any{"slice", giTypeEnc(t.Elem())}
	case reflect.Map:
		return []any{"map", t.Key().Kind().String(), giTypeEnc(t.Elem())}
	}
	return []any{"other", t.String()}
}

func giTypesCase(env *zygo.Zlisp) map[string]any {
	structs := map[string]any{}
	pkg := map[string]any{}
	for _, s := range giStructs {
		fs := []any{}
		for i := 0; i < s.typ.NumField(); i++ {
			f := s.typ.Field(i)
			fs = append(fs, []any{f.Name, giKeys(f), giTypeEnc(f.Type), f.Anonymous})
		}
		structs[s.typ.Name()] = fs
		pp := strings.Split(s.typ.PkgPath(), "/")
		pkg[s.typ.Name()] = pp[len(pp)-1]
	}
	reg := map[string]any{}
	impl := map[string][]string{"ZvAny": {}, "Flyer": {}}
	for _, s := range giStructs {
		if s.reg == "" {
			continue
		}
		rt := zygo.GoStructRegistry.Lookup(s.reg)
		name := "?"
		if rt != nil {
			if v, err := rt.Factory(env, nil); err == nil && v != nil {
				t := reflect.TypeOf(v)
				if t.Kind() == reflect.Ptr {
					name = t.Elem().Name()
					for in, it := range giIfaces {
						if t.Implements(it) {
							impl[in] = append(impl[in], name)
						}
					}
				}
			}
		}
		reg[s.reg] = name
	}
	canon := map[string]any{}
	for _, s := range giStructs {
		canon[s.typ.Name()] = s.reg
	}
	for second, first := range giSecondNames {
		name := "?"
		if rt := zygo.GoStructRegistry.Lookup(second); rt != nil {
			if v, err := rt.Factory(env, nil); err == nil && v != nil && reflect.TypeOf(v).Kind() == reflect.Ptr {
				name = reflect.TypeOf(v).Elem().Name()
			}
		}
		reg[second] = name
		_ = first
	}
	for _, v := range impl {
		sort.Strings(v)
	}
	return map[string]any{"id": "types", "kind": "types", "structs": structs, "reg": reg, "impl": impl, "pkg": pkg, "canon": canon}
}

// ---------------------------------------------------------------- interpreter and one conversion

func newGiEnv() *zygo.Zlisp {
	giRegister()
	env := zygo.NewZlisp()
	env.StandardSetup()
	env.ImportDemoData()
	for i, t := range giTimes {
		env.AddGlobal(fmt.Sprintf("tm%d", i+1), &zygo.SexpTime{Tm: t})
	}
	return env
}

type giCase struct {
	ID   string `json:"id"`
	Kind string `json:"kind"` // fwd | echo | echo0 | hist
	Via  string `json:"via,omitempty"`
	// kind echo: the parameter type of the method (["ptr", S] | ["iface", I]) and the field of the argument the
	// method hands back ("": the argument itself)
	Param any    `json:"param,omitempty"`
	Sel   string `json:"sel"`
	Root  int    `json:"root"`
	Sfx   string `json:"sfx"`
	G     any    `json:"g"`
	Text  string `json:"text"`
	Cyc   bool   `json:"cyc,omitempty"`
	Try   int    `json:"tries"`
	Res   []any  `json:"res"`
	Note  string `json:"note,omitempty"`
	// kind hist: steps ["togo"] | ["self"] | ["set", node, key, value] with their script texts; Res[i] belongs to step i
	Steps []any    `json:"steps,omitempty"`
	Stext []string `json:"stext,omitempty"`
}

// giParamOf: the parameter type of an identity method of ZvHost (and of Snoopy.EchoWeather).
func giParamOf(via string) any {
	switch via {
	case "TakeAny":
		return []any{"iface", "ZvAny"}
	case "AnyLeaf":
		return []any{"ptr", "ZvLeaf"}
	case "PairA":
		return []any{"ptr", "ZvPair"}
	case "EchoNest":
		return []any{"ptr", "NestOuter"}
	case "EchoWeather":
		return []any{"ptr", "Weather"}
	}
	for _, t := range giTypes {
		if t.echo == via {
			return []any{"ptr", t.goName}
		}
	}
	return []any{"any"}
}

func giEchoOf(tn string) string {
	if tn == "nestouter" || tn == "NestOuter" {
		return "EchoNest"
	}
	tn = giFirstName(tn)
	for _, t := range giTypes {
		if t.name == tn {
			return t.echo
		}
	}
	return ""
}

// giAttempt builds the graph from text and converts its root once.
func giAttempt(env *zygo.Zlisp, c *giCase) any {
	o := evalSafe(env, c.Text)
	if o.Kind != "val" {
		return []any{"builderr", trunc(o.Err, 200)}
	}
	root := fmt.Sprintf("n%d%s", c.Root, c.Sfx)
	switch c.Kind {
	case "fwd":
		o = evalSafe(env, "(togo "+root+")\n")
		switch o.Kind {
		case "val":
			x, ok := env.FindObject(root)
			h, isH := x.(*zygo.SexpHash)
			if !ok || !isH || !h.ShadowSet || h.GoShadowStruct == nil {
				return []any{"noshadow"}
			}
			r, objs := giDump(h.GoShadowStruct)
			return []any{"ok", r, objs}
		case "err":
			return []any{"err"}
		}
		return []any{o.Kind, trunc(o.Err, 200)}
	case "echo":
		giLastArg = nil
		o = evalSafe(env, "(def zvh (zvhost))\n(_method zvh "+c.Via+": "+root+")\n")
		switch o.Kind {
		case "val":
			arr, isA := o.Val.(*zygo.SexpArray)
			if !isA || len(arr.Val) != 1 || giLastArg == nil {
				return []any{"badresult"}
			}
			r, objs := giDump(giLastArg)
			if c.Cyc {
				// the record handed back reaches itself: it has no finite projection
				return []any{"ok", r, objs, []any{"cyclic"}, []any{}}
			}
			return []any{"ok", r, objs, giProj(arr.Val[0], 0), giOcc(arr.Val[0])}
		case "err":
			if giLastArg == nil {
				return []any{"argerr"}
			}
			r, objs := giDump(giLastArg)
			return []any{"reterr", r, objs}
		}
		return []any{o.Kind, trunc(o.Err, 200)}
	case "echo0":
		o = evalSafe(env, "(def zvs (snoopy cry:\"c\"))\n(_method zvs EchoWeather: "+root+")\n")
		switch o.Kind {
		case "val":
			arr, isA := o.Val.(*zygo.SexpArray)
			if !isA || len(arr.Val) != 1 {
				return []any{"badresult"}
			}
			return []any{"ok0", giProj(arr.Val[0], 0), giOcc(arr.Val[0])}
		case "err":
			return []any{"err0"}
		}
		return []any{o.Kind, trunc(o.Err, 200)}
	}
	return []any{"badkind"}
}

// giHistory runs the steps of a history on one record object.
func giHistory(env *zygo.Zlisp, c *giCase) {
	c.Res = nil
	o := evalSafe(env, c.Text)
	if o.Kind != "val" {
		c.Res = append(c.Res, []any{"builderr", trunc(o.Err, 200)})
		return
	}
	root := fmt.Sprintf("n%d%s", c.Root, c.Sfx)
	for i, st := range c.Steps {
		op, _ := st.([]any)[0].(string)
		giLastArg = nil
		o := evalSafe(env, c.Stext[i])
		switch op {
		case "togo":
			switch o.Kind {
			case "val":
				x, ok := env.FindObject(root)
				h, isH := x.(*zygo.SexpHash)
				if !ok || !isH || !h.ShadowSet || h.GoShadowStruct == nil {
					c.Res = append(c.Res, []any{"noshadow"})
				} else {
					r, objs := giDump(h.GoShadowStruct)
					c.Res = append(c.Res, []any{"ok", r, objs})
				}
			case "err":
				c.Res = append(c.Res, []any{"err"})
			default:
				c.Res = append(c.Res, []any{o.Kind, trunc(o.Err, 200)})
			}
		case "self", "echo", "selfn", "reself":
			switch o.Kind {
			case "val":
				arr, isA := o.Val.(*zygo.SexpArray)
				if !isA || len(arr.Val) != 1 || giLastArg == nil {
					c.Res = append(c.Res, []any{"badresult"})
				} else {
					r, objs := giDump(giLastArg)
					c.Res = append(c.Res, []any{"ok", r, objs, giProj(arr.Val[0], 0), giOcc(arr.Val[0])})
				}
			case "err":
				if giLastArg == nil {
					c.Res = append(c.Res, []any{"argerr"})
				} else {
					r, objs := giDump(giLastArg)
					c.Res = append(c.Res, []any{"reterr", r, objs})
				}
			default:
				c.Res = append(c.Res, []any{o.Kind, trunc(o.Err, 200)})
			}
		default:
			if o.Kind == "val" {
				c.Res = append(c.Res, []any{"set"})
			} else {
				c.Res = append(c.Res, []any{"seterr", trunc(o.Err, 200)})
			}
		}
	}
}

// giRun fills c.Res: the distinct outcomes over c.Try attempts.
func giRun(env *zygo.Zlisp, c *giCase) {
	if c.Kind == "hist" {
		giHistory(env, c)
		return
	}
	if c.Cyc {
		c.Res = []any{giRunChild(c)}
		return
	}
	seen := map[string]bool{}
	var keys []string
	outs := map[string]any{}
	for i := 0; i < c.Try; i++ {
		r := giAttempt(env, c)
		b, _ := json.Marshal(r)
		if !seen[string(b)] {
			seen[string(b)] = true
			keys = append(keys, string(b))
			outs[string(b)] = r
		}
	}
	sort.Strings(keys)
	c.Res = nil
	for _, k := range keys {
		c.Res = append(c.Res, outs[k])
	}
}

// giRunChild converts in a child process; a dead child is the outcome "crash".
func giRunChild(c *giCase) any {
	exe, err := os.Executable()
	if err != nil {
		fatal("executable: %v", err)
	}
	in, _ := json.Marshal(c)
	cmd := exec.Command(exe, "gointerop", "-worker")
	cmd.Stdin = bytes.NewReader(in)
	var out bytes.Buffer
	cmd.Stdout = &out
	done := make(chan error, 1)
	if err := cmd.Start(); err != nil {
		fatal("start worker: %v", err)
	}
	go func() { done <- cmd.Wait() }()
	select {
	case err = <-done:
	case <-time.After(120 * time.Second):
		cmd.Process.Kill()
		return []any{"timeout"}
	}
	if err != nil {
		return []any{"crash"}
	}
	// the library prints diagnostics on stdout: the outcome is the last line
	lines := strings.Split(strings.TrimSpace(out.String()), "\n")
	var r []any
	if json.Unmarshal([]byte(lines[len(lines)-1]), &r) != nil {
		return []any{"crash"}
	}
	return r
}

func giWorker() int {
	debug.SetMaxStack(4 << 20)
	var c giCase
	if err := json.NewDecoder(os.Stdin).Decode(&c); err != nil {
		fatal("worker: %v", err)
	}
	env := newGiEnv()
	r := giAttempt(env, &c)
	b, _ := json.Marshal(r)
	fmt.Printf("\n%s\n", b)
	return 0
}

// ---------------------------------------------------------------- generators

type giGen struct {
	r     *rng
	cases []*giCase
	n     int
	ng    int
	seen  map[string]bool
}

// add registers the conversions of one graph: togo, and the identity method where there is one.
func (gg *giGen) add(tag string, g *giGraph, note string) {
	plain := g.text("")
	if gg.seen[plain] {
		return
	}
	gg.seen[plain] = true
	gg.ng++
	sfx := fmt.Sprintf("_%d", gg.ng)
	text := g.text(sfx)
	shared, cyc := g.shape()
	tries := 1
	if shared {
		tries = 40
	}
	rootTn := g.Nodes[g.Root-1].Tn
	mk := func(kind, via string) {
		gg.n++
		c := &giCase{ID: fmt.Sprintf("%s-%d-%s", tag, gg.n, kind), Kind: kind, Via: via,
			Root: g.Root, Sfx: sfx, G: g.tagged(), Text: text, Cyc: cyc, Try: tries, Note: note}
		if kind != "fwd" {
			c.Param = giParamOf(via)
			if via == "PairA" {
				c.Sel = "a"
			}
		}
		gg.cases = append(gg.cases, c)
	}
	mk("fwd", "")
	// the defect generators (one wrong-kind value, one undeclared key) take the method route for every second graph
	errGen := tag == "w1" || tag == "w2" || tag == "u1" || tag == "u2"
	if errGen && gg.ng%2 == 1 {
		return
	}
	if e := giEchoOf(rootTn); e != "" {
		mk("echo", e)
	} else if rootTn == "weather" {
		mk("echo0", "EchoWeather")
	}
	if errGen {
		return
	}
	// further routes through Go, on a part of the graphs: a result of interface type, a parameter of interface
	// type, a method that hands back a field of its argument
	first := giFirstName(rootTn)
	if cyc {
		return
	}
	if first == "zvleaf" && gg.ng%2 == 0 {
		mk("echo", "AnyLeaf")
	}
	if first == "zvpair" {
		mk("echo", "PairA")
	}
	if giContains(giAnyTypes, first) && gg.ng%6 == 1 {
		mk("echo", "TakeAny")
	}
	// the record passed for a parameter of ANOTHER type: a value of the wrong kind
	if gg.ng%9 == 3 {
		other := []string{"EchoLeaf", "EchoNode", "EchoBox", "EchoPair", "EchoTwin"}[gg.ng/9%5]
		if giEchoOf(rootTn) != other && (rootTn == "weather" || giEchoOf(rootTn) != "") {
			mk("echo", other)
		}
	}
	if (first == "eventdemo" || first == "zvleaf" || first == "hornet") && gg.ng%3 == 0 {
		mk("echo0", "EchoWeather")
	}
}

// builder of graphs
type giGb struct{ g giGraph }

func newGiGb() *giGb { return &giGb{} }
func (b *giGb) rec(tn string, fs ...giField) giVal {
	b.g.Nodes = append(b.g.Nodes, giNode{Tn: tn, Fs: fs})
	return giRef(len(b.g.Nodes))
}
func (b *giGb) set(ref giVal, fs ...giField) {
	n := &b.g.Nodes[ref.N-1]
	n.Fs = append(n.Fs, fs...)
}
func (b *giGb) graph(root giVal) *giGraph {
	g := b.g
	g.Root = int(root.N)
	return &g
}
func giFld(k string, v giVal) giField  { return giField{Key: k, V: v} }
func giFldS(k string, v giVal) giField { return giField{Key: k, Str: true, V: v} }

// a flattened field of a struct: the key to use and its Go type
type giFlat struct {
	key  string
	alt  string // second accepted key ("" if none)
	typ  reflect.Type
	name string
}

func giFlatten(t reflect.Type) []giFlat {
	var out []giFlat
	for i := 0; i < t.NumField(); i++ {
		f := t.Field(i)
		if f.Anonymous {
			out = append(out, giFlatten(f.Type)...)
			continue
		}
		ks := giKeys(f)
		fl := giFlat{key: ks[0], typ: f.Type, name: f.Name}
		if len(ks) > 1 {
			fl.alt = ks[1]
		}
		out = append(out, fl)
	}
	return out
}

var giIntPal = []int64{0, 1, -1, 7, 42, 127, -128}
var giFltPal = []string{"1.5", "-0.25", "2", "0"}
var giStrPal = []string{"", "x", "hello world", "a\"b"}
var giRawPal = []string{"", "hi", "a b\tc"}

// leafish: small records of a registered type (content index k)
func (b *giGb) small(reg string, k int) giVal {
	switch reg {
	case "zvleaf":
		switch k % 3 {
		case 0:
			return b.rec("zvleaf", giFld("i", giInt(7)))
		case 1:
			return b.rec("zvleaf", giFld("s", giStr("x")), giFld("f", giFlt("1.5")), giFld("plain", giStr("p")))
		}
		return b.rec("zvleaf")
	case "zvodd":
		return b.rec("zvodd", giFld("i8", giInt(5)), giFld("r", giChr('a')))
	case "zvbox":
		return b.rec("zvbox", giFld("ints", giArr(giInt(1), giInt(2))), giFld("raw", giRaw("hi")))
	case "zvnode":
		if k%2 == 0 {
			return b.rec("zvnode", giFld("name", giStr("k")), giFld("id", giInt(9)))
		}
		return b.rec("zvnode", giFld("note", giStr("nt")))
	case "zvwrap":
		return b.rec("zvwrap", giFld("deep", giInt(1)), giFld("tail", giStr("t")), giFld("name", giStr("w")))
	case "zvpair":
		return b.rec("zvpair", giFld("l", giStr("pl")))
	case "zvemb":
		return b.rec("zvemb", giFld("x", giStr("ex")), giFld("id", giInt(3)))
	case "zvtower":
		switch k % 3 {
		case 0:
			return b.rec("zvtower", giFld("d1", giInt(1)), giFld("d2", giInt(2)), giFld("ds", giStr("s")), giFld("d3", giInt(3)),
				giFld("c1", giStr("c")), giFld("c2", giInt(4)), giFld("b1", giInt(5)), giFld("a1", giStr("a")))
		case 1:
			return b.rec("zvtower", giFld("d3", giInt(7)), giFld("d1", giInt(-1)), giFld("c1", giStr("x")))
		}
		return b.rec("zvtower", giFld("d2", giInt(42)), giFld("ds", giStr("only")))
	case "zvtwin":
		switch k % 3 {
		case 0:
			return b.rec("zvtwin", giFld("n", giStr("ann")), giFld("k", giInt(1200)))
		case 1:
			// the same Go type under its second registered name
			return b.rec("ZvTwin", giFld("n", giStr("bob")))
		}
		return b.rec("zvtwin", giFld("k", giInt(30)))
	case "zvcrew":
		return b.rec("zvcrew", giFld("call", giStr("z1")), giFld("cap", b.small("zvtwin", 0)))
	case "zvhost":
		return b.rec("zvhost", giFld("n", giInt(1)))
	case "hellcat":
		return b.rec("hellcat", giFld("speed", giInt(567)))
	case "hornet":
		return b.rec("hornet", giFld("mass", giFlt("1.5")), giFld("nickname", giStr("bob")), giFld("SpanCm", giInt(12)))
	case "snoopy":
		return b.rec("snoopy", giFld("cry", giStr("yowza")), giFld("pack", giArr(giInt(8), giInt(9))))
	case "persondemo":
		return b.rec("persondemo", giFld("first", giStr("a")), giFld("last", giStr("b")))
	case "nestinner":
		return b.rec("nestinner", giFld("hello", giStr("myname")))
	case "weather":
		return b.rec("weather", giFld("type", giStr("sunny")), giFld("size", giInt(12)))
	case "nestouter":
		return b.rec("nestouter", giFld("inner", b.small("nestinner", 0)))
	case "plane":
		return b.rec("plane", giFld("speed", giInt(3)))
	}
	return b.rec(reg)
}

func giImplementers(it reflect.Type) []string {
	var out []string
	for _, s := range giStructs {
		if s.reg != "" && reflect.PtrTo(s.typ).Implements(it) {
			out = append(out, s.reg)
		}
	}
	return out
}

// valid candidate values of a Go type (each call builds fresh records in b)
func (b *giGb) candidates(t reflect.Type, depth int) []func() giVal {
	c := func(v giVal) func() giVal { return func() giVal { return v } }
	var out []func() giVal
	if t == giDurType {
		return []func() giVal{c(giDur("1s")), c(giDur("1h30m0s"))}
	}
	switch t.Kind() {
	case reflect.Int16:
		out = append(out, c(giInt(3)), c(giInt(-32768)), c(giInt(300)))
	case reflect.Uint32, reflect.Uint64:
		out = append(out, c(giInt(9)), c(giUint(10)))
	case reflect.Int, reflect.Int64, reflect.Int32:
		for _, n := range giIntPal {
			out = append(out, c(giInt(n)))
		}
		out = append(out, c(giInt(300)))
		if t.Kind() != reflect.Int32 {
			out = append(out, c(giBig("9007199254740993")))
		}
		if t.Kind() == reflect.Int32 {
			out = append(out, c(giChr('a')))
		}
	case reflect.Int8:
		for _, n := range []int64{0, 5, -128, 127} {
			out = append(out, c(giInt(n)))
		}
	case reflect.Uint, reflect.Uint8:
		out = append(out, c(giInt(5)), c(giInt(0)))
	case reflect.Float64:
		for _, s := range giFltPal {
			out = append(out, c(giFlt(s)))
		}
		out = append(out, c(giInt(7)), c(giInt(-1)), c(giFlt("1e+300")))
	case reflect.Float32:
		out = append(out, c(giFlt("1.5")), c(giFlt("-0.25")), c(giFlt("2")))
	case reflect.String:
		for _, s := range giStrPal {
			out = append(out, c(giStr(s)))
		}
	case reflect.Bool:
		out = append(out, c(giBool(true)), c(giBool(false)))
	case reflect.Struct:
		if t == giTimeType {
			return []func() giVal{c(giTm(1)), c(giTm(2)), c(giTm(3))}
		}
		reg := giRegOf(t)
		for k := 0; k < 3; k++ {
			k := k
			out = append(out, func() giVal { return b.small(reg, k) })
		}
	case reflect.Ptr:
		reg := giRegOf(t.Elem())
		out = append(out, c(giNil()))
		for k := 0; k < 2; k++ {
			k := k
			out = append(out, func() giVal { return b.small(reg, k) })
		}
	case reflect.Interface:
		out = append(out, c(giNil()))
		for _, reg := range giImplementers(t) {
			reg := reg
			out = append(out, func() giVal { return b.small(reg, 0) })
		}
	case reflect.Slice:
		if t.Elem().Kind() == reflect.Uint8 {
			for _, s := range giRawPal {
				out = append(out, c(giRaw(s)))
			}
			out = append(out, c(giNil()))
			return out
		}
		out = append(out, c(giNil()), c(giArr()))
		if depth < 3 {
			el := b.candidates(t.Elem(), depth+1)
			for i := range el {
				i := i
				out = append(out, func() giVal { return giArr(el[i]()) })
			}
			if len(el) >= 2 {
				out = append(out, func() giVal { return giArr(el[0](), el[len(el)-1](), el[1]()) })
			}
		}
	case reflect.Map:
		out = append(out, c(giNil()), c(giHash()))
		el := b.candidates(t.Elem(), depth+1)
		if t.Key().Kind() == reflect.String {
			for i := range el {
				i := i
				out = append(out, func() giVal { return giHash(giPSym("a", el[i]())) })
			}
			out = append(out, func() giVal { return giHash(giPSym("k", el[0]()), giPStr("k 2", el[len(el)-1]())) })
		} else {
			out = append(out, func() giVal { return giHash(giPInt(1, el[0]()), giPInt(3, el[len(el)-1]())) })
			out = append(out, func() giVal { return giHash(giPInt(-2, el[1%len(el)]())) })
		}
	}
	return out
}

// number of candidates without building anything
func giNumCandidates(t reflect.Type) int { return len(newGiGb().candidates(t, 0)) }

// values of a clearly wrong kind for a Go type (the conversion must fail)
func (b *giGb) wrong(t reflect.Type) []func() giVal {
	c := func(v giVal) func() giVal { return func() giVal { return v } }
	num := []func() giVal{c(giStr("x")), c(giBool(true)), c(giArr(giInt(1))), c(giRaw("hi")), c(giTm(1)),
		c(giHash(giPSym("a", giInt(1)))), func() giVal { return b.small("zvleaf", 0) }}
	// values no Go field can hold (a regexp, a type value, a channel) and, where it is not a number that is asked
	// for, an unsigned literal: all at the END of the lists (the one-level-down generators take the first two)
	opq := []func() giVal{c(giOpq(`(regexpCompile "a")`)), c(giOpq("int64")), c(giOpq("(makeChan)"))}
	if t == giDurType {
		return append([]func() giVal{c(giStr("1s")), c(giBool(true)), c(giArr(giInt(1))), c(giTm(1)), c(giFlt("1.5"))}, opq[0])
	}
	switch t.Kind() {
	case reflect.Int, reflect.Int64, reflect.Int32, reflect.Int8, reflect.Int16:
		out := append(num, c(giFlt("1.5")), c(giFlt("-0.25")))
		if t.Kind() == reflect.Int8 {
			out = append(out, c(giInt(300)), c(giInt(-200)), c(giInt(128)))
		}
		if t.Kind() == reflect.Int16 {
			out = append(out, c(giInt(40000)))
		}
		if t.Kind() != reflect.Int && t.Kind() != reflect.Int64 {
			out = append(out, c(giBig("9007199254740993")))
		}
		return append(out, opq[0], opq[1])
	case reflect.Uint, reflect.Uint8, reflect.Uint32, reflect.Uint64:
		return append(num, c(giInt(-1)), opq[2])
	case reflect.Float64:
		// an integer a float64 cannot hold exactly
		return append(num, c(giBig("9007199254740993")), opq[1])
	case reflect.Float32:
		// a float beyond the range of float32
		return append(num, c(giFlt("1e+300")), opq[0])
	case reflect.String:
		return []func() giVal{c(giInt(1)), c(giFlt("1.5")), c(giBool(true)), c(giArr(giStr("x"))), c(giTm(2)),
			c(giHash(giPSym("a", giStr("x")))), c(giChr('a')), opq[0], opq[1], opq[2], c(giUint(10))}
	case reflect.Bool:
		return []func() giVal{c(giInt(1)), c(giInt(0)), c(giStr("true")), c(giFlt("1.5")), c(giArr()), opq[1], c(giUint(10))}
	case reflect.Struct:
		if t == giTimeType {
			return []func() giVal{c(giInt(5)), c(giStr("2001-02-03")), c(giFlt("1.5")), c(giArr(giTm(1))), c(giBool(true))}
		}
		return []func() giVal{c(giInt(1)), c(giStr("x")), c(giArr()), c(giHash(giPSym("i", giInt(1)))),
			func() giVal { return b.small("zvhost", 0) }, func() giVal { return giArr(b.small(giRegOf(t), 0)) }}
	case reflect.Ptr:
		other := "zvhost"
		return []func() giVal{c(giInt(1)), c(giStr("x")), c(giBool(false)), c(giHash(giPSym("i", giInt(1)))),
			func() giVal { return b.small(other, 0) }, func() giVal { return giArr(b.small(giRegOf(t.Elem()), 0)) },
			func() giVal {
				if giRegOf(t.Elem()) == "zvleaf" {
					return b.small("zvnode", 0)
				}
				return b.small("zvleaf", 0)
			}}
	case reflect.Interface:
		outsider := "zvhost"
		if t.Name() == "Flyer" {
			outsider = "zvleaf"
		}
		return []func() giVal{c(giInt(1)), c(giStr("x")), c(giHash(giPSym("i", giInt(1)))), c(giArr()),
			func() giVal { return b.small(outsider, 0) }, func() giVal { return b.small("persondemo", 0) }}
	case reflect.Slice:
		if t.Elem().Kind() == reflect.Uint8 {
			return []func() giVal{c(giInt(1)), c(giBool(true)), c(giTm(1)), c(giHash(giPSym("a", giInt(1))))}
		}
		out := []func() giVal{c(giInt(1)), c(giStr("x")), c(giBool(true)), c(giHash(giPSym("a", giInt(1)))), c(giTm(1))}
		for _, w := range b.wrong(t.Elem()) {
			w := w
			out = append(out, func() giVal { return giArr(w()) })
		}
		el := b.candidates(t.Elem(), 3)
		if len(el) > 0 {
			w := b.wrong(t.Elem())
			out = append(out, func() giVal { return giArr(el[len(el)-1](), w[0]()) })
		}
		return out
	case reflect.Map:
		out := []func() giVal{c(giInt(1)), c(giStr("x")), c(giArr(giInt(1))), func() giVal { return b.small("zvleaf", 0) }}
		for _, w := range b.wrong(t.Elem()) {
			w := w
			if t.Key().Kind() == reflect.String {
				out = append(out, func() giVal { return giHash(giPSym("a", w())) })
			} else {
				out = append(out, func() giVal { return giHash(giPInt(1, w())) })
			}
		}
		el := b.candidates(t.Elem(), 3)
		if t.Key().Kind() == reflect.String {
			out = append(out, func() giVal { return giHash(giPInt(1, el[0]())) })
		} else {
			out = append(out, func() giVal { return giHash(giPSym("a", el[0]())) })
		}
		return out
	}
	return nil
}

// the registered types whose records are generated as roots
var giRootTypes = []string{"zvleaf", "zvodd", "zvbox", "zvnode", "zvwrap", "zvpair", "zvemb", "zvtower", "zvtwin", "zvcrew", "zvhost",
	"persondemo", "eventdemo", "plane", "snoopy", "hornet", "hellcat", "weather", "setOfPlanes", "nestouter", "nestinner"}

// reference positions of a root type: how to wrap a child record so that the root refers to it
type giPos struct {
	name  string
	root  string   // registered type of the root
	child []string // registered types a child may have
	kind  string   // val | ptr | iface
	wrap  func(b *giGb, child giVal) []giField
}

func giOne(k string) func(b *giGb, c giVal) []giField {
	return func(b *giGb, c giVal) []giField { return []giField{giFld(k, c)} }
}

var giAnyTypes = []string{"zvleaf", "zvodd", "zvbox", "zvnode", "zvwrap", "zvpair", "zvemb", "zvtower"}
var giFlyers = []string{"hellcat", "hornet", "snoopy"}

var giPositions = []giPos{
	{"val", "zvnode", []string{"zvleaf"}, "val", giOne("val")},
	{"ptr", "zvnode", []string{"zvleaf"}, "ptr", giOne("ptr")},
	{"next", "zvnode", []string{"zvnode"}, "ptr", giOne("next")},
	{"any", "zvnode", giAnyTypes, "iface", giOne("any")},
	{"kids0", "zvnode", []string{"zvnode"}, "ptr", func(b *giGb, c giVal) []giField { return []giField{giFld("kids", giArr(c))} }},
	{"kids1", "zvnode", []string{"zvnode"}, "ptr", func(b *giGb, c giVal) []giField {
		return []giField{giFld("kids", giArr(b.small("zvnode", 1), c))}
	}},
	{"anys0", "zvnode", giAnyTypes, "iface", func(b *giGb, c giVal) []giField { return []giField{giFld("anys", giArr(c))} }},
	{"anys1", "zvnode", giAnyTypes, "iface", func(b *giGb, c giVal) []giField {
		return []giField{giFld("anys", giArr(giNil(), c))}
	}},
	{"vals0", "zvnode", []string{"zvleaf"}, "val", func(b *giGb, c giVal) []giField { return []giField{giFld("vals", giArr(c))} }},
	{"bykey", "zvnode", giAnyTypes, "iface", func(b *giGb, c giVal) []giField {
		return []giField{giFld("bykey", giHash(giPSym("a", c)))}
	}},
	{"next.ptr", "zvnode", []string{"zvleaf"}, "ptr", func(b *giGb, c giVal) []giField {
		return []giField{giFld("next", b.rec("zvnode", giFld("name", giStr("mid")), giFld("ptr", c)))}
	}},
	{"next.any", "zvnode", giAnyTypes, "iface", func(b *giGb, c giVal) []giField {
		return []giField{giFld("next", b.rec("zvnode", giFld("any", c)))}
	}},
	{"any.kids0.val", "zvnode", []string{"zvleaf"}, "val", func(b *giGb, c giVal) []giField {
		return []giField{giFld("any", b.rec("zvnode", giFld("kids", giArr(b.rec("zvnode", giFld("val", c))))))}
	}},
	{"w.ptr", "zvwrap", []string{"zvleaf"}, "ptr", giOne("ptr")},
	{"w.any", "zvwrap", giAnyTypes, "iface", giOne("any")},
	{"w.node", "zvwrap", []string{"zvnode"}, "solo", giOne("node")},
	{"w.next", "zvwrap", []string{"zvnode"}, "ptr", giOne("next")},
	{"p.a", "zvpair", []string{"zvleaf"}, "ptr", giOne("a")},
	{"p.b", "zvpair", giAnyTypes, "iface", giOne("b")},
	{"t.dp", "zvtower", []string{"zvleaf"}, "ptr", giOne("dp")},
	{"t.ref", "zvtower", giAnyTypes, "iface", giOne("ref")},
	{"crew.cap", "zvcrew", []string{"zvtwin"}, "ptr", giOne("cap")},
	{"crew.rel", "zvcrew", []string{"zvtwin", "zvleaf", "zvcrew", "zvnode"}, "iface", giOne("rel")},
	{"crew.nest", "zvcrew", []string{"nestouter"}, "ptr", giOne("nest")},
	{"crew.rel.cap", "zvcrew", []string{"zvtwin"}, "ptr", func(b *giGb, c giVal) []giField {
		return []giField{giFld("rel", b.rec("zvcrew", giFld("call", giStr("inner")), giFld("cap", c)))}
	}},
	{"chld", "snoopy", giFlyers, "iface", giOne("chld")},
	{"friends0", "snoopy", giFlyers, "iface", func(b *giGb, c giVal) []giField { return []giField{giFld("friends", giArr(c))} }},
	{"carrying1", "snoopy", giFlyers, "iface", func(b *giGb, c giVal) []giField {
		return []giField{giFld("carrying", giArr(b.small("hornet", 0), c))}
	}},
	{"hornet.chld", "hornet", giFlyers, "iface", giOne("chld")},
	{"plane.friends0", "plane", giFlyers, "iface", func(b *giGb, c giVal) []giField { return []giField{giFld("friends", giArr(c))} }},
	{"flyers0", "setOfPlanes", giFlyers, "iface", func(b *giGb, c giVal) []giField { return []giField{giFld("flyers", giArr(c))} }},
	{"user", "eventdemo", []string{"persondemo"}, "val", giOne("user")},
	{"inner", "nestouter", []string{"nestinner"}, "ptr", giOne("inner")},
}

func giContains(xs []string, x string) bool {
	for _, y := range xs {
		if y == x {
			return true
		}
	}
	return false
}

// giMergeFields joins field lists; two lists that set the same slice/map key are merged element-wise when possible
func giMergeFields(a, b []giField) ([]giField, bool) {
	out := append([]giField(nil), a...)
	for _, f := range b {
		dup := -1
		for i, g := range out {
			if g.Key == f.Key {
				dup = i
			}
		}
		if dup < 0 {
			out = append(out, f)
			continue
		}
		g := out[dup]
		if g.V.K == "arr" && f.V.K == "arr" {
			out[dup].V = giArr(append(append([]giVal(nil), g.V.Xs...), f.V.Xs...)...)
			continue
		}
		if g.V.K == "hash" && f.V.K == "hash" && len(f.V.Ps) == 1 {
			p := f.V.Ps[0]
			p.KS = "b"
			out[dup].V = giHash(append(append([]giPair(nil), g.V.Ps...), p)...)
			continue
		}
		return nil, false
	}
	return out, true
}

func (gg *giGen) systematic(thorough bool) {
	// E1: one field at a time, every candidate value; every root type
	for _, reg := range giRootTypes {
		t := giTypeOfReg(reg)
		flat := giFlatten(t)
		for fi, f := range flat {
			n := giNumCandidates(f.typ)
			for ci := 0; ci < n; ci++ {
				b := newGiGb()
				v := b.candidates(f.typ, 0)[ci]()
				key := f.key
				if f.alt != "" && ci%2 == 1 {
					key = f.alt
				}
				fs := []giField{giFld(key, v)}
				if ci%3 == 2 {
					fs[0].Str = true // a string key addresses the same field
				}
				// every third record also carries another field, so that fields do not only work alone
				if ci%3 == 1 && len(flat) > 1 {
					o := flat[(fi+1)%len(flat)]
					ob := b.candidates(o.typ, 2)
					fs = append(fs, giFld(o.key, ob[len(ob)-1]()))
				}
				root := b.rec(reg, fs...)
				gg.add("f1", b.graph(root), reg+"."+f.name)
			}
		}
		// the empty record (the demo constructors nestouter/nestinner need an argument)
		if reg != "nestouter" && reg != "nestinner" {
			b := newGiGb()
			gg.add("f0", b.graph(b.rec(reg)), reg)
		}
	}
	// E2: one wrong-kind value at each field (top level)
	for _, reg := range giRootTypes {
		t := giTypeOfReg(reg)
		for _, f := range giFlatten(t) {
			n := len(newGiGb().wrong(f.typ))
			for wi := 0; wi < n; wi++ {
				b := newGiGb()
				v := b.wrong(f.typ)[wi]()
				root := b.rec(reg, giFld(f.key, v))
				gg.add("w1", b.graph(root), "wrong kind at "+reg+"."+f.name)
			}
		}
	}
	// E3: one undeclared key (top level): unknown name, wrong case of a tagged name, name of a nested field
	for _, reg := range giRootTypes {
		t := giTypeOfReg(reg)
		flat := giFlatten(t)
		bad := []string{"zz", "Zz", strings.ToUpper(flat[0].key), flat[0].name + "x"}
		if flat[0].key != flat[0].name {
			bad = append(bad, flat[0].name) // the Go name of a field that has a json tag
		}
		for bi, k := range bad {
			for variant := 0; variant < 2; variant++ {
				b := newGiGb()
				fs := []giField{giFld(k, giInt(1))}
				if variant == 1 {
					// together with valid fields, before and after
					c0 := b.candidates(flat[0].typ, 2)
					fs = []giField{giFld(flat[0].key, c0[len(c0)-1]()), giFld(k, giInt(1))}
					if len(flat) > 1 {
						c1 := b.candidates(flat[len(flat)-1].typ, 2)
						fs = append(fs, giFld(flat[len(flat)-1].key, c1[len(c1)-1]()))
					}
				}
				_ = bi
				gg.add("u1", b.graph(b.rec(reg, fs...)), "undeclared key "+k+" in "+reg)
			}
		}
	}
	// E2'/E3': the same defects one level down, at every reference position
	for _, p := range giPositions {
		for _, ct := range p.child {
			ft := giFlatten(giTypeOfReg(ct))
			// undeclared key in the child
			b := newGiGb()
			child := b.rec(ct, giFld(ft[0].key, b.candidates(ft[0].typ, 2)[0]()), giFld("zz", giInt(1)))
			gg.add("u2", b.graph(b.rec(p.root, p.wrap(b, child)...)), "undeclared key below "+p.name)
			// wrong kind in the child (first two fields, two wrong values each)
			for fi := 0; fi < len(ft) && fi < 2; fi++ {
				nw := len(newGiGb().wrong(ft[fi].typ))
				for wi := 0; wi < nw && wi < 2; wi++ {
					b := newGiGb()
					child := b.rec(ct, giFld(ft[fi].key, b.wrong(ft[fi].typ)[wi]()))
					gg.add("w2", b.graph(b.rec(p.root, p.wrap(b, child)...)), "wrong kind below "+p.name)
				}
			}
			// a valid child of each content
			for k := 0; k < 3; k++ {
				b := newGiGb()
				child := b.small(ct, k)
				fs := p.wrap(b, child)
				gg.add("n1", b.graph(b.rec(p.root, fs...)), "child at "+p.name)
			}
		}
	}
	// E4: sharing -- one record referenced from two (three) positions of the same root
	for i, p := range giPositions {
		for j, q := range giPositions {
			if p.root != q.root || j < i || p.kind == "solo" || q.kind == "solo" {
				// solo: the embedded struct given as a whole; combining it with its own
				// promoted fields is ambiguous (which write wins) and outside the property
				continue
			}
			for _, ct := range p.child {
				if !giContains(q.child, ct) {
					continue
				}
				if !thorough && ct != p.child[0] && (i+j)%3 != 0 {
					continue
				}
				b := newGiGb()
				child := b.small(ct, 0)
				fs, ok := giMergeFields(p.wrap(b, child), q.wrap(b, child))
				if !ok {
					continue
				}
				gg.add("s2", b.graph(b.rec(p.root, fs...)), "shared: "+p.name+" + "+q.name)
				// a third reference
				for k, r := range giPositions {
					if r.root != p.root || k <= j || !giContains(r.child, ct) || r.kind == "solo" {
						continue
					}
					if !thorough && (i+j+k)%4 != 0 {
						continue
					}
					b := newGiGb()
					child := b.small(ct, 1)
					fs, ok := giMergeFields(p.wrap(b, child), q.wrap(b, child))
					if !ok {
						continue
					}
					fs, ok = giMergeFields(fs, r.wrap(b, child))
					if !ok {
						continue
					}
					gg.add("s3", b.graph(b.rec(p.root, fs...)), "shared: "+p.name+" + "+q.name+" + "+r.name)
				}
			}
		}
	}
	// E4': diamonds and chains over three records
	{
		b := newGiGb()
		l := b.small("zvleaf", 0)
		a := b.rec("zvnode", giFld("name", giStr("a")), giFld("ptr", l))
		c := b.rec("zvnode", giFld("name", giStr("c")), giFld("ptr", l))
		gg.add("s4", b.graph(b.rec("zvnode", giFld("kids", giArr(a, c, a)))), "diamond through kids")
		b = newGiGb()
		l = b.small("zvleaf", 1)
		a = b.rec("zvnode", giFld("any", l))
		gg.add("s4", b.graph(b.rec("zvnode", giFld("next", a), giFld("anys", giArr(l, a)))), "diamond iface")
		b = newGiGb()
		l = b.small("zvleaf", 1)
		a = b.rec("zvpair", giFld("a", l), giFld("b", l))
		gg.add("s4", b.graph(b.rec("zvpair", giFld("a", l), giFld("b", a))), "pair of pairs")
		b = newGiGb()
		h := b.small("hellcat", 0)
		ho := b.rec("hornet", giFld("chld", h), giFld("friends", giArr(h)))
		gg.add("s4", b.graph(b.rec("snoopy", giFld("chld", h), giFld("friends", giArr(h, ho)), giFld("carrying", giArr(ho, h)))), "flyers")
		b = newGiGb()
		l = b.small("zvleaf", 0)
		gg.add("s4", b.graph(b.rec("zvnode", giFld("vals", giArr(l, l)), giFld("val", l))), "value copies")
	}
	// E6: histories on one record object (kind hist)
	gg.histories()
	// E5: records that reach themselves
	{
		type cyc struct {
			name string
			mk   func(b *giGb) giVal
		}
		cs := []cyc{
			{"self next", func(b *giGb) giVal {
				r := b.rec("zvnode", giFld("name", giStr("n")))
				b.set(r, giFld("next", r))
				return r
			}},
			{"self any", func(b *giGb) giVal { r := b.rec("zvnode"); b.set(r, giFld("any", r)); return r }},
			{"self kids", func(b *giGb) giVal { r := b.rec("zvnode"); b.set(r, giFld("kids", giArr(r))); return r }},
			{"self bykey", func(b *giGb) giVal { r := b.rec("zvnode"); b.set(r, giFld("bykey", giHash(giPSym("me", r)))); return r }},
			{"two cycle", func(b *giGb) giVal {
				r := b.rec("zvnode", giFld("name", giStr("a")))
				c := b.rec("zvnode", giFld("name", giStr("b")), giFld("next", r))
				b.set(r, giFld("next", c))
				return r
			}},
			{"inner cycle", func(b *giGb) giVal {
				c := b.rec("zvnode", giFld("name", giStr("b")))
				b.set(c, giFld("next", c))
				return b.rec("zvnode", giFld("next", c))
			}},
			{"pair self", func(b *giGb) giVal { r := b.rec("zvpair"); b.set(r, giFld("b", r)); return r }},
			{"snoopy self", func(b *giGb) giVal { r := b.rec("snoopy"); b.set(r, giFld("chld", r)); return r }},
			{"wrap cycle", func(b *giGb) giVal {
				n := b.rec("zvnode")
				r := b.rec("zvwrap", giFld("next", n))
				b.set(n, giFld("any", r))
				return r
			}},
		}
		for _, c := range cs {
			b := newGiGb()
			gg.add("c1", b.graph(c.mk(b)), "cycle: "+c.name)
		}
	}
}

// addHist registers a history on the root record of g.
func (gg *giGen) addHist(g *giGraph, steps []giStep, note string) {
	gg.ng++
	gg.n++
	sfx := fmt.Sprintf("_%d", gg.ng)
	root := fmt.Sprintf("n%d%s", g.Root, sfx)
	c := &giCase{ID: fmt.Sprintf("h1-%d-hist", gg.n), Kind: "hist", Root: g.Root, Sfx: sfx, G: g.tagged(),
		Text: g.text(sfx), Try: 1, Note: note}
	for _, st := range steps {
		switch st.op {
		case "togo":
			c.Steps = append(c.Steps, []any{"togo"})
			c.Stext = append(c.Stext, "(togo "+root+")\n")
		case "self":
			c.Steps = append(c.Steps, []any{"self"})
			c.Stext = append(c.Stext, "(_method "+root+" Self:)\n")
		case "echo":
			via := giEchoOf(g.Nodes[g.Root-1].Tn)
			c.Steps = append(c.Steps, []any{"echo", giParamOf(via)})
			c.Stext = append(c.Stext, "(def zvh (zvhost))\n(_method zvh "+via+": "+root+")\n")
		case "reself":
			// the record handed back by Go is the receiver of a method call
			via := giEchoOf(g.Nodes[g.Root-1].Tn)
			c.Steps = append(c.Steps, []any{"reself", giParamOf(via)})
			c.Stext = append(c.Stext, "(def zvh (zvhost))\n(def zvr"+sfx+" (aget (_method zvh "+via+": "+root+") 0))\n(_method zvr"+sfx+" Self:)\n")
		case "selfn":
			c.Steps = append(c.Steps, []any{"selfn", st.node})
			c.Stext = append(c.Stext, fmt.Sprintf("(_method n%d%s Self:)\n", st.node, sfx))
		case "del":
			c.Steps = append(c.Steps, []any{"del", st.node, st.key})
			c.Stext = append(c.Stext, fmt.Sprintf("(hdel n%d%s (quote %s))\n", st.node, sfx, st.key))
		default:
			c.Steps = append(c.Steps, []any{"set", st.node, st.key, st.v.tagged()})
			c.Stext = append(c.Stext, fmt.Sprintf("(hset n%d%s %s: %s)\n", st.node, sfx, st.key, st.v.text(sfx)))
		}
	}
	gg.cases = append(gg.cases, c)
}

type giStep struct {
	op   string // togo | self | selfn | echo | reself | set | del
	node int
	key  string
	v    giVal
}

// a field whose values need no other record (so that a repair is one hset)
func giPlainType(t reflect.Type) bool {
	switch t.Kind() {
	case reflect.Struct:
		return t == giTimeType
	case reflect.Ptr, reflect.Interface:
		return false
	case reflect.Slice:
		return t.Elem().Kind() == reflect.Uint8 || giPlainType(t.Elem())
	case reflect.Map:
		return giPlainType(t.Elem())
	case reflect.Uint, reflect.Uint8:
		return false // unsupported kind on some trees: every value may be refused
	}
	return true
}

// a valid, non-zero value of a plain type
func (b *giGb) good(t reflect.Type, alt int) giVal {
	c := b.candidates(t, 2)
	if t == giDurType {
		return giDur([]string{"1s", "1h30m0s"}[alt%2])
	}
	switch t.Kind() {
	case reflect.Bool:
		return giBool(true)
	case reflect.Int, reflect.Int64, reflect.Int32, reflect.Int8:
		return giInt(int64(5 + alt))
	case reflect.String:
		return giStr([]string{"x", "hello world"}[alt%2])
	case reflect.Float64, reflect.Float32:
		return giFlt([]string{"1.5", "-0.25"}[alt%2])
	}
	return c[len(c)-1-alt%2]()
}

// histories: a conversion that fails, further conversions of the same object, the repair of the
// field, and conversions again -- through (togo r) and with the record as receiver of a Go method
func (gg *giGen) histories() {
	T, S, E := giStep{op: "togo"}, giStep{op: "self"}, giStep{op: "echo"}
	for _, reg := range []string{"zvleaf", "zvodd", "zvbox", "zvnode", "zvpair", "zvtower", "zvcrew"} {
		flat := giFlatten(giTypeOfReg(reg))
		var plain []giFlat
		for _, f := range flat {
			if giPlainType(f.typ) {
				plain = append(plain, f)
			}
		}
		for fi, f := range plain {
			if fi >= 5 {
				break
			}
			nw := len(newGiGb().wrong(f.typ))
			for wi := 0; wi < nw && wi < 2; wi++ {
				for variant := 0; variant < 2; variant++ {
					b := newGiGb()
					w := b.wrong(f.typ)[wi]()
					if w.K == "ref" || (w.K == "arr" && len(w.Xs) > 0 && w.Xs[0].K == "ref") {
						continue
					}
					fs := []giField{}
					// two other fields with valid, non-zero values around the bad one
					o1 := plain[(fi+1)%len(plain)]
					o2 := plain[(fi+2)%len(plain)]
					if o1.key != f.key {
						fs = append(fs, giFld(o1.key, b.good(o1.typ, 0)))
					}
					fs = append(fs, giFld(f.key, w))
					if o2.key != f.key && o2.key != o1.key {
						fs = append(fs, giFld(o2.key, b.good(o2.typ, 1)))
					}
					root := b.rec(reg, fs...)
					fix := giStep{op: "set", node: int(root.N), key: f.key, v: b.good(f.typ, wi)}
					var steps []giStep
					if variant == 0 {
						steps = []giStep{T, S, T, fix, S, T}
					} else {
						steps = []giStep{S, fix, S, S}
					}
					gg.addHist(b.graph(root), steps, "fail, repair "+reg+"."+f.name+", convert again")
				}
			}
			// a valid record converted, updated, converted explicitly again
			b := newGiGb()
			root := b.rec(reg, giFld(f.key, b.good(f.typ, 0)))
			upd := giStep{op: "set", node: int(root.N), key: f.key, v: b.good(f.typ, 1)}
			gg.addHist(b.graph(root), []giStep{T, upd, T}, "convert, update "+reg+"."+f.name+", convert again")
			// ... and a method call instead: the record as receiver, as argument; first conversion by togo or by the call
			mk := func(steps func(upd giStep) []giStep, bad bool, note string) {
				b := newGiGb()
				o := plain[(fi+1)%len(plain)]
				fs := []giField{giFld(f.key, b.good(f.typ, 0))}
				if o.key != f.key {
					fs = append(fs, giFld(o.key, b.good(o.typ, 1)))
				}
				root := b.rec(reg, fs...)
				v := b.good(f.typ, 1)
				if bad {
					w := b.wrong(f.typ)[0]()
					if w.K == "ref" {
						return
					}
					v = w
				}
				gg.addHist(b.graph(root), steps(giStep{op: "set", node: int(root.N), key: f.key, v: v}), note+" "+reg+"."+f.name)
			}
			// a field that is removed must be zero at the next explicit conversion
			{
				b := newGiGb()
				o := plain[(fi+1)%len(plain)]
				fs := []giField{giFld(f.key, b.good(f.typ, 0))}
				if o.key != f.key {
					fs = append(fs, giFld(o.key, b.good(o.typ, 1)))
				}
				root := b.rec(reg, fs...)
				del := giStep{op: "del", node: int(root.N), key: f.key}
				gg.addHist(b.graph(root), []giStep{T, del, T}, "convert, remove "+reg+"."+f.name+", convert again")
			}
			mk(func(u giStep) []giStep { return []giStep{T, u, S, T, S} }, false, "convert, write, call method on it:")
			mk(func(u giStep) []giStep { return []giStep{S, u, S, S} }, false, "call method, write, call method:")
			mk(func(u giStep) []giStep { return []giStep{T, u, E, S} }, false, "convert, write, pass as argument:")
			mk(func(u giStep) []giStep { return []giStep{E, u, E} }, false, "pass as argument, write, pass again:")
			if fi < 2 {
				mk(func(u giStep) []giStep { return []giStep{T, u, S, E} }, true, "convert, write a wrong-kind value, call method:")
			}
		}
	}
	// a record that came back from Go is the receiver of a method call
	for _, reg := range []string{"zvleaf", "zvpair", "zvtower", "zvcrew"} {
		for k := 0; k < 2; k++ {
			b := newGiGb()
			root := b.small(reg, k)
			if reg == "zvpair" {
				root = b.rec("zvpair", giFld("l", giStr("pl")), giFld("a", b.small("zvleaf", k)), giFld("b", b.small("zvleaf", k+1)))
			}
			if g := b.graph(root); giFirstName(g.Nodes[g.Root-1].Tn) == reg {
				gg.addHist(g, []giStep{{op: "reself"}, E}, "the record handed back is a receiver: "+reg)
			}
		}
	}
	// the bad field one level down
	type nest struct{ root, key, child, ckey string }
	for _, n := range []nest{{"zvnode", "ptr", "zvleaf", "i"}, {"zvnode", "any", "zvleaf", "s"}, {"zvpair", "a", "zvleaf", "f"},
		{"zvcrew", "cap", "zvtwin", "k"}, {"zvtower", "dp", "zvleaf", "b"}, {"zvnode", "val", "zvleaf", "i64"}} {
		ct := giTypeOfReg(n.child)
		var cf giFlat
		for _, f := range giFlatten(ct) {
			if f.key == n.ckey {
				cf = f
			}
		}
		for variant := 0; variant < 2; variant++ {
			b := newGiGb()
			child := b.rec(n.child, giFld(n.ckey, b.wrong(cf.typ)[0]()))
			root := b.rec(n.root, giFld(n.key, child))
			fix := giStep{op: "set", node: int(child.N), key: n.ckey, v: b.good(cf.typ, 0)}
			steps := []giStep{T, S, fix, S, T}
			if variant == 1 {
				steps = []giStep{S, T, fix, T, S}
			}
			gg.addHist(b.graph(root), steps, "fail below "+n.root+"."+n.key+", repair, convert again")
		}
		// the conversion of the root fails below: the record below must not keep a half-made object
		if giContains([]string{"zvleaf"}, n.child) {
			b := newGiGb()
			child := b.rec(n.child, giFld("plain", giStr("x")), giFld(n.ckey, b.wrong(cf.typ)[0]()))
			root := b.rec(n.root, giFld(n.key, child))
			N := giStep{op: "selfn", node: int(child.N)}
			fix := giStep{op: "set", node: int(child.N), key: n.ckey, v: b.good(cf.typ, 0)}
			gg.addHist(b.graph(root), []giStep{S, N, T, N, fix, N, S}, "fail below "+n.root+"."+n.key+", call method on the record below")
		}
		// a write to the record below after a successful conversion
		b := newGiGb()
		child := b.rec(n.child, giFld(n.ckey, b.good(cf.typ, 0)))
		root := b.rec(n.root, giFld(n.key, child))
		upd := giStep{op: "set", node: int(child.N), key: n.ckey, v: b.good(cf.typ, 1)}
		gg.addHist(b.graph(root), []giStep{T, upd, S, E, T, S}, "convert, write below "+n.root+"."+n.key+", call method")
	}
}

// random record of a registered type
func (gg *giGen) randRec(b *giGb, reg string, depth int, pool map[string][]giVal) giVal {
	r := gg.r
	t := giTypeOfReg(reg)
	var fs []giField
	for _, f := range giFlatten(t) {
		if r.intn(100) < 45 {
			continue
		}
		key := f.key
		if f.alt != "" && r.bool() {
			key = f.alt
		}
		fs = append(fs, giField{Key: key, Str: r.intn(10) == 0, V: gg.randVal(b, f.typ, depth, pool)})
	}
	// shuffle the fields: the order of the pairs must not matter
	for i := len(fs) - 1; i > 0; i-- {
		j := r.intn(i + 1)
		fs[i], fs[j] = fs[j], fs[i]
	}
	if len(fs) == 0 && reg == "nestinner" {
		fs = append(fs, giFld("hello", giStr("h")))
	}
	if len(fs) == 0 && reg == "nestouter" {
		fs = append(fs, giFld("inner", giNil()))
	}
	v := b.rec(reg, fs...)
	pool[reg] = append(pool[reg], v)
	return v
}

func (gg *giGen) randRef(b *giGb, regs []string, depth int, pool map[string][]giVal) giVal {
	r := gg.r
	reg := pick(r, regs)
	if p := pool[reg]; len(p) > 0 && r.intn(100) < 35 {
		return pick(r, p)
	}
	if depth >= 3 {
		return b.small(reg, r.intn(3))
	}
	return gg.randRec(b, reg, depth+1, pool)
}

func (gg *giGen) randVal(b *giGb, t reflect.Type, depth int, pool map[string][]giVal) giVal {
	r := gg.r
	switch t.Kind() {
	case reflect.Struct:
		if t != giTimeType {
			return gg.randRef(b, []string{giRegOf(t)}, depth, pool)
		}
	case reflect.Ptr:
		if r.intn(6) == 0 {
			return giNil()
		}
		return gg.randRef(b, []string{giRegOf(t.Elem())}, depth, pool)
	case reflect.Interface:
		if r.intn(6) == 0 {
			return giNil()
		}
		return gg.randRef(b, giImplementers(t), depth, pool)
	case reflect.Slice:
		if t.Elem().Kind() != reflect.Uint8 {
			if r.intn(8) == 0 {
				return giNil()
			}
			n := r.intn(4)
			xs := []giVal{}
			for i := 0; i < n; i++ {
				xs = append(xs, gg.randVal(b, t.Elem(), depth, pool))
			}
			return giArr(xs...)
		}
	case reflect.Map:
		if r.intn(8) == 0 {
			return giNil()
		}
		n := r.intn(3)
		ps := []giPair{}
		for i := 0; i < n; i++ {
			v := gg.randVal(b, t.Elem(), depth, pool)
			if t.Key().Kind() == reflect.String {
				if r.bool() {
					ps = append(ps, giPSym(string(rune('a'+i)), v))
				} else {
					ps = append(ps, giPStr(string(rune('p'+i))+" q", v))
				}
			} else {
				ps = append(ps, giPInt(int64(i*2-1), v))
			}
		}
		return giHash(ps...)
	}
	c := b.candidates(t, 3)
	return c[r.intn(len(c))]()
}

func (gg *giGen) random(n int) {
	for i := 0; i < n; i++ {
		b := newGiGb()
		pool := map[string][]giVal{}
		reg := pick(gg.r, giRootTypes)
		if gg.r.intn(3) == 0 {
			reg = pick(gg.r, []string{"zvnode", "zvwrap", "zvpair", "snoopy", "zvtower", "zvcrew"})
		}
		root := gg.randRec(b, reg, 1, pool)
		g := b.graph(root)
		note := "random"
		// one defect in a random record: an undeclared key or a wrong-kind value somewhere
		switch gg.r.intn(5) {
		case 0:
			j := gg.r.intn(len(g.Nodes))
			g.Nodes[j].Fs = append(g.Nodes[j].Fs, giFld("zz", giInt(1)))
			note = "random + undeclared key"
		case 1:
			j := gg.r.intn(len(g.Nodes))
			fl := giFlatten(giTypeOfReg(g.Nodes[j].Tn))
			f := pick(gg.r, fl)
			w := b.wrong(f.typ)
			if len(w) > 0 {
				v := w[gg.r.intn(len(w))]()
				g.Nodes = b.g.Nodes
				var fs []giField
				for _, x := range g.Nodes[j].Fs {
					if x.Key != f.key && x.Key != f.alt {
						fs = append(fs, x)
					}
				}
				g.Nodes[j].Fs = append(fs, giFld(f.key, v))
				note = "random + wrong kind"
			}
		}
		if _, cyc := g.shape(); cyc || len(g.Nodes) > 12 {
			i-- // graphs of up to 12 records: larger ones only repeat the same positions
			continue
		}
		gg.add("r", g, note)
	}
}

// ---------------------------------------------------------------- driver

func init() {
	register("gointerop", "C10: records <-> Go structs (togo / _method Echo), dumped by reflection", func(args []string) int {
		if len(args) > 0 && args[0] == "debug" {
			return giDebug(args[1:])
		}
		if len(args) > 0 && args[0] == "-worker" {
			return giWorker()
		}
		var list bool
		c := commonFlags("gointerop", args, func(fs *flag.FlagSet) {
			fs.BoolVar(&list, "list", false, "print the generated script texts instead of running them")
		})
		w := newWriter(c.out)
		defer w.close()
		if c.replay != "" {
			env := newGiEnv()
			readLines(c.replay, func(line []byte) {
				var cs giCase
				if err := json.Unmarshal(line, &cs); err != nil {
					fatal("bad replay file: %v", err)
				}
				if cs.Kind == "types" {
					w.write(giTypesCase(env))
					return
				}
				giRun(env, &cs)
				w.write(&cs)
			})
			return 0
		}
		gg := &giGen{r: newRng(c.seed, 10), seen: map[string]bool{}}
		gg.systematic(c.thorough())
		n := c.n
		if n == 0 {
			n = 1200
			if c.thorough() {
				n = 20000
			}
		}
		gg.random(n)
		env := newGiEnv()
		if c.shard == 0 {
			w.write(giTypesCase(env))
		}
		done := 0
		for i, cs := range gg.cases {
			if !c.mine(i) {
				continue
			}
			if list {
				fmt.Printf("---- %s (%s)\n%s", cs.ID, cs.Note, cs.Text)
				continue
			}
			if done%200 == 199 {
				env = newGiEnv()
			}
			done++
			giRun(env, cs)
			w.write(cs)
		}
		return 0
	})
}

// zv gointerop debug TEXT...: evaluate texts; "@name" dumps the Go shadow
// struct of the record bound to name; "@@" dumps the last Echo argument.
func giDebug(args []string) int {
	env := newGiEnv()
	for _, t := range args {
		if t == "@@" {
			r, o := giDump(giLastArg)
			b, _ := json.Marshal([]any{r, o})
			fmt.Printf("lastarg => %s\n", b)
			continue
		}
		if strings.HasPrefix(t, "@") {
			x, ok := env.FindObject(t[1:])
			if !ok {
				fmt.Printf("%s: not bound\n", t)
				continue
			}
			h, isH := x.(*zygo.SexpHash)
			if !isH {
				fmt.Printf("%s: not a hash\n", t)
				continue
			}
			if !h.ShadowSet || h.GoShadowStruct == nil {
				fmt.Printf("%s: no shadow\n", t)
				continue
			}
			r, o := giDump(h.GoShadowStruct)
			b, _ := json.Marshal([]any{r, o})
			fmt.Printf("%s => %s\n", t, b)
			continue
		}
		o := evalSafe(env, t+"\n")
		var b []byte
		if o.Kind == "val" {
			b, _ = json.Marshal(giProj(o.Val, 0))
		} else {
			b, _ = json.Marshal(projOutcome(env, o))
		}
		fmt.Printf("%s\n  => %s", t, b)
		if o.Err != "" {
			e := o.Err
			if i := strings.Index(e, "stack trace"); i > 0 {
				e = e[:i]
			}
			fmt.Printf(" err=%q", trunc(e, 400))
		}
		fmt.Println()
	}
	return 0
}
