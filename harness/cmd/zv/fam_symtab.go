package main

// Family "symtab" (C19): histories of symbol creation / generation /
// duplication / cloning across a real family of interpreters sharing one
// table; validated by TLC against spec/SymtabTrace.tla.

import (
	"encoding/json"
	"fmt"
	"sort"

	zygo "github.com/glycerine/zygomys/v9/zygo"
)

type symOp struct {
	Op     string `json:"op"` // intern | gensym | dup | clone | str2sym | sgensym | eq
	M      int    `json:"m"`
	Name   string `json:"name,omitempty"`   // intern: the name; gensym: the prefix
	Off    int    `json:"off,omitempty"`    // intern of a generated-shaped name: prefix<counter+off>
	Shaped bool   `json:"shaped,omitempty"` // name = Name + (counter of member M + Off)
	A      string `json:"a,omitempty"`
	B      string `json:"b,omitempty"`
}

type symCase struct {
	ID  string  `json:"id"`
	Ops []symOp `json:"ops"`
	Evs []any   `json:"evs"`
}

func symFuncs() map[string]zygo.ZlispUserFunction {
	all := zygo.AllBuiltinFunctions()
	m := map[string]zygo.ZlispUserFunction{}
	for _, k := range []string{"str2sym", "gensym", "==", "sym2str", "symnum", "joinsym", "read"} {
		if f, ok := all[k]; ok {
			m[k] = f
		}
	}
	return m
}

// newSymRoot: a root interpreter with a small function table plus the builders (var among them)
func newSymRoot() *zygo.Zlisp {
	root := zygo.NewZlispWithFuncs(symFuncs())
	root.ImportPackageBuilder()
	root.ImportBaseTypes() // the type names (symbol among them) that (var x <type>) needs
	return root
}

// runSymCase executes ops on a fresh family and returns the events.
func runSymCase(ops []symOp) (evs []any) {
	nv := 0
	root := newSymRoot()
	fam := []*zygo.Zlisp{root}
	evs = append(evs, map[string]any{"op": "init", "n": len(root.VerifSymtab())})
	defer func() {
		if r := recover(); r != nil {
			evs = append(evs, map[string]any{"op": "panic", "msg": fmt.Sprint(r)})
		}
	}()
	for _, o := range ops {
		if o.M >= len(fam) {
			continue
		}
		env := fam[o.M]
		switch o.Op {
		case "intern":
			name := o.Name
			if o.Shaped {
				name = fmt.Sprintf("%s%d", o.Name, env.VerifNextSymbol()+o.Off)
			}
			s := env.MakeSymbol(name)
			evs = append(evs, map[string]any{"op": "intern", "m": o.M, "name": s.Name(), "num": s.Number(), "asked": name})
		case "gensym":
			s := env.GenSymbol(o.Name)
			evs = append(evs, map[string]any{"op": "gensym", "m": o.M, "prefix": o.Name, "name": s.Name(), "num": s.Number()})
		case "dup":
			fam = append(fam, env.Duplicate())
			evs = append(evs, map[string]any{"op": "dup", "m": o.M, "new": len(fam) - 1})
		case "clone":
			fam = append(fam, env.Clone())
			evs = append(evs, map[string]any{"op": "clone", "m": o.M, "new": len(fam) - 1})
		case "str2sym":
			name := o.Name
			if o.Shaped {
				name = fmt.Sprintf("%s%d", o.Name, env.VerifNextSymbol()+o.Off)
			}
			out := evalSafe(env, fmt.Sprintf("(str2sym %q)\n", name))
			if s, ok := out.Val.(*zygo.SexpSymbol); ok && out.Kind == "val" {
				evs = append(evs, map[string]any{"op": "intern", "m": o.M, "name": s.Name(), "num": s.Number(), "asked": name, "via": "str2sym"})
			} else {
				evs = append(evs, map[string]any{"op": "fail", "m": o.M, "text": "str2sym", "out": projOutcome(env, out)})
			}
		case "varsym":
			// a variable declared with the type symbol holds the symbol named by the empty string;
			// other script routes to a symbol: quote, read, joinsym
			nv++
			var text string
			switch o.Name {
			case "var":
				text = fmt.Sprintf("(var zvs%d symbol)\nzvs%d\n", nv, nv)
			case "quote":
				text = "(quote qa)\n"
			case "read":
				text = "(read \"qa\")\n"
			default:
				text = "(joinsym (quote q) (quote a))\n"
			}
			out := evalSafe(env, text)
			if s, ok := out.Val.(*zygo.SexpSymbol); ok && out.Kind == "val" {
				evs = append(evs, map[string]any{"op": "intern", "m": o.M, "name": s.Name(), "num": s.Number(), "asked": o.Name, "via": "script-" + o.Name})
			} else {
				evs = append(evs, map[string]any{"op": "fail", "m": o.M, "text": text, "out": projOutcome(env, out)})
			}
		case "eqq":
			// equality of two symbols written as data (quoted, or read from text), with the plain parts of
			// dotted names bound to equal values: symbols are equal exactly when their names are
			form := "(== (quote %s) (quote %s))\n"
			if o.Off == 1 {
				form = "(== (read %q) (read %q))\n"
			}
			evalSafe(env, "(def zp 7)\n(def zq 7)\n")
			out := evalSafe(env, fmt.Sprintf(form, o.A, o.B))
			if b, ok := out.Val.(*zygo.SexpBool); ok && out.Kind == "val" {
				evs = append(evs, map[string]any{"op": "eqq", "m": o.M, "a": o.A, "b": o.B, "res": []any{"bool", b.Val}})
			} else {
				evs = append(evs, map[string]any{"op": "eqq", "m": o.M, "a": o.A, "b": o.B, "res": []any{"err"}})
			}
		case "sgensym":
			text := "(gensym)\n"
			if o.Name != "" {
				text = fmt.Sprintf("(gensym %q)\n", o.Name)
			}
			out := evalSafe(env, text)
			if s, ok := out.Val.(*zygo.SexpSymbol); ok && out.Kind == "val" {
				evs = append(evs, map[string]any{"op": "gensym", "m": o.M, "prefix": o.Name, "name": s.Name(), "num": s.Number(), "via": "script"})
			} else {
				evs = append(evs, map[string]any{"op": "fail", "m": o.M, "text": text, "out": projOutcome(env, out)})
			}
		case "eq":
			out := evalSafe(env, fmt.Sprintf("(== (str2sym %q) (str2sym %q))\n", o.A, o.B))
			if b, ok := out.Val.(*zygo.SexpBool); ok && out.Kind == "val" {
				evs = append(evs, map[string]any{"op": "eq", "m": o.M, "a": o.A, "b": o.B, "res": b.Val})
			} else {
				evs = append(evs, map[string]any{"op": "fail", "m": o.M, "text": "eq", "out": projOutcome(env, out)})
			}
		}
	}
	return evs
}

func init() {
	register("symtab", "C19: symbol interning across a family of interpreters", func(args []string) int {
		c := commonFlags("symtab", args, nil)
		w := newWriter(c.out)
		defer w.close()
		// first record: the names every fresh root interpreter starts with
		{
			root := newSymRoot()
			tab := root.VerifSymtab()
			names := make([]string, 0, len(tab))
			for n := range tab {
				names = append(names, n)
			}
			sort.Strings(names)
			if c.shard == 0 {
				w.write(map[string]any{"id": "base", "names": names, "evs": []any{}})
			}
		}
		if c.replay != "" {
			readLines(c.replay, func(line []byte) {
				var in symCase
				if err := json.Unmarshal(line, &in); err != nil {
					fatal("bad replay: %v", err)
				}
				w.write(symCase{ID: in.ID, Ops: in.Ops, Evs: runSymCase(in.Ops)})
			})
			return 0
		}
		// alphabet of steps; members that do not exist yet make a step a no-op,
		// so sequences are pruned to those whose members exist
		var alpha []symOp
		for m := 0; m < 3; m++ {
			alpha = append(alpha,
				symOp{Op: "intern", M: m, Name: "a"},
				symOp{Op: "intern", M: m, Name: ""}, // the empty name is a name like any other
				symOp{Op: "str2sym", M: m, Name: "b"},
				symOp{Op: "intern", M: m, Name: "__gensym", Shaped: true, Off: 0},
				symOp{Op: "intern", M: m, Name: "__gensym", Shaped: true, Off: 1},
				symOp{Op: "str2sym", M: m, Name: "g", Shaped: true, Off: 0},
				symOp{Op: "gensym", M: m, Name: "__gensym"},
				symOp{Op: "sgensym", M: m, Name: "g"},
				symOp{Op: "sgensym", M: m, Name: ""},
				symOp{Op: "varsym", M: m, Name: "var"},
				symOp{Op: "varsym", M: m, Name: "quote"},
				symOp{Op: "eqq", M: m, A: ".zp", B: ".zq"},
				symOp{Op: "eqq", M: m, A: "zp", B: "zq"},
			)
			if m < 2 {
				alpha = append(alpha, symOp{Op: "dup", M: m}, symOp{Op: "clone", M: m})
			}
		}
		L := 4
		if c.thorough() {
			L = 5
		}
		idx := 0
		var rec func(prefix []symOp, members int)
		rec = func(prefix []symOp, members int) {
			if len(prefix) > 0 && (prefix[len(prefix)-1].Op != "dup" && prefix[len(prefix)-1].Op != "clone") {
				if c.mine(idx) {
					w.write(symCase{ID: fmt.Sprintf("x%d", idx), Ops: prefix, Evs: runSymCase(prefix)})
				}
				idx++
			}
			if len(prefix) == L {
				return
			}
			for _, o := range alpha {
				if o.M >= members {
					continue
				}
				nm := members
				if o.Op == "dup" || o.Op == "clone" {
					if members >= 3 {
						continue
					}
					nm++
				}
				rec(append(append([]symOp(nil), prefix...), o), nm)
			}
		}
		rec(nil, 1)
		// random long histories
		n := c.n
		if n == 0 {
			n = 400
			if c.thorough() {
				n = 5000
			}
		}
		pool := []string{"a", "b", "c", "x1", "x2", "g", "g1", "", " ", "0"}
		for i := 0; i < n; i++ {
			if !c.mine(idx) {
				idx++
				continue
			}
			r := newRng(c.seed, uint64(i))
			var ops []symOp
			members := 1
			for s := 0; s < 40; s++ {
				m := r.intn(members)
				switch r.intn(9) {
				case 0:
					ops = append(ops, symOp{Op: "intern", M: m, Name: pick(r, pool)})
				case 1:
					ops = append(ops, symOp{Op: "intern", M: m, Name: pick(r, []string{"__gensym", "g", "__anon", "__loop"}), Shaped: true, Off: r.intn(4)})
				case 2:
					ops = append(ops, symOp{Op: "str2sym", M: m, Name: pick(r, []string{"__gensym", "g"}), Shaped: true, Off: r.intn(3)})
				case 3:
					ops = append(ops, symOp{Op: "gensym", M: m, Name: pick(r, []string{"__gensym", "g", "__anon"})})
				case 4:
					ops = append(ops, symOp{Op: "sgensym", M: m, Name: pick(r, []string{"", "g"})})
					ops = append(ops, symOp{Op: "varsym", M: m, Name: pick(r, []string{"var", "quote", "read", "joinsym"})})
					qn := []string{"zp", "zq", ".zp", ".zq", "zu.v", ".zunbound", "a", "qa"}
					ops = append(ops, symOp{Op: "eqq", M: m, A: pick(r, qn), B: pick(r, qn), Off: r.intn(2)})
				case 5:
					if members < 5 {
						ops = append(ops, symOp{Op: pick(r, []string{"dup", "clone"}), M: m})
						members++
					}
				case 6:
					ops = append(ops, symOp{Op: "eq", M: m, A: pick(r, pool), B: pick(r, pool)})
				default:
					ops = append(ops, symOp{Op: "str2sym", M: m, Name: pick(r, pool)})
				}
			}
			w.write(symCase{ID: fmt.Sprintf("r%d-%d", c.seed, i), Ops: ops, Evs: runSymCase(ops)})
			idx++
		}
		return 0
	})
}
