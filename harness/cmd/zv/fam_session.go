package main

// Family "session" (C04): sequences of evaluations over a catalogue of forms
// of the full surface language on one long-lived interpreter; records the
// depths of the four VM stacks around every evaluation, the value of an empty
// evaluation afterwards, the same forms evaluated together on a twin, and the
// listings of everything compiled (for spec/Bytecode.tla).

import (
	"bytes"
	"encoding/json"
	"flag"
	"fmt"
	"os"
	"regexp"
	"strings"

	zygo "github.com/glycerine/zygomys/v9/zygo"
)

// the catalogue: %d is replaced by a number unique to the case (struct names
// are registered process-wide)
var sessionCatalogue = []string{
	// core forms
	`(def a%d 1)`, `(set b%d 2)`, `(+ 1 2)`, `(begin 1 2)`, `(begin)`, `(newScope (def q 1) q)`,
	`(let [x 1 y 2] (+ x y))`, `(letseq [x 1 y x] y)`, `(cond true 1 2)`, `(cond false 1 2)`, `(cond 1)`,
	`(and 1 2)`, `(and 0 2)`, `(or 0 2)`, `(or nil false)`,
	`(for [(def i 0) (< i 3) (def i (+ i 1))] i)`,
	`(for [(def i 0) (< i 3) (def i (+ i 1))] (cond (== i 1) (break) nil))`,
	`(for [(def i 0) (< i 3) (def i (+ i 1))] (cond (== i 1) (continue) nil) (let [z i] z))`,
	// loops that do not compile (body, test): what follows them on the same interpreter must still end at rest
	`(for [(def i 0) (< i 3) (def i (+ i 1))] (let [x] x))`,
	`(for lab%d: [(def i 0) (< (let [x] x) 3) (def i (+ i 1))] i)`,
	`(for outer: [(def i 0) (< i 2) (def i (+ i 1))] (for [(def j 0) (< j 2) (def j (+ j 1))] (let [w j] (cond (== j 1) (continue outer:) (break outer:)))))`,
	`(defn f%d [a] (+ a 1))`, `(defn g%d [a & r] r)`, `((fn [a] a) 5)`, `(fn [a] a)`,
	`(defn t%d [n acc] (cond (<= n 0) acc (t%d (- n 1) (+ acc 1))))`,
	`(map (fn [a] (+ a 1)) [1 2 3])`, `(apply + [1 2 3])`,
	`(quote a)`, `(quote (a b c))`, `(quote a b c)`, `^(1 ~(+ 1 1) ~@(list 3 4))`,
	`[1 2 3]`, `(list 1 2)`, `(hash a: 1 b: 2)`, `{}`, `"str"`, `'c'`, `1.5`, `nil`, `true`,
	`(mdef m1 m2 (list 1 2))`, `(assert true)`,
	// declarations and builders
	`(struct S%d [(field X: int64) (field Y: string)])`,
	`(begin (struct P%d [(field X: int64)]) (def p (P%d X: 3)) p.X)`,
	`(func fu%d [a:int64] [n:int64] (return (+ a 1)))`,
	`(begin (func fv%d [a:int64] [n:int64] (return (+ a 1))) (fv%d a: 2))`,
	`(var v%d int64)`, `(var s%d string)`,
	`(interface I%d [(func Drive [] [s:string])])`,
	`(begin (struct C%d [(field X: int64)]) (method [(p *C%d)] M%d [] [s:string] (return "r")))`,
	`(def pk%d (package "pk%d" { A := 1; (defn F [x] (+ x A)) }))`,
	`(begin (def pq%d (package "pq%d" { A := 1 })) pq%d.A)`,
	`(defmac w%d [p & body] ^(cond ~p (begin ~@body) nil))`,
	`(begin (defmac u%d [p & body] ^(cond ~p (begin ~@body) nil)) (u%d true 1 2))`,
	`(begin (defmac wb%d [p & body] ^(cond ~p (begin ~@body) nil)) (for [(def i 0) (< i 3) (def i (+ i 1))] (let [q i] (wb%d (== q 1) (break)))))`,
	`(begin (defmac wc%d [p & body] ^(cond ~p (begin ~@body) nil)) (def sm%d 0) (for [(def i 0) (< i 3) (def i (+ i 1))] (newScope (let [q i] (wc%d (== q 1) (continue)) (set sm%d (+ sm%d q))))) sm%d)`,
	`(for [(def i 0) (< i 3) (def i (+ i 1))] (or (newScope (cond (== i 1) (let [y 1] (break)) 0) nil) 5))`,
	`(for [(def i 0) (< i 3) (def i (+ i 1))] (and (let [y i] (cond (== y 1) (continue) y)) (newScope 5)))`,
	`(begin (defmac tw%d [n] ^(cond (<= ~n 0) 0 (twf%d (- ~n 1)))) (defn twf%d [n] (let [m n] (tw%d m))) (twf%d 5))`,
	`(macexpand (range k v (hash a: 1) k))`,
	`(range k v (hash a: 1 b: 2) (+ v 1))`,
	`(begin (def h (hash a: 1)) (hset h b: 2) (hget h b:))`,
	// infix
	`{3 + 4}`, `{x%d := 3}`, `{y%d = 3; y%d + 1}`, `{a := [1 2 3]; a[1]}`, `{a := [1 2 3]; a[0:2]}`,
	`{if 1 == 2 { 3 } else { 4 }}`, `{if 1 == 1 { 3 }}`,
	`{s := 0; for i := 0; i < 3; i++ { s += i }; s}`,
	`{s := 0; for i := 0; i < 5; i++ { if i == 1 { continue }; if i == 3 { break }; s += i }; s}`,
	`{h := (hash a: 1); h.a}`, `{1; 2; 3}`, `(infixExpand {1 + 2 * 3})`,
	`(-> (hash a: (hash b: 5)) a: b:)`,
	`(str 1)`, `(len [1 2])`, `(type? 1)`, `(first [1 2])`, `(println)`,
	`(begin (def arr [1 2 3]) (aset arr 0 9) arr)`,
	`(eval (quote (+ 1 2)))`, `(eval (read "(+ 1 2) "))`, `(stop)`, `(aget [1] 5)`, `unbound%d`,
	// assignment forms: prefix, infix position inside a list, several targets, through an index / a field
	`(begin (def ma%d 0) (def mb%d 0) (ma%d mb%d = 1 2))`,
	`(begin (def ma%d 0) (def mb%d 0) (def mc%d 0) (ma%d mb%d mc%d = 1 2 3) (list ma%d mb%d mc%d))`,
	`(na%d = 5)`, `(nb%d := 5)`, `(= nc%d 5)`, `(:= nd%d 5)`,
	`(begin (def z%d 1) (z%d = 2) z%d)`,
	`(mdef md%d me%d mf%d (list 1 2 3))`,
	`(mdef mg%d mh%d [1 2])`,
	`{a := [1 2 3]; a[1] = 7; a}`, `{h := (hash a: 1); h.a = 5; h.a}`,
	`{p%d, q%d = 1, 2}`, `{p%d, q%d := 1, 2; p%d + q%d}`,
	`{n := 0; n++; n}`, `{n := 5; n--}`, `{n := 1; n += 2}`, `{n := 1; n -= 2; n}`,
	`{2 ** 3}`, `{not true}`, `{1 < 2 and 2 < 3}`, `{7 mod 2}`, `{1 < 2 or 2 < 1}`, `{-3 + 1}`,
	`(begin (def ar%d [1 2 3]) (defn g%d [] { ar%d[2] = 11 } 5) (+ 100 (g%d)))`,
	`(begin (defn g%d [] { 1 + 2 } 5) (+ 100 (g%d)))`,
	`(begin (def hh%d (hash a: 1)) (defn g%d [] { hh%d.a = 11 } 5) (+ 100 (g%d)))`,
	`(begin (defn g%d [] { q := 3 } { q + 1 }) (g%d))`,
	`(begin (def ar%d [1 2 3]) (set (arrayidx ar%d [0]) 9) ar%d)`,
	`(begin (def hs%d (hash a: 1)) (set hs%d.a 4) hs%d.a)`,
	`(begin (func fw%d [a:int64 b:int64] [n:int64] (return (- a b))) (fw%d b: 1 a: 5))`,
	`(begin (func fx%d [a:int64 b:int64] [n:int64] (return (- a b))) (def r%d (fx%d b: 1 a: 5)) r%d)`,
	`(begin (func fy%d [a:int64 b:int64] [n:int64] (return (- a b))) (+ 1 (fy%d b: 1 a: 5)))`,
	`(expectError "Error calling 'aget': Array index out of bounds" (aget [1] 5))`,
	`(sliceOf int64)`, `(_ls)`, `(: a (hash a: 1))`,
	`(for outer: [(def i 0) (< i 2) (def i (+ i 1))] (for [(def j 0) (< j 2) (def j (+ j 1))] (break outer:)))`,
	`{ outer: for i := 0; i < 2; i++ { for j := 0; j < 2; j++ { break outer } } }`,
	`(for [(def i 0) (< i 2) (def i (+ i 1))] (package "lp%d" { A := 1; (break) }))`,
	`(begin (defn pf%d [n] (package "pp%d" { A := n; (cond (<= n 0) 1 (pf%d (- n 1))) })) (def pr%d (pf%d 2)) (+ 0 pr%d.A))`,
	`(begin (defn pg%d [n] (cond (<= n 0) 1 (package "pq%d" { A := n; (pg%d (- n 1)) }))) (def ps%d (pg%d 2)) (+ 0 ps%d.A))`,
	`(for [(def i 0) (< i 3) (def i (+ i 1))] (package "lq%d" { A := 1; (cond (== i 1) (continue) nil) }))`,
	`#goapply ga%d 3 :: (defn ga%d [x] (+ x 1))`,
	`#goapply gb%d 2 :: (defn gb%d [n] (cond (<= n 0) 0 (gb%d (- n 1))))`,
	`#goapply gc%d 2 :: (defn gc%d [n] (for [(def i 0) (< i n) (def i (+ i 1))] (let [q i] (cond (== q 1) (break) nil))) n)`,
	`(begin (defn rt%d [a] (return a) 5) (rt%d 3))`,
	`(begin (defn rv%d [a] (for [(def i 0) (< i 3) (def i (+ i 1))] (cond (== i a) (return i) nil)) 9) (rv%d 1))`,
	`(begin (defn rw%d [a] (let [x a] (newScope (return x))) 9) (rw%d 1))`,
	// evaluations entered through the Go API on the idle interpreter (see goCallParts)
	`#gosource stream :: (def gs%d 5) (+ gs%d 1)`,
	`#gosource exprs :: (+ 1 2)`,
	`#goevalfn :: (+ 1 2)`,
	`#goevalfn :: (def ge%d 5) (for [(def i 0) (< i 2) (def i (+ i 1))] (let [q i] q))`,
}

// ---- derived entries: dimensions on top of the catalogue ----
//
// The catalogue puts every form at top level. A form must also balance where its value is an operand of
// something else, and where it has nothing to evaluate. sessionDerived crosses
//   positions   every form as an element of an array literal (inline operand) and as the body of a function
//               whose call is an operand; the forms below also as a call argument, a cond arm, a let body
//   bodies      every body-carrying form with an empty body; func/method with 0..2 declared results
//   jumps       break/continue at every sub-position of a loop body statement x enclosing scopes x loop at
//               top level / inside a function
//   templates   syntax-quote template shapes x unquoted expressions (also ones that do not compile)
//   files       source/include x number of files x how they are listed x what they hold
// These entries are evaluated alone (three times in a row on one interpreter) and in the seeded
// sequences, and their listings go to Bytecode.tla; they are not part of sessionCatalogue (the pairs,
// and the other families that read the catalogue, keep their size).

const loopHead = `[(def i 0) (< i 3) (def i (+ i 1))]`

func sessionExtras() (plain []string, loops []string) {
	// bodies
	plain = append(plain,
		`(begin)`, `(newScope)`, `(let [ea 1])`, `(letseq [ea 1])`, `(for `+loopHead+`)`,
		`(begin (defn eb%d []) (eb%d))`, `((fn []))`, `(begin (defn ec%d [a]) (ec%d 1))`,
		`(package "ep%d" {})`, `(cond true (begin) 5)`, `(cond false 5 (newScope))`, `(range k v (hash a: 1))`,
		`(eval (quote (begin)))`, `(and 1 (begin))`, `(or nil (begin))`, `{}`, `(infix [])`,
		`(begin (defmac em%d [] ^(begin)) (em%d))`, `(begin (defn er%d [] (return)) (er%d))`, `(begin (defn es%d [a] (cond a (return) 5)) (es%d true))`,
		`(include [])`, `(newScope (begin) 1)`, `(begin (begin) (begin))`,
	)
	for nret := 0; nret <= 2; nret++ {
		rets := []string{"", "a:int64", "a:int64 b:int64"}[nret]
		for _, body := range []string{"", ` (return 1)`, ` 1`} {
			plain = append(plain,
				fmt.Sprintf(`(begin (func ef%%d [] [%s]%s) (ef%%d))`, rets, body),
				fmt.Sprintf(`(begin (struct ES%%d [(field X: int64)]) (method [(p *ES%%d)] EM%%d [] [%s]%s) (EM%%d))`, rets, body))
		}
	}
	// templates
	unq := []string{`(+ 1 1)`, `(list 1 2 3)`, `(list)`, `(let [q 1] (list q 2))`, `(for ` + loopHead + ` (list i))`,
		`(let [q 1] (and))`, `(for ` + loopHead + ` (and))`, `(newScope (let [a] 1))`, `(let [q 1] (newScope (cond 1 2)))`}
	shapes := []string{`^~U`, `^~@U`, `^(foo ~U)`, `^(foo ~@U bar)`, `^[1 ~U]`, `^[~@U]`, `^(a (b ~U) ~@U)`, `^(foo [~U] ~U)`}
	for _, sh := range shapes {
		for _, u := range unq {
			plain = append(plain, strings.ReplaceAll(sh, "U", u))
		}
	}
	// files
	for _, verb := range []string{"source", "include"} {
		for _, files := range []string{`"%A"`, `"%E"`, `"%M"`, `"%A" "%B"`, `"%A" "%B" "%C"`, `["%A" "%B"]`, `["%A"] "%B"`, `"%A" "%E"`, `"%E" "%A"`, `"%M" "%C"`} {
			plain = append(plain, fmt.Sprintf(`(%s %s)`, verb, files))
		}
		plain = append(plain, fmt.Sprintf(`(%s (list "%%A" "%%B"))`, verb))
	}
	plain = append(plain, `(source (quote ("%A" "%B")))`)
	// jumps
	at := []string{
		`(cond (and (== i 1) J) 1 2)`, `(cond (begin J true) 1 2)`, `(cond (== i 1) J 2)`, `(cond (!= i 1) 2 J)`,
		`(and (== i 1) J)`, `(or (!= i 1) J)`, `(let [b (cond (== i 1) J 0)] b)`, `[1 (cond (== i 1) J 0)]`,
		`(begin (cond (== i 1) J 0) 3)`, `(newScope (cond (== i 1) J 0))`, `(cond (cond (== i 1) J false) 1 2)`,
		`(cond (let [c i] (cond (== c 1) J false)) 1 2)`,
	}
	encl := []string{`X`, `(let [a 1] X)`, `(newScope X)`, `(let [a 1] (newScope X))`}
	for _, j := range []string{`(break)`, `(continue)`} {
		for _, a := range at {
			for _, e := range encl {
				body := strings.ReplaceAll(e, "X", strings.ReplaceAll(a, "J", j))
				loop := `(for ` + loopHead + ` ` + body + `)`
				loops = append(loops, loop, `(begin (defn lj%d [] `+loop+` 7) (lj%d))`)
			}
		}
	}
	return
}

var sessionPositions = []string{
	`[7 F]`, `(list 7 F)`, `(begin (defn zpos%d [] F) [7 (zpos%d)])`, `(cond true F 5)`, `(let [pz 1] F)`,
}

var derivedCache []string

func sessionDerived() []string {
	if derivedCache != nil {
		return derivedCache
	}
	plain, loops := sessionExtras()
	out := append([]string{}, plain...)
	out = append(out, loops...)
	var forms []string
	for _, t := range sessionCatalogue {
		if !strings.HasPrefix(t, "#") {
			forms = append(forms, t)
		}
	}
	// the extras in every position; the catalogue forms in the two positions where their code is inline in
	// the enclosing code (a call argument is evaluated by a run of its own, which hides a surplus)
	for pi, pos := range sessionPositions {
		for _, f := range plain {
			out = append(out, strings.ReplaceAll(pos, "F", f))
		}
		if pi == 0 || pi == 2 {
			for _, f := range forms {
				out = append(out, strings.ReplaceAll(pos, "F", f))
			}
		}
	}
	derivedCache = out
	return out
}

type sessEv struct {
	Text   string `json:"text"`
	Out    any    `json:"out"`
	Before []int  `json:"before"`
	After  []int  `json:"after"`
	Empty  any    `json:"empty"`  // outcome of EvalString("") afterwards
	After2 []int  `json:"after2"` // depths after the empty evaluation
}

type sessCase struct {
	ID       string   `json:"id"`
	Kind     string   `json:"kind"` // seq | growth
	Evs      []sessEv `json:"evs"`
	Together any      `json:"together,omitempty"` // outcome of all pieces in one evaluation on a twin
	Last     any      `json:"last,omitempty"`
	AllVal   bool     `json:"allval"`
	Reps     int      `json:"reps,omitempty"`
	TogErr   string   `json:"togerr,omitempty"`
}

func inst(t string, uid int) string {
	return strings.ReplaceAll(t, "%d", fmt.Sprint(uid))
}

func newSessEnv() *zygo.Zlisp {
	env := zygo.NewZlisp()
	env.StandardSetup()
	return env
}

var addrRe = regexp.MustCompile(`0x[0-9a-f]+`)
var uidRe = regexp.MustCompile(`[0-9]{6,}`)

// generated names (__gensym12, __range_i271, __anon5, __loop7): their numbers depend on how many symbols
// were interned before, which differs between evaluating pieces and evaluating them together
var sessGenNameRe = regexp.MustCompile(`(__[A-Za-z_]*[A-Za-z_])[0-9]+`)

func printedOutcome(env *zygo.Zlisp, o outcome) any {
	if o.Kind == "val" {
		// addresses and the per-case unique numbers in generated names are masked
		return []any{"val", sessGenNameRe.ReplaceAllString(uidRe.ReplaceAllString(addrRe.ReplaceAllString(o.Val.SexpString(nil), "0xADDR"), "N"), "${1}N")}
	}
	if o.Kind == "err" {
		return []any{"err"}
	}
	return projOutcome(env, o)
}

var devnull *os.File

func quiet(fn func()) {
	// forms such as (println) write to stdout; keep the harness output clean
	old := os.Stdout
	if devnull == nil {
		devnull, _ = os.OpenFile(os.DevNull, os.O_WRONLY, 0)
	}
	os.Stdout = devnull
	defer func() { os.Stdout = old }()
	fn()
}

// A catalogue entry "#goapply NAME ARG :: SETUP" is an evaluation entered through the Go API: SETUP is
// evaluated as text, then the host calls env.Apply on the function NAME with the integer ARG. In text
// (for the twin interpreter, which evaluates all pieces together) it reads SETUP (NAME ARG).
func goApplyParts(t string) (name string, arg int64, setup string, ok bool) {
	if !strings.HasPrefix(t, "#goapply ") {
		return
	}
	rest := strings.TrimPrefix(t, "#goapply ")
	i := strings.Index(rest, " :: ")
	if i < 0 {
		return
	}
	var a int64
	if _, err := fmt.Sscanf(rest[:i], "%s %d", &name, &a); err != nil {
		return
	}
	return name, a, rest[i+4:], true
}

// "#gosource stream|file|exprs :: TEXT": the host hands TEXT to env.SourceStream / SourceFile /
// SourceExpressions on the idle interpreter. "#goevalfn :: TEXT": the host calls zygo.EvalFunction
// (the function behind the eval builtin) with the parsed forms of TEXT. As text both read TEXT (the first
// followed by nil: SourceStream returns no value).
func goCallParts(t string) (kind, via, text string, ok bool) {
	for _, k := range []string{"#gosource ", "#goevalfn "} {
		if strings.HasPrefix(t, k) {
			rest := strings.TrimPrefix(t, k)
			i := strings.Index(rest, ":: ")
			if i < 0 {
				return
			}
			return strings.TrimSpace(k)[1:], strings.TrimSpace(rest[:i]), rest[i+3:], true
		}
	}
	return
}

func asText(t string) string {
	if name, arg, setup, ok := goApplyParts(t); ok {
		return fmt.Sprintf("%s\n(%s %d)", setup, name, arg)
	}
	if kind, _, text, ok := goCallParts(t); ok {
		if kind == "gosource" {
			return text + "\nnil" // the host is told only whether it failed
		}
		return text
	}
	return t
}

// Entries may name files: %A, %B, %C hold one definition each, %E is empty, %M holds three forms. The
// recorded text keeps the placeholders (a replay writes the files again); withFiles puts the paths in.
var sessFileDir string

var sessFileContents = map[string]string{
	"A": "(def srcA 11)\n", "B": "(def srcB 22)\n", "C": "(+ 30 3)\n", "E": "", "M": "(def srcM 1)\n(def srcN 2)\n[srcM srcN]\n",
}

func withFiles(t string) string {
	if !strings.Contains(t, "%") {
		return t
	}
	for k, content := range sessFileContents {
		ph := "%" + k
		if !strings.Contains(t, ph) {
			continue
		}
		if sessFileDir == "" {
			d, err := os.MkdirTemp("", "zvsess")
			if err != nil {
				fatal("%v", err)
			}
			sessFileDir = d
		}
		p := sessFileDir + "/" + strings.ToLower(k) + ".zy"
		if _, err := os.Stat(p); err != nil {
			if err := os.WriteFile(p, []byte(content), 0o644); err != nil {
				fatal("%v", err)
			}
		}
		t = strings.ReplaceAll(t, ph, p)
	}
	return t
}

func sessCleanup() {
	if sessFileDir != "" {
		os.RemoveAll(sessFileDir)
		sessFileDir = ""
	}
}

// goCall runs f (a call of the Go API) with the step budget armed, recovering a panic.
func goCall(f func() (zygo.Sexp, error)) (o outcome) {
	zygo.VerifSetBudget(defaultBudget)
	defer zygo.VerifSetBudget(-1)
	defer func() {
		if r := recover(); r != nil {
			o = outcome{Kind: "panic", Err: fmt.Sprint(r)}
		}
	}()
	v, err := f()
	switch {
	case err != nil:
		return outcome{Kind: "err", Err: err.Error()}
	case v == nil:
		return outcome{Kind: "nilres"}
	}
	return outcome{Kind: "val", Val: v}
}

func parseForms(env *zygo.Zlisp, text string) ([]zygo.Sexp, error) {
	p := env.VerifParser()
	p.ResetAddNewInput(bytes.NewBufferString(text))
	return p.ParseTokens()
}

func evalEntry(env *zygo.Zlisp, t string) outcome {
	t = withFiles(t)
	if kind, via, text, ok := goCallParts(t); ok {
		text += "\n"
		switch {
		case kind == "goevalfn":
			return goCall(func() (zygo.Sexp, error) {
				xs, err := parseForms(env, text)
				if err != nil {
					return zygo.SexpNull, err
				}
				return zygo.EvalFunction(env, "eval", xs)
			})
		case via == "exprs":
			return goCall(func() (zygo.Sexp, error) {
				xs, err := parseForms(env, text)
				if err != nil {
					return zygo.SexpNull, err
				}
				return zygo.SexpNull, env.SourceExpressions(xs)
			})
		case via == "file":
			return goCall(func() (zygo.Sexp, error) {
				f, err := os.CreateTemp("", "zvsrc")
				if err != nil {
					return zygo.SexpNull, err
				}
				defer os.Remove(f.Name())
				defer f.Close()
				f.WriteString(text)
				f.Seek(0, 0)
				return zygo.SexpNull, env.SourceFile(f)
			})
		}
		return goCall(func() (zygo.Sexp, error) { return zygo.SexpNull, env.SourceStream(strings.NewReader(text)) })
	}
	name, arg, setup, ok := goApplyParts(t)
	if !ok {
		return evalSafe(env, t+"\n")
	}
	if o := evalSafe(env, setup+"\n"); o.Kind != "val" {
		return o
	}
	f, found := env.FindObject(name)
	fn, isFn := f.(*zygo.SexpFunction)
	if !found || !isFn {
		return outcome{Kind: "err", Err: "goapply: no such function"}
	}
	return goCall(func() (zygo.Sexp, error) { return env.Apply(fn, []zygo.Sexp{&zygo.SexpInt{Val: arg}}) })
}

func runSession(id string, texts []string, twin bool) sessCase {
	c := sessCase{ID: id, Kind: "seq", AllVal: true}
	quiet(func() {
		env := newSessEnv()
		for _, t := range texts {
			ev := sessEv{Text: t, Before: depthsOf(env)}
			o := evalEntry(env, t)
			ev.Out = printedOutcome(env, o)
			ev.After = depthsOf(env)
			if o.Kind != "val" {
				c.AllVal = false
			}
			e := evalSafe(env, "")
			ev.Empty = printedOutcome(env, e)
			ev.After2 = depthsOf(env)
			c.Evs = append(c.Evs, ev)
			c.Last = ev.Out
		}
		if twin && len(texts) > 1 {
			env2 := newSessEnv()
			// the twin uses its own unique numbers: type names are registered process-wide
			var t2 []string
			for _, t := range texts {
				t2 = append(t2, withFiles(uidRe.ReplaceAllStringFunc(asText(t), func(m string) string { return "9" + m })))
			}
			o := evalSafe(env2, strings.Join(t2, "\n")+"\n")
			c.Together = printedOutcome(env2, o)
			c.TogErr = trunc(o.Err, 300)
		}
	})
	return c
}

func runGrowth(id, text string, reps int) sessCase {
	c := sessCase{ID: id, Kind: "growth", Reps: reps, AllVal: true}
	quiet(func() {
		env := newSessEnv()
		for i := 0; i < reps; i++ {
			before := depthsOf(env)
			o := evalEntry(env, text)
			if i == 0 || i == reps-1 || o.Kind != "val" {
				c.Evs = append(c.Evs, sessEv{Text: text, Out: printedOutcome(env, o), Before: before, After: depthsOf(env), Empty: []any{"skipped"}, After2: depthsOf(env)})
			}
			if o.Kind != "val" {
				c.AllVal = false
				break
			}
		}
	})
	return c
}

// listing case for Bytecode.tla
type listingCase struct {
	ID      string            `json:"id"`
	Name    string            `json:"name"`
	Kind    string            `json:"kind"` // fn | chunk
	Nargs   int               `json:"nargs"`
	Varargs bool              `json:"varargs"`
	Orig    string            `json:"orig"`
	Src     string            `json:"src"`
	Instrs  []zygo.VerifInstr `json:"instrs"`
}

// collectListings evaluates text on a fresh interpreter and returns the
// listing of every function that executed plus the top-level chunk.
func collectListings(idp string, text string, seen map[string]bool) []listingCase {
	var out []listingCase
	quiet(func() {
		env := newSessEnv()
		zygo.VerifCollectFunctions(true)
		defer zygo.VerifCollectFunctions(false)
		mainBefore := len(env.VerifMainFunction().VerifListing().Instrs)
		evalSafe(env, withFiles(text)+"\n")
		fns := zygo.VerifSeenFunctions()
		n := 0
		add := func(l *zygo.VerifListing, kind string) {
			if l == nil {
				return
			}
			var walk func(l *zygo.VerifListing, kind string)
			walk = func(l *zygo.VerifListing, kind string) {
				key := kind + "|" + fmt.Sprint(l.Nargs, l.Varargs)
				for _, in := range l.Instrs {
					key += "|" + in.Op + fmt.Sprint(in.N, in.B, in.Off)
					if in.Op == "pushmark" || in.Op == "popuntilmark" || in.Op == "clearmark" || in.Op == "loopstart" || in.Op == "break" || in.Op == "continue" {
						key += in.Sym + in.Loop
					}
				}
				instrs := make([]zygo.VerifInstr, len(l.Instrs))
				copy(instrs, l.Instrs)
				for i := range instrs {
					if instrs[i].Sub != nil {
						walk(instrs[i].Sub, "fn")
						instrs[i].Sub = nil
					}
				}
				if seen[key] {
					return
				}
				seen[key] = true
				n++
				out = append(out, listingCase{ID: fmt.Sprintf("%s-%d", idp, n), Name: l.Name, Kind: kind, Nargs: l.Nargs,
					Varargs: l.Varargs, Orig: trunc(l.Orig, 300), Src: trunc(text, 4000), Instrs: instrs})
			}
			walk(l, kind)
		}
		for _, f := range fns {
			l := f.VerifListing()
			if l == nil {
				continue
			}
			if l.Name == "__main" && f != env.VerifMainFunction() {
				// the top-level buffer of a duplicated interpreter (macro bodies, builders that evaluate
				// their arguments): where its chunks begin and end is not known here
				continue
			}
			if l.Name == "__main" {
				chunk := *l
				if mainBefore <= len(chunk.Instrs) {
					chunk.Instrs = chunk.Instrs[mainBefore:]
				}
				add(&chunk, "chunk")
				continue
			}
			if l.Name == "__source" {
				// the forms of a sourced file or stream: a function that ends like a top-level chunk
				add(l, "chunk")
				continue
			}
			add(l, "fn")
		}
	})
	return out
}

func init() {
	register("session", "C04: evaluation sequences on a long-lived interpreter; listings for Bytecode", func(args []string) int {
		var mode, srcFile string
		c := commonFlags("session", args, func(fs *flag.FlagSet) {
			fs.StringVar(&mode, "mode", "seq", "seq|listings|one")
			fs.StringVar(&srcFile, "src", "", "mode one: file with the source text to compile")
		})
		w := newWriter(c.out)
		defer w.close()
		defer sessCleanup()
		if c.replay != "" {
			readLines(c.replay, func(line []byte) {
				var in sessCase
				if err := json.Unmarshal(line, &in); err != nil {
					fatal("bad replay: %v", err)
				}
				if in.Kind == "growth" {
					w.write(runGrowth(in.ID, in.Evs[0].Text, in.Reps))
					return
				}
				var texts []string
				for _, e := range in.Evs {
					texts = append(texts, e.Text)
				}
				sc := runSession(in.ID, texts, in.Kind != "alone")
				if in.Kind == "alone" {
					sc.Kind = "alone"
				}
				w.write(sc)
			})
			return 0
		}
		if mode == "gentext" {
			// development aid: print the generated program number -n of the listings mode
			r := newRng(c.seed, uint64(c.n)+5000)
			prog := genProgram(r, semSlices["mixed"], 2+r.intn(2))
			fmt.Print(strings.ReplaceAll(renderProgram(prog, nil), "(tr ", "(list "))
			return 0
		}
		if mode == "one" {
			b, err := os.ReadFile(srcFile)
			if err != nil {
				fatal("%v", err)
			}
			for _, l := range collectListings("R", string(b), map[string]bool{}) {
				w.write(l)
			}
			return 0
		}
		cat := sessionCatalogue
		idx := 0
		if mode == "listings" {
			seen := map[string]bool{}
			// every catalogue form, plus generated core-language programs
			for i, t := range cat {
				if c.mine(idx) {
					for _, l := range collectListings(fmt.Sprintf("L%d", i), asText(inst(t, 100000+i)), seen) {
						w.write(l)
					}
				}
				idx++
			}
			for i, t := range sessionDerived() {
				if c.mine(idx) {
					for _, l := range collectListings(fmt.Sprintf("D%d", i), asText(inst(t, 150000+i)), seen) {
						w.write(l)
					}
				}
				idx++
			}
			n := c.n
			if n == 0 {
				n = 600
				if c.thorough() {
					n = 8000
				}
			}
			for i := 0; i < n; i++ {
				if c.mine(idx) {
					r := newRng(c.seed, uint64(i)+5000)
					prog := genProgram(r, semSlices["mixed"], 2+r.intn(2))
					text := strings.ReplaceAll(renderProgram(prog, nil), "(tr ", "(list ")
					for _, l := range collectListings(fmt.Sprintf("G%d", i), text, seen) {
						w.write(l)
					}
				}
				idx++
			}
			for si, sh := range enumTailShapes(2) {
				if c.mine(idx) {
					text := renderProgram([]node{sh.build(false), nCall(nSym("f"), nInt(2), nInt(0))}, nil)
					if tailFeats[sh.feat].closure {
						text = renderProgram([]node{sh.build(false), nCall(nSym("f"), nInt(2), nArr())}, nil)
					}
					for _, l := range collectListings(fmt.Sprintf("T%d", si), text, seen) {
						w.write(l)
					}
				}
				idx++
			}
			return 0
		}
		// singles with growth
		for i, t := range cat {
			if c.mine(idx) {
				reps := 200
				if c.thorough() {
					reps = 1000
				}
				w.write(runGrowth(fmt.Sprintf("g%d", i), inst(t, 200000+i), reps))
			}
			idx++
		}
		// every derived entry alone, three times in a row on one interpreter, each followed by an empty evaluation
		der := sessionDerived()
		for i, t := range der {
			if c.mine(idx) {
				x := inst(t, 600000+i)
				sc := runSession(fmt.Sprintf("d%d", i), []string{x, x, x}, false)
				sc.Kind = "alone"
				w.write(sc)
			}
			idx++
		}
		// all pairs (quick: a seeded third of them; thorough: all pairs and sampled triples)
		for i, a := range cat {
			for j, b := range cat {
				if c.mine(idx) && (c.thorough() || hashSel(c.seed, i*1000+j, 1, 3)) {
					uid := 300000 + i*1000 + j
					w.write(runSession(fmt.Sprintf("p%d-%d", i, j), []string{inst(a, uid), inst(b, uid+500000)}, true))
				}
				idx++
			}
		}
		nt := 1500
		if c.thorough() {
			nt = 40000
		}
		for k := 0; k < nt; k++ {
			if c.mine(idx) {
				r := newRng(c.seed, uint64(k)+31337)
				var texts []string
				ln := 3 + r.intn(2)
				for s := 0; s < ln; s++ {
					if r.intn(3) == 0 {
						texts = append(texts, inst(der[r.intn(len(der))], 2000000+k*10+s))
					} else {
						texts = append(texts, inst(cat[r.intn(len(cat))], 2000000+k*10+s))
					}
				}
				w.write(runSession(fmt.Sprintf("t%d-%d", c.seed, k), texts, true))
			}
			idx++
		}
		return 0
	})
}
